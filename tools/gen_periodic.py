"""Fail-closed translator  SignalProcessing/periodic_functions.py  ->  coq/Gen/Periodic.v   (property C08).

What is translated (as Gallina terms generic over the record `rops` of Model/Rops.v):
  * for every time-function class K listed as a key of `fourier_series_mapping`:
      - `<wavetype>_time  O s_period s_amplitude s_phase s_offset : RT O -> RT O`   from `K.time_function`
      - `<wavetype>_amplitude O s_amplitude0 s_phase0 s_offset0 (n : Z) : RT O`     from `_amplitude_coefficient`
      - `<wavetype>_phase     O s_amplitude0 s_phase0 s_offset0 (n : Z) : RT O`     from `_phase_coefficient`
        of the harmonics class `fourier_series_mapping[K]`
  * the tables `time_classes`, `harmonics_classes`, `wavetypes`, `harmonics_of`, `periodic_functions` and the
    dispatch functions `time_function`, `amplitude_coefficient`, `phase_coefficient` (class index -> term).
What is NOT translated but *pinned* (the hand-written model Model/Harmonics.v mirrors these; any change of
their AST makes the translator fail, hence the build): `AbstractHarmonicCoefficients.{amplitude,phase,a,b,c}`,
`fourier_series`, `periodic_function`, the assignment `periodic_functions = list(fourier_series_mapping.keys())`.

Accepted Python subset (everything else raises v2lib.Unsupported naming file:line and the construct):
  statements   coefficient methods:  ( `if <cmp>: return <expr>` )*  `return <expr>`
               time_function:        ( `<name> = <expr>` | `<name> = lambda <x>: <expr>` )*  (single assignment, no shadowing)
                                     `return lambda <x>: <expr>`  |  `return np.vectorize(lambda <x>: <expr>)`
  expressions  int and float constants; parameter names; local bindings; `self.<dataclass float field>`; `np.pi`;
               unary `-`; binary `+ - * /` (`/` is always real division; int (op) int stays an integer for `+ - *`);
               `%` (Z.modulo on two ints, `rmod` otherwise); `np.cos(e)`, `np.sin(e)`, `np.mod(e1, e2)`;
               `np.ones(<lambda-var>.shape)` (read as 1); call of a local lambda binding with one argument;
               conditional expression `a if c else b`;
               comparison with ONE operator: ints `== != < <= > >=`, reals `< <= > >=`.
An integer expression used where a real is needed is coerced with `rofZ`.
"""
import ast
import os
import re

from v2lib import Unsupported, parse, where, coq_string_codes, module_assign, classes, functions

REL = os.path.join('SignalProcessing', 'periodic_functions.py')
TIME_FIELDS = ['period', 'amplitude', 'phase', 'offset']      # float fields of every time-function dataclass
ABSTRACT = 'AbstractHarmonicCoefficients'

# ---- pinned (hand-modelled) definitions: Model/Harmonics.v mirrors exactly this text --------------------------------
PINNED_ABSTRACT = '''
@dataclass
class AbstractHarmonicCoefficients(ABC):
    amplitude0: float = 1
    phase0: float = 0
    offset0: float = 0

    def amplitude(self, n: int) -> float:
        if n < 0:
            return self._amplitude_coefficient(-n)
        return self._amplitude_coefficient(n)

    def phase(self, n: int) -> float:
        if n < 0:
            return -self._phase_coefficient(-n)
        return self._phase_coefficient(n)

    def a(self, n: int) -> float:
        return self.amplitude(n)*np.cos(self.phase(n))

    def b(self, n: int) -> float:
        return -self.amplitude(n)*np.sin(self.phase(n))

    def c(self, n: int) -> complex:
        if n < 0:
            return self.amplitude(-n)/2*np.exp(-1j*self.phase(-n))
        return self.amplitude(n)/2*np.exp(1j*self.phase(n))

    @abstractmethod
    def _amplitude_coefficient(self, n: int) -> float:
        ...

    @abstractmethod
    def _phase_coefficient(self, n: int) -> float:
        ...
'''
PINNED_FUNCS = '''
def fourier_series(time_function: PeriodicFunction) -> HarmonicCoefficients:
    try:
        return fourier_series_mapping[type(time_function)](amplitude0=time_function.amplitude, phase0=time_function.phase, offset0=time_function.offset)
    except KeyError:
        raise TransformationError(f'No fourier coefficents found for time function of type {type(time_function).__name__}')

def periodic_function(wavetype: str) -> Type[PeriodicFunction]:
    try:
        return [pf for pf in periodic_functions if pf.wavetype == wavetype][0]
    except IndexError:
        raise UnknownWavetype(f'Periodic function of type {wavetype} is unknown.')
'''
PINNED_ASSIGN = 'list(fourier_series_mapping.keys())'
# names whose (re)definition at module level would change the meaning of the pinned/translated code
EXPECTED_TOPLEVEL_CLASSES_EXTRA = {'UnknownWavetype', 'TransformationError', 'PeriodicFunction', 'HarmonicCoefficients',
                                   ABSTRACT}
EXPECTED_TOPLEVEL_FUNCS = {'fourier_series', 'periodic_function'}
EXPECTED_TOPLEVEL_ASSIGNS = {'PeriodicFunctionList', 'fourier_series_mapping', 'periodic_functions'}
EXPECTED_IMPORTS = [
    "ImportFrom(module='typing', names=[alias(name='Protocol'), alias(name='Type')], level=0)",
    "ImportFrom(module='abc', names=[alias(name='ABC'), alias(name='abstractmethod')], level=0)",
    "ImportFrom(module='dataclasses', names=[alias(name='dataclass')], level=0)",
    "ImportFrom(module='types', names=[alias(name='TimeDomainFunction')], level=1)",
    "Import(names=[alias(name='numpy', asname='np')])",
]


def _dump(node):
    return ast.dump(node, annotate_fields=True, include_attributes=False)


# ---- expression translator ------------------------------------------------------------------------------------------
class Ctx:
    """name environment of one function body.  kinds: 'Z' integer, 'R' real, 'F' local real->real lambda"""

    def __init__(self, path, fields):
        self.path = path
        self.fields = fields          # names allowed as self.<field> (all real)
        self.env = {}                 # python name -> (kind, coq identifier)

    def bind(self, node, name, kind):
        if name in self.env:
            raise Unsupported(f'{where(node, self.path)}: rebinding/shadowing of name {name!r}')
        if not re.fullmatch(r'[A-Za-z_][A-Za-z0-9_]*', name):
            raise Unsupported(f'{where(node, self.path)}: identifier {name!r}')
        coq = 'v_' + name
        self.env[name] = (kind, coq)
        return coq

    def unbind(self, name):
        del self.env[name]


def _is_np(node, attr):
    return isinstance(node, ast.Attribute) and isinstance(node.value, ast.Name) and node.value.id == 'np' \
        and node.attr == attr


def to_real(tv):
    text, ty = tv
    if ty == 'R':
        return text
    if ty == 'Z':
        return f'(rofZ O {text})'
    raise Unsupported(f'internal: cannot coerce {ty} to real')


def expr(node, cx):
    """-> (coq text, type) with type in {'Z','R','B'}"""
    w = where(node, cx.path)
    if isinstance(node, ast.Constant):
        v = node.value
        if isinstance(v, bool) or not isinstance(v, (int, float)):
            raise Unsupported(f'{w}: constant {v!r}')
        if isinstance(v, int):
            return (f'({v})%Z', 'Z')
        if v != v or v in (float('inf'), float('-inf')):
            raise Unsupported(f'{w}: float constant {v!r}')
        num, den = v.as_integer_ratio()
        if den == 1:
            return (f'(rofZ O ({num})%Z)', 'R')
        return (f'(rdiv O (rofZ O ({num})%Z) (rofZ O ({den})%Z))', 'R')
    if isinstance(node, ast.Name):
        if node.id not in cx.env:
            raise Unsupported(f'{w}: unknown name {node.id!r}')
        kind, coq = cx.env[node.id]
        if kind == 'F':
            raise Unsupported(f'{w}: local function {node.id!r} used as a value')
        return (coq, kind)
    if isinstance(node, ast.Attribute):
        if isinstance(node.value, ast.Name) and node.value.id == 'self' and 'self' not in cx.env:
            if node.attr in cx.fields:
                return ('s_' + node.attr, 'R')
            raise Unsupported(f'{w}: attribute self.{node.attr}')
        if _is_np(node, 'pi'):
            return ('(rpi O)', 'R')
        raise Unsupported(f'{w}: attribute access {ast.unparse(node)}')
    if isinstance(node, ast.UnaryOp):
        if not isinstance(node.op, ast.USub):
            raise Unsupported(f'{w}: unary operator {type(node.op).__name__}')
        if isinstance(node.operand, ast.Constant) and isinstance(node.operand.value, int) \
                and not isinstance(node.operand.value, bool):
            return (f'({-node.operand.value})%Z', 'Z')      # literal -3 (keeps `rofZ` arguments closed numerals)
        t, ty = expr(node.operand, cx)
        if ty == 'Z':
            return (f'(Z.opp {t})', 'Z')
        if ty == 'R':
            return (f'(ropp O {t})', 'R')
        raise Unsupported(f'{w}: unary minus on a boolean')
    if isinstance(node, ast.BinOp):
        l, r = expr(node.left, cx), expr(node.right, cx)
        if 'B' in (l[1], r[1]):
            raise Unsupported(f'{w}: arithmetic on a boolean')
        both_int = l[1] == 'Z' and r[1] == 'Z'
        op = type(node.op)
        if op in (ast.Add, ast.Sub, ast.Mult):
            zname, rname = {ast.Add: ('Z.add', 'radd'), ast.Sub: ('Z.sub', 'rsub'), ast.Mult: ('Z.mul', 'rmul')}[op]
            if both_int:
                return (f'({zname} {l[0]} {r[0]})', 'Z')
            return (f'({rname} O {to_real(l)} {to_real(r)})', 'R')
        if op is ast.Div:
            return (f'(rdiv O {to_real(l)} {to_real(r)})', 'R')
        if op is ast.Mod:
            if both_int:
                return (f'(Z.modulo {l[0]} {r[0]})', 'Z')
            return (f'(rmod O {to_real(l)} {to_real(r)})', 'R')
        raise Unsupported(f'{w}: binary operator {op.__name__}')
    if isinstance(node, ast.IfExp):
        c = expr(node.test, cx)
        if c[1] != 'B':
            raise Unsupported(f'{w}: condition of a conditional expression is not a comparison')
        a, b = expr(node.body, cx), expr(node.orelse, cx)
        if 'B' in (a[1], b[1]):
            raise Unsupported(f'{w}: boolean-valued conditional expression')
        if a[1] == 'Z' and b[1] == 'Z':
            return (f'(if {c[0]} then {a[0]} else {b[0]})', 'Z')
        return (f'(if {c[0]} then {to_real(a)} else {to_real(b)})', 'R')
    if isinstance(node, ast.Compare):
        if len(node.ops) != 1 or len(node.comparators) != 1:
            raise Unsupported(f'{w}: chained comparison')
        l, r = expr(node.left, cx), expr(node.comparators[0], cx)
        if 'B' in (l[1], r[1]):
            raise Unsupported(f'{w}: comparison of booleans')
        op = type(node.ops[0])
        if l[1] == 'Z' and r[1] == 'Z':
            tab = {ast.Eq: 'Z.eqb {0} {1}', ast.NotEq: 'negb (Z.eqb {0} {1})', ast.Lt: 'Z.ltb {0} {1}',
                   ast.LtE: 'Z.leb {0} {1}', ast.Gt: 'Z.ltb {1} {0}', ast.GtE: 'Z.leb {1} {0}'}
        else:
            l, r = (to_real(l), 'R'), (to_real(r), 'R')
            tab = {ast.Lt: 'rltb O {0} {1}', ast.Gt: 'rltb O {1} {0}', ast.LtE: 'negb (rltb O {1} {0})',
                   ast.GtE: 'negb (rltb O {0} {1})'}
        if op not in tab:
            raise Unsupported(f'{w}: comparison operator {op.__name__} on {"ints" if l[1] == "Z" else "reals"}')
        return ('(' + tab[op].format(l[0], r[0]) + ')', 'B')
    if isinstance(node, ast.Call):
        if node.keywords:
            raise Unsupported(f'{w}: keyword arguments in call')
        f = node.func
        if _is_np(f, 'cos') or _is_np(f, 'sin'):
            if len(node.args) != 1:
                raise Unsupported(f'{w}: np.{f.attr} with {len(node.args)} arguments')
            return (f'(r{f.attr} O {to_real(_arith(node.args[0], cx))})', 'R')
        if _is_np(f, 'mod'):
            if len(node.args) != 2:
                raise Unsupported(f'{w}: np.mod with {len(node.args)} arguments')
            return (f'(rmod O {to_real(_arith(node.args[0], cx))} {to_real(_arith(node.args[1], cx))})', 'R')
        if _is_np(f, 'ones'):
            a = node.args
            if len(a) == 1 and isinstance(a[0], ast.Attribute) and a[0].attr == 'shape' \
                    and isinstance(a[0].value, ast.Name) and cx.env.get(a[0].value.id, ('', ''))[0] == 'R':
                return ('(rofZ O 1%Z)', 'R')
            raise Unsupported(f'{w}: np.ones of anything but <real variable>.shape')
        if isinstance(f, ast.Name) and cx.env.get(f.id, ('', ''))[0] == 'F':
            if len(node.args) != 1:
                raise Unsupported(f'{w}: local function {f.id} called with {len(node.args)} arguments')
            return (f'({cx.env[f.id][1]} {to_real(_arith(node.args[0], cx))})', 'R')
        raise Unsupported(f'{w}: call of {ast.unparse(f)}')
    raise Unsupported(f'{w}: expression {type(node).__name__}')


def _arith(node, cx):
    tv = expr(node, cx)
    if tv[1] == 'B':
        raise Unsupported(f'{where(node, cx.path)}: boolean used as a number')
    return tv


def lambda_real(node, cx):
    """`lambda x: e` with one plain positional parameter -> 'fun v_x : RT O => e' (e coerced to real)"""
    w = where(node, cx.path)
    if not isinstance(node, ast.Lambda):
        raise Unsupported(f'{w}: expected a lambda, found {type(node).__name__}')
    a = node.args
    if a.posonlyargs or a.kwonlyargs or a.vararg or a.kwarg or a.defaults or a.kw_defaults or len(a.args) != 1:
        raise Unsupported(f'{w}: lambda parameter list')
    name = a.args[0].arg
    coq = cx.bind(node, name, 'R')
    body = to_real(_arith(node.body, cx))
    cx.unbind(name)
    return f'(fun {coq} : RT O => {body})'


# ---- statements -----------------------------------------------------------------------------------------------------
def plain_params(fn, path, n):
    a = fn.args
    if a.posonlyargs or a.kwonlyargs or a.vararg or a.kwarg or a.defaults or a.kw_defaults or len(a.args) != n \
            or a.args[0].arg != 'self':
        raise Unsupported(f'{where(fn, path)}: parameter list of {fn.name}')
    return [x.arg for x in a.args[1:]]


def coefficient_body(fn, path, fields):
    """( if <cmp>: return e )* return e   with one int parameter"""
    if fn.decorator_list:
        raise Unsupported(f'{where(fn, path)}: decorator on {fn.name}')
    (param,) = plain_params(fn, path, 2)
    cx = Ctx(path, fields)
    cx.env[param] = ('Z', 'n')
    if not fn.body:
        raise Unsupported(f'{where(fn, path)}: empty body')
    arms = []
    for st in fn.body[:-1]:
        if not (isinstance(st, ast.If) and not st.orelse and len(st.body) == 1 and isinstance(st.body[0], ast.Return)
                and st.body[0].value is not None):
            raise Unsupported(f'{where(st, path)}: statement {type(st).__name__} (only `if c: return e` allowed here)')
        c = expr(st.test, cx)
        if c[1] != 'B':
            raise Unsupported(f'{where(st, path)}: `if` condition is not a comparison')
        arms.append((c[0], to_real(_arith(st.body[0].value, cx))))
    last = fn.body[-1]
    if not (isinstance(last, ast.Return) and last.value is not None):
        raise Unsupported(f'{where(last, path)}: function must end in `return <expr>`')
    out = to_real(_arith(last.value, cx))
    for c, e in reversed(arms):
        out = f'if {c} then {e}\n  else {out}'
    return out


def time_function_body(fn, path):
    if [_dump(d) for d in fn.decorator_list] != ["Name(id='property', ctx=Load())"]:
        raise Unsupported(f'{where(fn, path)}: time_function must be decorated with exactly @property')
    plain_params(fn, path, 1)
    cx = Ctx(path, TIME_FIELDS)
    lets = []
    if not fn.body:
        raise Unsupported(f'{where(fn, path)}: empty body')
    for st in fn.body[:-1]:
        if not (isinstance(st, ast.Assign) and len(st.targets) == 1 and isinstance(st.targets[0], ast.Name)):
            raise Unsupported(f'{where(st, path)}: statement {type(st).__name__} (only `<name> = <expr>` allowed here)')
        name = st.targets[0].id
        if isinstance(st.value, ast.Lambda):
            val = lambda_real(st.value, cx)
            coq = cx.bind(st, name, 'F')
        else:
            val = to_real(_arith(st.value, cx))
            coq = cx.bind(st, name, 'R')
        lets.append(f'let {coq} := {val} in')
    last = fn.body[-1]
    if not (isinstance(last, ast.Return) and last.value is not None):
        raise Unsupported(f'{where(last, path)}: time_function must end in `return <lambda>`')
    v = last.value
    if isinstance(v, ast.Call) and _is_np(v.func, 'vectorize'):
        if v.keywords or len(v.args) != 1:
            raise Unsupported(f'{where(v, path)}: np.vectorize arguments')
        v = v.args[0]
    lets.append(lambda_real(v, cx))
    return '\n  '.join(lets)


# ---- classes and tables ---------------------------------------------------------------------------------------------
def ann_fields(cls, path):
    """dataclass fields [(name, annotation text, default node or None)] ; rest of the body"""
    fields, rest = [], []
    for st in cls.body:
        if isinstance(st, ast.AnnAssign) and isinstance(st.target, ast.Name) and st.simple:
            fields.append((st.target.id, ast.unparse(st.annotation), st.value))
        else:
            rest.append(st)
    return fields, rest


def time_class(cls, path):
    """-> (wavetype string, time_function FunctionDef)"""
    w = where(cls, path)
    if cls.bases or cls.keywords or [_dump(d) for d in cls.decorator_list] != ["Name(id='dataclass', ctx=Load())"]:
        raise Unsupported(f'{w}: class {cls.name} must be a plain @dataclass without bases')
    fields, rest = ann_fields(cls, path)
    if [(n, a) for n, a, _ in fields] != [(f, 'float') for f in TIME_FIELDS] + [('wavetype', 'str')]:
        raise Unsupported(f'{w}: fields of {cls.name} are not {TIME_FIELDS} : float, wavetype : str')
    for n, _, d in fields[:-1]:
        if d is not None and not (isinstance(d, ast.Constant) and isinstance(d.value, (int, float))
                                  and not isinstance(d.value, bool)):
            raise Unsupported(f'{w}: default of {cls.name}.{n}')
    wt = fields[-1][2]
    if not (isinstance(wt, ast.Constant) and isinstance(wt.value, str) and re.fullmatch(r'[a-z][a-z0-9]*', wt.value)):
        raise Unsupported(f'{w}: wavetype default of {cls.name} must be a lower-case identifier string')
    if len(rest) != 1 or not isinstance(rest[0], ast.FunctionDef) or rest[0].name != 'time_function':
        raise Unsupported(f'{w}: body of {cls.name}: exactly the fields and the property time_function are allowed')
    return wt.value, rest[0]


def harmonics_class(cls, path):
    w = where(cls, path)
    if [_dump(b) for b in cls.bases] != [f"Name(id='{ABSTRACT}', ctx=Load())"] or cls.keywords or cls.decorator_list:
        raise Unsupported(f'{w}: class {cls.name} must derive from exactly {ABSTRACT}, undecorated')
    names = [st.name if isinstance(st, ast.FunctionDef) else type(st).__name__ for st in cls.body]
    if sorted(names) != ['_amplitude_coefficient', '_phase_coefficient']:
        raise Unsupported(f'{w}: body of {cls.name}: exactly _amplitude_coefficient and _phase_coefficient are allowed')
    d = {st.name: st for st in cls.body}
    return d['_amplitude_coefficient'], d['_phase_coefficient']


def check_pinned(tree, path):
    cl, fn = classes(tree), functions(tree)
    exp = ast.parse(PINNED_ABSTRACT).body[0]
    if ABSTRACT not in cl or _dump(cl[ABSTRACT]) != _dump(exp):
        raise Unsupported(f'{path}: class {ABSTRACT} differs from the hand-modelled text (Model/Harmonics.v)')
    for e in ast.parse(PINNED_FUNCS).body:
        if e.name not in fn or _dump(fn[e.name]) != _dump(e):
            raise Unsupported(f'{path}: function {e.name} differs from the hand-modelled text (Model/Harmonics.v)')
    if _dump(module_assign(tree, 'periodic_functions')) != _dump(ast.parse(PINNED_ASSIGN).body[0].value):
        raise Unsupported(f'{path}: periodic_functions is not {PINNED_ASSIGN}')


def generate(src_root):
    path = os.path.join(src_root, REL)
    tree = parse(path)
    check_pinned(tree, path)
    cl = classes(tree)

    # module-level inventory: nothing may be (re)defined behind the translator's back
    imports, assigns, nclass = [], [], {}
    for st in tree.body:
        if isinstance(st, (ast.Import, ast.ImportFrom)):
            imports.append(_dump(st))
        elif isinstance(st, ast.ClassDef):
            nclass[st.name] = nclass.get(st.name, 0) + 1
        elif isinstance(st, ast.FunctionDef):
            if st.name not in EXPECTED_TOPLEVEL_FUNCS:
                raise Unsupported(f'{where(st, path)}: unexpected module-level function {st.name}')
        elif isinstance(st, ast.Assign) and len(st.targets) == 1 and isinstance(st.targets[0], ast.Name):
            assigns.append(st.targets[0].id)
        elif isinstance(st, ast.AnnAssign) and isinstance(st.target, ast.Name):
            assigns.append(st.target.id)
        else:
            raise Unsupported(f'{where(st, path)}: module-level statement {type(st).__name__}')
    if imports != EXPECTED_IMPORTS:
        raise Unsupported(f'{path}: import list changed (np must be numpy, etc.)')
    if sorted(assigns) != sorted(EXPECTED_TOPLEVEL_ASSIGNS):
        raise Unsupported(f'{path}: module-level assignments {sorted(assigns)}')
    if any(k > 1 for k in nclass.values()) or len(functions(tree)) != len(EXPECTED_TOPLEVEL_FUNCS):
        raise Unsupported(f'{path}: duplicate module-level definition')

    # fourier_series_mapping : { TimeClass: HarmonicsClass, ... }
    m = module_assign(tree, 'fourier_series_mapping')
    if not isinstance(m, ast.Dict) or not m.keys:
        raise Unsupported(f'{where(m, path)}: fourier_series_mapping is not a dict literal')
    pairs = []
    for k, v in zip(m.keys, m.values):
        if not (isinstance(k, ast.Name) and isinstance(v, ast.Name)):
            raise Unsupported(f'{where(m, path)}: fourier_series_mapping entry {ast.unparse(k) if k else "**"}')
        if k.id not in cl or v.id not in cl:
            raise Unsupported(f'{where(k, path)}: fourier_series_mapping names an unknown class')
        pairs.append((k.id, v.id))
    tnames, hnames = [p[0] for p in pairs], [p[1] for p in pairs]
    if len(set(tnames)) != len(tnames) or len(set(hnames)) != len(hnames):
        raise Unsupported(f'{where(m, path)}: duplicate class in fourier_series_mapping')
    other = set(cl) - set(tnames) - set(hnames)
    if other != EXPECTED_TOPLEVEL_CLASSES_EXTRA:
        raise Unsupported(f'{path}: classes outside fourier_series_mapping: {sorted(other)}')

    # harmonic parameter fields from the pinned abstract class
    hfields = [n for n, _, _ in ann_fields(cl[ABSTRACT], path)[0]]

    waves, defs = [], []
    for tn, hn in pairs:
        wt, tf = time_class(cl[tn], path)
        if wt in waves:
            raise Unsupported(f'{where(cl[tn], path)}: wavetype {wt!r} used twice')
        waves.append(wt)
        fa, fp = harmonics_class(cl[hn], path)
        tparams = ' '.join('s_' + f for f in TIME_FIELDS)
        hparams = ' '.join('s_' + f for f in hfields)
        defs.append(f'(* {tn}.time_function  ({REL}:{tf.lineno}) *)\n'
                    f'Definition {wt}_time (O : rops) ({tparams} : RT O) : RT O -> RT O :=\n  '
                    f'{time_function_body(tf, path)}.\n')
        defs.append(f'(* {hn}._amplitude_coefficient  ({REL}:{fa.lineno}) *)\n'
                    f'Definition {wt}_amplitude (O : rops) ({hparams} : RT O) (n : Z) : RT O :=\n  '
                    f'{coefficient_body(fa, path, hfields)}.\n')
        defs.append(f'(* {hn}._phase_coefficient  ({REL}:{fp.lineno}) *)\n'
                    f'Definition {wt}_phase (O : rops) ({hparams} : RT O) (n : Z) : RT O :=\n  '
                    f'{coefficient_body(fp, path, hfields)}.\n')

    # class indices: time classes and harmonics classes are numbered in the order of the mapping's keys / values
    def table(name, ty, items):
        return f'Definition {name} : {ty} :=\n  [' + ';\n   '.join(items) + '].\n'

    nw = len(waves)
    idx = range(nw)
    tty = 'RT O -> RT O -> RT O -> RT O -> RT O -> RT O'
    hty = ' -> '.join(['RT O'] * len(hfields)) + ' -> Z -> RT O'

    def dispatch(name, ty, suffix, comment):
        arms = ' '.join(f'| {i}%N => Some ({waves[i]}_{suffix} O)' for i in idx)
        return f'(* {comment} *)\nDefinition {name} (O : rops) (i : N) : option ({ty}) :=\n  match i with {arms} | _ => None end.\n'

    out = [
        f'(* GENERATED by tools/gen_periodic.py from {REL} — do not edit. *)',
        'From Coq Require Import ZArith NArith List Bool.',
        'From CC Require Import Model.Rops.',
        'Import ListNotations.',
        '',
        *defs,
        '(* ---- tables; a class is named by its position among the keys (time-function classes) resp. the values',
        '   (harmonics classes) of fourier_series_mapping ---- *)',
        table('time_classes', 'list (list N)', [coq_string_codes(t) + f' (* {t} *)' for t in tnames]),
        table('harmonics_classes', 'list (list N)', [coq_string_codes(h) + f' (* {h} *)' for h in hnames]),
        '(* default of the dataclass field `wavetype` of time class i *)',
        table('wavetypes', 'list (list N * N)', [f'({coq_string_codes(waves[i])}, {i}%N) (* {waves[i]} *)' for i in idx]),
        '(* fourier_series_mapping : time class i -> harmonics class j *)',
        table('harmonics_of', 'list (N * N)', [f'({i}%N, {i}%N)' for i in idx]),
        '(* periodic_functions = list(fourier_series_mapping.keys()) *)',
        table('periodic_functions', 'list N', [f'{i}%N' for i in idx]),
        '(* parameter names of the harmonics dataclass, in constructor order *)',
        table('harmonics_fields', 'list (list N)', [coq_string_codes(f) + f' (* {f} *)' for f in hfields]),
        dispatch('time_function', tty, 'time', 'time class i -> its time_function (period amplitude phase offset t)'),
        dispatch('amplitude_coefficient', hty, 'amplitude',
                 'harmonics class j -> its _amplitude_coefficient (amplitude0 phase0 offset0 n)'),
        dispatch('phase_coefficient', hty, 'phase', 'harmonics class j -> its _phase_coefficient'),
    ]
    return {'Periodic.v': '\n'.join(out)}
