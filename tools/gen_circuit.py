"""Translator module: Circuit/circuit.py and Circuit/solution.py -> coq/Gen/CircuitGen.v, one Gallina definition
`g_<function>` / `g_<Class>_<method>` per Python function / method (`__post_init__` -> `_post_init`, `__getitem__` ->
`_getitem`, an inner function f of g -> `g_<g>_<f>` with the captured parameters of g first) and one Record per class,
in the vocabulary of coq/Model/CircuitGenPrims.v, Model/CircuitPrims.v, Model/Circuit.v, Model/Network.v.
Fail-closed: every construct outside the subset enumerated below raises Unsupported naming file:line and construct.

Module level accepted: imports (the names np, transformers, Network, field, dataclass, Circuit, transform,
  frequency_components, nodal_analysis_bias_point_solver must be bound by the expected modules; other imports are ignored
  and their names unusable), `class X(Exception): pass` (-> an `err` constructor, fixed table), @dataclass classes,
  functions.  NOT translated (accepted and skipped, documented): the function `w(f)` (2*np.pi*f: transcendental constant),
  the abstract class CircuitSolution (only its field `circuit` is used), the class TransientSolution (numpy / scipy
  state-space integration), the dataclass field `solver` (the model fixes it to its default, which is checked to be
  nodal_analysis_bias_point_solver; `self.solver(n)` -> solver_call n; `solver=self.solver` in a constructor call is dropped).
Classes: dataclass fields `name: ann [= const | field(default=const[, init=False]) | field(default_factory=list, init=False)]`;
  the record has the dataclass fields (base class first) followed by the attributes assigned in __post_init__; defaults of
  init fields are not used by any translated code (constructor calls inside the subset must pass every init field).
  Private helper methods: a method whose name starts with ONE underscore and is not in KEPT_HELPERS (= {_spectrum}, which the
  model names and which stays its own definition g_<Class>__spectrum) gets NO definition of its own: every call `self._h(a, k=b)`
  (only on self, only from a method, never from __post_init__) is INLINED: the arguments are evaluated in source order (every
  parameter must be given exactly once, positionally or by keyword; no defaults), then the body of _h is translated as a block
  with its parameters standing for the argument values (the parameters, `self` included, may not be rebound in _h; the locals of
  the inlined body are named h<k>_<name>, fresh names are shared with the caller, so nothing is captured), and the block (a
  res-valued term) is bound like any other call.  A helper calling itself (directly or through helpers) is refused; a helper that
  no translated method calls is refused (it would not be translated at all).  A parameter of a helper may be annotated
  Callable[[T1, ...], T] (Callable imported from typing; Ti, T among float, bool, str, complex and the translated classes): the
  argument must then be a lambda with that many plain parameters, written at the call site; inside the helper the parameter may
  only be CALLED, `q(e1, ...)`: the arguments are evaluated (and checked against T1, ...), then the body of the lambda is
  translated in the scope where the lambda was written, its parameters standing for the argument values, and checked against T.
Private module-level functions (one leading underscore, e.g. _component_ids, _ground_node) are translated like any other function
  (g_<name>) and are listed, after the section, in the hint database gen_circuit_helpers (`Create HintDb` always; `Hint Unfold`
  when there are any), so that the proofs look through them whatever their names.
  Model view (MODEL_VIEWS = {frequency_components: frequencies}): the model names the function that frequency_components applies to
  every component g_frequency_components_frequencies, after the inner def `frequencies` (captured parameters first).  When
  frequency_components has no inner def of that name and calls exactly one private module-level function H, exactly once (and does
  not mention H otherwise), with distinct plain names as arguments, one per parameter of H, the translator also emits
  `Definition g_frequency_components_frequencies <the arguments that are never-assigned parameters of frequency_components, in its
  order> <the other parameters of H, in H's order> := g_H <the parameters in H's order>` (also in gen_circuit_helpers).  In every
  other case no such definition exists and the statements naming it do not compile (e.g. an inner def under another name).
Types (from annotations / inference): float -> R, bool, str -> label, Component -> comp, Circuit, list[T], np.ndarray (parameter
  annotation only: a complex array -> list C), complex C, int literals, np.floor results (Z), len / index results (nat),
  Network -> network C, NetworkSolution -> solution C, class instances, time functions; three kinds of locals that have no Coq
  value of their own: a tuple of str constants (compile-time constant), a set under construction (stands for the Coq list of the
  values added so far, in the order of addition), a Callable parameter of an inlined helper (stands for the lambda given).
Statements
  NAME = e | self.A = e            (rebinding allowed)
  if c: NAME|self.A = e            (no else; target already bound)      if c: T = e1  else: T = e2   (same target)
  if c: raise Exc(...)             if c: <block ending in return>       return e | return (only __post_init__) | return a, b
  if s not in T: <A ending in return> / <rest B>   (T a tuple of str constants)  is written  if (s in T) then <B> else <A>
  NAME = ('a', 'b', ...)           a tuple of str constants: no Coq text; NAME may only appear as `s in NAME` / `s not in NAME`
                                   (and may not be rebound)
  NAME = set()                     a fresh empty set: no Coq text; NAME may only appear as receiver of NAME.update(...) in the
                                   for statement below and as argument of sorted(NAME); never aliased, passed, returned, rebound
  for v in L: S.update(e)          (S a set local, v a fresh name, not used after the loop; no else; not in __post_init__):
                                   e (a list / array of numbers or str; may raise) is evaluated for every element of L in order
                                   -> `let* xs := mapM (fun v => e) L`, the first exception ends the function (S is a local,
                                   nothing can observe the partial update); then S stands for S ++ concat xs
  raise Exc(<f-string / constant>)
  try: NAME = e / except KeyError|ValueError|IndexError|ZeroDivisionError: return h
  def f(x: ann): ...               (inner function; may read parameters of the enclosing function that are never assigned, and
                                   tuple-of-str constants of the enclosing function that are bound exactly once, before the def)
Expressions (evaluation order kept; every operation that can raise becomes a monadic binding)
  literals 0 1 2 (numbers), True False, 'ascii', [], [a, b]; NAME; self.A; x.type x.id (Component); obj.A (class instance); z.real
  x.nodes[i]; float(x.value['K']); L[i]; L[M] (boolean mask); L[::-1]; len(L); len(set(L)) (list of str); L.index(s)
  sorted(list(set(L))) | sorted(set(L)) (list of float -> rsort_dedup); sorted(S) (S a set local of floats that was updated:
  rsort_dedup of the values added, in the order of addition: the same argument as sorted(set(<the concatenated lists>)));
  list(A) (A a list or a numpy array: the same elements in order, now a Python list; list(<set>) stays refused);
  a if c else b (the test, then ONLY the selected operand; either operand may raise -> `if c then <res> else <res>` bound
  monadically); s in (...) / s not in (...) / s in T (s a str, a literal tuple of str constants or a local bound to one):
  the left-to-right disjunction of the equalities (negb of it for `not in`);
  np.array(L) (identity); np.floor(a); np.arange(k) (an array of integers);
  np.sqrt(2) (the constant sqrt2); np.conj(z | L); np.concatenate((A, B)); np.where(M, A, B)
  Python lists and numpy arrays are told apart (both become Coq lists): np.array / np.conj / np.concatenate / np.where return
  arrays; L[M], -L, L/c, L > c are accepted on arrays only (TypeError on a Python list)
  + - * on reals / complex (a real is promoted to complex next to a complex); w*n with n from np.arange (ofZ); k+1 (Z);
  w*A with w a float and A an np.arange array: elementwise, map (fun n => w * ofZ n) A, a numpy array (the product w*n of the
  comprehension [w*n for n in A], element by element; A*w and a Python list on the right are refused);
  a/b: b a non-zero constant (2, np.sqrt(2)) -> fdiv, constants 1/2 -> fdiv, otherwise Python floats -> py_div (ZeroDivisionError);
  L/c and -L elementwise; comparisons of len results with literals / each other, of str (== !=), of reals (> >= < <=),
  L > 0 elementwise; `or` / `and` / `not` of operands that cannot raise; x.type in transformers[.keys()]
  [e for v in L [if c]] (c cannot raise); [v for a in L for v in f(a)]
  f(...) module functions (positional / keyword arguments; an omitted float default d of parameter p of f is the section
  variable dflt_<f>_<p>, its source literal recorded as dflt_<f>_<p>_literal); Class(k=v, ...) -> g_<Class>_post_init;
  self.m(...) ; self._h(...) (a private helper: inlined, see Classes); q(...) (a Callable parameter of an inlined helper);
  obj.m(...) (never a private helper of another object); s.get_voltage|get_current|get_potential(id) on a NetworkSolution; self.solver(n);
  transformers[x.type](x, a, b); Network(branches=..., node_zero_label=...)
Idioms (fixed shape, fixed translation; see Model/CircuitGenPrims.v)
  np.vectorize(lambda t: np.array(np.sum([np.abs(V)*np.cos(w*t+np.angle(V)) for V, w in zip(Vs, ws)])))  -> cosine_sum (combine Vs ws)
  lambda t: np.array(f(t))*np.array(g(t))                                                               -> timefn_product f g
The field lists of Network (network.py) and Component (components.py) are checked against the source."""
import ast
import os
import re

from v2lib import Unsupported, parse, where

IDENT = re.compile(r'[A-Za-z_][A-Za-z0-9_]*\Z')
SAFE_STR = re.compile(r'[A-Za-z0-9_ ]*\Z')
KEY = re.compile(r'[A-Za-z0-9_]+\Z')
EXC = {'KeyError': 'EKeyError', 'ValueError': 'EValue', 'IndexError': 'EIndex', 'ZeroDivisionError': 'EZeroDivision'}
MODULE_EXC = {'MultipleGroundNodes': 'EMultipleGround', 'AmbiguousComponentID': 'EAmbiguousComponent'}
SKIPPED_CLASSES = {'CircuitSolution', 'TransientSolution'}
SKIPPED_FUNCTIONS = {'w'}
NETSOL_METHODS = {'get_voltage': 'cplx', 'get_current': 'cplx', 'get_potential': 'cplx'}
SPECIAL = {'__post_init__': 'post_init', '__getitem__': 'getitem'}
# private methods (one leading underscore) are helpers and are INLINED at their call sites, except those the model names:
KEPT_HELPERS = {'_spectrum'}
# functions whose inner def the model names (g_<F>_<inner>): see model_view
MODEL_VIEWS = {'frequency_components': 'frequencies'}
EXPECTED_IMPORTS = {
    'circuit.py': {
        'np': ('import', 'numpy'), 'transformers': ('from', 1, 'transformers', 'transformers'),
        'Network': ('from', 2, 'Network.network', 'Network'), 'Component': ('from', 1, 'components', 'Component'),
        'dataclass': ('from', 0, 'dataclasses', 'dataclass'), 'field': ('from', 0, 'dataclasses', 'field')},
    'solution.py': {
        'np': ('import', 'numpy'), 'Circuit': ('from', 1, 'circuit', 'Circuit'), 'transform': ('from', 1, 'circuit', 'transform'),
        'frequency_components': ('from', 1, 'circuit', 'frequency_components'),
        'nodal_analysis_bias_point_solver': ('from', 2, 'Network.NodalAnalysis.bias_point_analysis', 'nodal_analysis_bias_point_solver'),
        'dataclass': ('from', 0, 'dataclasses', 'dataclass'), 'field': ('from', 0, 'dataclasses', 'field')},
}


def coq_type(t):
    if isinstance(t, tuple):
        if t[0] in ('list', 'arr', 'set'):
            if t[1] is None:
                raise Unsupported('a list whose element type is never determined')
            return f'(list {coq_type(t[1])})'
        if t[0] == 'obj':
            return t[1]
        if t[0] == 'tuple':
            return f'({coq_type(t[1])} * {coq_type(t[2])})'
        if t[0] == 'lit':
            raise Unsupported('an integer literal whose type is never determined')
    return {'real': 'R', 'int': 'Z', 'nat': 'nat', 'bool': 'bool', 'cplx': 'C', 'str': 'label', 'comp': 'comp',
            'network': '(network C)', 'netsol': '(solution C)', 'branch': '(branch C)', 'timefn': '(timefn R)',
            'timefn2': '(timefn R * timefn R)'}[t]


class FunInfo:
    def __init__(self, pyname, coq, params, node, path, captured=()):
        self.pyname, self.coq, self.params, self.node, self.path = pyname, coq, params, node, path
        self.captured = list(captured)      # [(coq term of the captured outer parameter)]
        self.ret = None


class ClassInfo:
    def __init__(self, name, node, path):
        self.name, self.node, self.path = name, node, path
        self.fields = []          # [(attr, type or None, init?)] dataclass fields (without solver), then __post_init__ attributes
        self.methods = {}         # python name -> FunInfo
        self.helpers = {}         # python name -> ast.FunctionDef of the private methods that are inlined at their call sites
        self.helper_calls = {}    # python name -> number of call sites at which the helper was inlined
        self.has_solver = False

    def ftype(self, attr):
        for a, t, _ in self.fields:
            if a == attr:
                return t
        return None


class Module:
    """everything known about the two source files while translating"""

    def __init__(self):
        self.functions = {}       # python name -> FunInfo (module-level functions of circuit.py, visible in solution.py when imported)
        self.classes = {}         # python name -> ClassInfo
        self.exceptions = {}      # python name -> err constructor
        self.out = []             # Coq text, in order
        self.defaults = {}        # coq variable name -> literal text
        self.imports = {}         # names bound by the imports of the file being translated
        self.n = 0
        self.private_functions = []   # Coq names of the private module-level functions and of the model's views of them


class Fn:
    """translation state of one Python function / method"""

    def __init__(self, mod, node, path, info, cls=None, mode='function', visible=(), outer=None):
        self.mod, self.f, self.path, self.info, self.cls, self.mode = mod, node, path, info, cls, mode
        self.visible = set(visible)     # module-level names usable in this file (np, transformers, Network, functions, classes)
        self.outer = outer
        self.env = {}                   # python local -> (coq term, type)
        self.attrs = {}                 # __post_init__: attribute -> (coq term, type)
        self.selfname = None
        self.local_funcs = {}           # inner functions: name -> FunInfo
        self.assigned = set()
        self.ctr = [0]                  # fresh-name counter (shared with the translation of inlined helpers)
        self.pfx = 'v_'                 # prefix of the Coq names of Python locals (h<k>_ inside an inlined helper)
        self.inlining = []              # names of the helpers being inlined (recursion check)

    def bad(self, node, what):
        return Unsupported(f'{where(node, self.path)}: {self.info.coq}: {what}')

    def fresh(self, stem='x'):
        self.ctr[0] += 1
        return f'{stem}{self.ctr[0]}'

    # ------------------------------------------------------------------ types
    def ann_type(self, a, param=False, helper=False):
        if a is None:
            raise self.bad(self.f, 'parameter / field without annotation')
        s = ast.unparse(a)
        simple = {'float': 'real', 'bool': 'bool', 'str': 'str', 'Component': 'comp', 'complex': 'cplx'}
        if s in simple:
            return simple[s]
        if s == 'Circuit' and 'Circuit' in self.mod.classes:
            return ('obj', 'Circuit')
        if s == 'np.ndarray' and param:
            return ('arr', 'cplx')
        m = re.match(r'list\[(.*)\]\Z', s)
        if m and isinstance(a, ast.Subscript):
            return ('list', self.ann_type(a.slice, param))
        if helper and isinstance(a, ast.Subscript) and isinstance(a.value, ast.Name) and a.value.id == 'Callable':
            # Callable[[T1, ...], T]: only as the annotation of a parameter of an inlined helper
            if self.mod.imports.get('Callable') != ('from', 0, 'typing', 'Callable'):
                raise self.bad(a, 'Callable is not imported from typing')
            sl = a.slice
            if not (isinstance(sl, ast.Tuple) and len(sl.elts) == 2 and isinstance(sl.elts[0], ast.List) and sl.elts[0].elts):
                raise self.bad(a, f'type annotation {s} (expected Callable[[T1, ...], T])')
            return ('fn', tuple(self.fn_ann(x) for x in sl.elts[0].elts), self.fn_ann(sl.elts[1]))
        raise self.bad(a, f'type annotation {s}')

    def fn_ann(self, a):
        """a type inside Callable[[...], ...]: the simple types and the translated classes of this file"""
        if isinstance(a, ast.Name) and a.id in self.mod.classes and a.id in self.visible and 'post_init' in self.mod.classes[a.id].methods:
            return ('obj', a.id)
        if isinstance(a, ast.Name) and a.id in ('float', 'bool', 'str', 'complex'):
            return self.ann_type(a)
        raise self.bad(a, f'type {ast.unparse(a)} inside a Callable annotation')

    def unify(self, node, t1, t2):
        """the common type of two branches / returns, or Unsupported"""
        if t1 == t2:
            return t1
        if isinstance(t1, tuple) and isinstance(t2, tuple) and t1[0] == t2[0] == 'list':
            if t1[1] is None:
                return t2
            if t2[1] is None:
                return t1
        raise self.bad(node, f'values of different kinds on two paths: {t1} / {t2}')

    def coerce(self, node, term, ty, want):
        """term of type ty used where `want` is expected"""
        if ty == want or want is None:
            return term, ty
        if isinstance(ty, tuple) and ty[0] == 'lit':
            n = ty[1]
            if want == 'real':
                if n not in (0, 1, 2):
                    raise self.bad(node, f'numeric literal {n} (only 0, 1, 2 are in the subset)')
                return {0: '(f0 R)', 1: '(f1 R)', 2: '(fadd R (f1 R) (f1 R))'}[n], 'real'
            if want == 'nat':
                return f'{n}%nat', 'nat'
            if want == 'int':
                return f'{n}%Z', 'int'
            if want == 'cplx':
                t, _ = self.coerce(node, term, ty, 'real')
                return f'(cre R {t})', 'cplx'
        if ty == 'int' and want == 'real':
            return f'(ofZ {term})', 'real'
        if ty in ('real', 'int') and want == 'cplx':
            t, _ = self.coerce(node, term, ty, 'real')
            return f'(cre R {t})', 'cplx'
        if isinstance(ty, tuple) and ty[0] == 'arr' and isinstance(want, tuple) and want[0] == 'list' and ty[1] == want[1]:
            return term, want          # a numpy array where a sequence is expected
        if isinstance(ty, tuple) and ty[0] == 'list' and isinstance(want, tuple) and want[0] == 'list':
            if ty[1] is None:
                return (f'(@nil {coq_type(want[1])})' if want[1] is not None else term), want
            if isinstance(ty[1], tuple) and ty[1][0] == 'litlist':
                elems = [self.coerce(node, str(v), ('lit', v), want[1])[0] for v in ty[1][1]]
                return '[' + '; '.join(elems) + ']', want
        raise self.bad(node, f'a value of kind {want} is expected, {ast.unparse(node)} is of kind {ty}')

    # ------------------------------------------------------------------ small recognisers
    def np_call(self, e, name=None):
        """np.<f>(...) -> 'f' (np must be the numpy import, not shadowed)"""
        if isinstance(e, ast.Call) and isinstance(e.func, ast.Attribute) and isinstance(e.func.value, ast.Name) \
                and e.func.value.id == 'np' and 'np' in self.visible and 'np' not in self.env:
            if name is None or e.func.attr == name:
                return e.func.attr
        return None

    def plain_call(self, e, name):
        return isinstance(e, ast.Call) and isinstance(e.func, ast.Name) and e.func.id == name and name not in self.env \
            and name not in self.local_funcs

    def is_self(self, e):
        return isinstance(e, ast.Name) and self.selfname is not None and e.id == self.selfname

    def nonzero_const(self, e):
        if isinstance(e, ast.Constant) and isinstance(e.value, int) and not isinstance(e.value, bool) and e.value != 0:
            return True
        return self.np_call(e, 'sqrt') is not None

    @staticmethod
    def binds(pre, body, ind):
        return ''.join(f'{ind}let* {x} := {t} in\n' for x, t in pre) + body

    def inline(self, pre, term):
        """a res-valued Coq term performing pre then returning term (one line)"""
        if pre and pre[-1][0] == term:
            pre, last = pre[:-1], pre[-1][1]
        else:
            last = f'Ok {term}'
        return '(' + ''.join(f'let* {x} := {t} in ' for x, t in pre) + last + ')'

    # ------------------------------------------------------------------ expressions
    # every translator returns (pre, term, type): pre = monadic bindings [(coq name, res-valued coq term)] in Python's
    # evaluation order, term = a pure Coq term
    def typed(self, e, want):
        pre, t, ty = self.expr(e, want)
        t, ty = self.coerce(e, t, ty, want)
        return pre, t, ty

    def pure(self, e, want, what):
        pre, t, ty = self.typed(e, want)
        if pre:
            raise self.bad(e, f'{what} can raise: {ast.unparse(e)}')
        return t

    def expr(self, e, want=None):
        if isinstance(e, ast.Constant):
            v = e.value
            if isinstance(v, bool):
                return [], 'true' if v else 'false', 'bool'
            if isinstance(v, int):
                if v < 0:
                    raise self.bad(e, f'negative literal {v}')
                return [], str(v), ('lit', v)
            if isinstance(v, str):
                if not SAFE_STR.match(v):
                    raise self.bad(e, f'string literal {v!r}')
                return [], f'(lbl "{v}")', 'str'
            raise self.bad(e, f'constant {v!r}')
        if isinstance(e, ast.Name):
            if e.id in self.env:
                ty = self.env[e.id][1]
                if isinstance(ty, tuple) and ty[0] in ('strtuple', 'set', 'fn'):
                    what = {'strtuple': 'a tuple of str constants may only be used as `x in T` / `x not in T`',
                            'set': 'a set may only be the receiver of .update(...) or the argument of sorted(...) (no aliasing)',
                            'fn': 'a Callable parameter may only be called'}[ty[0]]
                    raise self.bad(e, f'{e.id}: {what}')
                return [], self.env[e.id][0], ty
            raise self.bad(e, f'unbound or unsupported name {e.id}')
        if isinstance(e, ast.IfExp):
            return self.ifexp(e, want)
        if isinstance(e, ast.Attribute):
            return self.attribute(e)
        if isinstance(e, ast.Subscript):
            return self.subscript(e)
        if isinstance(e, ast.Call):
            return self.call(e, want)
        if isinstance(e, ast.BinOp):
            return self.binop(e)
        if isinstance(e, ast.UnaryOp):
            if isinstance(e.op, ast.Not):
                return [], f'(negb {self.pure(e.operand, "bool", "operand of not")})', 'bool'
            if isinstance(e.op, ast.USub):
                pre, t, ty = self.expr(e.operand)
                if ty == ('arr', 'real'):
                    return pre, f'(map (fopp R) {t})', ty
                if ty == ('list', 'real'):
                    raise self.bad(e, 'unary minus of a Python list (TypeError); only numpy arrays negate elementwise')
                t, ty = self.coerce(e.operand, t, ty, 'real')
                return pre, f'(fopp R {t})', 'real'
            raise self.bad(e, f'unary operator in {ast.unparse(e)}')
        if isinstance(e, ast.BoolOp):
            op = '||' if isinstance(e.op, ast.Or) else '&&'
            parts = [self.pure(v, 'bool', f'operand of `{"or" if op == "||" else "and"}`') for v in e.values]
            return [], '(' + f' {op} '.join(parts) + ')', 'bool'
        if isinstance(e, ast.Compare):
            return self.compare(e)
        if isinstance(e, ast.ListComp):
            return self.listcomp(e)
        if isinstance(e, ast.List):
            if not e.elts:
                return [], '[]', ('list', None)
            if all(isinstance(x, ast.Constant) and isinstance(x.value, int) and not isinstance(x.value, bool) for x in e.elts):
                return [], '?', ('list', ('litlist', [x.value for x in e.elts]))
            pre, ts, ty = [], [], None
            for x in e.elts:
                p, t, y = self.expr(x)
                pre += p
                ts.append(t)
                ty = y if ty is None else self.unify(x, ty, y)
            return pre, '[' + '; '.join(ts) + ']', ('list', ty)
        if isinstance(e, ast.Tuple) and len(e.elts) == 2:
            pa, ta, ya = self.expr(e.elts[0])
            pb, tb, yb = self.expr(e.elts[1])
            return pa + pb, f'({ta}, {tb})', ('tuple', ya, yb)
        if isinstance(e, ast.Lambda):
            return self.product_idiom(e)
        raise self.bad(e, f'expression {ast.unparse(e)}')

    def ifexp(self, e, want):
        """a if c else b: the test first, then ONLY the selected operand (each may raise)"""
        pc, c, _ = self.typed(e.test, 'bool')
        p1, t1, y1 = self.expr(e.body, want)
        p2, t2, y2 = self.expr(e.orelse, want)
        lit = lambda y: isinstance(y, tuple) and y[0] == 'lit'
        if want is not None:
            ty = want
        elif lit(y1) and lit(y2):
            raise self.bad(e, 'conditional expression of two bare numeric literals')
        elif lit(y1) or lit(y2):
            ty = y2 if lit(y1) else y1
        else:
            ty = self.unify(e, y1, y2)
        t1, _ = self.coerce(e.body, t1, y1, ty)
        t2, _ = self.coerce(e.orelse, t2, y2, ty)
        if p1 or p2:
            x = self.fresh()
            return pc + [(x, f'if {c} then {self.inline(p1, t1)} else {self.inline(p2, t2)}')], x, ty
        return pc, f'(if {c} then {t1} else {t2})', ty

    def str_tuple(self, e):
        """a tuple of str constants (a literal, or a local bound once to such a literal) -> [coq label terms] | None"""
        if isinstance(e, ast.Tuple) and e.elts and all(isinstance(x, ast.Constant) and isinstance(x.value, str) and SAFE_STR.match(x.value)
                                                       for x in e.elts):
            return [f'(lbl "{x.value}")' for x in e.elts]
        if isinstance(e, ast.Name) and e.id in self.env and isinstance(self.env[e.id][1], tuple) and self.env[e.id][1][0] == 'strtuple':
            return list(self.env[e.id][1][1])
        return None

    def attribute(self, e):
        if self.is_self(e.value):
            if self.mode == 'init':
                if e.attr not in self.attrs:
                    raise self.bad(e, f'self.{e.attr} read before it is assigned (or not a translated field)')
                return [], self.attrs[e.attr][0], self.attrs[e.attr][1]
            t = self.cls.ftype(e.attr)
            if t is None:
                raise self.bad(e, f'self.{e.attr} is not a field of the record of {self.cls.name}')
            return [], f'({self.cls.name}_{e.attr} {self.env[self.selfname][0]})', t
        pre, t, ty = self.expr(e.value)
        if ty == 'comp' and e.attr in ('type', 'id'):
            return pre, f'({"ctype" if e.attr == "type" else "cid"} {t})', 'str'
        if ty == 'cplx' and e.attr == 'real':
            return pre, f'(fst {t})', 'real'
        if isinstance(ty, tuple) and ty[0] == 'obj':
            ft = self.mod.classes[ty[1]].ftype(e.attr)
            if ft is not None:
                return pre, f'({ty[1]}_{e.attr} {t})', ft
        raise self.bad(e, f'attribute .{e.attr} of a value of kind {ty}')

    def subscript(self, e):
        v, s = e.value, e.slice
        if isinstance(v, ast.Attribute) and v.attr in ('nodes', 'value'):
            pre, t, ty = self.expr(v.value)
            if ty == 'comp' and v.attr == 'nodes':
                if not (isinstance(s, ast.Constant) and isinstance(s.value, int) and not isinstance(s.value, bool) and s.value >= 0):
                    raise self.bad(e, f'node subscript is not a non-negative literal: {ast.unparse(e)}')
                x = self.fresh()
                return pre + [(x, f'node_at {t} {s.value}')], x, 'str'
            if ty == 'comp':
                raise self.bad(e, f'{ast.unparse(e)}: a value-dictionary entry outside float(...)')
        if isinstance(s, ast.Slice):
            if s.lower is None and s.upper is None and isinstance(s.step, ast.UnaryOp) and isinstance(s.step.op, ast.USub) \
                    and isinstance(s.step.operand, ast.Constant) and s.step.operand.value == 1 \
                    and not isinstance(s.step.operand.value, bool):
                pre, t, ty = self.expr(v)
                if isinstance(ty, tuple) and ty[0] in ('list', 'arr') and ty[1] is not None:
                    return pre, f'(rev {t})', ty
            raise self.bad(e, f'slice {ast.unparse(e)} (only L[::-1] of a list)')
        pre, t, ty = self.expr(v)
        if not (isinstance(ty, tuple) and ty[0] in ('list', 'arr') and ty[1] is not None
                and not (isinstance(ty[1], tuple) and ty[1][0] == 'litlist')):
            raise self.bad(e, f'subscript of a value of kind {ty}')
        ps, ts, ys = self.expr(s)
        if ys == ('arr', 'bool'):
            if ty[0] != 'arr':
                raise self.bad(e, 'boolean-mask subscript of a Python list (TypeError); only numpy arrays')
            return pre + ps, f'(mask_select {t} {ts})', ty
        ts, ys = self.coerce(s, ts, ys, 'nat')
        x = self.fresh()
        return pre + ps + [(x, f'list_at {t} {ts}')], x, ty[1]

    def float_read(self, e):
        """float(x.value['K']) -> (expr of x, 'K')"""
        if self.plain_call(e, 'float') and len(e.args) == 1 and not e.keywords:
            a = e.args[0]
            if isinstance(a, ast.Subscript) and isinstance(a.value, ast.Attribute) and a.value.attr == 'value':
                if not (isinstance(a.slice, ast.Constant) and isinstance(a.slice.value, str) and KEY.match(a.slice.value)):
                    raise self.bad(e, f'value key is not a plain string literal: {ast.unparse(e)}')
                return a.value.value, a.slice.value
        return None

    def binop(self, e):
        ops = {ast.Add: 'fadd', ast.Sub: 'fsub', ast.Mult: 'fmul', ast.Div: 'fdiv'}
        if type(e.op) not in ops:
            raise self.bad(e, f'operator in {ast.unparse(e)}')
        op = ops[type(e.op)]
        pa, ta, ya = self.expr(e.left)
        pb, tb, yb = self.expr(e.right)
        pre = pa + pb
        lit = lambda y: isinstance(y, tuple) and y[0] == 'lit'
        if isinstance(e.op, ast.Div):
            if ya == ('arr', 'cplx') and self.nonzero_const(e.right):
                tb, _ = self.coerce(e.right, tb, yb, 'cplx')
                return pre, f'(map (fun z => fdiv C z {tb}) {ta})', ya
            if ya == 'cplx' and self.nonzero_const(e.right):
                tb, _ = self.coerce(e.right, tb, yb, 'cplx')
                return pre, f'(fdiv C {ta} {tb})', 'cplx'
            if (ya == 'real' or lit(ya)) and (yb == 'real' or lit(yb)):
                ta, _ = self.coerce(e.left, ta, ya, 'real')
                tb, _ = self.coerce(e.right, tb, yb, 'real')
                if self.nonzero_const(e.right):
                    return pre, f'(fdiv R {ta} {tb})', 'real'
                if lit(yb):
                    raise self.bad(e, 'division by the literal 0')
                x = self.fresh()
                return pre + [(x, f'py_div {ta} {tb}')], x, 'real'
            raise self.bad(e, f'division {ast.unparse(e)} (kinds {ya} / {yb})')
        if isinstance(e.op, ast.Mult) and ya == 'real' and yb == ('arr', 'int'):
            n = self.fresh('n')          # a float times an np.arange array: elementwise, the same product as w*n in a comprehension
            return pre, f'(map (fun {n} => (fmul R {ta} (ofZ {n}))) {tb})', ('arr', 'real')
        if ya == 'int' and lit(yb) and isinstance(e.op, (ast.Add, ast.Sub)):
            return pre, f'(Z.{"add" if isinstance(e.op, ast.Add) else "sub"} {ta} {yb[1]}%Z)', 'int'
        num = lambda y: y in ('real', 'int', 'cplx') or lit(y)
        if not (num(ya) and num(yb)) or (lit(ya) and lit(yb)) or (ya == 'int' and yb == 'int'):
            raise self.bad(e, f'arithmetic {ast.unparse(e)} on kinds {ya}, {yb}')
        want = 'cplx' if 'cplx' in (ya, yb) else 'real'
        ta, _ = self.coerce(e.left, ta, ya, want)
        tb, _ = self.coerce(e.right, tb, yb, want)
        return pre, f'({op} {"C" if want == "cplx" else "R"} {ta} {tb})', want

    def compare(self, e):
        if len(e.ops) != 1:
            raise self.bad(e, f'chained comparison {ast.unparse(e)}')
        o, l, r = e.ops[0], e.left, e.comparators[0]
        items = self.str_tuple(r) if isinstance(o, (ast.In, ast.NotIn)) else None
        if items is not None:
            pre, t, ty = self.expr(l)
            if ty != 'str':
                raise self.bad(e, f'membership test {ast.unparse(e)}: the left operand is of kind {ty}, not str')
            test = '(' + ' || '.join(f'(label_eqb {t} {it})' for it in items) + ')'
            return pre, test if isinstance(o, ast.In) else f'(negb {test})', 'bool'
        if isinstance(o, ast.In):
            ok = isinstance(r, ast.Name) and r.id == 'transformers' or \
                (isinstance(r, ast.Call) and isinstance(r.func, ast.Attribute) and r.func.attr == 'keys' and not r.args
                 and not r.keywords and isinstance(r.func.value, ast.Name) and r.func.value.id == 'transformers')
            if ok and 'transformers' in self.visible and 'transformers' not in self.env \
                    and isinstance(l, ast.Attribute) and l.attr == 'type':
                pre, t, ty = self.expr(l.value)
                if ty == 'comp':
                    return pre, f'(in_transformers {t})', 'bool'
            raise self.bad(e, f'membership test {ast.unparse(e)} (only x.type in transformers[.keys()], s in / not in (\'a\', ...))')
        pa, ta, ya = self.expr(l)
        pb, tb, yb = self.expr(r)
        pre = pa + pb
        lit = lambda y: isinstance(y, tuple) and y[0] == 'lit'
        if (ya == 'nat' or yb == 'nat') and (ya == 'nat' or lit(ya)) and (yb == 'nat' or lit(yb)):
            ta, _ = self.coerce(l, ta, ya, 'nat')
            tb, _ = self.coerce(r, tb, yb, 'nat')
            forms = {ast.Eq: f'(Nat.eqb {ta} {tb})', ast.NotEq: f'(negb (Nat.eqb {ta} {tb}))', ast.Gt: f'(Nat.ltb {tb} {ta})',
                     ast.GtE: f'(Nat.leb {tb} {ta})', ast.Lt: f'(Nat.ltb {ta} {tb})', ast.LtE: f'(Nat.leb {ta} {tb})'}
            if type(o) not in forms:
                raise self.bad(e, f'comparison operator in {ast.unparse(e)}')
            return pre, forms[type(o)], 'bool'
        if ya == 'str' and yb == 'str' and isinstance(o, (ast.Eq, ast.NotEq)):
            t = f'(label_eqb {ta} {tb})'
            return pre, t if isinstance(o, ast.Eq) else f'(negb {t})', 'bool'
        rel = {ast.Gt: 'py_gt', ast.GtE: 'py_ge', ast.Lt: 'py_lt', ast.LtE: 'py_le'}
        if type(o) in rel and ya == ('arr', 'real') and (yb == 'real' or lit(yb)):
            tb, _ = self.coerce(r, tb, yb, 'real')
            return pre, f'(map (fun a => {rel[type(o)]} a {tb}) {ta})', ('arr', 'bool')
        if type(o) in rel and (ya == 'real' or lit(ya)) and (yb == 'real' or lit(yb)) and not (lit(ya) and lit(yb)):
            ta, _ = self.coerce(l, ta, ya, 'real')
            tb, _ = self.coerce(r, tb, yb, 'real')
            return pre, f'({rel[type(o)]} {ta} {tb})', 'bool'
        raise self.bad(e, f'comparison {ast.unparse(e)} (kinds {ya}, {yb})')

    # ------------------------------------------------------------------ calls
    def bind_args(self, e, info, args, keywords, skip_first=0):
        """positional / keyword arguments against the parameter list of info -> (pre, [coq terms])"""
        params = info.params[skip_first:]
        given = {}
        if len(args) > len(params):
            raise self.bad(e, f'too many positional arguments for {info.pyname}')
        order = []
        for p, a in zip(params, args):
            given[p[0]] = a
            order.append(p[0])
        for k in keywords:
            if k.arg is None or k.arg in given or k.arg not in [p[0] for p in params]:
                raise self.bad(e, f'keyword argument {k.arg} of {info.pyname}')
            given[k.arg] = k.value
            order.append(k.arg)
        pre, terms = [], {}
        for name in order:            # evaluated in source order
            ptype = dict((p[0], p[1]) for p in params)[name]
            p, t, _ = self.typed(given[name], ptype)
            pre += p
            terms[name] = t
        out = []
        for name, ptype, default in params:
            if name in terms:
                out.append(terms[name])
                continue
            if default is None:
                raise self.bad(e, f'argument {name} of {info.pyname} is missing')
            if ptype == 'real' and isinstance(default, ast.Constant) and isinstance(default.value, float):
                var = f'dflt_{info.pyname}_{name}'
                self.mod.defaults[var] = repr(default.value)
                out.append(var)
                continue
            raise self.bad(e, f'argument {name} of {info.pyname} is omitted and its default {ast.unparse(default)} is not a float literal')
        return pre, out

    def call(self, e, want=None):
        f = e.func
        fr = self.float_read(e)
        if fr is not None:
            pre, t, ty = self.expr(fr[0])
            if ty != 'comp':
                raise self.bad(e, f'{ast.unparse(e)}: not the value dictionary of a Component')
            x = self.fresh() + '_' + fr[1]
            return pre + [(x, f'vget {t} "{fr[1]}"')], x, 'real'
        npf = self.np_call(e)
        if npf is not None:
            return self.numpy_call(e, npf)
        if isinstance(f, ast.Name):
            name = f.id
            if name in self.env and isinstance(self.env[name][1], tuple) and self.env[name][1][0] == 'fn':
                return self.apply_closure(e, name)
            if name in self.env:
                raise self.bad(e, f'call of the local value {name}')
            if name == 'len' and len(e.args) == 1 and not e.keywords:
                a = e.args[0]
                if self.plain_call(a, 'set') and len(a.args) == 1 and not a.keywords:
                    pre, t, ty = self.expr(a.args[0])
                    if ty != ('list', 'str'):
                        raise self.bad(e, f'len(set(...)) of a value of kind {ty} (only a list of str)')
                    return pre, f'(List.length (ldedup {t}))', 'nat'
                pre, t, ty = self.expr(a)
                if not (isinstance(ty, tuple) and ty[0] in ('list', 'arr')):
                    raise self.bad(e, f'len of a value of kind {ty}')
                return pre, f'(List.length {t})', 'nat'
            if name == 'sorted' and len(e.args) == 1 and not e.keywords:
                a = e.args[0]
                if self.plain_call(a, 'list') and len(a.args) == 1 and not a.keywords:
                    a = a.args[0]
                if self.plain_call(a, 'set') and len(a.args) == 1 and not a.keywords:
                    pre, t, ty = self.expr(a.args[0])
                    if ty != ('list', 'real'):
                        raise self.bad(e, f'sorted(set(...)) of a value of kind {ty} (only a list of float)')
                    return pre, f'(rsort_dedup {t})', ty
                if isinstance(a, ast.Name) and a.id in self.env and isinstance(self.env[a.id][1], tuple) and self.env[a.id][1][0] == 'set':
                    t, ty = self.env[a.id]          # a set local: the list of the values added so far, in the order of addition
                    if ty != ('set', 'real'):
                        raise self.bad(e, f'sorted(S) of a set of kind {ty} (only a set of float that was updated at least once)')
                    return [], f'(rsort_dedup {t})', ('list', 'real')
                raise self.bad(e, f'{ast.unparse(e)[:60]}: sorted(...) of something else than [list(]set(L)[)] or a set local')
            if name == 'list' and len(e.args) == 1 and not e.keywords and not self.plain_call(e.args[0], 'set'):
                pre, t, ty = self.expr(e.args[0])       # (a set local is refused by expr)
                if isinstance(ty, tuple) and ty[0] in ('list', 'arr') and ty[1] is not None \
                        and not (isinstance(ty[1], tuple) and ty[1][0] == 'litlist'):
                    return pre, t, ('list', ty[1])      # list(A): the elements of a numpy array / a copy of a list, in order
                raise self.bad(e, f'list(...) of a value of kind {ty} (only a list or a numpy array)')
            if name in ('set', 'list'):
                raise self.bad(e, f'{name}(...) outside sorted(list(set(L))) / len(set(L)) / S = set() / list(A) '
                                  f'(iteration order of a set is unspecified)')
            if name in self.local_funcs:
                info = self.local_funcs[name]
                pre, ts = self.bind_args(e, info, e.args, e.keywords)
                x = self.fresh()
                return pre + [(x, ' '.join([info.coq] + info.captured + ts))], x, info.ret
            if name == 'Network' and 'Network' in self.visible:
                if e.args or [k.arg for k in e.keywords] != ['branches', 'node_zero_label']:
                    raise self.bad(e, 'Network(...) call shape (expected Network(branches=..., node_zero_label=...))')
                pa, ta, _ = self.typed(e.keywords[0].value, ('list', 'branch'))
                pb, tb, _ = self.typed(e.keywords[1].value, 'str')
                x = self.fresh()
                return pa + pb + [(x, f'Network_ctor {ta} {tb}')], x, 'network'
            if name in self.mod.functions and name in self.visible:
                info = self.mod.functions[name]
                pre, ts = self.bind_args(e, info, e.args, e.keywords)
                x = self.fresh()
                return pre + [(x, ' '.join([info.coq] + ts))], x, info.ret
            if name in self.mod.classes and name in self.visible and 'post_init' in self.mod.classes[name].methods:
                ci = self.mod.classes[name]
                info = ci.methods['post_init']
                kws = list(e.keywords)
                if ci.has_solver:
                    sol = [k for k in kws if k.arg == 'solver']
                    if len(sol) != 1 or not (isinstance(sol[0].value, ast.Attribute) and sol[0].value.attr == 'solver'
                                             and self.is_self(sol[0].value.value) and self.cls is not None and self.cls.has_solver):
                        raise self.bad(e, f'{name}(...) must be given solver=self.solver (the model fixes the solver)')
                    kws.remove(sol[0])
                if e.args:
                    raise self.bad(e, f'{name}(...) with positional arguments')
                pre, ts = self.bind_args(e, info, [], kws)
                x = self.fresh()
                return pre + [(x, ' '.join([info.coq] + ts))], x, ('obj', name)
            raise self.bad(e, f'call of {name}')
        if isinstance(f, ast.Attribute):
            if self.is_self(f.value):
                if f.attr == 'solver':
                    if not (self.cls and self.cls.has_solver and len(e.args) == 1 and not e.keywords):
                        raise self.bad(e, 'self.solver(...) call shape')
                    pre, t, _ = self.typed(e.args[0], 'network')
                    x = self.fresh()
                    return pre + [(x, f'solver_call {t}')], x, 'netsol'
                if self.mode == 'init':
                    raise self.bad(e, f'method call self.{f.attr}(...) inside __post_init__')
                if f.attr in self.cls.helpers:
                    return self.inline_helper(e, f.attr)
                return self.method_call(e, [], self.env[self.selfname][0], ('obj', self.cls.name), f.attr)
            if f.attr == 'index' and len(e.args) == 1 and not e.keywords:
                pre, t, ty = self.expr(f.value)
                if ty == ('list', 'str'):
                    pb, tb, _ = self.typed(e.args[0], 'str')
                    x = self.fresh()
                    return pre + pb + [(x, f'list_index {t} {tb}')], x, 'nat'
                raise self.bad(e, f'.index on a value of kind {ty}')
            pre, t, ty = self.expr(f.value)
            return self.method_call(e, pre, t, ty, f.attr)
        if isinstance(f, ast.Subscript) and isinstance(f.value, ast.Name) and f.value.id == 'transformers' \
                and 'transformers' in self.visible and 'transformers' not in self.env:
            k = f.slice
            if not (isinstance(k, ast.Attribute) and k.attr == 'type' and isinstance(k.value, ast.Name) and len(e.args) == 3
                    and not e.keywords and isinstance(e.args[0], ast.Name) and e.args[0].id == k.value.id):
                raise self.bad(e, 'transformers[...] call shape (expected transformers[x.type](x, w, w_resolution))')
            pc, tc, _ = self.typed(e.args[0], 'comp')
            pw, tw, _ = self.typed(e.args[1], 'real')
            pr, tr, _ = self.typed(e.args[2], 'real')
            x = self.fresh()
            return pc + pw + pr + [(x, f'transformers_call {tc} {tw} {tr}')], x, 'branch'
        raise self.bad(e, f'call {ast.unparse(e)[:80]}')

    def method_call(self, e, pre, t, ty, meth):
        if ty == 'netsol' and meth in NETSOL_METHODS:
            if len(e.args) != 1 or e.keywords:
                raise self.bad(e, f'.{meth}(...) call shape')
            pa, ta, _ = self.typed(e.args[0], 'str')
            x = self.fresh()
            return pre + pa + [(x, f'{meth} {t} {ta}')], x, NETSOL_METHODS[meth]
        if isinstance(ty, tuple) and ty[0] == 'obj':
            ci = self.mod.classes[ty[1]]
            key = SPECIAL.get(meth, meth)
            if meth in ci.helpers:
                raise self.bad(e, f'the private helper {ty[1]}.{meth} is called from outside its own instance (only self.{meth}(...))')
            if key in ci.methods and key != 'post_init' and ci.methods[key].ret is not None:
                info = ci.methods[key]
                pa, ts = self.bind_args(e, info, e.args, e.keywords, skip_first=1)
                x = self.fresh()
                return pre + pa + [(x, ' '.join([info.coq, t] + ts))], x, info.ret
            raise self.bad(e, f'method {ty[1]}.{meth} is not translated (or is called before its translation: recursion)')
        raise self.bad(e, f'method .{meth} of a value of kind {ty}')

    # ------------------------------------------------------------------ private helpers (inlined) and Callable parameters
    def helper_params(self, node):
        f, a = node, node.args
        if f.decorator_list:
            raise self.bad(f, f'decorated helper {f.name}')
        if a.kwarg or a.kwonlyargs or a.posonlyargs or a.vararg or a.defaults or not a.args or a.args[0].annotation is not None:
            raise self.bad(f, f'helper {f.name}: parameters are not (self, p: ann, ...) without defaults')
        out = []
        for x in a.args[1:]:
            if x.annotation is None:
                raise self.bad(f, f'helper {f.name}: parameter {x.arg} without annotation')
            out.append((x.arg, self.ann_type(x.annotation, param=True, helper=True), None))
        if len({p[0] for p in out} | {a.args[0].arg}) != len(out) + 1:
            raise self.bad(f, f'helper {f.name}: a parameter name is used twice')
        return out

    def inline_helper(self, e, name):
        """self._h(args): the arguments in source order, then the body of _h with its parameters standing for the argument
        values (each parameter of _h is assigned nowhere in _h) -> a res-valued term bound to a fresh name"""
        node = self.cls.helpers[name]
        if name in self.inlining:
            raise self.bad(e, f'the helper {name} calls itself (recursion)')
        params = self.helper_params(node)
        given, order = {}, []
        if len(e.args) > len(params):
            raise self.bad(e, f'too many positional arguments for {name}')
        for p, a in zip(params, e.args):
            given[p[0]] = a
            order.append(p[0])
        for k in e.keywords:
            if k.arg is None or k.arg in given or k.arg not in [p[0] for p in params]:
                raise self.bad(e, f'keyword argument {k.arg} of {name}')
            given[k.arg] = k.value
            order.append(k.arg)
        if set(given) != {p[0] for p in params}:
            raise self.bad(e, f'{name}(...): every parameter must be given exactly once')
        ptypes = {p[0]: p[1] for p in params}
        pre, bound = [], {}
        for pname in order:                       # evaluated in source order, before the body
            a, pt = given[pname], ptypes[pname]
            if isinstance(pt, tuple) and pt[0] == 'fn':
                if not (isinstance(a, ast.Lambda) and not a.args.defaults and not a.args.vararg and not a.args.kwarg
                        and not a.args.kwonlyargs and not a.args.posonlyargs and len(a.args.args) == len(pt[1])):
                    raise self.bad(a, f'{name}({pname}=...): a Callable parameter must be given a lambda with {len(pt[1])} plain parameter(s)')
                bound[pname] = (('closure', a, self), pt)
                continue
            p, t, y = self.typed(a, pt)
            if isinstance(y, tuple) and (y[0] == 'lit' or (y[0] == 'list' and (y[1] is None or isinstance(y[1], tuple) and y[1][0] == 'litlist'))):
                raise self.bad(a, f'{name}({pname}=...): a bare literal whose kind is not determined')
            pre += p
            bound[pname] = (t, y)
        info = FunInfo(name, f'{self.info.coq} (inlined {name})', [], node, self.path)
        sub = Fn(self.mod, node, self.path, info, cls=self.cls, mode='method', visible=self.visible)
        sub.ctr = self.ctr
        sub.pfx = self.fresh('h') + '_'
        sub.inlining = self.inlining + [name]
        sub.selfname = node.args.args[0].arg
        sub.env = {sub.selfname: self.env[self.selfname]}
        for pname, b in bound.items():
            sub.check_local_name(node, pname)
            sub.env[pname] = b
        assigned = {t.id for st in ast.walk(node) if isinstance(st, (ast.Assign, ast.AugAssign, ast.AnnAssign, ast.For, ast.comprehension, ast.NamedExpr))
                    for tt in (st.targets if isinstance(st, ast.Assign) else [st.target]) for t in ast.walk(tt) if isinstance(t, ast.Name)}
        assigned |= {x.arg for lam in ast.walk(node) if isinstance(lam, ast.Lambda) for x in lam.args.args}
        clash = assigned & ({p[0] for p in params} | {sub.selfname})
        if clash:
            raise self.bad(node, f'helper {name} rebinds its parameter(s) {sorted(clash)}')
        text = sub.block(list(node.body), '      ')
        self.cls.helper_calls[name] = self.cls.helper_calls.get(name, 0) + 1
        lines = text.rstrip().splitlines()
        term = '(' + lines[0].strip() + ')' if len(lines) == 1 else '(\n' + text.rstrip() + ')'
        x = self.fresh()
        return pre + [(x, term)], x, info.ret

    def apply_closure(self, e, name):
        """q(args) with q a Callable parameter of an inlined helper, bound to a lambda of the caller: the arguments, then the
        body of the lambda in the scope where the lambda was written"""
        (_, lam, owner), (_, ptys, rty) = self.env[name]
        if e.keywords or len(e.args) != len(ptys):
            raise self.bad(e, f'{name}(...): call shape of a Callable parameter')
        pre, locs = [], {}
        for a, pt, x in zip(e.args, ptys, lam.args.args):
            p, t, y = self.typed(a, pt)
            pre += p
            if x.arg in locs:
                raise self.bad(lam, 'lambda with a repeated parameter')
            locs[x.arg] = (t, y)

        def body():
            for n in locs:
                if n in owner.env and owner.env[n][0] is not None and isinstance(owner.env[n][1], tuple) and owner.env[n][1][0] == 'fn':
                    raise self.bad(lam, f'lambda parameter {n} shadows a Callable parameter')
            return owner.typed(lam.body, rty)
        pb, tb, yb = owner.with_local(locs, body)
        return pre + pb, tb, yb

    def numpy_call(self, e, f):
        if e.keywords:
            raise self.bad(e, f'np.{f} with keyword arguments')
        n = len(e.args)
        if f == 'array' and n == 1:
            pre, t, ty = self.expr(e.args[0])
            if isinstance(ty, tuple) and ty[0] in ('list', 'arr') and ty[1] is not None and not isinstance(ty[1], tuple) \
                    or isinstance(ty, tuple) and ty[0] in ('list', 'arr') and isinstance(ty[1], tuple) and ty[1][0] == 'obj':
                return pre, t, ('arr', ty[1])
            raise self.bad(e, f'np.array of a value of kind {ty}')
        if f == 'floor' and n == 1:
            pre, t, _ = self.typed(e.args[0], 'real')
            return pre, f'(flr {t})', 'int'
        if f == 'arange' and n == 1:
            pre, t, _ = self.typed(e.args[0], 'int')
            return pre, f'(np_arange {t})', ('arr', 'int')
        if f == 'sqrt' and n == 1:
            a = e.args[0]
            if isinstance(a, ast.Constant) and a.value == 2 and isinstance(a.value, int) and not isinstance(a.value, bool):
                return [], 'sqrt2', 'real'
            raise self.bad(e, f'{ast.unparse(e)} (only np.sqrt(2))')
        if f == 'conj' and n == 1:
            pre, t, ty = self.expr(e.args[0])
            if ty == 'cplx':
                return pre, f'(fconj C {t})', ty
            if ty in (('list', 'cplx'), ('arr', 'cplx')):
                return pre, f'(map (fconj C) {t})', ('arr', 'cplx')
            raise self.bad(e, f'np.conj of a value of kind {ty}')
        if f == 'concatenate' and n == 1 and isinstance(e.args[0], ast.Tuple) and len(e.args[0].elts) == 2:
            pa, ta, ya = self.expr(e.args[0].elts[0])
            pb, tb, yb = self.expr(e.args[0].elts[1])
            if isinstance(ya, tuple) and isinstance(yb, tuple) and ya[0] in ('list', 'arr') and yb[0] in ('list', 'arr') \
                    and ya[1] == yb[1] and ya[1] in ('real', 'cplx'):
                return pa + pb, f'({ta} ++ {tb})', ('arr', ya[1])
            raise self.bad(e, f'np.concatenate of kinds {ya}, {yb}')
        if f == 'where' and n == 3:
            pm, tm, ym = self.expr(e.args[0])
            pa, ta, ya = self.expr(e.args[1])
            pb, tb, yb = self.expr(e.args[2])
            seq = lambda y: isinstance(y, tuple) and y[0] in ('list', 'arr')
            if seq(ym) and ym[1] == 'bool' and seq(ya) and seq(yb) and ya[1] == yb[1] and ya[1] in ('real', 'cplx'):
                return pm + pa + pb, f'(np_where {tm} {ta} {tb})', ('arr', ya[1])
            raise self.bad(e, f'np.where of kinds {ya}, {yb}')
        if f == 'vectorize' and n == 1:
            return self.cosine_idiom(e)
        raise self.bad(e, f'numpy call {ast.unparse(e)[:80]}')

    # ------------------------------------------------------------------ comprehensions and idioms
    def with_local(self, names_types, fn):
        saved = dict(self.env)
        try:
            for n, (coq, ty) in names_types.items():
                self.check_local_name(self.f, n)
                self.env[n] = (coq, ty)
            return fn()
        finally:
            self.env = saved

    def check_local_name(self, node, name):
        if not IDENT.match(name) or name in ('np', 'transformers', 'Network', 'float', 'len', 'set', 'list', 'sorted', 'zip') \
                or name in self.mod.functions or name in self.mod.classes or name in self.local_funcs or name == self.selfname:
            raise self.bad(node, f'local name {name} shadows a name the translation relies on')

    def listcomp(self, e):
        gens = e.generators
        if any(g.is_async for g in gens) or not 1 <= len(gens) <= 2:
            raise self.bad(e, 'comprehension shape')
        g = gens[0]
        if not isinstance(g.target, ast.Name):
            raise self.bad(e, f'comprehension target {ast.unparse(g.target)}')
        pre, src, sty = self.expr(g.iter)
        if not (isinstance(sty, tuple) and sty[0] in ('list', 'arr') and sty[1] is not None and not (isinstance(sty[1], tuple) and sty[1][0] == 'litlist')):
            raise self.bad(e, f'comprehension over a value of kind {sty}')
        v = self.pfx + g.target.id
        if len(gens) == 2:
            g2 = gens[1]
            if g.ifs or g2.ifs or not (isinstance(g2.target, ast.Name) and isinstance(e.elt, ast.Name) and e.elt.id == g2.target.id):
                raise self.bad(e, 'nested comprehension shape (only [v for a in L for v in f(a)])')

            def inner():
                p2, t2, y2 = self.expr(g2.iter)
                if not (isinstance(y2, tuple) and y2[0] in ('list', 'arr')):
                    raise self.bad(e, f'inner comprehension over a value of kind {y2}')
                return p2, t2, y2
            p2, t2, y2 = self.with_local({g.target.id: (v, sty[1])}, inner)
            self.check_local_name(e, g2.target.id)
            x = self.fresh()
            y2 = ('list', y2[1])
            if p2:
                return pre + [(x, f'mapM (fun {v} => {self.inline(p2, t2)}) {src}')], f'(List.concat {x})', y2
            return pre, f'(List.concat (map (fun {v} => {t2}) {src}))', y2
        if len(g.ifs) > 1:
            raise self.bad(e, 'comprehension with several conditions')

        def body():
            c = self.pure(g.ifs[0], 'bool', 'comprehension condition') if g.ifs else None
            pb, tb, yb = self.expr(e.elt)
            return c, pb, tb, yb
        c, pb, tb, yb = self.with_local({g.target.id: (v, sty[1])}, body)
        if isinstance(yb, tuple) and yb[0] == 'lit':
            raise self.bad(e, 'comprehension of bare literals')
        if c is not None:
            src = f'(filter (fun {v} => {c}) {src})'
        if pb:
            x = self.fresh()
            return pre + [(x, f'mapM (fun {v} => {self.inline(pb, tb)}) {src}')], x, ('list', yb)
        return pre, f'(map (fun {v} => {tb}) {src})', ('list', yb)

    def cosine_idiom(self, e):
        shape = 'np.vectorize(lambda t: np.array(np.sum([np.abs(V)*np.cos(w*t+np.angle(V)) for V, w in zip(Vs, ws)])))'
        bad = self.bad(e, f'idiom shape changed, expected {shape}')
        lam = e.args[0]
        if not (isinstance(lam, ast.Lambda) and len(lam.args.args) == 1 and not lam.args.defaults and not lam.args.vararg
                and not lam.args.kwarg and not lam.args.kwonlyargs and not lam.args.posonlyargs):
            raise bad
        T = lam.args.args[0].arg
        b = lam.body
        if not (self.np_call(b, 'array') and len(b.args) == 1 and not b.keywords and self.np_call(b.args[0], 'sum')
                and len(b.args[0].args) == 1 and not b.args[0].keywords and isinstance(b.args[0].args[0], ast.ListComp)):
            raise bad
        lc = b.args[0].args[0]
        if len(lc.generators) != 1:
            raise bad
        g = lc.generators[0]
        if g.ifs or g.is_async or not (isinstance(g.target, ast.Tuple) and len(g.target.elts) == 2
                                       and all(isinstance(x, ast.Name) for x in g.target.elts)):
            raise bad
        X, W = g.target.elts[0].id, g.target.elts[1].id
        if len({X, W, T}) != 3 or any(n in ('np', 'zip') for n in (X, W, T)):
            raise bad
        if not (self.plain_call(g.iter, 'zip') and len(g.iter.args) == 2 and not g.iter.keywords):
            raise bad
        isn = lambda n, s: isinstance(n, ast.Name) and n.id == s
        el = lc.elt
        ok = isinstance(el, ast.BinOp) and isinstance(el.op, ast.Mult) \
            and self.np_call(el.left, 'abs') and len(el.left.args) == 1 and not el.left.keywords and isn(el.left.args[0], X) \
            and self.np_call(el.right, 'cos') and len(el.right.args) == 1 and not el.right.keywords
        if not ok:
            raise bad
        a = el.right.args[0]
        ok = isinstance(a, ast.BinOp) and isinstance(a.op, ast.Add) and isinstance(a.left, ast.BinOp) and isinstance(a.left.op, ast.Mult) \
            and isn(a.left.left, W) and isn(a.left.right, T) and self.np_call(a.right, 'angle') and len(a.right.args) == 1 \
            and not a.right.keywords and isn(a.right.args[0], X)
        if not ok:
            raise bad
        pa, ta, _ = self.typed(g.iter.args[0], ('list', 'cplx'))
        pb, tb, _ = self.typed(g.iter.args[1], ('list', 'real'))
        return pa + pb, f'(cosine_sum R (combine {ta} {tb}))', 'timefn'

    def product_idiom(self, lam):
        bad = self.bad(lam, 'lambda outside the idiom `lambda t: np.array(f(t))*np.array(g(t))` (f, g time functions)')
        if not (len(lam.args.args) == 1 and not lam.args.defaults and not lam.args.vararg and not lam.args.kwarg
                and not lam.args.kwonlyargs and not lam.args.posonlyargs):
            raise bad
        T = lam.args.args[0].arg
        b = lam.body
        if not (isinstance(b, ast.BinOp) and isinstance(b.op, ast.Mult)):
            raise bad
        terms = []
        for side in (b.left, b.right):
            if not (self.np_call(side, 'array') and len(side.args) == 1 and not side.keywords):
                raise bad
            c = side.args[0]
            if not (isinstance(c, ast.Call) and isinstance(c.func, ast.Name) and len(c.args) == 1 and not c.keywords
                    and isinstance(c.args[0], ast.Name) and c.args[0].id == T and c.func.id != T
                    and c.func.id in self.env and self.env[c.func.id][1] == 'timefn'):
                raise bad
            terms.append(self.env[c.func.id][0])
        return [], f'(timefn_product R {terms[0]} {terms[1]})', 'timefn2'

    # ------------------------------------------------------------------ statements
    def set_ret(self, node, ty):
        self.info.ret = ty if self.info.ret is None else self.unify(node, self.info.ret, ty)

    def finish(self, node, ind):
        """end of __post_init__: the record of the instance"""
        if self.mode != 'init':
            raise self.bad(node or self.f, 'a path ends without `return <value>`')
        parts = []
        for i, (a, t, init) in enumerate(self.cls.fields):
            if a not in self.attrs:
                raise self.bad(node or self.f, f'attribute self.{a} is not assigned on this path')
            term, ty = self.attrs[a]
            self.cls.fields[i] = (a, ty if t is None else self.unify(node or self.f, t, ty), init)
            parts.append(f'{self.cls.name}_{a} := {term}')
        return f'{ind}Ok {{| ' + '; '.join(parts) + ' |}\n'

    def target(self, st):
        """assignment target -> ('local', name) | ('attr', name)"""
        if len(st.targets) != 1:
            raise self.bad(st, f'assignment target {ast.unparse(st)[:60]}')
        t = st.targets[0]
        if isinstance(t, ast.Name):
            self.check_local_name(st, t.id)
            if self.outer is None and t.id in [p[0] for p in self.info.params]:
                self.assigned.add(t.id)
            return 'local', t.id
        if isinstance(t, ast.Attribute) and self.is_self(t.value) and self.mode == 'init':
            if self.cls.ftype(t.attr) is None and t.attr not in [a for a, _, _ in self.cls.fields]:
                raise self.bad(st, f'assignment to self.{t.attr}, which is not a field of the record')
            return 'attr', t.attr
        raise self.bad(st, f'assignment target {ast.unparse(t)}')

    def bind_target(self, kind, name, ty):
        coq = (self.pfx if kind == 'local' else 'self_') + name
        (self.env if kind == 'local' else self.attrs)[name] = (coq, ty)
        return coq

    def lookup_target(self, kind, name):
        return (self.env if kind == 'local' else self.attrs).get(name)

    def assign_text(self, st, ind):
        kind, name = self.target(st)
        old = self.lookup_target(kind, name)
        v = st.value
        if old is not None and isinstance(old[1], tuple) and old[1][0] in ('strtuple', 'set', 'fn'):
            raise self.bad(st, f'{name} (a tuple constant / a set / a Callable parameter) is rebound')
        if kind == 'local' and isinstance(v, ast.Tuple) and self.str_tuple(v) is not None:
            # NAME = ('a', 'b', ...): a compile-time constant, usable only in membership tests; no Coq text
            self.env[name] = (None, ('strtuple', tuple(self.str_tuple(v))))
            return ''
        if kind == 'local' and self.plain_call(v, 'set') and not v.args and not v.keywords:
            # NAME = set(): a fresh empty set, kept as the list of the values added to it (no Coq text; never aliased)
            self.env[name] = ('[]', ('set', None))
            return ''
        want = old[1] if old is not None else (self.cls.ftype(name) if kind == 'attr' else None)
        pre, t, ty = self.expr(st.value, want)
        if want is not None:
            t, ty = self.coerce(st.value, t, ty, want)
        if isinstance(ty, tuple) and (ty[0] == 'lit' or (ty[0] == 'list' and isinstance(ty[1], tuple) and ty[1][0] == 'litlist')):
            raise self.bad(st, 'assignment of a bare numeric literal')
        coq = self.bind_target(kind, name, ty)
        if pre and pre[-1][0] == t:
            return self.binds(pre[:-1] + [(coq, pre[-1][1])], '', ind)
        return self.binds(pre, f'{ind}let {coq} := {t} in\n', ind)

    def raise_text(self, st, ind):
        exc = st.exc
        args = []
        if isinstance(exc, ast.Call) and not exc.keywords:
            exc, args = exc.func, exc.args
        if not (isinstance(exc, ast.Name) and exc.id in self.mod.exceptions and exc.id in self.visible and st.cause is None):
            raise self.bad(st, f'raise {ast.unparse(st)[:60]} (only the exception classes defined in circuit.py)')
        for a in args:
            if isinstance(a, ast.Constant) and isinstance(a.value, str):
                continue
            if isinstance(a, ast.JoinedStr):
                for v in a.values:
                    if isinstance(v, ast.Constant):
                        continue
                    x = v.value
                    if self.plain_call(x, 'str') and len(x.args) == 1 and not x.keywords:
                        x = x.args[0]
                    if not (isinstance(x, ast.Name) and x.id in self.env):
                        raise self.bad(st, f'exception message interpolates {ast.unparse(v.value)}')
                continue
            raise self.bad(st, f'exception argument {ast.unparse(a)}')
        return f'{ind}Err {self.mod.exceptions[exc.id]}\n'

    def branch_block(self, stmts, ind):
        saved = dict(self.env), dict(self.attrs)
        text = self.block(stmts, ind)
        self.env, self.attrs = saved
        return text

    def block(self, stmts, ind):
        if not stmts:
            return self.finish(None, ind)
        st, rest = stmts[0], stmts[1:]
        if isinstance(st, ast.Return):
            if rest:
                raise self.bad(rest[0], 'statement after return')
            if st.value is None:
                return self.finish(st, ind)
            if self.mode == 'init':
                raise self.bad(st, '__post_init__ returns a value')
            pre, t, ty = self.expr(st.value, self.info.ret)
            if self.info.ret is not None:
                t, ty = self.coerce(st.value, t, ty, self.info.ret) if isinstance(ty, tuple) and ty[0] == 'lit' else (t, ty)
            if isinstance(ty, tuple) and ty[0] == 'lit':
                raise self.bad(st, 'return of a bare numeric literal')
            self.set_ret(st, ty)
            if pre and pre[-1][0] == t:
                return self.binds(pre[:-1], f'{ind}{pre[-1][1]}\n', ind)
            return self.binds(pre, f'{ind}Ok {t}\n', ind)
        if isinstance(st, ast.Assign):
            return self.assign_text(st, ind) + self.block(rest, ind)
        if isinstance(st, ast.Raise):
            if rest:
                raise self.bad(rest[0], 'statement after raise')
            return self.raise_text(st, ind)
        if isinstance(st, ast.If):
            return self.if_text(st, rest, ind)
        if isinstance(st, ast.Try):
            return self.try_text(st, rest, ind)
        if isinstance(st, ast.For):
            return self.for_text(st, rest, ind)
        if isinstance(st, ast.FunctionDef):
            self.inner_function(st)
            return self.block(rest, ind)
        raise self.bad(st, f'statement {type(st).__name__}: {ast.unparse(st).splitlines()[0][:70]}')

    def if_text(self, st, rest, ind):
        body, orelse = st.body, st.orelse
        t = st.test
        if not orelse and isinstance(body[-1], (ast.Return, ast.Raise)) and isinstance(t, ast.Compare) and len(t.ops) == 1 \
                and isinstance(t.ops[0], ast.NotIn) and self.str_tuple(t.comparators[0]) is not None:
            # `if s not in T: <A ending in return>` / <B>  is written  if (s in T) then <B> else <A>
            pos = ast.copy_location(ast.Compare(left=t.left, ops=[ast.In()], comparators=t.comparators), t)
            pre, cond, _ = self.typed(pos, 'bool')
            other = self.branch_block(body, ind)
            cont = self.block(rest, ind + '  ')
            return self.binds(pre, f'{ind}if {cond} then\n{cont}{ind}else\n{other}', ind)
        pre, cond, _ = self.typed(st.test, 'bool')
        if not orelse and isinstance(body[-1], (ast.Return, ast.Raise)):
            then = self.branch_block(body, ind + '  ')
            return self.binds(pre, f'{ind}if {cond} then\n{then}{ind}else\n', ind) + self.block(rest, ind)
        if len(body) == 1 and isinstance(body[0], ast.Assign) and (not orelse or (len(orelse) == 1 and isinstance(orelse[0], ast.Assign))):
            kind, name = self.target(body[0])
            old = self.lookup_target(kind, name)
            if orelse:
                if self.target(orelse[0]) != (kind, name):
                    raise self.bad(st, 'the two branches of if/else assign different targets')
                want = old[1] if old is not None else (self.cls.ftype(name) if kind == 'attr' else None)
                p1, t1, y1 = self.expr(body[0].value, want)
                p2, t2, y2 = self.expr(orelse[0].value, want)
                ty = self.unify(st, y1, y2) if want is None else want
                t1, _ = self.coerce(body[0].value, t1, y1, ty)
                t2, _ = self.coerce(orelse[0].value, t2, y2, ty)
            else:
                if old is None:
                    raise self.bad(st, f'conditional assignment to {name}, which is not bound yet')
                ty = old[1]
                p1, t1, _ = self.typed(body[0].value, ty)
                p2, t2 = [], old[0]
            if isinstance(ty, tuple) and ty[0] == 'lit':
                raise self.bad(st, 'conditional assignment of a bare literal')
            coq = self.bind_target(kind, name, ty)
            if p1 or p2:
                line = f'{ind}let* {coq} := if {cond} then {self.inline(p1, t1)} else {self.inline(p2, t2)} in\n'
            else:
                line = f'{ind}let {coq} := if {cond} then {t1} else {t2} in\n'
            return self.binds(pre, line, ind) + self.block(rest, ind)
        raise self.bad(st, 'if statement shape (see the module docstring)')

    def for_text(self, st, rest, ind):
        """for v in L: S.update(e)   (S a set local): e is evaluated for every element in order (the first exception ends
        the loop and the function: S is a local, nothing observes the partial update), then all the values join S in order"""
        shape = 'for statement shape (only `for v in L: S.update(e)` with S a set local)'
        if st.orelse or not isinstance(st.target, ast.Name) or len(st.body) != 1 or self.mode == 'init' or getattr(st, 'type_comment', None):
            raise self.bad(st, shape)
        b = st.body[0]
        if not (isinstance(b, ast.Expr) and isinstance(b.value, ast.Call) and isinstance(b.value.func, ast.Attribute)
                and b.value.func.attr == 'update' and isinstance(b.value.func.value, ast.Name) and len(b.value.args) == 1
                and not b.value.keywords):
            raise self.bad(st, shape)
        sname, var = b.value.func.value.id, st.target.id
        if not (sname in self.env and isinstance(self.env[sname][1], tuple) and self.env[sname][1][0] == 'set'):
            raise self.bad(st, shape)
        self.check_local_name(st, var)
        if var in self.env or var == sname or (self.outer is None and var in [p[0] for p in self.info.params]):
            raise self.bad(st, f'the loop variable {var} rebinds a name that is already bound')
        pre, src, sty = self.expr(st.iter)
        if not (isinstance(sty, tuple) and sty[0] in ('list', 'arr') and sty[1] is not None and not (isinstance(sty[1], tuple) and sty[1][0] == 'litlist')):
            raise self.bad(st, f'for loop over a value of kind {sty}')
        v = self.pfx + var
        pe, te, ye = self.with_local({var: (v, sty[1])}, lambda: self.expr(b.value.args[0]))
        if not (isinstance(ye, tuple) and ye[0] in ('list', 'arr') and ye[1] is not None and not isinstance(ye[1], tuple)):
            raise self.bad(st, f'S.update(...) of a value of kind {ye} (only a list / array of numbers or str)')
        old, oty = self.env[sname]
        if oty[1] is not None and oty[1] != ye[1]:
            raise self.bad(st, f'a set of {oty[1]} is updated with values of kind {ye[1]}')
        if pe:
            x = self.fresh()
            pre = pre + [(x, f'mapM (fun {v} => {self.inline(pe, te)}) {src}')]
            added = f'(List.concat {x})'
        else:
            added = f'(List.concat (map (fun {v} => {te}) {src}))'
        self.env[sname] = (added if old == '[]' else f'({old} ++ {added})', ('set', ye[1]))
        return self.binds(pre, '', ind) + self.block(rest, ind)

    def try_text(self, st, rest, ind):
        ok = len(st.body) == 1 and isinstance(st.body[0], ast.Assign) and len(st.handlers) == 1 and not st.orelse \
            and not st.finalbody and isinstance(st.handlers[0].type, ast.Name) and st.handlers[0].type.id in EXC \
            and st.handlers[0].name is None and len(st.handlers[0].body) == 1 and isinstance(st.handlers[0].body[0], ast.Return) \
            and st.handlers[0].body[0].value is not None
        if not ok or self.mode == 'init':
            raise self.bad(st, 'try statement shape (only `try: NAME = e` / `except KeyError: return h`)')
        kind, name = self.target(st.body[0])
        if kind != 'local':
            raise self.bad(st, 'try body assigns an attribute')
        pre, t, ty = self.expr(st.body[0].value)
        if isinstance(ty, tuple) and ty[0] == 'lit':
            raise self.bad(st, 'try body assigns a bare literal')
        handler = self.branch_block([st.handlers[0].body[0]], ind + '    ')
        coq = self.bind_target(kind, name, ty)
        cont = self.block(rest, ind + '    ')
        return (f'{ind}try_except {self.inline(pre, t)} {EXC[st.handlers[0].type.id]}\n{ind}  (\n{handler}{ind}  )\n'
                f'{ind}  (fun {coq} =>\n{cont}{ind}  )\n')

    def inner_function(self, node):
        if self.outer is not None or self.mode != 'function':
            raise self.bad(node, 'nested function definition here')
        self.check_local_name(node, node.name)
        own = {a.arg for a in node.args.args}
        free = []
        for n in ast.walk(node):
            if isinstance(n, ast.Name) and n.id not in own and n.id in self.env and n.id not in free:
                free.append(n.id)
        pnames = [p[0] for p in self.info.params]
        all_assigned = {t.id for s in ast.walk(self.f) if isinstance(s, ast.Assign) for t in s.targets if isinstance(t, ast.Name)
                        and s not in list(ast.walk(node))}
        consts = [n for n in free if isinstance(self.env[n][1], tuple) and self.env[n][1][0] == 'strtuple']
        free = [n for n in free if n not in consts]
        for n in free:
            if n not in pnames or n in all_assigned:
                raise self.bad(node, f'inner function {node.name} reads {n}, which is not a never-assigned parameter of {self.f.name}')
        for n in consts:
            # a tuple constant of the enclosing function: bound exactly once (before this def), nowhere else
            binders = [t for s in ast.walk(self.f) if isinstance(s, (ast.Assign, ast.AugAssign, ast.AnnAssign, ast.For, ast.comprehension, ast.NamedExpr))
                       for tt in (s.targets if isinstance(s, ast.Assign) else [s.target]) for t in ast.walk(tt)
                       if isinstance(t, ast.Name) and t.id == n]
            args = [a for fn_ in ast.walk(self.f) if isinstance(fn_, (ast.FunctionDef, ast.Lambda)) for a in fn_.args.args if a.arg == n]
            if len(binders) != 1 or args or n in pnames:
                raise self.bad(node, f'inner function {node.name} reads the constant {n}, which is bound more than once in {self.f.name}')
        info = FunInfo(node.name, f'{self.info.coq}_{node.name}', [], node, self.path, captured=[self.env[n][0] for n in free])
        fn = Fn(self.mod, node, self.path, info, mode='function', visible=self.visible, outer=self)
        for n in consts:
            fn.env[n] = self.env[n]
        fn.translate(extra=[(n, self.env[n][1]) for n in free])
        self.local_funcs[node.name] = info


    # ------------------------------------------------------------------ the function
    def translate(self, extra=()):
        f, a = self.f, self.f.args
        if f.decorator_list:
            raise self.bad(f, 'decorated function')
        if a.kwarg or a.kwonlyargs or a.posonlyargs or a.vararg:
            raise self.bad(f, 'keyword-only / positional-only / * / ** parameters')
        names = [x.arg for x in a.args]
        defaults = [None] * (len(names) - len(a.defaults)) + list(a.defaults)
        pars = []
        for n, ty in extra:
            self.env[n] = ('v_' + n, ty)
            pars.append(f'(v_{n} : {coq_type(ty)})')
        start = 0
        if self.mode in ('init', 'method'):
            if not names or defaults[0] is not None:
                raise self.bad(f, 'method without a plain self parameter')
            self.selfname, start = names[0], 1
        for n in names[start:]:
            self.check_local_name(f, n)
        if self.mode == 'init':
            if len(names) != 1:
                raise self.bad(f, '__post_init__ with parameters')
            self.info.params = []
            lets = ''
            for attr, ty, init in self.cls.fields:
                if attr in self.cls.initial:
                    t, y = self.coerce(f, *self.expr(self.cls.initial[attr])[1:], ty)
                    lets += f'  let self_{attr} := {t} in\n'
                    self.attrs[attr] = (f'self_{attr}', y)
                elif init:
                    self.info.params.append((attr, ty, self.cls.defaults.get(attr)))
                    pars.append(f'(v_{attr} : {coq_type(ty)})')
                    self.attrs[attr] = (f'v_{attr}', ty)
            body = lets + self.block(list(f.body), '  ')
            self.info.ret = ('obj', self.cls.name)
        else:
            if self.mode == 'method':
                self.env[self.selfname] = ('v_' + self.selfname, ('obj', self.cls.name))
                pars.append(f'(v_{self.selfname} : {self.cls.name})')
                self.info.params = [(self.selfname, ('obj', self.cls.name), None)]
            else:
                self.info.params = []
            for x, d in list(zip(a.args, defaults))[start:]:
                ty = self.ann_type(x.annotation, param=True)
                self.info.params.append((x.arg, ty, d))
                self.env[x.arg] = ('v_' + x.arg, ty)
                pars.append(f'(v_{x.arg} : {coq_type(ty)})')
            body = self.block([s for s in f.body], '  ')
        rel = os.path.join(*self.path.split(os.sep)[-2:])
        text = (f'(* {self.cls.name + "." if self.cls else ""}{f.name}({ast.unparse(a)})   ({rel}:{f.lineno}) *)\n'
                f'Definition {self.info.coq} {" ".join(pars)} : res {coq_type(self.info.ret)} :=\n{body.rstrip()}.\n')
        if self.mode == 'init':
            return text
        self.mod.out.append(text)
        return text


# ---------------------------------------------------------------------- classes
def is_dataclass(node):
    return len(node.decorator_list) == 1 and isinstance(node.decorator_list[0], ast.Name) and node.decorator_list[0].id == 'dataclass'


def parse_fields(mod, node, path, helper):
    """dataclass fields of a class body -> [(name, type, init, default ast, initial ast)], has_solver"""
    out, has_solver = [], False
    for st in node.body:
        if not isinstance(st, ast.AnnAssign):
            continue
        if not isinstance(st.target, ast.Name) or not st.simple:
            raise Unsupported(f'{where(st, path)}: class {node.name}: field declaration {ast.unparse(st)}')
        name, v = st.target.id, st.value
        init, default, initial = True, None, None
        if v is None:
            pass
        elif isinstance(v, ast.Constant):
            default = v
        elif isinstance(v, ast.Call) and isinstance(v.func, ast.Name) and v.func.id == 'field' and not v.args:
            kw = {k.arg: k.value for k in v.keywords}
            if len(kw) != len(v.keywords) or not set(kw) <= {'default', 'init', 'default_factory'}:
                raise Unsupported(f'{where(st, path)}: class {node.name}: field(...) arguments of {name}')
            if 'init' in kw:
                if not (isinstance(kw['init'], ast.Constant) and kw['init'].value is False):
                    raise Unsupported(f'{where(st, path)}: class {node.name}: init= of {name}')
                init = False
            if 'default_factory' in kw:
                if not (isinstance(kw['default_factory'], ast.Name) and kw['default_factory'].id == 'list' and not init and 'default' not in kw):
                    raise Unsupported(f'{where(st, path)}: class {node.name}: default_factory of {name}')
                initial = ast.List(elts=[], ctx=ast.Load())
            elif 'default' in kw:
                if init:
                    default = kw['default']
                else:
                    initial = kw['default']
            elif not init:
                raise Unsupported(f'{where(st, path)}: class {node.name}: init=False field {name} without default')
        else:
            raise Unsupported(f'{where(st, path)}: class {node.name}: default of field {name}: {ast.unparse(v)}')
        if name == 'solver':
            if not (init and isinstance(default, ast.Name) and default.id == 'nodal_analysis_bias_point_solver'):
                raise Unsupported(f'{where(st, path)}: class {node.name}: the default of the field solver is not '
                                  f'nodal_analysis_bias_point_solver')
            has_solver = True
            continue
        if default is not None and not isinstance(default, ast.Constant):
            raise Unsupported(f'{where(st, path)}: class {node.name}: default of field {name}: {ast.unparse(default)}')
        out.append((name, helper.ann_type(st.annotation), init, default, initial))
    return out, has_solver


def is_helper_name(name):
    return name.startswith('_') and not name.startswith('__') and name not in KEPT_HELPERS


def method_deps(node, names, helpers=None, seen=()):
    """the methods of the class that `node` calls on self, looking through the (inlined) helpers"""
    deps = set()
    if not node.args.args:
        return deps
    for n in ast.walk(node):
        if isinstance(n, ast.Call) and isinstance(n.func, ast.Attribute) and isinstance(n.func.value, ast.Name) \
                and n.func.value.id == node.args.args[0].arg and n.func.attr in names:
            if helpers and n.func.attr in helpers:
                if n.func.attr not in seen:
                    deps |= method_deps(helpers[n.func.attr], names, helpers, tuple(seen) + (n.func.attr,))
            else:
                deps.add(n.func.attr)
    return deps


def translate_class(mod, node, path, visible, base_fields):
    if not is_dataclass(node):
        raise Unsupported(f'{where(node, path)}: class {node.name} is not decorated with exactly @dataclass')
    ci = ClassInfo(node.name, node, path)
    helper = Fn(mod, node, path, FunInfo(node.name, node.name, [], node, path), visible=visible)
    fields, ci.has_solver = parse_fields(mod, node, path, helper)
    fields = base_fields + fields
    methods = [st for st in node.body if isinstance(st, ast.FunctionDef)]
    for st in node.body:
        if isinstance(st, (ast.AnnAssign, ast.FunctionDef)):
            continue
        if isinstance(st, ast.Expr) and isinstance(st.value, ast.Constant) and isinstance(st.value.value, str):
            continue
        raise Unsupported(f'{where(st, path)}: class {node.name}: statement {ast.unparse(st).splitlines()[0][:60]}')
    names = [m.name for m in methods]
    if len(set(names)) != len(names):
        raise Unsupported(f'{where(node, path)}: class {node.name}: a method is defined twice')
    ci.helpers = {m.name: m for m in methods if is_helper_name(m.name)}
    ci.fields = [(n, t, i) for n, t, i, _, _ in fields]
    ci.defaults = {n: d for n, _, _, d, _ in fields if d is not None}
    ci.initial = {n: v for n, _, _, _, v in fields if v is not None}
    post = [m for m in methods if m.name == '__post_init__']
    if not post:
        raise Unsupported(f'{where(node, path)}: class {node.name} has no __post_init__')
    # attributes assigned in __post_init__ that are not dataclass fields, in order of first assignment
    for n in ast.walk(post[0]):
        if isinstance(n, ast.Assign):
            for t in n.targets:
                if isinstance(t, ast.Attribute) and isinstance(t.value, ast.Name) and t.value.id == post[0].args.args[0].arg \
                        and t.attr not in [a for a, _, _ in ci.fields]:
                    if not IDENT.match(t.attr):
                        raise Unsupported(f'{where(n, path)}: attribute name {t.attr}')
                    ci.fields.append((t.attr, None, False))
    mod.classes[node.name] = ci
    info = FunInfo('__post_init__', f'g_{node.name}_post_init', [], post[0], path)
    info.pyname = node.name
    ci.methods['post_init'] = info
    text = Fn(mod, post[0], path, info, cls=ci, mode='init', visible=visible).translate()
    rec = '; '.join(f'{node.name}_{a} : {coq_type(t)}' for a, t, _ in ci.fields)
    mod.out.append(f'(* class {node.name}   ({os.path.join(*path.split(os.sep)[-2:])}:{node.lineno}) *)\n'
                   f'Record {node.name} := {{ {rec} }}.\n')
    mod.out.append(text)
    # the other methods, callees first
    todo = [m for m in methods if m.name != '__post_init__' and m.name not in ci.helpers]
    deps = {m.name: method_deps(m, set(names), ci.helpers) - {m.name, '__post_init__'} for m in todo}
    done = set()
    while todo:
        ready = [m for m in todo if deps[m.name] <= done]
        if not ready:
            raise Unsupported(f'{where(todo[0], path)}: class {node.name}: methods call each other recursively')
        m = ready[0]
        todo.remove(m)
        key = SPECIAL.get(m.name, m.name)
        if m.name.startswith('__') and m.name not in SPECIAL:
            raise Unsupported(f'{where(m, path)}: special method {m.name}')
        info = FunInfo(m.name, f'g_{node.name}_{key}', [], m, path)
        ci.methods[key] = info
        Fn(mod, m, path, info, cls=ci, mode='method', visible=visible).translate()
        done.add(m.name)
    for h, m in ci.helpers.items():
        if not ci.helper_calls.get(h):
            raise Unsupported(f'{where(m, path)}: class {node.name}: the private helper {h} is never called by a translated method '
                              f'(helpers are translated only where they are inlined)')


# ---------------------------------------------------------------------- modules
def check_imports(tree, path, expected):
    bound = {}
    for st in tree.body:
        if isinstance(st, ast.Import):
            for al in st.names:
                bound[al.asname or al.name.split('.')[0]] = ('import', al.name)
        elif isinstance(st, ast.ImportFrom):
            for al in st.names:
                bound[al.asname or al.name] = ('from', st.level, st.module, al.name)
    for name, exp in expected.items():
        if bound.get(name) != exp:
            raise Unsupported(f'{path}: the name {name} is bound by {bound.get(name)}, expected {exp}')
    return bound


def check_sources(src):
    path = os.path.join(src, 'Network', 'network.py')
    for st in parse(path).body:
        if isinstance(st, ast.ClassDef) and st.name == 'Network':
            fields = [s.target.id for s in st.body if isinstance(s, ast.AnnAssign) and isinstance(s.target, ast.Name)]
            if fields != ['branches', 'node_zero_label']:
                raise Unsupported(f'{where(st, path)}: fields of Network are {fields}')
            break
    else:
        raise Unsupported(f'{path}: class Network not found')
    path = os.path.join(src, 'Circuit', 'components.py')
    for st in parse(path).body:
        if isinstance(st, ast.ClassDef) and st.name == 'Component':
            fields = [s.target.id for s in st.body if isinstance(s, ast.AnnAssign) and isinstance(s.target, ast.Name)]
            if fields != ['type', 'id', 'nodes', 'value']:
                raise Unsupported(f'{where(st, path)}: fields of Component are {fields}')
            break
    else:
        raise Unsupported(f'{path}: class Component not found')


def model_view(mod, f, path, info, view):
    """the model names the function that F = frequency_components applies to every component g_F_<view>, after the inner def of
    that name.  When F has no inner def <view> and its body calls exactly one PRIVATE module-level function H (one leading
    underscore), exactly once, with plain names as arguments, the same Coq name is emitted as a view of g_H with the parameter
    list an inner def would have: the arguments that are never-assigned parameters of F first (in F's order: the `captured`
    ones), then the other parameters of H in H's order.  Anything else: no view (the statements naming it count as broken)."""
    calls = [c for c in ast.walk(f) if isinstance(c, ast.Call) and isinstance(c.func, ast.Name) and c.func.id.startswith('_')
             and not c.func.id.startswith('__') and c.func.id in mod.functions]
    if len(calls) != 1:
        return
    c = calls[0]
    h = mod.functions[c.func.id]
    uses = [n for n in ast.walk(f) if isinstance(n, ast.Name) and n.id == c.func.id]
    if len(uses) != 1 or c.keywords or len(c.args) != len(h.params) or not all(isinstance(x, ast.Name) for x in c.args) \
            or len({x.id for x in c.args}) != len(c.args):
        return
    assigned = {t.id for st in ast.walk(f) for t in ast.walk(st) if isinstance(t, ast.Name) and isinstance(t.ctx, ast.Store)}
    fparams = [p[0] for p in info.params]
    by_arg = {x.id: hp for x, hp in zip(c.args, h.params)}          # argument name -> (parameter of H, type, default)
    captured = [a for a in fparams if a in by_arg and a not in assigned]
    own = [x.id for x in c.args if x.id not in captured]
    order = captured + own
    name = f'{info.coq}_{view}'
    pars = ' '.join(f'(v_{by_arg[a][0]} : {coq_type(by_arg[a][1])})' for a in order)
    rel = os.path.join(*path.split(os.sep)[-2:])
    mod.out.append(f'(* the function that {f.name} applies to every component, under the name an inner def {view} would have: '
                   f'{c.func.id}   ({rel}:{h.node.lineno}) *)\n'
                   f'Definition {name} {pars} : res {coq_type(h.ret)} :=\n  {h.coq} '
                   + ' '.join(f'v_{hp[0]}' for hp in h.params) + '.\n')
    mod.private_functions.append(name)


def translate_module(mod, src, fname):
    path = os.path.join(src, 'Circuit', fname)
    tree = parse(path)
    bound = check_imports(tree, path, EXPECTED_IMPORTS[fname])
    mod.imports = bound
    visible = {n for n in EXPECTED_IMPORTS[fname] if n in ('np', 'transformers', 'Network')}
    for n in ('Circuit', 'transform', 'frequency_components'):
        if fname == 'solution.py' and n in EXPECTED_IMPORTS[fname]:
            visible.add(n)
    seen = set()
    for st in tree.body:
        if isinstance(st, (ast.Import, ast.ImportFrom)):
            continue
        if isinstance(st, ast.ClassDef):
            if st.name in seen or st.name in bound:
                raise Unsupported(f'{where(st, path)}: the name {st.name} is defined twice')
            seen.add(st.name)
            if len(st.bases) == 1 and isinstance(st.bases[0], ast.Name) and st.bases[0].id == 'Exception' and not st.decorator_list \
                    and not st.keywords and len(st.body) == 1 and isinstance(st.body[0], ast.Pass):
                if st.name not in MODULE_EXC:
                    raise Unsupported(f'{where(st, path)}: exception class {st.name} has no counterpart in the model')
                mod.exceptions[st.name] = MODULE_EXC[st.name]
                visible.add(st.name)
                continue
            if st.name in SKIPPED_CLASSES:
                if st.name == 'CircuitSolution':
                    helper = Fn(mod, st, path, FunInfo(st.name, st.name, [], st, path), visible=visible)
                    mod.base_fields, solver = parse_fields(mod, st, path, helper)
                    if solver or [f[0] for f in mod.base_fields] != ['circuit'] or mod.base_fields[0][1] != ('obj', 'Circuit'):
                        raise Unsupported(f'{where(st, path)}: fields of CircuitSolution are not [circuit: Circuit]')
                continue
            bases = [ast.unparse(b) for b in st.bases]
            if st.keywords or bases not in ([], ['CircuitSolution']):
                raise Unsupported(f'{where(st, path)}: bases of class {st.name}: {bases}')
            if bases and not hasattr(mod, 'base_fields'):
                raise Unsupported(f'{where(st, path)}: class {st.name} precedes its base class')
            visible.add(st.name)
            translate_class(mod, st, path, visible, list(mod.base_fields) if bases else [])
            continue
        if isinstance(st, ast.FunctionDef):
            if st.name in seen or st.name in bound:
                raise Unsupported(f'{where(st, path)}: the name {st.name} is defined twice')
            seen.add(st.name)
            if st.name in SKIPPED_FUNCTIONS:
                continue
            if not IDENT.match(st.name):
                raise Unsupported(f'{where(st, path)}: function name {st.name}')
            info = FunInfo(st.name, f'g_{st.name}', [], st, path)
            fn = Fn(mod, st, path, info, mode='function', visible=visible)
            fn.translate()
            mod.functions[st.name] = info
            visible.add(st.name)
            if st.name.startswith('_'):
                mod.private_functions.append(info.coq)
            if st.name in MODEL_VIEWS and MODEL_VIEWS[st.name] not in fn.local_funcs:
                model_view(mod, st, path, info, MODEL_VIEWS[st.name])
            continue
        raise Unsupported(f'{where(st, path)}: top-level statement {ast.unparse(st).splitlines()[0][:70]}')


HEADER = '''(* GENERATED by tools/gen_circuit.py from Circuit/circuit.py and Circuit/solution.py — do not edit.
   One definition per function / method, one Record per class, in the vocabulary of Model/CircuitGenPrims.v,
   Model/CircuitPrims.v, Model/Circuit.v, Model/Network.v; Theory/CircuitGenThm.v proves each equal to the hand-written
   model (Model/Circuit.v, Theory/MultiFreq.v, Model/CircuitMore.v).  Not translated: w(f), CircuitSolution (abstract),
   TransientSolution, the dataclass field `solver` (fixed to its default nodal_analysis_bias_point_solver). *)
From Coq Require Import List Bool NArith ZArith Arith String.
From CC Require Import Theory.Field Theory.Complex Model.Network Model.Circuit Model.CircuitPrims Model.CircuitGenPrims.
Import ListNotations.
Local Open Scope string_scope.
Local Open Scope list_scope.
Local Open Scope bool_scope.

Section GenCircuit.
Variable R : fops.
Variable leb : R -> R -> bool.
Variable rnd : R -> Z.
Variable ofZ : Z -> R.
Variable flr : R -> Z.        (* np.floor *)
Variable sqrt2 : R.           (* np.sqrt(2) *)
@DEFAULTS@Notation C := (Cx R).
Notation comp := (Model.Circuit.comp R).
Notation "'let*' x ':=' p 'in' q" := (bind p (fun x => q)) (at level 200, x pattern, p at level 100, q at level 200).
Notation vget := (Model.Circuit.vget R).
Notation node_at := (Model.Circuit.node_at R).
Notation rsort_dedup := (Model.Circuit.rsort_dedup R leb).
Notation py_gt := (Model.CircuitPrims.py_gt R leb).
Notation py_ge := (Model.CircuitPrims.py_ge R leb).
Notation py_lt := (Model.CircuitPrims.py_lt R leb).
Notation py_le := (Model.CircuitPrims.py_le R leb).
Notation ctype := (Model.CircuitGenPrims.ctype R).
Notation py_div := (Model.CircuitGenPrims.py_div R).
Notation transformers_call := (Model.CircuitGenPrims.transformers_call R leb rnd ofZ).
Notation in_transformers := (Model.CircuitGenPrims.in_transformers R).
Notation Network_ctor := (Model.CircuitGenPrims.Network_ctor R).
Notation solver_call := (Model.CircuitGenPrims.solver_call R).
Notation get_voltage := (Model.Network.get_voltage (K:=C)).
Notation get_current := (Model.Network.get_current (K:=C)).
Notation get_potential := (Model.Network.get_potential (K:=C)).

'''


def generate(src):
    check_sources(src)
    mod = Module()
    translate_module(mod, src, 'circuit.py')
    translate_module(mod, src, 'solution.py')
    dfl = ''
    for var, lit in sorted(mod.defaults.items()):
        dfl += (f'Variable {var} : R.        (* the value of the parameter default {lit} *)\n'
                f'Definition {var}_literal : string := "{lit}".\n')
    text = HEADER.replace('@DEFAULTS@', dfl) + '\n'.join(mod.out) + '\nEnd GenCircuit.\n'
    text += ('\n(* the private module-level functions (one leading underscore) and the views of them under the names of the model: the\n'
             '   proofs look through them, whatever their names (`autounfold with gen_circuit_helpers`) *)\nCreate HintDb gen_circuit_helpers.\n')
    if mod.private_functions:
        text += '#[global] Hint Unfold ' + ' '.join(mod.private_functions) + ' : gen_circuit_helpers.\n'
    return {'CircuitGen.v': text}
