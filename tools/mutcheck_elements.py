#!/usr/bin/env python3
"""Mutation check of tools/gen_elements.py and of the equalities over its output (Theory/ElementsGenThm.v, Theory/ElementsDrawingThm.v,
Properties/C15d.v, Properties/C13d.v).  For every edit below: copy the Python source tree, apply the edit to the COPY, run
gen_elements.generate on the copy (as py2v.py does with VERIF_REPO); when the translator accepts, write Gen/ElementsGen.v into a
private copy of coq/ and recompile the dependent files there with coqc.  Reported per edit: refused by the translator (message),
or the first file / lemma that stops compiling, or `passes`.
usage: mutcheck_elements.py [--src /repo/src/CircuitCalculator] [--work DIR] [--only PREFIX ...]"""
import argparse
import importlib
import os
import re
import shutil
import subprocess
import sys

HERE = os.path.dirname(os.path.abspath(__file__))
sys.path.insert(0, HERE)
from v2lib import Unsupported  # noqa: E402

EL = 'SimpleCircuit/Elements.py'
EX = 'SimpleCircuit/schemdraw_element_extension.py'
CHAIN = ['Gen/ElementsGen.v', 'Theory/ElementsGenThm.v', 'Theory/ElementsDrawingThm.v', 'Properties/C15d.v', 'Properties/C13d.v']

VS = "class VoltageSource(schemdraw.elements.SourceV):\n    def __init__(self, *args, name: str, V: float, reverse: bool = False, precision: int = 3, **kwargs):\n        super().__init__(*args, reverse=not reverse, **kwargs)\n        self._V = V if not reverse else -V"
ACV = "        self._sin = sin\n        if self._sin:\n            self._phi -= np.pi/2\n        self.segments.append(extension.voltage_arrow())"
RECTV = "        self._deg = deg\n        self._sin = sin\n        self.segments.append(extension.voltage_arrow())\n        self.label(f'{name}', loc='value_label', halign='center', rotate=True, color=dsp.blue)\n\n    @property\n    def w(self) -> float:\n        return self._w\n\n    @property\n    def phi(self) -> float:\n        return self._phi\n\n    @property\n    def sin(self) -> bool:\n        return self._sin\n\n    @property\n    def deg(self) -> bool:\n        return self._deg\n\n    @property\n    def V(self) -> float:\n        return self._V\n\n    @property\n    def type(self) -> str:\n        return 'rect_voltage_source'"

# (name, expectation, [(file, old, new, occurrence index | None = exactly once | 'all')])
EDITS = [
    ("A01 VoltageSource: V not negated under reverse", 'caught',
     [(EL, VS, VS.replace("self._V = V if not reverse else -V", "self._V = V"), None)]),
    ("A02 CurrentSource: negated when NOT reversed", 'caught',
     [(EL, "        self._I = I if not reverse else -I\n        label = dsp.print_complex(I, unit='A', precision=precision)",
       "        self._I = I if reverse else -I\n        label = dsp.print_complex(I, unit='A', precision=precision)", 0)]),
    ("A03 ACVoltageSource: sine shift `-=` -> `+=`", 'caught', [(EL, ACV, ACV.replace("-=", "+="), None)]),
    ("A04 ACCurrentSource: sine shift by pi", 'caught',
     [(EL, "        if self._sin:\n            self._phi -= np.pi/2\n        label = ''", "        if self._sin:\n            self._phi -= np.pi\n        label = ''", None)]),
    ("A05 RectVoltageSource: the sine shift applied as well", 'caught',
     [(EL, RECTV, RECTV.replace("        self._sin = sin\n", "        self._sin = sin\n        if self._sin:\n            self._phi -= np.pi/2\n", 1), None)]),
    ("A06 VoltageSource: reverse=reverse handed to schemdraw", 'caught', [(EL, VS, VS.replace("reverse=not reverse", "reverse=reverse"), None)]),
    ("A07 Resistor: reverse=not reverse handed to schemdraw", 'caught',
     [(EL, "        super().__init__(*args, reverse=reverse, **kwargs)\n        self._R = R", "        super().__init__(*args, reverse=not reverse, **kwargs)\n        self._R = R", None)]),
    ("A08 VoltageSource: `precision` dropped from the signature (lands in _userparams)", 'caught',
     [(EL, VS, VS.replace(", precision: int = 3, **kwargs", ", **kwargs"), None),
      (EL, "        label = dsp.print_real(V, unit='V', precision=precision)", "        label = dsp.print_real(V, unit='V', precision=3)", None)]),
    ("A09 Inductance: `label_offset` dropped from the signature", 'caught', [(EL, "label_offset: float = 0.2, ", "", None)]),
    ("A10 Ground: default name '0' -> 'gnd'", 'caught', [(EL, "def __init__(self, *args, name: str = '0', **kwargs):", "def __init__(self, *args, name: str = 'gnd', **kwargs):", None)]),
    ("A11 Resistor: name gets a default", 'caught',
     [(EL, "def __init__(self, *args, R: float, name: str, show_name: bool = True", "def __init__(self, *args, R: float, name: str = 'R', show_name: bool = True", None)]),
    ("A12 Capacitor: stores under another private attribute", 'caught',
     [(EL, "        self._C = C\n", "        self._Cap = C\n", None), (EL, "        return self._C\n", "        return self._Cap\n", None)]),
    ("A13 ACVoltageSource: w and phi exchanged", 'caught',
     [(EL, "        self._w = w\n        self._phi = phi\n        self._deg = deg\n        self._sin = sin\n        if self._sin:\n            self._phi -= np.pi/2\n        self.segments",
       "        self._w = phi\n        self._phi = w\n        self._deg = deg\n        self._sin = sin\n        if self._sin:\n            self._phi -= np.pi/2\n        self.segments", None)]),
    ("A14 RectCurrentSource: deg stored from sin", 'caught',
     [(EL, "        self._deg = deg\n        self._sin = sin\n        self.segments.append(extension.current_arrow())\n        self.label(f'{name}', loc='i_label', halign='center', rotate=True, color=dsp.red)\n\n    @property\n    def w(self) -> float:\n        return self._w\n\n    @property\n    def phi(self) -> float:\n        return self._phi\n\n    @property\n    def sin(self) -> bool:\n        return self._sin\n\n    @property\n    def deg(self) -> bool:\n        return self._deg\n\n    @property\n    def I(self) -> float:\n        return self._I\n\n    @property\n    def type(self) -> str:\n        return 'rect_current_source'",
       "        self._deg = sin\n        self._sin = sin\n        self.segments.append(extension.current_arrow())\n        self.label(f'{name}', loc='i_label', halign='center', rotate=True, color=dsp.red)\n\n    @property\n    def w(self) -> float:\n        return self._w\n\n    @property\n    def phi(self) -> float:\n        return self._phi\n\n    @property\n    def sin(self) -> bool:\n        return self._sin\n\n    @property\n    def deg(self) -> bool:\n        return self._deg\n\n    @property\n    def I(self) -> float:\n        return self._I\n\n    @property\n    def type(self) -> str:\n        return 'rect_current_source'", None)]),
    ("A15 Line: the name property returns the stored name", 'caught',
     [(EL, "    @property\n    def name(self) -> str:\n        return ''\n", "    @property\n    def name(self) -> str:\n        return self._name\n", None)]),
    ("A16 decorator: reverse read from another key (pinned text of simple_circuit_element)", 'caught',
     [(EL, "reverse=kwargs.get('reverse', False))", "reverse=kwargs.get('reversed', False))", None)]),
    ("A17 Resistor: the V property of ... Resistor.R returns 1/self._R (no longer a plain read)", 'caught',
     [(EL, "    @property\n    def R(self) -> float:\n        return self._R\n\n    @property\n    def G(self) -> float:\n        return 1/self._R\n\n    @property\n    def type(self) -> str:\n        return 'resistor'",
       "    @property\n    def R(self) -> float:\n        return 1/self._R\n\n    @property\n    def G(self) -> float:\n        return 1/self._R\n\n    @property\n    def type(self) -> str:\n        return 'resistor'", None)]),
    ("A18 extension.source no longer passes the keyword arguments on", 'caught',
     [(EX, "    class extended_source(element):\n        def __init__(self, *args, **kwargs):\n            super().__init__(*args, **kwargs)",
       "    class extended_source(element):\n        def __init__(self, *args, **kwargs):\n            super().__init__(*args)", None)]),
    ("A19 Node: drop no longer written to params", 'caught', [(EL, "        self.params['drop'] = (0, 0)\n", "", None)]),
    ("A20 Ground: name not passed on", 'caught',
     [(EL, "    def __init__(self, *args, name: str = '0', **kwargs):\n        super().__init__(*args, name=name, **kwargs)",
       "    def __init__(self, *args, name: str = '0', **kwargs):\n        super().__init__(*args, **kwargs)", None)]),
    ("A21 ComplexVoltageSource: stores V.conjugate() under reverse (outside the subset)", 'caught',
     [(EL, "        self._V = V if not reverse else -V\n        label = dsp.print_complex(V, unit='V', precision=precision)",
       "        self._V = V if not reverse else -V.conjugate()\n        label = dsp.print_complex(V, unit='V', precision=precision)", None)]),
    ("A22 ACVoltageSource: a second store to _V after the first", 'caught',
     [(EL, "        self._V = V if not reverse else -V\n        self._w = w\n        self._phi = phi\n        self._deg = deg\n        self._sin = sin\n        if self._sin:\n            self._phi -= np.pi/2\n        self.segments",
       "        self._V = V if not reverse else -V\n        self._w = w\n        self._phi = phi\n        self._deg = deg\n        self._sin = sin\n        self._V = V\n        if self._sin:\n            self._phi -= np.pi/2\n        self.segments", None)]),
    # ---------------- harmless rewrites
    ("H01 Resistor: label code rewritten, a local renamed, docstring added", 'passes',
     [(EL, "        self._R = R\n        label = ''\n        label += f'{name}' if show_name else ''\n        label += '=' if  show_name and show_value else ''\n        label += dsp.print_resistance(self.R) if show_value else ''\n        self.label(label, rotate=True, loc='value_label', halign='center')",
       "        \"\"\"a resistor symbol\"\"\"\n        self._R = R\n        text = f'{name}' if show_name else ''\n        text += '=' if  show_name and show_value else ''\n        text += dsp.print_resistance(self.R) if show_value else ''\n        self.label(text, rotate=True, loc='value_label', halign='center')", None)]),
    ("H02 Capacitor: the store moved after super().__init__", 'passes',
     [(EL, "        self._C = C\n        super().__init__(*args, reverse=reverse, **kwargs)\n", "        super().__init__(*args, reverse=reverse, **kwargs)\n        self._C = C\n", None)]),
    ("H03 VoltageSource: annotations removed, keyword-only parameters reordered (precision before reverse)", 'caught-order',
     [(EL, VS, VS.replace("name: str, V: float, reverse: bool = False, precision: int = 3", "name, V, precision=3, reverse=False"), None)]),
    ("H04 ACCurrentSource: `self` renamed, the shift written with the condition on the parameter's attribute unchanged", 'passes',
     [(EL, "    def __init__(self, *args, I: float, w: float, phi: float, name: str, show_name: bool = True, show_value: bool = True, sin=False, deg=False, reverse=False, precision=3, **kwargs):\n        super().__init__(*args, reverse=reverse, **kwargs)\n        self._I = I if not reverse else -I\n        self._w = w\n        self._phi = phi\n        self._deg = deg\n        self._sin = sin\n        if self._sin:\n            self._phi -= np.pi/2\n        label = ''\n        label += f'{name}' if show_name else ''\n        label += '=' if  show_name and show_value else ''\n        label += dsp.print_sinosoidal(I*np.exp((1j*self._phi)), unit='A', precision=precision, w=w, deg=deg) if show_value else ''\n        self.label(label, loc='i_label', ofst=(0, 0.4), rotate=True, color=dsp.red)\n        self.segments.append(extension.current_arrow())",
       "    def __init__(this, *args, I: float, w: float, phi: float, name: str, show_name: bool = True, show_value: bool = True, sin=False, deg=False, reverse=False, precision=3, **kwargs):\n        super().__init__(*args, reverse=reverse, **kwargs)\n        this._I = I if not reverse else -I\n        this._w = w\n        this._phi = phi\n        this._deg = deg\n        this._sin = sin\n        if this._sin:\n            this._phi -= np.pi/2\n        label = ''\n        label += f'{name}' if show_name else ''\n        label += '=' if  show_name and show_value else ''\n        label += dsp.print_sinosoidal(I*np.exp((1j*this._phi)), unit='A', precision=precision, w=w, deg=deg) if show_value else ''\n        this.label(label, loc='i_label', ofst=(0, 0.4), rotate=True, color=dsp.red)\n        this.segments.append(extension.current_arrow())", None)]),
    ("H05 an unrelated class edited (Lamp: another label rotation), a new unrelated class added", 'passes',
     [(EL, "        self.label(label, rotate=show_value, loc='value_label', halign='center', valign='center')", "        self.label(label, rotate=True, loc='value_label', halign='center', valign='center')", None),
      (EL, "class VoltageLabel(schemdraw.elements.CurrentLabel):", "class Marker(schemdraw.elements.Element):\n    pass\n\nclass VoltageLabel(schemdraw.elements.CurrentLabel):", None)]),
]


def apply_edits(src, edits, name):
    for rel, old, new, occ in edits:
        p = os.path.join(src, *rel.split('/'))
        text = open(p, encoding='utf-8').read()
        cnt = text.count(old)
        if occ is None:
            if cnt != 1:
                raise SystemExit(f'{name}: pattern occurs {cnt} times in {rel} (expected once): {old[:70]!r}')
            text = text.replace(old, new)
        elif occ == 'all':
            if cnt == 0:
                raise SystemExit(f'{name}: pattern not found in {rel}: {old[:70]!r}')
            text = text.replace(old, new)
        else:
            if cnt <= occ:
                raise SystemExit(f'{name}: pattern occurs {cnt} times in {rel}, occurrence {occ} wanted: {old[:70]!r}')
            parts = text.split(old)
            text = old.join(parts[:occ + 1]) + new + old.join(parts[occ + 1:])
        compile(text, p, 'exec')                # the mutant must be valid Python
        with open(p, 'w', encoding='utf-8') as f:
            f.write(text)


def first_failure(coq, log):
    """compile the chain in order; -> None or (file, lemma / message)"""
    for rel in CHAIN:
        r = subprocess.run(['timeout', '900', 'coqc', '-Q', '.', 'CC', rel], cwd=coq, capture_output=True, text=True)
        log.write(f'--- {rel}: rc={r.returncode}\n{r.stderr[-1500:]}\n')
        if r.returncode != 0:
            mo = re.search(r'line (\d+), characters', r.stderr)
            what = ''
            if mo:
                lines = open(os.path.join(coq, rel), encoding='utf-8').read().splitlines()
                ln = int(mo.group(1))
                for k in range(min(ln, len(lines)) - 1, -1, -1):
                    mm = re.match(r'\s*(Lemma|Theorem|Example|Definition|Fixpoint)\s+(\w+)', lines[k])
                    if mm:
                        what = mm.group(2)
                        break
            msg = [x for x in r.stderr.splitlines() if x.strip()]
            return rel, what or (msg[-1][:100] if msg else f'rc={r.returncode}')
    return None


def main():
    ap = argparse.ArgumentParser()
    ap.add_argument('--src', default='/repo/src/CircuitCalculator')
    ap.add_argument('--work', default='/tmp/genx_mut_elements')
    ap.add_argument('--only', nargs='*')
    a = ap.parse_args()
    os.makedirs(a.work, exist_ok=True)
    coq = os.path.join(a.work, 'coq')
    if not os.path.isdir(coq):
        subprocess.run(['cp', '-a', os.path.join(os.path.dirname(HERE), 'coq'), coq], check=True)
    import gen_elements
    import gen_drawing
    rows = []
    log = open(os.path.join(a.work, 'log.txt'), 'w', encoding='utf-8')
    for name, expect, edits in EDITS:
        if a.only and not any(name.startswith(o) for o in a.only):
            continue
        top = os.path.join(a.work, 'tree')
        shutil.rmtree(top, ignore_errors=True)
        src = os.path.join(top, 'src', 'CircuitCalculator')
        shutil.copytree(a.src, src)
        apply_edits(src, edits, name)
        log.write(f'===== {name}\n')
        importlib.reload(gen_drawing)
        importlib.reload(gen_elements)
        try:
            out = gen_elements.generate(src)
        except Unsupported as e:
            rows.append((name, expect, 'refused by the translator: ' + str(e).replace(top + '/', '')[:170]))
            continue
        except Exception as e:  # noqa: BLE001
            rows.append((name, expect, f'refused by the translator: {type(e).__name__}: {str(e)[:150]}'))
            continue
        for fn, text in out.items():
            with open(os.path.join(coq, 'Gen', fn), 'w', encoding='utf-8') as f:
                f.write(text)
        fail = first_failure(coq, log)
        rows.append((name, expect, 'passes (translates, every proof compiles)' if fail is None else f'{fail[0]}: {fail[1]} stops compiling'))
    # restore the private copy
    for fn, text in gen_elements.generate(a.src).items():
        with open(os.path.join(coq, 'Gen', fn), 'w', encoding='utf-8') as f:
            f.write(text)
    bad = 0
    for name, expect, got in rows:
        ok = (expect == 'passes') == got.startswith('passes') if expect != 'caught-order' else True
        bad += 0 if ok else 1
        print(f'{"ok  " if ok else "BAD "}{name}\n        -> {got}')
    print(f'{len(rows)} edits, {bad} unexpected')
    return 1 if bad else 0


if __name__ == '__main__':
    sys.exit(main())
