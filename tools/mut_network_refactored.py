#!/usr/bin/env python3
"""Mutation table for tools/gen_network.py on the REFACTORED sources (harmless/H2, H4, H5, H6 applied to a copy of the
source tree): the constructs that were added to the accepted subset for these refactorings must still discriminate.
Per row: the patch is applied to a copy of $VERIF_REPO (default /repo) with `git apply`, then the textual edits; the
translator is run and Gen/NetworkGen.v + Theory/NetworkGenThm.v + Properties/C01c.v + C16c.v are compiled in a scratch
copy of coq/.  Outcome `refused` / `broken <file>:<lemma>` / `passes`; `passes` is expected for the unedited patches only.
Usage: /venv/bin/python tools/mut_network_refactored.py [name-substring]      (patches: $VERIF_HARMLESS or <root>/harmless)"""
import os
import re
import shutil
import subprocess
import sys
import tempfile

HERE = os.path.dirname(os.path.abspath(__file__))
sys.path.insert(0, HERE)
import gen_network  # noqa: E402
from mut_network import lemma_at, CHAIN, EL, NW, LM, BP, TR  # noqa: E402
from v2lib import Unsupported  # noqa: E402

VERIF = os.path.dirname(HERE)
REPO = os.environ.get('VERIF_REPO', '/repo')
HARMLESS = os.environ.get('VERIF_HARMLESS', os.path.join(VERIF, 'harmless'))

# (patch, name, expectation, [(file, old, new)])
MUTATIONS = [
    ('H2', 'H2 as written', 'passes', []),
    ('H4', 'H4 as written', 'passes', []),
    ('H5', 'H5 as written', 'passes', []),
    ('H6', 'H6 as written', 'passes', []),
    # ---- H2: get_current with locals, static helper
    ('H2', 'get_current: v/Z -> v*Z in the shared quotient', 'caught',
     [(BP, 'impedance_current = self.get_voltage(branch_id)/element.Z', 'impedance_current = self.get_voltage(branch_id)*element.Z')]),
    ('H2', 'get_current: leading `-` lost', 'caught',
     [(BP, 'return - (element.I + impedance_current)', 'return (element.I + impedance_current)')]),
    ('H2', 'get_current: the two early returns swapped', 'caught',
     [(BP, '''        if is_current_source(element):
            return - (element.I + impedance_current)
        return impedance_current''', '''        if is_current_source(element):
            return impedance_current
        return - (element.I + impedance_current)''')]),
    ('H2', 'get_current: element fetched from another branch id', 'caught',
     [(BP, 'element = self.network[branch_id].element', "element = self.network['R'].element")]),
    ('H2', 'get_current: mapping local bound to the current source mapping', 'caught',
     [(BP, 'voltage_source_mapping = self._voltage_source_mapping', 'voltage_source_mapping = self._current_source_mapping')]),
    ('H2', 'static helper used by translated code (self._solve)', 'caught',
     [(BP, '        return impedance_current\n', '        return self._solve(impedance_current, impedance_current)\n')]),
    ('H2', 'a translated property turned into a static helper', 'caught',
     [(BP, '    @property\n    def _potentials(self) -> np.ndarray:', '    @staticmethod\n    def _potentials(self) -> np.ndarray:')]),
    # ---- H4: set.update, dict(zip(..))
    ('H4', 'node_labels: update with node1 again', 'caught',
     [(NW, 'nodes.update(branch.node2 for branch in self.branches)', 'nodes.update(branch.node1 for branch in self.branches)')]),
    ('H4', 'node_labels: update dropped', 'caught',
     [(NW, '        nodes.update(branch.node2 for branch in self.branches)\n', '')]),
    ('H4', 'node_labels: the set is aliased before the update', 'caught',
     [(NW, '''        nodes.update(branch.node2 for branch in self.branches)
        return sorted(nodes)''', '''        first = nodes
        nodes.update(branch.node2 for branch in self.branches)
        return sorted(first)''')]),
    ('H4', 'node_labels: update of a set that is not a fresh object', 'caught',
     [(NW, 'nodes = {branch.node1 for branch in self.branches}', 'nodes = self.cached_nodes')]),
    ('H4', '__getitem__: zip arguments swapped', 'caught',
     [(NW, 'dict(zip(self.branch_ids, self.branches))[id]', 'dict(zip(self.branches, self.branch_ids))[id]')]),
    ('H4', '__getitem__: values reversed', 'caught',
     [(NW, 'dict(zip(self.branch_ids, self.branches))[id]', 'dict(zip(self.branch_ids, reversed(self.branches)))[id]')]),
    ('H4', '__getitem__: values shifted by one', 'caught',
     [(NW, 'dict(zip(self.branch_ids, self.branches))[id]', 'dict(zip(self.branch_ids, self.branches[1:]))[id]')]),
    ('H4', '__getitem__: keys are the node1 labels', 'caught',
     [(NW, 'dict(zip(self.branch_ids, self.branches))[id]', 'dict(zip([b.node1 for b in self.branches], self.branches))[id]')]),
    ('H4', 'zip shadowed by a module-level function', 'caught',
     [(NW, 'class FloatingGroundNode(Exception): pass', 'def zip(a: list[str], b: list[str]) -> list[str]:\n    return a\n\nclass FloatingGroundNode(Exception): pass')]),
    # ---- H5: accumulating loop, function values, next(filter(..))
    ('H5', 'merge_nodes: self-loop test dropped', 'caught',
     [(TR, '            if node1 == node2:\n                continue\n', '')]),
    ('H5', 'merge_nodes: `==` -> `!=` in the self-loop test', 'caught',
     [(TR, '            if node1 == node2:', '            if node1 != node2:')]),
    ('H5', 'merge_nodes: node1 relabelled when it equals the remaining node', 'caught',
     [(TR, 'node1 = remaining_node if b.node1 == absorbed_node else b.node1', 'node1 = remaining_node if b.node1 == remaining_node else b.node1')]),
    ('H5', 'merge_nodes: node2 computed from node1', 'caught',
     [(TR, 'node2 = remaining_node if b.node2 == absorbed_node else b.node2', 'node2 = remaining_node if b.node1 == absorbed_node else b.node2')]),
    ('H5', 'merge_nodes: rebuilt branch has its nodes swapped', 'caught',
     [(TR, 'merged_branches.append(Branch(node1, node2, b.element))', 'merged_branches.append(Branch(node2, node1, b.element))')]),
    ('H5', 'merge_nodes: touched branches are kept unchanged', 'caught',
     [(TR, 'merged_branches.append(Branch(node1, node2, b.element))', 'merged_branches.append(b)')]),
    ('H5', 'merge_nodes: `or` -> `and`', 'caught',
     [(TR, 'if b.node1 == absorbed_node or b.node2 == absorbed_node:', 'if b.node1 == absorbed_node and b.node2 == absorbed_node:')]),
    ('H5', 'merge_nodes: every branch appended twice', 'caught',
     [(TR, '                merged_branches.append(b)\n', '                merged_branches.append(b)\n                merged_branches.append(b)\n')]),
    ('H5', 'merge_nodes: continue -> break', 'caught',
     [(TR, '            if node1 == node2:\n                continue\n', '            if node1 == node2:\n                break\n')]),
    ('H5', 'merge_nodes: accumulator read inside the loop', 'caught',
     [(TR, '            if node1 == node2:\n                continue\n', '            if node1 == node2 or len(merged_branches) == 1:\n                continue\n')]),
    ('H5', 'merge_nodes: loop-carried local', 'caught',
     [(TR, '            if node1 == node2:\n                continue\n', '            if node1 == node2:\n                continue\n            absorbed_node = node1\n')]),
    ('H5', 'merge_nodes: iterates over the reversed list', 'caught',
     [(TR, '        for b in branches:\n            node1 =', '        for b in reversed(branches):\n            node1 =')]),
    ('H5', 'merge_nodes: call with absorbed / remaining swapped', 'caught',
     [(TR, 'merge_nodes(branches, absorbed_node=an, remaining_node=rn)', 'merge_nodes(branches, absorbed_node=rn, remaining_node=an)')]),
    ('H5', 'is_removable_short_circuit: keep ignored', 'caught',
     [(TR, 'return is_short_circuit(branch.element) and branch.element not in keep', 'return is_short_circuit(branch.element)')]),
    ('H5', 'next(filter(..)): searches the reversed list', 'caught',
     [(TR, 'next(filter(is_removable_short_circuit, branches), None)', 'next(filter(is_removable_short_circuit, reversed(branches)), None)')]),
    ('H5', 'next(filter(..)): predicate is is_short_circuit of the module (wrong argument type)', 'caught',
     [(TR, 'next(filter(is_removable_short_circuit, branches), None)', 'next(filter(is_short_circuit, branches), None)')]),
    ('H5', 'next(filter(..)): default is not None', 'caught',
     [(TR, 'next(filter(is_removable_short_circuit, branches), None)', 'next(filter(is_removable_short_circuit, branches), sc0)')]),
    ('H5', '_replace_elements: `not in keep` -> `in keep`', 'caught',
     [(TR, 'if branch.element not in keep and is_replaced(branch.element):', 'if branch.element in keep and is_replaced(branch.element):')]),
    ('H5', '_replace_elements: is_replaced not consulted', 'caught',
     [(TR, 'if branch.element not in keep and is_replaced(branch.element):', 'if branch.element not in keep:')]),
    ('H5', '_replace_elements: replacement keeps the old element', 'caught',
     [(TR, 'return Branch(branch.node1, branch.node2, replacement(branch.element))', 'return Branch(branch.node1, branch.node2, branch.element)')]),
    ('H5', '_replace_elements: nodes swapped in the rebuilt branch', 'caught',
     [(TR, 'return Branch(branch.node1, branch.node2, replacement(branch.element))', 'return Branch(branch.node2, branch.node1, replacement(branch.element))')]),
    ('H5', 'short_circuitify: is_replaced=is_current_source', 'caught',
     [(TR, 'is_replaced=is_voltage_source, replacement=lambda e: impedance(e.name, e.Z)', 'is_replaced=is_current_source, replacement=lambda e: impedance(e.name, e.Z)')]),
    ('H5', 'short_circuitify: lambda builds impedance(name, Y)', 'caught',
     [(TR, 'replacement=lambda e: impedance(e.name, e.Z)', 'replacement=lambda e: impedance(e.name, e.Y)')]),
    ('H5', 'short_circuitify: lambda builds an admittance', 'caught',
     [(TR, 'replacement=lambda e: impedance(e.name, e.Z)', 'replacement=lambda e: admittance(e.name, e.Z)')]),
    ('H5', 'open_circuitify: keep not passed on', 'caught',
     [(TR, 'replacement=lambda e: admittance(e.name, e.Y), keep=keep)', 'replacement=lambda e: admittance(e.name, e.Y), keep=[])')]),
    ('H5', 'short_circuitify: a raising function as function value', 'caught',
     [(TR, 'replacement=lambda e: impedance(e.name, e.Z)', 'replacement=lambda e: network[e.name].element')]),
    ('H5', 'keep rebound after the nested defs that read it', 'caught',
     [(TR, '    branches = network.branches\n    while (sc :=', '    branches = network.branches\n    keep = [b.element for b in branches]\n    while (sc :=')]),
    # ---- H6: private helpers, LabelMapping(dict(zip(..)))
    ('H6', '_alphabetic_mapping: `sorted` dropped', 'caught',
     [(LM, 'sorted_labels = sorted(labels)', 'sorted_labels = list(labels)')]),
    ('H6', '_alphabetic_mapping: indices start at 1', 'caught',
     [(LM, 'range(len(sorted_labels))', 'range(1, len(sorted_labels) + 1)')]),
    ('H6', '_alphabetic_mapping: keys are the unsorted labels', 'caught',
     [(LM, 'dict(zip(sorted_labels, range(len(sorted_labels))))', 'dict(zip(labels, range(len(sorted_labels))))')]),
    ('H6', '_alphabetic_mapping: zip arguments swapped', 'caught',
     [(LM, 'dict(zip(sorted_labels, range(len(sorted_labels))))', 'dict(zip(range(len(sorted_labels)), sorted_labels))')]),
    ('H6', 'node mapper: `!=` -> `==`', 'caught',
     [(LM, 'for label in network.node_labels if label != network.node_zero_label]', 'for label in network.node_labels if label == network.node_zero_label]')]),
    ('H6', 'node mapper: reference node not removed', 'caught',
     [(LM, '[label for label in network.node_labels if label != network.node_zero_label]', '[label for label in network.node_labels]')]),
    ('H6', '_voltage_source_labels filters with is_current_source', 'caught',
     [(LM, 'return [b.id for b in network.branches if is_ideal_voltage_source(b.element)]', 'return [b.id for b in network.branches if is_current_source(b.element)]')]),
    ('H6', 'voltage source mapper uses the current source labels', 'caught',
     [(LM, 'return _alphabetic_mapping(_voltage_source_labels(network))', 'return _alphabetic_mapping(_current_source_labels(network))')]),
    ('H6', 'source mapper: only the current sources', 'caught',
     [(LM, '_alphabetic_mapping(_current_source_labels(network) + _voltage_source_labels(network))', '_alphabetic_mapping(_current_source_labels(network))')]),
    ('H6', 'a public mapper made private (disappears from the translation)', 'caught',
     [(LM, 'def alphabetic_current_source_mapper(network: Network) -> LabelMapping:', 'def _alphabetic_current_source_mapper(network: Network) -> LabelMapping:')]),
]


def run_one(patch, edits, scratch_coq, workdir):
    src = os.path.join(workdir, 'repo')
    if os.path.exists(src):
        shutil.rmtree(src)
    shutil.copytree(os.path.join(REPO, 'src', 'CircuitCalculator'), os.path.join(src, 'src', 'CircuitCalculator'))
    r = subprocess.run(['git', 'apply', os.path.join(HARMLESS, patch, 'patch.diff')], cwd=src, capture_output=True, text=True)
    if r.returncode != 0:
        return f'PATCH DOES NOT APPLY: {r.stderr.strip()[:100]}'
    for rel, old, new in edits:
        p = os.path.join(src, rel)
        s = open(p, encoding='utf-8').read()
        if s.count(old) != 1:
            return f'MUTATION DOES NOT APPLY ({s.count(old)} matches in {rel})'
        open(p, 'w', encoding='utf-8').write(s.replace(old, new))
    try:
        out = gen_network.generate(os.path.join(src, 'src', 'CircuitCalculator'))
    except Unsupported as e:
        return 'refused: ' + str(e).replace(src + '/src/CircuitCalculator/', '')
    except SyntaxError as e:
        return f'MUTANT IS NOT PYTHON: {e}'
    with open(os.path.join(scratch_coq, 'Gen', 'NetworkGen.v'), 'w', encoding='utf-8') as f:
        f.write(out['NetworkGen.v'])
    for v in CHAIN:
        r = subprocess.run(['timeout', '600', 'coqc', '-Q', '.', 'CC', v], cwd=scratch_coq, capture_output=True, text=True)
        if r.returncode != 0:
            err = r.stderr.strip()
            m = re.search(r'File "\./([^"]+)", line (\d+)', err)
            what = f'{m.group(1)}: {lemma_at(os.path.join(scratch_coq, m.group(1)), int(m.group(2)))}' if m else ''
            lines = [l for l in err.splitlines() if l.strip()]
            first_err = next((l for l in lines if l.startswith('Error')), lines[-1] if lines else '')
            return f'broken: {what} ({first_err.strip()[:90]})'
    return 'passes'


def main():
    pat = sys.argv[1] if len(sys.argv) > 1 else ''
    work = tempfile.mkdtemp(prefix='mutnetH_')
    scratch = os.path.join(work, 'coq')
    shutil.copytree(os.path.join(VERIF, 'coq'), scratch, ignore=shutil.ignore_patterns('Extract', '*.glob', '*.cache'))
    bad = k = 0
    print('| # | patch | mutation | expected | outcome |')
    print('|---|---|---|---|---|')
    for patch, name, expect, edits in MUTATIONS:
        if pat and pat not in name and pat != patch:
            continue
        k += 1
        res = run_one(patch, edits, scratch, work)
        caught = res.startswith('refused') or res.startswith('broken')
        ok = (expect == 'caught' and caught) or (expect == 'passes' and res == 'passes')
        bad += not ok
        print(f'| {k} | {patch} | {name} | {expect} | {res}{"" if ok else "  **UNEXPECTED**"} |', flush=True)
    shutil.rmtree(work, ignore_errors=True)
    print(f'\n{bad} unexpected outcome(s)')
    return 1 if bad else 0


if __name__ == '__main__':
    sys.exit(main())
