"""Shared pieces of the fail-closed translator (imported by py2v.py and by every gen_*.py module)."""
import ast


class Unsupported(Exception):
    """raised for any Python construct outside the explicitly enumerated subset"""


def parse(path):
    with open(path, encoding='utf-8') as f:
        return ast.parse(f.read(), filename=path)


def where(node, path=''):
    return f'{path}:{getattr(node, "lineno", "?")}'


def coq_string_codes(s):
    """a Python str as a Coq `list N` literal of code points (the model's `label`)"""
    return '[' + '; '.join(f'{ord(c)}%N' for c in s) + ']'


def module_assign(tree, name):
    """value node of the module-level assignment `name = ...` / `name : T = ...`"""
    for st in tree.body:
        if isinstance(st, ast.Assign) and len(st.targets) == 1 and isinstance(st.targets[0], ast.Name) \
                and st.targets[0].id == name:
            return st.value
        if isinstance(st, ast.AnnAssign) and isinstance(st.target, ast.Name) and st.target.id == name and st.value:
            return st.value
    raise Unsupported(f'module-level assignment {name} not found')


def functions(tree):
    return {st.name: st for st in tree.body if isinstance(st, ast.FunctionDef)}


def classes(tree):
    return {st.name: st for st in tree.body if isinstance(st, ast.ClassDef)}
