#!/usr/bin/env python3
"""Mutation check of tools/gen_saveload.py + tools/gen_annotation.py and of the equalities over their output
(Properties/C15c.v, Properties/C14c.v).  For every edit below: copy the Python source tree, apply the edit to the COPY,
run all gen_*.py translators on the copy (as py2v.py does with VERIF_REPO), write the result into a private copy of coq/
and rebuild Properties/C15c.vo and Properties/C14c.vo there with `make -k`.  Reported per edit: refused by the translator
(message), or the lemmas that stop compiling, or `passes`.
usage: mutcheck_gens.py [--src /repo/src/CircuitCalculator] [--work DIR] [--only NAME ...]"""
import argparse
import importlib
import os
import re
import shutil
import subprocess
import sys

HERE = os.path.dirname(os.path.abspath(__file__))
sys.path.insert(0, HERE)
from v2lib import Unsupported  # noqa: E402

DL = 'SimpleCircuit/dump_load.py'
DS = 'SimpleCircuit/DiagramSolution.py'
EL = 'SimpleCircuit/Elements.py'
SC = 'SimpleSimulation/schematic.py'
SO = 'Circuit/solution.py'
DP = 'SimpleCircuit/Display.py'
UT = 'Utils.py'

# (name, expectation, [(file, old, new, occurrence index | None = exactly once | 'all')])
EDITS = [
    # ---------------- SimpleCircuit/dump_load.py
    ("S01 loader table: the 'capacitor' row dropped", 'caught',
     [(DL, "    'capacitor' : lambda **kwargs: simple_circuit_elements.Capacitor(**kwargs),\n", "", None)]),
    ("S02 dictify_element: reverse no longer written", 'caught', [(DL, "        reverse=e.is_reverse,\n", "", None)]),
    ("S03 undictify_element: reverse not restored", 'caught',
     [(DL, "    kwargs.update({'reverse': element_dict.get('reverse', False)})\n", "", None)]),
    ("S04 undictify_element: the deg/sin flags are no longer cleared", 'caught',
     [(DL, "        if 'phi' in circuit_dict[element_dict['name']]:\n            kwargs.update({flag: False for flag in ('deg', 'sin') if flag in kwargs})\n", "", None)]),
    ("S05 only 'deg' is cleared", 'caught', [(DL, "for flag in ('deg', 'sin')", "for flag in ('deg',)", None)]),
    ("S06 the flags are set to True", 'caught', [(DL, "{flag: False for flag", "{flag: True for flag", None)]),
    ("S07 impedance: combine_to_complex(('X', 'R'), ...)", 'caught', [(DL, "combine_to_complex(('R', 'X'), 'Z', kwargs)", "combine_to_complex(('X', 'R'), 'Z', kwargs)", None)]),
    ("S08 'complex_voltage_source' rebuilt as ComplexCurrentSource", 'caught',
     [(DL, "simple_circuit_elements.ComplexVoltageSource(**combine", "simple_circuit_elements.ComplexCurrentSource(**combine", None)]),
    ("S09 unknown type falls back to Line instead of Element", 'caught',
     [(DL, "element = simple_circuit_elements.Element(**kwargs)", "element = simple_circuit_elements.Line(**kwargs)", None)]),
    ("S10 serializers: float entry dropped (floats written as None)", 'caught', [(DL, "    float: lambda x: x,\n", "", None)]),
    ("S11 serialize default: unknown types written as they are", 'caught', [(DL, "lambda _: None)", "lambda x: x)", None)]),
    ("S12 dictify_element: _userparams no longer written", 'caught',
     [(DL, "            '_userparams' : serialize_schemdraw_element(e._userparams),\n", "", None)]),
    ("S13 name defaults to 'x' (EQUIVALENT: element_dict['name'] is read unconditionally two lines below, a missing name is a KeyError "
     "whatever the default)", 'passes', [(DL, "element_dict.get('name', '')", "element_dict.get('name', 'x')", None)]),
    ("S14 absanchors not restored", 'caught',
     [(DL, "    element.absanchors=deserialize_schemdraw_elements(element_dict['values']['absanchors'])\n", "", None)]),
    ("S15 the stored values are merged by the element's type, not its name", 'caught',
     [(DL, "        kwargs.update(circuit_dict[element_dict['name']])", "        kwargs.update(circuit_dict[element_dict['type']])", None)]),
    ("S16 drawing state: segments not restored", 'caught',
     [(DL, "    element.segments=deserialize_schemdraw_elements(element_dict['values']['segments'])\n", "", None)]),
    ("S17 dictify_all writes the symbols under 'symbols'", 'caught', [(DL, "        'simple_circuit': schematic_to_dict(schematic)", "        'symbols': schematic_to_dict(schematic)", None)]),
    ("S18 deserialize plugs in dictify_all", 'caught', [(DL, "dict_preprocessor=undictify_schematic", "dict_preprocessor=dictify_all", None)]),
    ("S19 Elements.py: Resistor.type returns 'resistance'", 'caught', [(EL, "        return 'resistor'", "        return 'resistance'", None)]),
    ("S20 deserialize_schemdraw_elements: dicts are no longer rebuilt recursively (pinned function)", 'caught',
     [(DL, "            return {k: deserialize_schemdraw_elements(v) for k, v in element.items()}", "            return element", None)]),
    ("S21 combine_to_complex: imaginary part default 1", 'caught', [(DL, "kv.pop(real_imag[1], 0)", "kv.pop(real_imag[1], 1)", None)]),
    ("S22 dictify_element writes is_reverse under 'name' and name under 'reverse'", 'caught',
     [(DL, "        name=e.name,\n        reverse=e.is_reverse,", "        name=e.is_reverse,\n        reverse=e.name,", None)]),
    # ---------------- SimpleCircuit/DiagramSolution.py
    ("A01 real adapter: `-` lost for a reversed voltage", 'caught',
     [(DS, "dsp.print_real(sign*self.solution.get_voltage(name), unit='V'", "dsp.print_real(self.solution.get_voltage(name), unit='V'", None)]),
    ("A02 complex adapter: get_potential prints the voltage", 'caught',
     [(DS, "            value=self.solution.get_potential(name),\n            unit='V',\n            precision=self.precision,\n            polar",
       "            value=self.solution.get_voltage(name),\n            unit='V',\n            precision=self.precision,\n            polar", None)]),
    ("A03 sinusoidal adapter: current printed with unit V", 'caught',
     [(DS, "            value=sign*self.solution.get_current(name),\n            unit='A',\n            precision=self.precision,\n            w=",
       "            value=sign*self.solution.get_current(name),\n            unit='V',\n            precision=self.precision,\n            w=", None)]),
    ("A04 complex adapter: precision not forwarded for voltages", 'caught',
     [(DS, "            value=sign*self.solution.get_voltage(name),\n            unit='V',\n            precision=self.precision,\n            polar",
       "            value=sign*self.solution.get_voltage(name),\n            unit='V',\n            polar", None)]),
    ("A05 complex adapter: polar and deg swapped for powers", 'caught',
     [(DS, "            unit='W',\n            precision=self.precision,\n            polar=self.polar,\n            deg=self.deg",
       "            unit='W',\n            precision=self.precision,\n            polar=self.deg,\n            deg=self.polar", None)]),
    ("A06 real adapter: sign flipped (current)", 'caught',
     [(DS, "        sign = -1 if reverse else 1\n        return dsp.print_real(sign*self.solution.get_current(name)",
       "        sign = 1 if reverse else -1\n        return dsp.print_real(sign*self.solution.get_current(name)", None)]),
    ("A07 draw_voltage: arrow direction ignores the element's direction", 'caught',
     [(DS, "vlabel=vlabel, reverse=reverse if not element.is_reverse else not reverse,", "vlabel=vlabel, reverse=reverse,", None)]),
    ("A08 draw_current: start=end", 'caught', [(DS, "start=not end,", "start=end,", None)]),
    ("A09 draw_power writes the voltage text", 'caught', [(DS, "plabel = self.solution.get_power(name=name, reverse=reverse)", "plabel = self.solution.get_voltage(name=name, reverse=reverse)", None)]),
    ("A10 complex_solution builds a PEAK solution", 'caught',
     [(DS, "        solution=ComplexSolution(circuit=circuit_translator(schematic)),\n", "        solution=ComplexSolution(circuit=circuit_translator(schematic), peak_values=True),\n", None)]),
    ("A11 the sinusoidal factory builds an RMS solution", 'caught', [(DS, "w=w, peak_values=True)", "w=w)", None)]),
    ("A12 single_frequency_complex_solution ignores w", 'caught', [(DS, "        solution=ComplexSolution(circuit=circuit_translator(schematic), w=w),\n", "        solution=ComplexSolution(circuit=circuit_translator(schematic)),\n", None)]),
    ("A13 real_solution: precision defaults to 4", 'caught', [(DS, "def real_solution(schematic: elm.Schematic, precision: int = 3)", "def real_solution(schematic: elm.Schematic, precision: int = 4)", None)]),
    ("A14 complex_solution forwards polar as deg", 'caught',
     [(DS, "        solution=ComplexSolution(circuit=circuit_translator(schematic)),\n        deg=deg,\n        polar=polar,", "        solution=ComplexSolution(circuit=circuit_translator(schematic)),\n        deg=polar,\n        polar=deg,", None)]),
    ("A15 real adapter: power printed with print_real", 'caught',
     [(DS, "dsp.print_active_power(sign*self.solution.get_power(name), precision=self.precision)", "dsp.print_real(sign*self.solution.get_power(name), unit='W', precision=self.precision)", None)]),
    ("A16 draw_potential: reverse passed to the label", 'caught', [(DS, "return elm.LabelNode(id_loc=loc, name=phi_label,", "return elm.LabelNode(id_loc=loc, name=phi_label, reverse=True,", None)]),
    ("A17 sinusoidal adapter: sin and deg swapped (potential)", 'caught',
     [(DS, "            value=self.solution.get_potential(name),\n            unit='V',\n            precision=self.precision,\n            w=self.solution.w,\n            sin=self.sin,\n            deg=self.deg,",
       "            value=self.solution.get_potential(name),\n            unit='V',\n            precision=self.precision,\n            w=self.solution.w,\n            sin=self.deg,\n            deg=self.sin,", None)]),
    # ---------------- SimpleCircuit/Display.py, Utils.py
    ("X01 print_sinosoidal: the +pi/2 reference is applied to the cosine form", 'caught', [(DP, "phase_value+= pi/2 if sin else 0", "phase_value+= pi/2 if not sin else 0", None)]),
    ("X02 print_sinosoidal: 'sin' / 'cos' swapped", 'caught', [(DP, "label+= 'sin' if sin else 'cos'", "label+= 'cos' if sin else 'sin'", None)]),
    ("X03 print_sinosoidal: phase threshold 1e-3", 'caught', [(DP, "if abs(phase_value) > 1e-4:", "if abs(phase_value) > 1e-3:", None)]),
    ("X04 print_real: prefix table without 'k'", 'caught',
     [(DP, "        value=value.real,\n        unit=unit,\n        precision=precision,\n        use_exp_prefix=True,\n        exp_prefixes={-6: 'u', -3: 'm', 3: 'k'},",
       "        value=value.real,\n        unit=unit,\n        precision=precision,\n        use_exp_prefix=True,\n        exp_prefixes={-6: 'u', -3: 'm'},", None)]),
    ("X05 print_active_power: arrows swapped", 'caught', [(DP, "P_sign = '↓' if value > 0 else '↑'", "P_sign = '↑' if value > 0 else '↓'", None)]),
    ("X06 print_complex: compact=False", 'caught', [(DP, "        compact=True\n", "        compact=False\n", None)]),
    ("X07 Utils.ScientificFloat: default prefix table without 'c'", 'caught', [(UT, "        -1 : 'c',\n", "", 0)]),
    ("X08 print_sinosoidal: the hertz text shows w, not w/2/pi", 'caught', [(DP, "str(ScientificFloat(w/2/pi, 'Hz',", "str(ScientificFloat(w, 'Hz',", None)]),
    ("X09 print_sinosoidal: precision not forwarded to the phase text (deg)", 'caught',
     [(DP, "ScientificFloat(value=abs(degrees(phase_value)), unit='°', precision=precision)", "ScientificFloat(value=abs(degrees(phase_value)), unit='°')", None)]),
    ("X10 print_sinosoidal: the sign of the phase is decided by the original phase (before +pi/2)", 'caught',
     [(DP, "    phase_value = phase(value)\n    phase_value+= pi/2 if sin else 0\n", "    phase_value0 = phase(value)\n    phase_value = phase_value0\n    phase_value+= pi/2 if sin else 0\n", None),
      (DP, "label+= '+' if phase_value > 0 else '-'", "label+= '+' if phase_value0 > 0 else '-'", None)]),
    # ---------------- Circuit/solution.py
    ("P01 ComplexSolution.get_voltage: /sqrt(2) on the peak branch", 'caught',
     [(SO, "        if self.peak_values:\n            return self._solution.get_voltage(component_id)\n        return self._solution.get_voltage(component_id)/np.sqrt(2)",
       "        if self.peak_values:\n            return self._solution.get_voltage(component_id)/np.sqrt(2)\n        return self._solution.get_voltage(component_id)", None)]),
    ("P02 ComplexSolution.get_power: factor 1/2 dropped", 'caught', [(SO, "return 1/2*self.get_voltage(component_id)", "return self.get_voltage(component_id)", None)]),
    ("P03 ComplexSolution: peak_values defaults to True", 'caught', [(SO, "    peak_values: bool = False", "    peak_values: bool = True", None)]),
    # ---------------- SimpleSimulation/schematic.py
    ("D01 solutions: 'real' dropped", 'caught', [(SC, "    'real': ds.real_solution,\n", "", None)]),
    ("D02 solutions: 'single_frequency_time_domain' bound to the sinusoidal factory (outside the model)", 'caught',
     [(SC, "'single_frequency_time_domain': ds.single_frequency_complex_solution", "'single_frequency_time_domain': ds.single_frequency_time_domain_steady_state_solution", None)]),
    ("D03 a description without type is treated as 'dc'", 'caught', [(SC, "self.data.get('type', 'unknown')", "self.data.get('type', 'dc')", None)]),
    ("D04 element_handlers: 'capacitor' builds an Inductance", 'caught', [(SC, "element_factory(elm.Capacitor, **kwargs)", "element_factory(elm.Inductance, **kwargs)", None)]),
    ("D05 element_factory: reverse defaults to True", 'caught', [(SC, "name: str = '', reverse: bool = False, **kwargs", "name: str = '', reverse: bool = True, **kwargs", None)]),
    ("D06 direction 'up' places downwards", 'caught', [(SC, "        element.up(length*unit)", "        element.down(length*unit)", None)]),
    ("D07 the length is not multiplied by the unit (left)", 'caught', [(SC, "        element.left(length*unit)", "        element.left(length)", None)]),
    ("D08 place_after continues at the START of the named element", 'caught', [(SC, "element.at(origin_element.end)", "element.at(origin_element.start)", None)]),
    ("D09 fill: length defaults to 2", 'caught', [(SC, "e.get('length', 1)", "e.get('length', 2)", None)]),
    ("D10 fill: the entries of 'currents' are drawn with draw_voltage", 'caught', [(SC, "schematic += solution.draw_current(**c)", "schematic += solution.draw_voltage(**c)", None)]),
    ("D11 'line' with a name is a plain Line", 'caught',
     [(SC, "element_factory(elm.LabeledLine, **kwargs) if 'name' in kwargs.keys() else element_factory(elm.Line, **kwargs)", "element_factory(elm.Line, **kwargs)", None)]),
    ("D12 the signature filter is dropped (every key of the description is passed on)", 'caught',
     [(SC, "{k: v for k, v in self.data.items() if k in feasible_solution_params}", "{k: v for k, v in self.data.items()}", None)]),
    ("D13 get_placed_element: last element of that name", 'caught',
     [(SC, "schematic.elements[[se.name for se in schematic.elements].index(label)]", "schematic.elements[len(schematic.elements) - 1 - [se.name for se in schematic.elements][::-1].index(label)]", None)]),
    # ---------------- harmless rewrites
    ("H01 undictify_element: local kwargs renamed", 'passes',
     [(DL, "    kwargs = deserialize_schemdraw_elements(element_dict['values']['_userparams'])\n    kwargs.update({'name': element_dict.get('name', '')})\n    kwargs.update({'reverse': element_dict.get('reverse', False)})\n    if element_dict['name'] in circuit_dict.keys():\n        kwargs.update(circuit_dict[element_dict['name']])\n        if 'phi' in circuit_dict[element_dict['name']]:\n            kwargs.update({flag: False for flag in ('deg', 'sin') if flag in kwargs})\n    try:\n        element = simple_circuit_element_types[element_dict['type']](**kwargs)\n    except KeyError:\n        element = simple_circuit_elements.Element(**kwargs)",
       "    kw = deserialize_schemdraw_elements(element_dict['values']['_userparams'])\n    kw.update({'name': element_dict.get('name', '')})\n    kw.update({'reverse': element_dict.get('reverse', False)})\n    if element_dict['name'] in circuit_dict.keys():\n        kw.update(circuit_dict[element_dict['name']])\n        if 'phi' in circuit_dict[element_dict['name']]:\n            kw.update({f: False for f in ('deg', 'sin') if f in kw})\n    try:\n        element = simple_circuit_element_types[element_dict['type']](**kw)\n    except KeyError:\n        element = simple_circuit_elements.Element(**kw)", None)]),
    ("H02 kwargs.update({'name': v}) written as kwargs['name'] = v; both updates in one call", 'passes',
     [(DL, "    kwargs.update({'name': element_dict.get('name', '')})\n    kwargs.update({'reverse': element_dict.get('reverse', False)})\n",
       "    kwargs['name'] = element_dict.get('name', '')\n    kwargs.update({'reverse': element_dict.get('reverse', False)})\n", None)]),
    ("H03 `in circuit_dict.keys()` -> `in circuit_dict`", 'passes', [(DL, "if element_dict['name'] in circuit_dict.keys():", "if element_dict['name'] in circuit_dict:", None)]),
    ("H04 loader table: 'resistor' bound to the class itself", 'passes',
     [(DL, "'resistor' : lambda **kwargs: simple_circuit_elements.Resistor(**kwargs),", "'resistor' : simple_circuit_elements.Resistor,", None)]),
    ("H05 dictify_element returns a dict literal", 'passes',
     [(DL, "    return SimpleCircuitObjectProperties(\n        type=e.type,\n        name=e.name,\n        reverse=e.is_reverse,\n        values={",
       "    return {\n        'type': e.type,\n        'name': e.name,\n        'reverse': e.is_reverse,\n        'values': {", None),
      (DL, "            'absdrop' : serialize_schemdraw_element(e.absdrop)\n        }\n    )", "            'absdrop' : serialize_schemdraw_element(e.absdrop)\n        }\n    }", None)]),
    ("H06 real adapter: print_real called positionally", 'passes',
     [(DS, "dsp.print_real(sign*self.solution.get_voltage(name), unit='V', precision=self.precision)", "dsp.print_real(sign*self.solution.get_voltage(name), 'V', self.precision)", None)]),
    ("H07 real_solution: the adapter written inline in the return", 'passes',
     [(DS, "    diagram_parser = SchematicDiagramParser(schematic)\n    solution = RealNetworkDiagramSolution(\n        solution=DCSolution(circuit=circuit_translator(schematic)),\n        precision=precision\n    )\n    return SchematicDiagramSolution(\n        diagram_parser=diagram_parser,\n        solution=solution\n    )",
       "    return SchematicDiagramSolution(\n        diagram_parser=SchematicDiagramParser(schematic),\n        solution=RealNetworkDiagramSolution(precision=precision, solution=DCSolution(circuit=circuit_translator(schematic)))\n    )", None)]),
    ("H08 serialize_schemdraw_element in one expression", 'passes',
     [(DL, "    serialize = schemdraw_serializers.get(type(e), lambda _: None)\n    return serialize(e)", "    return schemdraw_serializers.get(type(e), lambda _: None)(e)", None)]),
    ("H09 ComplexSolution.get_current: branches written the other way round", 'passes',
     [(SO, "        if self.peak_values:\n            return self._solution.get_current(component_id)\n        return self._solution.get_current(component_id)/np.sqrt(2)",
       "        if not self.peak_values:\n            return self._solution.get_current(component_id)/np.sqrt(2)\n        return self._solution.get_current(component_id)", None)]),
    ("H10 complex adapter: keyword arguments of print_complex reordered", 'passes',
     [(DS, "            unit='W',\n            precision=self.precision,\n            polar=self.polar,\n            deg=self.deg", "            deg=self.deg,\n            polar=self.polar,\n            unit='W',\n            precision=self.precision", None)]),
    ("H11 element_handlers: `'name' in kwargs.keys()` -> `'name' in kwargs`; docstring and comments added", 'passes',
     [(SC, "if 'name' in kwargs.keys() else", "if 'name' in kwargs else", None),
      (SC, "def apply_position(element: elm.Element, origin_element: Optional[elm.schemdraw.elements.Element] = None) -> elm.Element:\n",
       "def apply_position(element: elm.Element, origin_element: Optional[elm.schemdraw.elements.Element] = None) -> elm.Element:\n    # continue at the end of the named element\n", None)]),
    ("H13 print_active_power returns the f-string directly", 'passes',
     [(DP, "    label = f'{P}{P_sign}'\n    return label", "    return f'{P}{P_sign}'", None)]),
    ("H14 an unrelated helper function added to dump_load.py (fail-closed: unknown module-level names are refused; expected to be flagged)", 'caught',
     [(DL, "def combine_to_complex(", "def _unused_helper(x):\n    return x\n\ndef combine_to_complex(", None)]),
    ("H12 loader table rows reordered (equalities are row by row in source order: expected to be flagged)", 'caught',
     [(DL, "    'ground' : lambda **kwargs: simple_circuit_elements.Ground(**kwargs),\n    'line' : lambda **kwargs: simple_circuit_elements.Line(**kwargs)\n",
       "    'line' : lambda **kwargs: simple_circuit_elements.Line(**kwargs),\n    'ground' : lambda **kwargs: simple_circuit_elements.Ground(**kwargs)\n", None)]),
]


def apply_edits(src, edits, name):
    for rel, old, new, occ in edits:
        p = os.path.join(src, *rel.split('/'))
        text = open(p, encoding='utf-8').read()
        n = text.count(old)
        if occ is None:
            if n != 1:
                raise SystemExit(f'{name}: pattern occurs {n} times in {rel} (expected once): {old!r}')
            text = text.replace(old, new)
        elif occ == 'all':
            if n == 0:
                raise SystemExit(f'{name}: pattern absent in {rel}: {old!r}')
            text = text.replace(old, new)
        else:
            parts = text.split(old)
            if len(parts) - 1 <= occ:
                raise SystemExit(f'{name}: pattern occurs {n} times in {rel}, occurrence {occ} wanted: {old!r}')
            text = old.join(parts[:occ + 1]) + new + old.join(parts[occ + 1:])
        with open(p, 'w', encoding='utf-8') as f:
            f.write(text)
    for rel in {e[0] for e in edits}:
        p = os.path.join(src, *rel.split('/'))
        compile(open(p, encoding='utf-8').read(), p, 'exec')                 # the edited file must still be Python


def enclosing(vfile, line):
    name = '?'
    with open(vfile, encoding='utf-8') as f:
        for i, l in enumerate(f, 1):
            m = re.match(r'\s*(Lemma|Theorem|Example|Definition|Fixpoint|Corollary)\s+([A-Za-z0-9_\']+)', l)
            if m:
                name = m.group(2)
            if i >= line:
                break
    return name


def write_if_changed(path, text):
    if os.path.exists(path) and open(path, encoding='utf-8').read() == text:
        return
    with open(path, 'w', encoding='utf-8') as f:
        f.write(text)


def generate_all(src):
    out = {}
    for name in sorted(os.listdir(HERE)):
        if name.startswith('gen_') and name.endswith('.py'):
            out.update(importlib.import_module(name[:-3]).generate(src))
    return out


def main():
    ap = argparse.ArgumentParser()
    ap.add_argument('--src', default=os.path.join(os.environ.get('VERIF_REPO', '/repo'), 'src', 'CircuitCalculator'))
    ap.add_argument('--work', default='/tmp/mutcheck_gens')
    ap.add_argument('--only', nargs='*')
    a = ap.parse_args()
    coq0 = os.path.join(os.path.dirname(HERE), 'coq')
    coq = os.path.join(a.work, 'coq')
    if not os.path.isdir(coq):
        os.makedirs(a.work, exist_ok=True)
        shutil.copytree(coq0, coq)          # compiled copy; rebuilt incrementally
    else:                                    # hand-written files may have changed since the copy was made
        for root, _, fs in os.walk(coq0):
            for fn in fs:
                if fn.endswith('.v') or fn in ('_CoqProject', 'Makefile', 'Makefile.conf'):
                    src_ = os.path.join(root, fn)
                    write_if_changed(os.path.join(coq, os.path.relpath(src_, coq0)), open(src_, encoding='utf-8').read())
    rows = []
    for name, expect, edits in EDITS + [('(restore: unmodified source)', 'passes', [])]:
        if a.only and not any(name.startswith(o) for o in a.only) and edits:
            continue
        srcm = os.path.join(a.work, 'repo', 'src', 'CircuitCalculator')
        shutil.rmtree(os.path.join(a.work, 'repo'), ignore_errors=True)
        shutil.copytree(a.src, srcm)
        apply_edits(srcm, edits, name)
        try:
            files = generate_all(srcm)
        except Unsupported as e:
            msg = str(e).replace(srcm + '/', '')
            rows.append((name, expect, 'caught', 'translator refuses: ' + msg))
            print(rows[-1], flush=True)
            continue
        for fn, text in files.items():
            write_if_changed(os.path.join(coq, 'Gen', fn), text)
        r = subprocess.run(['timeout', '1800', 'make', '-k', '-j4', 'Properties/C15c.vo', 'Properties/C14c.vo'],
                           cwd=coq, capture_output=True, text=True)
        errs = []
        for m in re.finditer(r'File "\./([^"]+)", line (\d+)', r.stdout + r.stderr):
            lemma = enclosing(os.path.join(coq, m.group(1)), int(m.group(2)))
            errs.append(f'{m.group(1)}: {lemma}')
        if r.returncode == 0 and not errs:
            rows.append((name, expect, 'passes', 'C15c and C14c compile'))
        else:
            rows.append((name, expect, 'caught', 'stops compiling: ' + '; '.join(dict.fromkeys(errs)) if errs
                         else 'make failed: ' + (r.stderr.strip().splitlines() or ['?'])[-1]))
        print(rows[-1], flush=True)
    print()
    bad = 0
    for name, expect, got, detail in rows:
        flag = '' if expect == got else '   <-- UNEXPECTED'
        bad += expect != got
        print(f'{name}\n    {got}: {detail}{flag}')
    return 1 if bad else 0


if __name__ == '__main__':
    sys.exit(main())
