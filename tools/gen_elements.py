"""Translator module: the CONSTRUCTORS of the persistable classes of SimpleCircuit/Elements.py -> coq/Gen/ElementsGen.v, as data in
the vocabulary of coq/Model/ElementsPrims.v (syntax `ctor` of the accepted part of an `__init__`, interpreted there by `run_ctor`).
Theory/ElementsGenThm.v proves that running the regenerated constructors is Model/SaveLoad.v's hand-written `construct`
(`attrs_of`, `src_attrs`, `amp_attr`, `one_attr`, `ctor_name`, `ctor_params`, `sd_reverse`, `mk_user`); statements: Properties/C15d.v,
cross-listed for the component translators in Properties/C13d.v.
Fail-closed: every construct outside the subset below raises Unsupported naming file:line and the construct.

Classes translated (MODEL): Resistor, Conductance, Impedance, Admittance, Capacitor, Inductance, VoltageSource, CurrentSource,
ComplexVoltageSource, ComplexCurrentSource, ACVoltageSource, ACCurrentSource, RectVoltageSource, RectCurrentSource, Ground, Line,
Element, and every class of the module one of them inherits from (today: Node).  Every other class of the file is ignored.

Module level (checked through tools/gen_drawing.py's `Elements`): every name of interest is bound once; round_node, get_nodes,
SimpleCircuitElement and simple_circuit_element have the pinned text gen_drawing records; `np` is `import numpy as np`;
`extension` is `from . import schemdraw_element_extension as extension`.
simple_circuit_element   the keys and defaults of `SimpleCircuitElement.__init__(self, name=kwargs.get(K, D), reverse=kwargs.get(K', D'))`
                         are read from the decorator (-> g_decorator).
class C(<base>)          exactly one base: a dotted external name (a schemdraw class: base = None) or the NAME of an earlier class of the
                         module (base = its constructor); no keywords; decorators only `simple_circuit_element` (-> decorated = true)
                         and `extension.<f>`, where <f> of SimpleCircuit/schemdraw_element_extension.py must be a PASS-THROUGH:
                         `def f(element): class X(element): def __init__(self, *args, **kwargs): super().__init__(*args, **kwargs);
                         self.anchors[CONST] = CONST ...; <other methods>; return X`.
                         The class and its local ancestors must not define `is_reverse`; `name` may be defined once along the chain, as
                         `@property def name(self): return <str literal>` (-> cf_name_const) or `return self._name`.
def __init__(self, a.., *args, k.., **kwargs)   no positional-only parameters; *args and **kwargs must both be present; defaults are
                         None / bool / str / int literals, or a float literal for a parameter no modelled statement reads (KOpaque).
__init__ body, top level, in order:
  super().__init__(*args, K=e, ..., **kwargs)    exactly once; every K is a named parameter of this __init__        -> SSuper
  self._f = e                                     _f a private attribute (one leading underscore)                      -> SStore
  self._f -= e | self._f += e                                                                                         -> SAug
  if c: <one of the two above>                    no else                                                             -> SIf
  self.params[<str literal>] = <literal / tuple of literals>       (ChainMap write-through to _userparams)          -> SParam
  e ::= PARAM | self._f | literal | -e | not e | e if e else e | np.pi | np.pi/<positive int literal>
  ignored (drawing only; may not bind a parameter, store a private attribute, use := / setattr / __dict__ / super):
     self.label(...), self.segments.append(...), NAME = ..., NAME += ... (NAME a fresh local), self.anchors[...] = ...,
     self.node_id = ...
     Inside such a statement
       lambda: <expr>         a ZERO-parameter lambda is accepted (a delayed value text, `lambda: dsp.print_resistance(self.R)`); its
                              body is an expression and is checked like the rest of the statement (no := / setattr / __dict__ ...);
                              a lambda with parameters or defaults is refused;
       f(...)                 with f a bare name bound at module level of Elements.py: f must be a class of the module, or a LABEL
                              HELPER (checked by label_helper_reason): bound once, by an undecorated `def` without parameter defaults, whose body never stores
                              to an attribute or a subscript, has no := / lambda / nested def / class / del / global / nonlocal /
                              import / raise / try / while / with / yield, does not mention setattr / vars / __dict__ / ... nor
                              `.params` / `._userparams`, and calls no module-level function that is not itself a label helper.
                              (`_name_value_label(name, show_name, show_value, lambda: ...)` building the label text from parts.)
                              Such a helper computes a value from its arguments and cannot write the modelled state of the
                              object under construction, so the statement calling it stays drawing-only.  Names that are not
                              bound at module level (builtins, parameters called inside a helper) are as before.
  Conditional stores: `self._V = V if not reverse else -V` and `self._V = -V if reverse else V` are both translated literally
  (EIf (ENot c) a b / EIf c b a); Theory/ElementsDrawingThm.v (neg_if_reverse_spellings) proves the two evaluate alike and its
  expr_prov reads both as PNegIfReverse; Theory/ElementsGenThm.v runs either.
Properties: cf_getters lists every `@property def P(self): return self._f` of the class and its local ancestors as (_f, P); other
properties (G = 1/self._R, Admittance.Y = 1/self._Y, type, ...) are not listed.  The symbol lists a private attribute _x under the key x.
"""
import ast
import os
import re

from v2lib import Unsupported, parse, where, functions
import gen_drawing

ELM = 'SimpleCircuit/Elements.py'
EXT = 'SimpleCircuit/schemdraw_element_extension.py'
MODEL = ['Resistor', 'Conductance', 'Impedance', 'Admittance', 'Capacitor', 'Inductance', 'VoltageSource', 'CurrentSource',
         'ComplexVoltageSource', 'ComplexCurrentSource', 'ACVoltageSource', 'ACCurrentSource', 'RectVoltageSource',
         'RectCurrentSource', 'Ground', 'Line', 'Element']
PRIVATE = re.compile(r'_[A-Za-z][A-Za-z0-9_]*\Z')
IDENT = re.compile(r'[A-Za-z_][A-Za-z0-9_]*\Z')
DRAW_CALLS = ('self.label', 'self.segments.append')
DRAW_PUBLIC = ('node_id',)
FORBIDDEN_NAMES = ('setattr', 'delattr', 'vars', 'super', '__dict__', '__setattr__', 'globals', 'locals', 'exec', 'eval')

dotted = gen_drawing.dotted


class Strings:
    """string literals -> named Coq constants ek_<id>"""

    def __init__(self):
        self.names = {}

    def __call__(self, s):
        if s not in self.names:
            base = 'ek_' + (re.sub(r'[^A-Za-z0-9_]', lambda mo: '_' if mo.group(0) in '. ' else f'u{ord(mo.group(0))}', s) if s else 'empty')
            name, i = base, 1
            while name in self.names.values():
                i += 1
                name = f'{base}_{i}'
            self.names[s] = name
        return self.names[s]

    def definitions(self):
        out = []
        for s, n in self.names.items():
            if all(32 <= ord(c) < 127 for c in s):
                esc = s.replace('"', '""')
                out.append(f'Definition {n} : label := Eval compute in lbl "{esc}".')
            else:
                out.append(f'Definition {n} : label := [' + '; '.join(str(ord(c)) for c in s) + f']%N.   (* {s!r} *)')
        return out


def cmt(s):
    return s.replace('(*', '( *').replace('*)', '* )')


class Gen:
    def __init__(self, src):
        self.src = src
        self.el = gen_drawing.Elements(src)          # single bindings, pinned shapes of the decorator and of SimpleCircuitElement
        self.path = self.el.path
        self.K = Strings()
        self.helpers = {}                             # module-level function -> None (label helper) / reason it is not
        self.check_imports()
        self.passthrough = self.extension_decorators()
        self.decorator = self.decorator_facts()
        self.ctors = {}                               # class -> dict
        self.order = []                               # emission order (bases first)

    def bad(self, node, what):
        return Unsupported(f'{where(node, self.path)}: {what}')

    # ------------------------------------------------------------------ module level
    def check_imports(self):
        bound = {}
        for st in self.el.tree.body:
            if isinstance(st, ast.Import):
                for al in st.names:
                    bound.setdefault(al.asname or al.name.split('.')[0], []).append(('import', al.name, al.asname))
            elif isinstance(st, ast.ImportFrom):
                for al in st.names:
                    bound.setdefault(al.asname or al.name, []).append(('from', st.level, st.module, al.name))
        if bound.get('np') != [('import', 'numpy', 'np')] or len(self.el.bound.get('np', [])) != 1:
            raise Unsupported(f'{self.path}: the name np is bound by {bound.get("np")}, expected `import numpy as np`')
        if bound.get('extension') != [('from', 1, None, 'schemdraw_element_extension')] or len(self.el.bound.get('extension', [])) != 1:
            raise Unsupported(f'{self.path}: the name extension is bound by {bound.get("extension")}, expected '
                              f'`from . import schemdraw_element_extension as extension`')

    def extension_decorators(self):
        """names of the pass-through class decorators of schemdraw_element_extension.py"""
        path = os.path.join(self.src, *EXT.split('/'))
        ok = {}
        keep, self.K = self.K, Strings()            # the anchor literals of the decorators are only checked, not emitted
        for name, f in functions(parse(path)).items():
            ok[name] = self.passthrough_reason(f)
        self.K = keep
        return ok

    @staticmethod
    def is_super_init(call, vararg, kwarg):
        """super().__init__( *vararg, <keywords>, **kwarg) -> the explicit keywords, else None"""
        if not (isinstance(call, ast.Call) and isinstance(call.func, ast.Attribute) and call.func.attr == '__init__'
                and isinstance(call.func.value, ast.Call) and isinstance(call.func.value.func, ast.Name)
                and call.func.value.func.id == 'super' and not call.func.value.args and not call.func.value.keywords):
            return None
        if not (len(call.args) == 1 and isinstance(call.args[0], ast.Starred) and isinstance(call.args[0].value, ast.Name)
                and call.args[0].value.id == vararg):
            return None
        if not (call.keywords and call.keywords[-1].arg is None and isinstance(call.keywords[-1].value, ast.Name)
                and call.keywords[-1].value.id == kwarg):
            return None
        if any(k.arg is None for k in call.keywords[:-1]):
            return None
        return call.keywords[:-1]

    def passthrough_reason(self, f):
        """None when `f` is a pass-through class decorator, else the reason it is not"""
        a = f.args
        if f.decorator_list or a.vararg or a.kwarg or a.kwonlyargs or a.posonlyargs or a.defaults or len(a.args) != 1:
            return 'signature'
        el = a.args[0].arg
        body = [s for s in f.body if not (isinstance(s, ast.Expr) and isinstance(s.value, ast.Constant))]
        if not (len(body) == 2 and isinstance(body[0], ast.ClassDef) and isinstance(body[1], ast.Return)
                and isinstance(body[1].value, ast.Name) and body[1].value.id == body[0].name):
            return 'body is not `class X(element): ...; return X`'
        c = body[0]
        if c.decorator_list or c.keywords or not (len(c.bases) == 1 and isinstance(c.bases[0], ast.Name) and c.bases[0].id == el):
            return 'inner class is not `class X(element)`'
        for m in c.body:
            if isinstance(m, ast.Expr) and isinstance(m.value, ast.Constant):
                continue
            if not isinstance(m, ast.FunctionDef):
                return f'inner class statement at line {m.lineno}'
            if m.name in ('__new__', '__init_subclass__', '__setattr__', '__getattribute__', '__getattr__', 'name', 'is_reverse', 'type'):
                return f'inner class defines {m.name}'
            if m.name == '__init__':
                ia = m.args
                if m.decorator_list or ia.posonlyargs or ia.kwonlyargs or ia.defaults or len(ia.args) != 1 or not ia.vararg or not ia.kwarg:
                    return '__init__ signature is not (self, *args, **kwargs)'
                slf = ia.args[0].arg
                b = [s for s in m.body if not (isinstance(s, ast.Expr) and isinstance(s.value, ast.Constant))]
                if not (b and isinstance(b[0], ast.Expr) and self.is_super_init(b[0].value, ia.vararg.arg, ia.kwarg.arg) == []):
                    return '__init__ does not start with super().__init__(*args, **kwargs)'
                for s in b[1:]:
                    if not (isinstance(s, ast.Assign) and len(s.targets) == 1 and isinstance(s.targets[0], ast.Subscript)
                            and dotted(s.targets[0].value) == f'{slf}.anchors' and self.literal(s.targets[0].slice) is not None
                            and self.literal(s.value) is not None):
                        return f'__init__ statement at line {s.lineno} is not self.anchors[CONST] = CONST'
        return None

    def decorator_facts(self):
        f = self.el.single('simple_circuit_element')
        call = None
        for n in ast.walk(f):
            if isinstance(n, ast.Call) and dotted(n.func) == 'SimpleCircuitElement.__init__':
                call = n
        if call is None:
            raise self.bad(f, 'simple_circuit_element: SimpleCircuitElement.__init__ call not found')
        out = {}
        for k in call.keywords:
            v = k.value
            if not (k.arg in ('name', 'reverse') and isinstance(v, ast.Call) and dotted(v.func) == 'kwargs.get' and len(v.args) == 2
                    and not v.keywords and isinstance(v.args[0], ast.Constant) and isinstance(v.args[0].value, str)):
                raise self.bad(call, f'simple_circuit_element: keyword {ast.unparse(k)}')
            d = self.literal(v.args[1])
            if d is None:
                raise self.bad(call, f'simple_circuit_element: default {ast.unparse(v.args[1])}')
            out[k.arg] = (v.args[0].value, d)
        if set(out) != {'name', 'reverse'}:
            raise self.bad(call, 'simple_circuit_element: name= and reverse= expected')
        return out

    # ------------------------------------------------------------------ literals and expressions
    def literal(self, e):
        """pconst term of a literal, or None"""
        if isinstance(e, ast.Constant):
            v = e.value
            if v is None:
                return 'KNone'
            if isinstance(v, bool):
                return f'(KBool {"true" if v else "false"})'
            if isinstance(v, str):
                return f'(KStr {self.K(v)})'
            if isinstance(v, int):
                return f'(KInt ({v})%Z)'
            if isinstance(v, float):
                return f'(KOpaque {self.K(repr(v))})'
            return None
        if isinstance(e, ast.UnaryOp) and isinstance(e.op, ast.USub) and isinstance(e.operand, ast.Constant) \
                and isinstance(e.operand.value, int) and not isinstance(e.operand.value, bool):
            return f'(KInt ({-e.operand.value})%Z)'
        if isinstance(e, ast.UnaryOp) and isinstance(e.op, ast.USub) and isinstance(e.operand, ast.Constant) \
                and isinstance(e.operand.value, float):
            return f'(KOpaque {self.K("-" + repr(e.operand.value))})'
        if isinstance(e, ast.Tuple):
            parts = [self.literal(x) for x in e.elts]
            if any(p is None for p in parts):
                return None
            return '(KTuple [' + '; '.join(parts) + '])'
        return None

    def expr(self, e, ctx):
        """cexpr term; ctx: dict(self=..., params=set, opaque=set, cname=...)"""
        if isinstance(e, ast.Name):
            if e.id in ctx['opaque']:
                raise self.bad(e, f'{ctx["cname"]}.__init__: the parameter {e.id} has a default the model has no value for and is read')
            if e.id in ctx['params']:
                ctx['reads'].add(e.id)
                return f'(EParam {self.K(e.id)})'
            raise self.bad(e, f'{ctx["cname"]}.__init__: the name {e.id} is not a named parameter')
        if isinstance(e, ast.Attribute) and isinstance(e.value, ast.Name) and e.value.id == ctx['self']:
            if PRIVATE.match(e.attr):
                return f'(EField {self.K(e.attr)})'
            raise self.bad(e, f'{ctx["cname"]}.__init__: read of {ast.unparse(e)} in a modelled statement')
        if isinstance(e, ast.Attribute) and dotted(e) == 'np.pi':
            return 'EPi'
        if isinstance(e, ast.BinOp) and isinstance(e.op, ast.Div) and dotted(e.left) == 'np.pi' and isinstance(e.right, ast.Constant) \
                and isinstance(e.right.value, int) and not isinstance(e.right.value, bool) and e.right.value > 0:
            return f'(EPiDiv {e.right.value}%positive)'
        lit = self.literal(e)
        if lit is not None and not isinstance(e, ast.Tuple):
            if lit.startswith('(KOpaque'):
                raise self.bad(e, f'{ctx["cname"]}.__init__: float literal {ast.unparse(e)} in a modelled statement')
            return f'(EConst {lit})'
        if isinstance(e, ast.UnaryOp) and isinstance(e.op, ast.USub):
            return f'(ENeg {self.expr(e.operand, ctx)})'
        if isinstance(e, ast.UnaryOp) and isinstance(e.op, ast.Not):
            return f'(ENot {self.expr(e.operand, ctx)})'
        if isinstance(e, ast.IfExp):
            return f'(EIf {self.expr(e.test, ctx)} {self.expr(e.body, ctx)} {self.expr(e.orelse, ctx)})'
        raise self.bad(e, f'{ctx["cname"]}.__init__: expression {ast.unparse(e)}')

    # ------------------------------------------------------------------ statements
    def private_target(self, t, ctx):
        if isinstance(t, ast.Attribute) and isinstance(t.value, ast.Name) and t.value.id == ctx['self'] and PRIVATE.match(t.attr):
            return t.attr
        return None

    def touches_model_state(self, node, ctx):
        """reason why `node` cannot be ignored as drawing-only, or None"""
        for n in ast.walk(node):
            if isinstance(n, ast.NamedExpr):
                return 'assignment expression'
            if isinstance(n, ast.Name) and isinstance(n.ctx, (ast.Store, ast.Del)) and (n.id in ctx['all_params'] or n.id == ctx['self']):
                return f'rebinds {n.id}'
            if isinstance(n, ast.Name) and n.id in FORBIDDEN_NAMES:
                return f'uses {n.id}'
            if isinstance(n, ast.Attribute):
                if n.attr in FORBIDDEN_NAMES or n.attr in ('_userparams', 'params') and not isinstance(n.ctx, ast.Load):
                    return f'uses .{n.attr}'
                if isinstance(n.ctx, (ast.Store, ast.Del)) and isinstance(n.value, ast.Name) and n.value.id == ctx['self'] \
                        and n.attr not in DRAW_PUBLIC:
                    return f'stores self.{n.attr}'
            if isinstance(n, ast.Attribute) and n.attr == '_userparams':
                return 'uses ._userparams'
            if isinstance(n, ast.Lambda):
                la = n.args
                if la.posonlyargs or la.args or la.vararg or la.kwonlyargs or la.kwarg or la.defaults or la.kw_defaults:
                    return 'Lambda with parameters'
                continue                                  # zero-argument lambda: its body is an expression, walked like the rest
            if isinstance(n, (ast.FunctionDef, ast.AsyncFunctionDef, ast.ClassDef, ast.Delete, ast.Global, ast.Nonlocal, ast.Import,
                              ast.ImportFrom, ast.Return, ast.Raise, ast.Try, ast.While, ast.With, ast.Yield, ast.YieldFrom, ast.Await)):
                return type(n).__name__
            if isinstance(n, ast.Call) and isinstance(n.func, ast.Name) and n.func.id in self.el.bound:
                sts = self.el.bound[n.func.id]
                if len(sts) == 1 and isinstance(sts[0], ast.ClassDef):
                    continue                              # a class of the module (as before: constructing a drawing object)
                why = self.label_helper_reason(n.func.id)
                if why:
                    return f'calls the module-level name {n.func.id}, which is not a label helper ({why})'
        return None

    def label_helper_reason(self, name, active=()):
        """None when the module-level name `name` of Elements.py is a LABEL HELPER (a function a drawing-only statement may call:
        it computes a value from its arguments and cannot store into the object under construction), else the reason it is not"""
        if name in self.helpers:
            return self.helpers[name]
        if name in active:
            return 'recursive'
        sts = self.el.bound.get(name, [])
        if len(sts) != 1 or not isinstance(sts[0], ast.FunctionDef):
            return f'bound {len(sts)} times / not by a def'
        f = sts[0]
        why = None
        if f.decorator_list:
            why = 'decorated'
        local = {x.arg for x in f.args.posonlyargs + f.args.args + f.args.kwonlyargs} | \
            {x.arg for x in (f.args.vararg, f.args.kwarg) if x is not None}
        for st in f.body:
            if why:
                break
            for n in ast.walk(st):
                if isinstance(n, ast.Name) and isinstance(n.ctx, ast.Store):
                    local.add(n.id)
        if f.args.defaults or any(d is not None for d in f.args.kw_defaults):
            why = 'parameter defaults'
        for n in (x for st in f.body for x in ast.walk(st)):
            if why:
                break
            if isinstance(n, (ast.NamedExpr, ast.Lambda, ast.FunctionDef, ast.AsyncFunctionDef, ast.ClassDef, ast.Delete, ast.Global,
                              ast.Nonlocal, ast.Import, ast.ImportFrom, ast.Raise, ast.Try, ast.While, ast.With, ast.Yield,
                              ast.YieldFrom, ast.Await, ast.AsyncFor, ast.AsyncWith)):
                why = f'line {n.lineno}: {type(n).__name__}'
            elif isinstance(n, (ast.Attribute, ast.Subscript)) and isinstance(n.ctx, (ast.Store, ast.Del)):
                why = f'line {n.lineno}: stores {ast.unparse(n)}'
            elif isinstance(n, ast.Name) and n.id in FORBIDDEN_NAMES:
                why = f'line {n.lineno}: uses {n.id}'
            elif isinstance(n, ast.Attribute) and (n.attr in FORBIDDEN_NAMES or n.attr in ('_userparams', 'params')):
                why = f'line {n.lineno}: uses .{n.attr}'
            elif isinstance(n, ast.Call) and isinstance(n.func, ast.Name) and n.func.id not in local and n.func.id in self.el.bound:
                inner = self.label_helper_reason(n.func.id, active + (name,))
                if inner:
                    why = f'line {n.lineno}: calls {n.func.id} ({inner})'
        self.helpers[name] = why
        return why

    def statement(self, s, ctx):
        """-> (kind, term) with kind in 'super' / 'stmt' / None (ignored)"""
        cn = ctx['cname']
        if isinstance(s, ast.Expr) and isinstance(s.value, ast.Constant):
            return None, None
        if isinstance(s, ast.Expr) and isinstance(s.value, ast.Call):
            kws = self.is_super_init(s.value, ctx['vararg'], ctx['kwarg'])
            if kws is not None:
                rows = []
                for k in kws:
                    if k.arg not in ctx['params']:
                        raise self.bad(s, f'{cn}.__init__: super().__init__ keyword {k.arg} is not a named parameter of this __init__ '
                                          f'(it could collide with an entry of **{ctx["kwarg"]})')
                    if k.arg in [r[0] for r in rows]:
                        raise self.bad(s, f'{cn}.__init__: super().__init__ keyword {k.arg} repeated')
                    rows.append((k.arg, self.expr(k.value, ctx)))
                return 'super', 'SSuper [' + '; '.join(f'({self.K(k)}, {v})' for k, v in rows) + ']'
            if dotted(s.value.func) in tuple(d.replace('self', ctx['self'], 1) for d in DRAW_CALLS):
                why = self.touches_model_state(s, ctx)
                if why:
                    raise self.bad(s, f'{cn}.__init__: drawing statement {why}')
                return None, None
            raise self.bad(s, f'{cn}.__init__: call statement {ast.unparse(s).splitlines()[0]}')
        if isinstance(s, ast.Assign) and len(s.targets) == 1:
            t = s.targets[0]
            f = self.private_target(t, ctx)
            if f is not None:
                return 'stmt', f'SStore {self.K(f)} {self.expr(s.value, ctx)}'
            if isinstance(t, ast.Subscript) and dotted(t.value) == f'{ctx["self"]}.params':
                k, v = t.slice, self.literal(s.value)
                if not (isinstance(k, ast.Constant) and isinstance(k.value, str)) or v is None or 'KOpaque' in v:
                    raise self.bad(s, f'{cn}.__init__: {ast.unparse(s)} is not self.params[<str literal>] = <literal>')
                return 'stmt', f'SParam {self.K(k.value)} {v}'
            ok = (isinstance(t, ast.Name) and t.id not in ctx['all_params'] and t.id != ctx['self']) or \
                 (isinstance(t, ast.Subscript) and dotted(t.value) == f'{ctx["self"]}.anchors') or \
                 (isinstance(t, ast.Attribute) and isinstance(t.value, ast.Name) and t.value.id == ctx['self'] and t.attr in DRAW_PUBLIC)
            if ok:
                why = self.touches_model_state(s, ctx)
                if why:
                    raise self.bad(s, f'{cn}.__init__: drawing statement {why}')
                return None, None
            raise self.bad(s, f'{cn}.__init__: assignment {ast.unparse(s).splitlines()[0]}')
        if isinstance(s, ast.AugAssign):
            f = self.private_target(s.target, ctx)
            if f is not None:
                if not isinstance(s.op, (ast.Sub, ast.Add)):
                    raise self.bad(s, f'{cn}.__init__: augmented assignment operator in {ast.unparse(s)}')
                return 'stmt', f'SAug {self.K(f)} {"AugSub" if isinstance(s.op, ast.Sub) else "AugAdd"} {self.expr(s.value, ctx)}'
            if isinstance(s.target, ast.Name) and s.target.id not in ctx['all_params'] and s.target.id != ctx['self']:
                why = self.touches_model_state(s, ctx)
                if why:
                    raise self.bad(s, f'{cn}.__init__: drawing statement {why}')
                return None, None
            raise self.bad(s, f'{cn}.__init__: augmented assignment {ast.unparse(s)}')
        if isinstance(s, ast.If):
            if s.orelse or len(s.body) != 1:
                raise self.bad(s, f'{cn}.__init__: `if` with else / several statements')
            kind, inner = self.statement(s.body[0], ctx)
            if kind != 'stmt' or inner.startswith('SParam'):
                raise self.bad(s, f'{cn}.__init__: the body of `if` is not one store to a private attribute')
            return 'stmt', f'SIf {self.expr(s.test, ctx)} ({inner})   (* {cmt(ast.unparse(s.body[0]))} *)'
        raise self.bad(s, f'{cn}.__init__: statement {ast.unparse(s).splitlines()[0]}')

    # ------------------------------------------------------------------ one class
    def class_ctor(self, cname):
        if cname in self.ctors:
            return self.ctors[cname]
        if cname not in self.el.cls:
            raise Unsupported(f'{self.path}: class {cname} is not known to the translator')
        st = self.el.cls[cname]
        info = self.el.info_of(cname)                 # bases (local names), decorated, defines; checks the decorator list shape
        if len(st.bases) != 1:
            raise self.bad(st, f'class {cname}: {len(st.bases)} bases')
        base = None
        if info['bases']:
            base = info['bases'][0]
            self.class_ctor(base)
        for dec in st.decorator_list:
            d = dotted(dec)
            if d and d.startswith('extension.'):
                nm = d.split('.', 1)[1]
                if nm not in self.passthrough:
                    raise self.bad(st, f'class {cname}: extension.{nm} is not a function of {EXT}')
                if self.passthrough[nm] is not None:
                    raise self.bad(st, f'class {cname}: extension.{nm} is not a pass-through decorator ({self.passthrough[nm]})')
        inits = [s for s in st.body if isinstance(s, ast.FunctionDef) and s.name == '__init__']
        if len(inits) != 1:
            raise self.bad(st, f'class {cname}: {len(inits)} definitions of __init__')
        for s in st.body:
            if isinstance(s, ast.FunctionDef) and s.name in ('__new__', '__setattr__', '__getattribute__', '__getattr__', '__init_subclass__',
                                                             '__post_init__'):
                raise self.bad(s, f'class {cname} defines {s.name}')
            if not isinstance(s, ast.FunctionDef) and not (isinstance(s, ast.Expr) and isinstance(s.value, ast.Constant)):
                raise self.bad(s, f'class {cname}: class-level statement {ast.unparse(s).splitlines()[0]}')
        f = inits[0]
        a = f.args
        if f.decorator_list or a.posonlyargs or not a.args or not a.vararg or not a.kwarg:
            raise self.bad(f, f'{cname}.__init__: signature is not (self, <named>, *args, <keyword-only>, **kwargs)')
        slf = a.args[0].arg
        named = a.args[1:]
        defaults = [None] * (len(named) - len(a.defaults)) + list(a.defaults) if len(a.defaults) <= len(named) else None
        if defaults is None:
            raise self.bad(f, f'{cname}.__init__: default for self')
        rows = list(zip(named, defaults)) + list(zip(a.kwonlyargs, a.kw_defaults))
        params, opaque = [], set()
        for p, d in rows:
            if not IDENT.match(p.arg) or p.arg in [x for x, _ in params] or p.arg in (slf, a.vararg.arg, a.kwarg.arg):
                raise self.bad(f, f'{cname}.__init__: parameter {p.arg}')
            if d is None:
                params.append((p.arg, 'None'))
            else:
                lit = self.literal(d)
                if lit is None or lit.startswith('(KTuple'):
                    raise self.bad(f, f'{cname}.__init__: default {ast.unparse(d)} of {p.arg}')
                if lit.startswith('(KOpaque'):
                    opaque.add(p.arg)
                params.append((p.arg, f'Some {lit}'))
        ctx = {'cname': cname, 'self': slf, 'params': {x for x, _ in params}, 'opaque': opaque, 'reads': set(),
               'all_params': {x for x, _ in params} | {a.vararg.arg, a.kwarg.arg}, 'vararg': a.vararg.arg, 'kwarg': a.kwarg.arg}
        body, nsuper, stored = [], 0, []
        for s in f.body:
            kind, term = self.statement(s, ctx)
            if kind == 'super':
                nsuper += 1
            if kind is not None:
                body.append((term, ast.unparse(s).splitlines()[0]))
        if nsuper != 1:
            raise self.bad(f, f'{cname}.__init__: {nsuper} top-level calls super().__init__(*{a.vararg.arg}, ..., **{a.kwarg.arg}) (exactly one expected)')
        for n in ast.walk(f):
            if isinstance(n, ast.Call) and isinstance(n.func, ast.Name) and n.func.id == 'super' and nsuper == 1:
                pass
        # no store to a private attribute outside __init__ (methods that mutate the modelled state)
        for s in st.body:
            if isinstance(s, ast.FunctionDef) and s.name != '__init__':
                for n in ast.walk(s):
                    if isinstance(n, ast.Attribute) and isinstance(n.ctx, (ast.Store, ast.Del)) and PRIVATE.match(n.attr):
                        raise self.bad(n, f'{cname}.{s.name} stores the private attribute {n.attr}')
        fields = []
        for n in ast.walk(f):
            if isinstance(n, ast.Attribute) and isinstance(n.ctx, ast.Store) and isinstance(n.value, ast.Name) and n.value.id == slf \
                    and PRIVATE.match(n.attr) and n.attr not in fields:
                fields.append(n.attr)
        res = {'name': cname, 'params': params, 'body': body, 'base': base, 'decorated': info['decorated'], 'fields': fields,
               'line': st.lineno, 'sig': ast.unparse(a)}
        self.ctors[cname] = res
        self.order.append(cname)
        return res

    def chain(self, cname):
        out = []
        while cname is not None:
            out.append(cname)
            cname = self.ctors[cname]['base']
        return out

    def plain_getters(self, cname):
        """[(field, property)] of the class body: @property def P(self): return self._f"""
        out = []
        for s in self.el.cls[cname].body:
            if isinstance(s, ast.FunctionDef) and len(s.decorator_list) == 1 and dotted(s.decorator_list[0]) == 'property' \
                    and len(s.args.args) == 1 and not (s.args.vararg or s.args.kwarg or s.args.kwonlyargs):
                b = [x for x in s.body if not (isinstance(x, ast.Expr) and isinstance(x.value, ast.Constant) and isinstance(x.value.value, str))]
                if len(b) == 1 and isinstance(b[0], ast.Return) and isinstance(b[0].value, ast.Attribute) \
                        and isinstance(b[0].value.value, ast.Name) and b[0].value.value.id == s.args.args[0].arg \
                        and PRIVATE.match(b[0].value.attr):
                    out.append((b[0].value.attr, s.name))
        return out

    def facts(self, cname):
        self.class_ctor(cname)
        chain = self.chain(cname)
        if not any(self.ctors[c]['decorated'] for c in chain):
            raise self.bad(self.el.cls[cname], f'class {cname}: no class of its chain is decorated with simple_circuit_element')
        # name / is_reverse along the chain
        name_const = 'None'
        for c in chain:
            defs = [s for s in self.el.cls[c].body if isinstance(s, ast.FunctionDef) and s.name == 'is_reverse']
            if defs or 'is_reverse' in self.el.info_of(c)['defines']:
                raise self.bad(self.el.cls[c], f'class {c} (chain of {cname}) defines is_reverse')
        found = False
        for c in chain:
            if 'name' not in self.el.info_of(c)['defines']:
                continue
            defs = [s for s in self.el.cls[c].body if isinstance(s, ast.FunctionDef) and s.name == 'name']
            if len(defs) != 1 or not (len(defs[0].decorator_list) == 1 and dotted(defs[0].decorator_list[0]) == 'property'):
                raise self.bad(self.el.cls[c], f'class {c} (chain of {cname}): `name` is not one plain @property')
            b = [x for x in defs[0].body if not (isinstance(x, ast.Expr) and isinstance(x.value, ast.Constant))]
            if len(b) == 1 and isinstance(b[0], ast.Return) and isinstance(b[0].value, ast.Constant) and isinstance(b[0].value.value, str):
                name_const = f'Some {self.K(b[0].value.value)}'
            elif len(b) == 1 and isinstance(b[0], ast.Return) and dotted(b[0].value) == f'{defs[0].args.args[0].arg}._name':
                name_const = 'None'
            else:
                raise self.bad(defs[0], f'class {c} (chain of {cname}): the name property returns neither a string literal nor self._name')
            found = True
            break
        del found
        getters = []
        for c in chain:
            for fld, prop in self.plain_getters(c):
                getters.append((fld, prop))
        rows = list(dict.fromkeys(getters))
        return {'getters': rows, 'name_const': name_const}


HEADER = '''(* GENERATED by tools/gen_elements.py from SimpleCircuit/Elements.py (constructors of the persistable classes) and
   SimpleCircuit/schemdraw_element_extension.py (pass-through check of the class decorators) — do not edit.
   Data in the vocabulary of Model/ElementsPrims.v; Theory/ElementsGenThm.v proves that running these constructors is the
   hand-written `construct` of Model/SaveLoad.v (statements: Properties/C15d.v, Properties/C13d.v). *)
From Coq Require Import List Bool NArith ZArith String.
From CC Require Import Theory.Field Theory.Complex Model.Network Model.Circuit Model.Loaders Model.SaveLoad Model.ElementsPrims.
Import ListNotations.
'''


def generate(src):
    g = Gen(src)
    K = g.K
    facts = {c: g.facts(c) for c in MODEL}
    out = []
    for c in g.order:
        r = g.ctors[c]
        ps = '; '.join(f'({K(p)}, {d})' for p, d in r['params'])
        body = ';\n     '.join(f'{t}   (* {cmt(src_line)} *)' for t, src_line in r['body'])
        # comments must not follow the `;` separator of the NEXT row: put each comment before its row
        body = ';\n     '.join(f'(* {cmt(src_line)} *) {t}' for t, src_line in r['body'])
        base = f'(Some g_ctor_{r["base"]})' if r['base'] else 'None'
        out.append(f'(* class {c}: def __init__({cmt(r["sig"])})   ({ELM}:{r["line"]}) *)\n'
                   f'Definition g_ctor_{c} : ctor :=\n  Ctor [{ps}]\n    [{body}]\n    {base} {"true" if r["decorated"] else "false"}.')
    for c in MODEL:
        gt = '; '.join(f'({K(f)}, {K(p)})' for f, p in facts[c]['getters'])
        out.append(f'Definition g_facts_{c} : class_facts :=\n  {{| cf_ctor := g_ctor_{c}; cf_getters := [{gt}]; cf_name_const := {facts[c]["name_const"]} |}}.')
    table = ';\n   '.join(f'({K(c)}, g_facts_{c})' for c in MODEL)
    out.append('(* Python class name -> facts *)\nDefinition g_class_facts : list (label * class_facts) :=\n  [' + table + '].')
    nk, nd = g.decorator['name']
    rk, rd = g.decorator['reverse']
    out.append('(* simple_circuit_element: SimpleCircuitElement.__init__(self, name=kwargs.get(K, D), reverse=kwargs.get(K\', D\')) *)\n'
               f'Definition g_decorator : decorator_facts :=\n  {{| d_name_key := {K(nk)}; d_name_default := {nd}; d_rev_key := {K(rk)}; d_rev_default := {rd} |}}.')
    names = list(K.names.values())
    hint = '#[global] Hint Unfold ' + ' '.join(names) + ' : ek_labels.'
    text = HEADER + '\n(* ---------- string literals of the source ---------- *)\n' + '\n'.join(K.definitions()) + '\n' + hint + '\n\n' + \
        '\n\n'.join(out) + '\n'
    return {'ElementsGen.v': text}


if __name__ == '__main__':
    import sys
    srcdir = os.path.join(os.environ.get('VERIF_REPO', '/repo'), 'src', 'CircuitCalculator')
    for fn, t in generate(srcdir).items():
        sys.stdout.write(t)
