#!/usr/bin/env python3
"""Mutation table for tools/gen_matrix.py on the REFACTORED sources (harmless/H3, H4, H6 applied to a copy of the source
tree): the constructs that were added to the accepted subset for these refactorings (function values, Callable
parameters, sorted(key=) / list(filter()) / tuple(map()), set displays, dict comprehension / dict-filling loop, raise, the
translated class LabelMapping and label_mapping.filter) must still discriminate.
Per row: the patch ('-' = the unmodified source) is applied to a copy of $VERIF_REPO/src (default /repo) with `patch -p1`,
then the textual edits; gen_network.py and gen_matrix.py are run on the copy and Gen/NetworkGen.v, Gen/MatrixGen.v,
Properties/C01d.vo, Properties/C10c.vo (hence Theory/NetworkGenThm.v, MatrixGenThm.v, StateSpaceGenThm.v) are rebuilt in a
scratch copy of coq/.  Outcome `refused` / `broken <file>: <lemma>` / `passes`; `passes` is expected for the unedited patches
and for the further harmless rewrites only.
Usage: /venv/bin/python tools/mutcheck_matrix_refactored.py [--work DIR] [--only SUBSTRING ...] [--md FILE]
       (patches: $VERIF_HARMLESS or <root>/harmless)"""
import argparse
import os
import re
import shutil
import subprocess
import sys

HERE = os.path.dirname(os.path.abspath(__file__))
sys.path.insert(0, HERE)
import gen_matrix  # noqa: E402
import gen_network  # noqa: E402
from mutcheck_matrix import enclosing, write_if_changed  # noqa: E402
from v2lib import Unsupported  # noqa: E402

VERIF = os.path.dirname(HERE)
REPO = os.environ.get('VERIF_REPO', '/repo')
HARMLESS = os.environ.get('VERIF_HARMLESS', os.path.join(VERIF, 'harmless'))
PKG = 'src/CircuitCalculator/'
NA = PKG + 'Network/NodalAnalysis/node_analysis.py'
SS = PKG + 'Network/NodalAnalysis/state_space_model.py'
NW = PKG + 'Network/network.py'
LM = PKG + 'Network/NodalAnalysis/label_mapping.py'

# (patch, name, expectation, [(file, old, new)])
MUTATIONS = [
    ('H3', 'H3 as written', 'passes', []),
    ('H4', 'H4 as written', 'passes', []),
    ('H6', 'H6 as written', 'passes', []),
    # ---- H3: Callable parameter, bound methods as function values, private helper method
    ('H3', '_row_for_voltage: neg - pos', 'caught', [(SS, 'return row_pos - row_neg', 'return row_neg - row_pos')]),
    ('H3', '_row_for_voltage: both rows taken at node1', 'caught',
     [(SS, 'row_neg = row_for_potential(branch.node2)', 'row_neg = row_for_potential(branch.node1)')]),
    ('H3', '_row_for_voltage: the Callable applied to the branch id', 'caught',
     [(SS, 'row_pos = row_for_potential(branch.node1)', 'row_pos = row_for_potential(branch_id)')]),
    ('H3', '_row_for_voltage: branch fetched from the node mapping keys (another id)', 'caught',
     [(SS, '        branch = self.network[branch_id]\n        row_pos', "        branch = self.network['R']\n        row_pos")]),
    ('H3', 'c_row_voltage passes the D rows', 'caught',
     [(SS, 'return self._row_for_voltage(branch_id, self.c_row_for_potential)\n', 'return self._row_for_voltage(branch_id, self.d_row_for_potential)\n')]),
    ('H3', 'd_row_current passes the C rows', 'caught',
     [(SS, 'return self._row_for_voltage(branch_id, self.d_row_for_potential)/self.network[branch_id].element.Z',
       'return self._row_for_voltage(branch_id, self.c_row_for_potential)/self.network[branch_id].element.Z')]),
    ('H3', 'c_row_current divides by Y', 'caught',
     [(SS, 'return self._row_for_voltage(branch_id, self.c_row_for_potential)/self.network[branch_id].element.Z',
       'return self._row_for_voltage(branch_id, self.c_row_for_potential)/self.network[branch_id].element.Y')]),
    ('H3', 'a property passed as the function value', 'caught',
     [(SS, 'return self._row_for_voltage(branch_id, self.c_row_for_potential)\n', 'return self._row_for_voltage(branch_id, self.sources)\n')]),
    ('H3', 'a method of another type passed as the function value (c_row_current: 1-D / 2-D result)', 'caught',
     [(SS, 'return self._row_for_voltage(branch_id, self.c_row_for_potential)\n', 'return self._row_for_voltage(branch_id, self.c_row_current)\n')]),
    ('H3', 'Callable annotation with another result type', 'caught',
     [(SS, 'row_for_potential: Callable[[str], np.ndarray]', 'row_for_potential: Callable[[str], float]')]),
    ('H3', 'Callable is not typing.Callable', 'caught',
     [(SS, 'from typing import Callable', 'from collections.abc import Callable')]),
    ('H3', '_row_for_potential: two rows sliced', 'caught', [(SS, 'return matrix[row:row+1]', 'return matrix[row:row+2]')]),
    ('H3', '_row_for_potential: row looked up in the voltage source mapping', 'caught',
     [(SS, 'row = self.node_index_mapping[node_id]', 'row = self.voltage_source_index_mapping[node_id]')]),
    ('H3', 'element_incidence_matrix: column = k', 'caught', [(SS, 'column = node_mapping[i_label]', 'column = k')]),
    ('H3', 'element_incidence_matrix: +1 written under the node2 test', 'caught',
     [(SS, '                if i_label == branch.node2:\n                    Delta[k, column] = -1', '                if i_label == branch.node2:\n                    Delta[k, column] = +1')]),
    ('H3', 'element_incidence_matrix: zero block with the node count', 'caught',
     [(SS, 'np.zeros((Delta.shape[0], voltage_source_mapper(network).N))', 'np.zeros((Delta.shape[0], node_mapping.N))')]),
    ('H3', 'Qv: identity written in column 0', 'caught', [(SS, 'Qv[i, i] = 1', 'Qv[i, 0] = 1')]),
    ('H3', 'Q: block rows swapped', 'caught', [(SS, 'np.vstack((upper_blocks, lower_blocks))', 'np.vstack((lower_blocks, upper_blocks))')]),
    ('H3', 'QS / QL returned in the other order', 'caught',
     [(SS, 'return Q[:, source_columns], Q[:, inductance_columns]', 'return Q[:, inductance_columns], Q[:, source_columns]')]),
    ('H3', 'c_row_current (capacitor): B row instead of A row', 'caught',
     [(SS, 'return self.c_values[branch_id]*self.A[idx]', 'return self.c_values[branch_id]*self.B[idx]')]),
    # ---- H4: nested defs as function values, sorted(key=), list(filter(..)), set displays
    ('H4', 'connects_both_nodes: {node1, node1}', 'caught',
     [(NW, '{branch.node1, branch.node2} == {node1, node2}', '{branch.node1, branch.node2} == {node1, node1}')]),
    ('H4', 'connects_both_nodes: `==` -> `!=`', 'caught',
     [(NW, '{branch.node1, branch.node2} == {node1, node2}', '{branch.node1, branch.node2} != {node1, node2}')]),
    ('H4', 'connects_both_nodes: a three-element display', 'caught',
     [(NW, '{branch.node1, branch.node2} == {node1, node2}', '{branch.node1, branch.node2, node1} == {node1, node2}')]),
    ('H4', 'branches_between: filter over the connected branches of node1 only', 'caught',
     [(NW, 'return list(filter(connects_both_nodes, self.branches))', 'return list(filter(connects_both_nodes, self.branches_connected_to(node1)))')]),
    ('H4', 'branches_between: predicate negated through a lambda', 'caught',
     [(NW, 'return list(filter(connects_both_nodes, self.branches))', 'return list(filter(lambda b: not connects_both_nodes(b), self.branches))')]),
    ('H4', 'branches_between: the lazy filter object returned (no list())', 'caught',
     [(NW, 'return list(filter(connects_both_nodes, self.branches))', 'return filter(connects_both_nodes, self.branches)')]),
    ('H4', 'branches_between: filter shadowed by a module-level function', 'caught',
     [(NW, 'class FloatingGroundNode(Exception): pass', 'def filter(f: list[str], l: list[str]) -> list[str]:\n    return l\n\nclass FloatingGroundNode(Exception): pass')]),
    ('H4', 'branches_connected_to: `or` -> `and`', 'caught',
     [(NW, 'branch.node1 == node or branch.node2 == node', 'branch.node1 == node and branch.node2 == node')]),
    ('H4', 'branches_connected_to: sorts all the branches', 'caught',
     [(NW, 'return sorted(connected_branches, key=opposite_node)', 'return sorted(self.branches, key=opposite_node)')]),
    ('H4', 'branches_connected_to: reverse=True', 'caught',
     [(NW, 'return sorted(connected_branches, key=opposite_node)', 'return sorted(connected_branches, key=opposite_node, reverse=True)')]),
    ('H4', 'branches_connected_to: key that can raise', 'caught',
     [(NW, 'return sorted(connected_branches, key=opposite_node)', 'return sorted(connected_branches, key=lambda b: self[b.id].node1)')]),
    ('H4', 'branches_connected_to: key function of another type (Branch -> bool)', 'caught',
     [(NW, '        def opposite_node(branch: Branch) -> str:\n            return branch.node1 if branch.node1 != node else branch.node2',
       '        def opposite_node(branch: Branch) -> bool:\n            return branch.node1 != node')]),
    ('H4', 'branches_connected_to: `node` rebound after the nested def is in use', 'caught',
     [(NW, '        return sorted(connected_branches, key=opposite_node)',
       '        ordered = sorted(connected_branches, key=opposite_node)\n        node = self.node_zero_label\n        return sorted(ordered, key=opposite_node)')]),
    # ---- H6: the translated class LabelMapping and filter
    ('H6', 'LabelMapping.N counts one more', 'caught', [(LM, '        return len(self.mapping)', '        return len(self.mapping) + 1')]),
    ('H6', 'LabelMapping.keys returns the values', 'caught', [(LM, '        return list(self.mapping)\n', '        return list(self.mapping.values())\n')]),
    ('H6', 'LabelMapping.values returns each value twice', 'caught',
     [(LM, '        return list(self.mapping.values())', '        return list(self.mapping.values()) + list(self.mapping.values())')]),
    ('H6', 'LabelMapping.__iter__ iterates the values', 'caught', [(LM, '        return iter(self.mapping)', '        return iter(self.mapping.values())')]),
    ('H6', 'LabelMapping.__getitem__ off by one', 'caught', [(LM, '        return self.mapping[label]', '        return self.mapping[label] + 1')]),
    ('H6', 'LabelMapping.__call__ maps over the labels twice', 'caught',
     [(LM, 'return tuple(map(self.__getitem__, labels))', 'return tuple(map(self.__getitem__, labels + labels))')]),
    ('H6', 'LabelMapping.__call__ maps a property', 'caught',
     [(LM, 'return tuple(map(self.__getitem__, labels))', 'return tuple(map(self.N, labels))')]),
    ('H6', 'LabelMapping.__call__ returns the lazy map object', 'caught',
     [(LM, 'return tuple(map(self.__getitem__, labels))', 'return map(self.__getitem__, labels)')]),
    ('H6', '__post_init__: `!=` -> `==`', 'caught',
     [(LM, 'if len(set(self.mapping.values())) != len(self.mapping):', 'if len(set(self.mapping.values())) == len(self.mapping):')]),
    ('H6', '__post_init__: compares with the number of distinct keys + 1', 'caught',
     [(LM, 'if len(set(self.mapping.values())) != len(self.mapping):', 'if len(set(self.mapping.values())) != len(self.mapping) + 1:')]),
    ('H6', '__post_init__: raises KeyError', 'caught', [(LM, '            raise DistinctValues', '            raise KeyError')]),
    ('H6', '__post_init__: raises an exception the model does not know', 'caught', [(LM, '            raise DistinctValues', '            raise RuntimeError')]),
    ('H6', 'LabelMapping gets a __contains__', 'caught',
     [(LM, '    def __iter__(self):', '    def __contains__(self, label: str) -> bool:\n        return False\n\n    def __iter__(self):')]),
    ('H6', 'LabelMapping gets a second field', 'caught', [(LM, '    mapping: dict[str, int]\n', '    mapping: dict[str, int]\n    offset: int = 0\n')]),
    ('H6', 'LabelMapping.N is no longer a property', 'caught', [(LM, '    @property\n    def N(self) -> int:', '    def N(self) -> int:')]),
    ('H6', 'filter: keeps the keys the predicate rejects', 'caught', [(LM, '        if filter_fcn(label):', '        if not filter_fcn(label):')]),
    ('H6', 'filter: predicate not consulted', 'caught', [(LM, '        if filter_fcn(label):', '        if True:')]),
    ('H6', 'filter: stored index off by one', 'caught',
     [(LM, 'filtered_mapping[label] = mapping[label]', 'filtered_mapping[label] = mapping[label] + 1')]),
    ('H6', 'filter: keys re-indexed from 0 (reads the dict it fills)', 'caught',
     [(LM, 'filtered_mapping[label] = mapping[label]', 'filtered_mapping[label] = len(filtered_mapping)')]),
    ('H6', 'filter: everything stored under one key', 'caught',
     [(LM, 'filtered_mapping[label] = mapping[label]', "filtered_mapping['x'] = mapping[label]")]),
    ('H6', 'filter: returns the unfiltered dict', 'caught', [(LM, 'return LabelMapping(filtered_mapping)', 'return LabelMapping(mapping.mapping)')]),
    ('H6', 'filter: returns its argument', 'caught', [(LM, 'return LabelMapping(filtered_mapping)', 'return mapping')]),
    ('H6', 'filter: the dict is stored in an object, then written again', 'caught',
     [(LM, '    return LabelMapping(filtered_mapping)',
       '    result = LabelMapping(filtered_mapping)\n    for label in mapping.keys:\n        filtered_mapping[label] = mapping[label]\n    return result')]),
    ('H6', 'filter: fills the dict of its argument', 'caught', [(LM, '    filtered_mapping = {}\n', '    filtered_mapping = mapping.mapping\n')]),
    ('H6', 'filter: iterates the keys twice', 'caught', [(LM, '    for label in mapping.keys:', '    for label in mapping.keys + mapping.keys:')]),
    # ---- the unmodified source: the translated class / filter, dict comprehension
    ('-', 'unmodified source', 'passes', []),
    ('-', 'LabelMapping.N counts one more', 'caught', [(LM, '        return len(self.mapping)', '        return len(self.mapping) + 1')]),
    ('-', 'LabelMapping.keys: the keys twice', 'caught',
     [(LM, '        return list(self.mapping.keys())', '        return list(self.mapping.keys()) + list(self.mapping.keys())')]),
    ('-', 'LabelMapping.__call__: the generator filters', 'caught',
     [(LM, 'return tuple(self[label] for label in labels)', 'return tuple(self[label] for label in labels if label in self.keys)')]),
    ('-', 'LabelMapping.__iter__ iterates the values', 'caught',
     [(LM, '        return iter(self.mapping.keys())', '        return iter(self.mapping.values())')]),
    ('-', 'filter: `if not filter_fcn(k)`', 'caught', [(LM, 'for k in mapping.keys if filter_fcn(k)', 'for k in mapping.keys if not filter_fcn(k)')]),
    ('-', 'filter: no `if`', 'caught', [(LM, '{k: mapping[k] for k in mapping.keys if filter_fcn(k)}', '{k: mapping[k] for k in mapping.keys}')]),
    ('-', 'filter: value is the constant N', 'caught', [(LM, '{k: mapping[k] for k in', '{k: mapping.N for k in')]),
    ('-', 'filter: the predicate is applied twice, second time negated (and / raising operand)', 'caught',
     [(LM, 'for k in mapping.keys if filter_fcn(k)}', 'for k in mapping.keys if filter_fcn(k) and not filter_fcn(k)}')]),
    ('-', 'filter: not wrapped in LabelMapping (a bare dict)', 'caught',
     [(LM, 'return LabelMapping({k: mapping[k] for k in mapping.keys if filter_fcn(k)})', 'return {k: mapping[k] for k in mapping.keys if filter_fcn(k)}')]),
    # ---- further harmless rewrites that use the added constructs (expected to pass)
    ('-', 'HARMLESS current_source_vector: the filter function is a nested def instead of a lambda', 'passes',
     [(NA, '    cs_index = map.filter(source_mapper(network), lambda x: is_current_source(network[x].element))',
       '    def is_source(x: str) -> bool:\n        return is_current_source(network[x].element)\n    cs_index = map.filter(source_mapper(network), is_source)')]),
    ('-', 'HARMLESS branches_between: set displays', 'passes',
     [(NW, 'set((branch.node1, branch.node2)) == set((node1, node2))', '{branch.node1, branch.node2} == {node1, node2}')]),
    ('-', 'HARMLESS branches_connected_to: sorted(key=lambda) instead of list.sort', 'passes',
     [(NW, '        connected_branches.sort(key=lambda x: x.node1 if x.node1!=node else x.node2)\n        return connected_branches',
       '        return sorted(connected_branches, key=lambda x: x.node1 if x.node1!=node else x.node2)')]),
    ('-', 'HARMLESS LabelMapping.__call__: list comprehension inside tuple()', 'passes',
     [(LM, 'return tuple(self[label] for label in labels)', 'return tuple([self[label] for label in labels])')]),
    ('-', 'HARMLESS LabelMapping.__post_init__: raise DistinctValues()', 'passes', [(LM, '            raise DistinctValues', '            raise DistinctValues()')]),
    ('H3', 'HARMLESS c_row_voltage: the Callable argument is a lambda', 'passes',
     [(SS, 'return self._row_for_voltage(branch_id, self.c_row_for_potential)\n', 'return self._row_for_voltage(branch_id, lambda node_id: self.c_row_for_potential(node_id))\n')]),
]


def run_one(patch, edits, coq, work):
    root = os.path.join(work, 'repo')
    shutil.rmtree(root, ignore_errors=True)
    shutil.copytree(os.path.join(REPO, 'src', 'CircuitCalculator'), os.path.join(root, 'src', 'CircuitCalculator'))
    if patch != '-':
        r = subprocess.run(['patch', '-p1', '-s', '-i', os.path.join(HARMLESS, patch, 'patch.diff')], cwd=root, capture_output=True, text=True)
        if r.returncode:
            return f'PATCH DOES NOT APPLY: {(r.stdout + r.stderr).strip()[:100]}'
    for rel, old, new in edits:
        p = os.path.join(root, rel)
        s = open(p, encoding='utf-8').read()
        if s.count(old) != 1:
            return f'MUTATION DOES NOT APPLY ({s.count(old)} matches in {rel})'
        s = s.replace(old, new)
        try:
            compile(s, p, 'exec')
        except SyntaxError as e:
            return f'MUTANT IS NOT PYTHON: {e}'
        with open(p, 'w', encoding='utf-8') as f:
            f.write(s)
    src = os.path.join(root, 'src', 'CircuitCalculator')
    try:
        files = dict(gen_network.generate(src))
        files.update(gen_matrix.generate(src))
    except Unsupported as e:
        return 'refused: ' + str(e).replace(src + '/', '')
    for fn, text in files.items():
        write_if_changed(os.path.join(coq, 'Gen', fn), text)
    r = subprocess.run(['timeout', '1800', 'make', '-k', '-j2', 'Properties/C01d.vo', 'Properties/C10c.vo'], cwd=coq, capture_output=True, text=True)
    errs = []
    for m in re.finditer(r'File "\./([^"]+)", line (\d+)', r.stdout + r.stderr):
        errs.append(f'{m.group(1)}: {enclosing(os.path.join(coq, m.group(1)), int(m.group(2)))}')
    if r.returncode == 0 and not errs:
        return 'passes'
    if errs:
        return 'broken: ' + '; '.join(dict.fromkeys(errs))
    return 'broken: make failed: ' + (r.stderr.strip().splitlines() or ['?'])[-1]


def main():
    ap = argparse.ArgumentParser()
    ap.add_argument('--work', default='/tmp/mutcheck_matrix_refactored')
    ap.add_argument('--only', nargs='*')
    ap.add_argument('--md')
    a = ap.parse_args()
    coq0 = os.path.join(VERIF, 'coq')
    coq = os.path.join(a.work, 'coq')
    if not os.path.isdir(coq):
        os.makedirs(a.work, exist_ok=True)
        shutil.copytree(coq0, coq)              # compiled copy; rebuilt incrementally
    else:                                        # hand-written files may have changed since the copy was made
        for root, _, fs in os.walk(coq0):
            for fn in fs:
                if (fn.endswith('.v') and os.path.basename(root) != 'Gen') or fn in ('_CoqProject', 'Makefile', 'Makefile.conf'):
                    p = os.path.join(root, fn)
                    write_if_changed(os.path.join(coq, os.path.relpath(p, coq0)), open(p, encoding='utf-8').read())
    bad = k = 0
    lines = ['| # | patch | mutation | expected | outcome |', '|---|---|---|---|---|']
    print('\n'.join(lines), flush=True)
    for patch, name, expect, edits in MUTATIONS:
        if a.only and not any(o in name or o == patch for o in a.only):
            continue
        k += 1
        res = run_one(patch, edits, coq, a.work)
        caught = res.startswith('refused') or res.startswith('broken')
        ok = (expect == 'caught' and caught) or (expect == 'passes' and res == 'passes')
        bad += not ok
        lines.append(f'| {k} | {patch} | {name} | {expect} | {res}{"" if ok else "  **UNEXPECTED**"} |')
        print(lines[-1], flush=True)
    print(f'\n{bad} unexpected outcome(s)')
    if a.md:
        with open(a.md, 'w', encoding='utf-8') as f:
            f.write('\n'.join(lines) + f'\n\n{bad} unexpected outcome(s)\n')
    return 1 if bad else 0


if __name__ == '__main__':
    sys.exit(main())
