#!/usr/bin/env python3
"""Scratch driver (not part of tools/): semantic mutants of the REFACTORED sources (H7, H8, H13 applied), to check that the
widened subset of gen_circuit.py / gen_annotation.py lets no mutant of the new constructs through.  Same procedure as
tools/mutcheck_gens.py: copy the source tree, edit, run all translators, rebuild C02c, C09c, C14c in a private coq copy."""
import os
import re
import shutil
import subprocess
import sys

HERE = '/tmp/pw/robb/tools'
sys.path.insert(0, HERE)
from v2lib import Unsupported  # noqa: E402
import mutcheck_gens as mg  # noqa: E402

CI = 'Circuit/circuit.py'
SO = 'Circuit/solution.py'
DS = 'SimpleCircuit/DiagramSolution.py'

EDITS = [
    # ---- H7
    ('H7', 'E00 (H7 unchanged)', 'passes', []),
    ('H7', 'E01 ground selection `== 1` -> `== 0`', 'caught', [(CI, 'if len(ground_nodes) == 1 else', 'if len(ground_nodes) == 0 else', None)]),
    ('H7', 'E02 operands of the conditional expression swapped', 'caught',
     [(CI, 'ground_nodes[0] if len(ground_nodes) == 1 else self.components[0].nodes[0]', 'self.components[0].nodes[0] if len(ground_nodes) == 1 else ground_nodes[0]', None)]),
    ('H7', 'E03 `not in` -> `in`', 'caught', [(CI, 'component.type not in periodic_source_types', 'component.type in periodic_source_types', None)]),
    ('H7', 'E04 tuple constant loses the current source', 'caught',
     [(CI, "periodic_source_types = ('periodic_voltage_source', 'periodic_current_source')", "periodic_source_types = ('periodic_voltage_source',)", None)]),
    ('H7', 'E05 sorted(S) -> list(S)', 'caught', [(CI, 'return sorted(unique_frequencies)', 'return list(unique_frequencies)', None)]),
    ('H7', 'E06 np.arange(n_max)', 'caught', [(CI, 'np.arange(n_max+1)', 'np.arange(n_max)', None)]),
    ('H7', 'E07 update with [w_max]', 'caught', [(CI, 'unique_frequencies.update(frequencies(component))', 'unique_frequencies.update([w_max])', None)]),
    ('H7', 'E08 duplicate-id test inverted', 'caught', [(CI, 'if len(set(component_ids)) != len(component_ids):', 'if len(set(component_ids)) == len(component_ids):', None)]),
    ('H7', 'E09 non-periodic source contributes nothing', 'caught', [(CI, '            return [w]\n', '            return []\n', None)]),
    ('H7', 'E10 ids replaced by types', 'caught', [(CI, 'component_ids = [component.id for', 'component_ids = [component.type for', None)]),
    ('H7', 'E11 the tuple constant is rebound after the def (late binding)', 'caught',
     [(CI, '    unique_frequencies = set()\n', "    unique_frequencies = set()\n    periodic_source_types = ('resistor',)\n", None)]),
    ('H7', 'E12 the set is aliased', 'caught',
     [(CI, '    return sorted(unique_frequencies)', '    other = unique_frequencies\n    return sorted(other)', None)]),
    ('H7', 'E13 w*np.arange -> np.arange*w stays a product but of the other order (refused: not in the subset)', 'caught',
     [(CI, 'list(w*np.arange(n_max+1))', 'list(np.arange(n_max+1)*w)', None)]),
    ('H7', 'E14 the scaled harmonics are shifted: (w+w)*arange', 'caught', [(CI, 'list(w*np.arange(n_max+1))', 'list((w+w)*np.arange(n_max+1))', None)]),
    # ---- H8
    ('H8', 'F00 (H8 unchanged)', 'passes', []),
    ('H8', 'F01 _scaled: /np.sqrt(2) dropped', 'caught', [(SO, '        return peak_value/np.sqrt(2)', '        return peak_value', None)]),
    ('H8', 'F02 _scaled: test negated', 'caught', [(SO, '        if self.peak_values:\n            return peak_value\n', '        if not self.peak_values:\n            return peak_value\n', None)]),
    ('H8', 'F03 ComplexSolution.get_current reads the voltage', 'caught',
     [(SO, 'return self._scaled(self._solution.get_current(component_id))', 'return self._scaled(self._solution.get_voltage(component_id))', None)]),
    ('H8', 'F04 TimeDomainSolution.get_current superposes the voltages', 'caught',
     [(SO, 'return self._superposition([solution.get_current(component_id) for solution in self._solutions])',
       'return self._superposition([solution.get_voltage(component_id) for solution in self._solutions])', None)]),
    ('H8', 'F05 _series conjugates every value', 'caught', [(SO, 'np.array([quantity(solution) for solution in self._solutions])', 'np.array([np.conj(quantity(solution)) for solution in self._solutions])', None)]),
    ('H8', 'F06 _series: spectrum dropped', 'caught', [(SO, 'return np.array(self.w), self._spectrum(values)', 'return np.array(self.w), values', None)]),
    ('H8', 'F07 FrequencyDomainSolution.get_power: the lambda reads the voltage', 'caught',
     [(SO, 'lambda solution: solution.get_power(component_id)', 'lambda solution: solution.get_voltage(component_id)', None)]),
    ('H8', 'F08 _spectrum: values/2 -> values', 'caught', [(SO, 'np.where(self._positive, values/2, values)', 'np.where(self._positive, values, values)', None)]),
    ('H8', 'F09 get_power: the factor 1/2 lost', 'caught', [(SO, 'return 1/2*voltage*conjugate_current', 'return voltage*conjugate_current', None)]),
    ('H8', 'F10 get_power: conj dropped', 'caught', [(SO, 'conjugate_current = np.conj(self.get_current(component_id))', 'conjugate_current = self.get_current(component_id)', None)]),
    ('H8', 'F11 _spectrum: the two halves concatenated the other way round', 'caught',
     [(SO, 'np.concatenate((negative_frequency_values, non_negative_frequency_values))', 'np.concatenate((non_negative_frequency_values, negative_frequency_values))', None)]),
    ('H8', 'F12 _superposition: frequencies reversed', 'caught', [(SO, 'zip(phasors, self.w)])))', 'zip(phasors, self.w[::-1])])))', None)]),
    ('H8', 'F13 _series: the lambda is applied to the first solution only', 'caught',
     [(SO, 'np.array([quantity(solution) for solution in self._solutions])', 'np.array([quantity(self._solutions[0]) for solution in self._solutions])', None)]),
    ('H8', 'F14 get_power: current evaluated before the voltage (order of the exceptions)', 'caught',
     [(SO, '        voltage = self.get_voltage(component_id)\n        conjugate_current = np.conj(self.get_current(component_id))\n        if self.peak_values:',
       '        conjugate_current = np.conj(self.get_current(component_id))\n        voltage = self.get_voltage(component_id)\n        if self.peak_values:', None)]),
    ('H8', 'F15 a helper nobody calls is added', 'caught', [(SO, '    def _scaled(self, peak_value: complex) -> complex:', '    def _unused(self, x: complex) -> complex:\n        return x\n\n    def _scaled(self, peak_value: complex) -> complex:', None)]),
    # ---- H13
    ('H13', 'G00 (H13 unchanged)', 'passes', []),
    ('H13', 'G01 _direction_sign flipped', 'caught', [(DS, '    return -1 if reverse else 1', '    return 1 if reverse else -1', None)]),
    ('H13', 'G02 sinusoidal _print: sin and deg swapped', 'caught', [(DS, '            sin=self.sin,\n            deg=self.deg,', '            sin=self.deg,\n            deg=self.sin,', None)]),
    ('H13', 'G03 complex adapter: current printed with unit V', 'caught',
     [(DS, "return self._print(_direction_sign(reverse)*self.solution.get_current(name), unit='A')", "return self._print(_direction_sign(reverse)*self.solution.get_current(name), unit='V')", 1)]),
    ('H13', 'G04 real adapter: sign lost for voltages', 'caught',
     [(DS, "dsp.print_real(_direction_sign(reverse)*self.solution.get_voltage(name), unit='V'", "dsp.print_real(self.solution.get_voltage(name), unit='V'", None)]),
    ('H13', 'G05 complex _print: precision not forwarded', 'caught', [(DS, '            precision=self.precision,\n            polar=self.polar,', '            polar=self.polar,', None)]),
    ('H13', 'G06 sinusoidal get_potential prints the voltage', 'caught',
     [(DS, "return self._print(self.solution.get_potential(name), unit='V')", "return self._print(self.solution.get_voltage(name), unit='V')", 0)]),
    ('H13', 'G07 _print ignores its unit parameter', 'caught', [(DS, '            value=value,\n            unit=unit,\n            precision=self.precision,\n            polar', "            value=value,\n            unit='V',\n            precision=self.precision,\n            polar", None)]),
    ('H13', 'G08 _print uses value twice', 'caught', [(DS, '            value=value,\n            unit=unit,\n            precision=self.precision,\n            w=', '            value=value*value,\n            unit=unit,\n            precision=self.precision,\n            w=', None)]),
    ('H13', 'G09 _direction_sign ignores reverse', 'caught', [(DS, '    return -1 if reverse else 1', '    return 1', None)]),
]


def main():
    work = '/tmp/pw/robb/mut_extra'
    coq0 = '/tmp/pw/robb/coq'
    coq = os.path.join(work, 'coq')
    only = sys.argv[1:]
    if not os.path.isdir(coq):
        os.makedirs(work, exist_ok=True)
        shutil.copytree(coq0, coq)
    else:
        for root, _, fs in os.walk(coq0):
            for fn in fs:
                if fn.endswith('.v') and 'Gen' not in root:
                    src_ = os.path.join(root, fn)
                    mg.write_if_changed(os.path.join(coq, os.path.relpath(src_, coq0)), open(src_, encoding='utf-8').read())
    rows = []
    for base, name, expect, edits in EDITS:
        if only and not any(name.startswith(o) for o in only):
            continue
        srcm = os.path.join(work, 'repo', 'src', 'CircuitCalculator')
        shutil.rmtree(os.path.join(work, 'repo'), ignore_errors=True)
        shutil.copytree(f'/tmp/pw/robb/repo_{base}/src/CircuitCalculator', srcm)
        mg.apply_edits(srcm, edits, name)
        try:
            files = mg.generate_all(srcm)
        except Unsupported as e:
            rows.append((name, expect, 'caught', 'translator refuses: ' + str(e).replace(srcm + '/', '')))
            print(rows[-1], flush=True)
            continue
        for fn, text in files.items():
            mg.write_if_changed(os.path.join(coq, 'Gen', fn), text)
        r = subprocess.run(['timeout', '1800', 'make', '-k', '-j4', 'Properties/C02c.vo', 'Properties/C09c.vo', 'Properties/C14c.vo'],
                           cwd=coq, capture_output=True, text=True)
        errs = []
        for m in re.finditer(r'File "\./([^"]+)", line (\d+)', r.stdout + r.stderr):
            errs.append(f'{m.group(1)}: {mg.enclosing(os.path.join(coq, m.group(1)), int(m.group(2)))}')
        if r.returncode == 0 and not errs:
            rows.append((name, expect, 'passes', 'C02c, C09c, C14c compile'))
        else:
            rows.append((name, expect, 'caught', 'stops compiling: ' + '; '.join(dict.fromkeys(errs)) if errs
                         else 'make failed: ' + (r.stderr.strip().splitlines() or ['?'])[-1]))
        print(rows[-1], flush=True)
    bad = sum(1 for _, e, g, _ in rows if e != g)
    print(f'\n{len(rows)} edits, {bad} unexpected')
    for name, e, g, d in rows:
        if e != g:
            print('UNEXPECTED', name, g, d)
    return 1 if bad else 0


if __name__ == '__main__':
    sys.exit(main())
