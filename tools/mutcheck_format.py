#!/usr/bin/env python3
"""Mutation check of tools/gen_format.py and of the equalities over its output (Theory/FormatGenThm.v, Properties/C18c.v).
For every edit below: copy the Python source tree, apply the edit to the COPY (Utils.py), run all gen_*.py translators on
the copy (as py2v.py does with VERIF_REPO), write the result into a private copy of coq/ and rebuild Properties/C18c.vo
(and Properties/C14c.vo, whose Gen/AnnotationGen.v also reads the dataclass defaults of Utils.py) there with `make -k`.
Reported per edit: refused by the translator (message), or the first lemma of each file that stops compiling, or `passes`.
usage: mutcheck_format.py [--src /repo/src/CircuitCalculator] [--work DIR] [--only NAME ...]"""
import argparse
import importlib
import os
import re
import shutil
import subprocess
import sys

HERE = os.path.dirname(os.path.abspath(__file__))
sys.path.insert(0, HERE)
from v2lib import Unsupported  # noqa: E402

UT = 'Utils.py'
H11 = '/verif/seeded/harmless/H11/patch.diff'

# (name, expectation, [(file, old, new, occurrence index | None = exactly once | 'all')] | 'patch:<file>')
EDITS = [
    ("M01 rebase_exp: below the table the exponent is rebased on max instead of min", 'caught',
     [(UT, "                    return exp - min(self.exp_prefixes.keys())", "                    return exp - max(self.exp_prefixes.keys())", None)]),
    ("M02 is_zero: `<=` for `<`", 'caught', [(UT, "return self.exponent < self.min_exp", "return self.exponent <= self.min_exp", None)]),
    ("M03 zero padding replaced by ljust", 'caught',
     [(UT, "f'.{post_decimal:0{post_decimal_positions}d}'", "'.' + str(post_decimal).ljust(post_decimal_positions, '0')", None)]),
    ("M04 default table of ScientificFloat: the prefix u dropped", 'caught', [(UT, "        -6 : 'u',\n", "", 0)]),
    ("M05 default table of ScientificComplex: 'M' for 6 replaced by 'm'", 'caught', [(UT, "        6 : 'M',", "        6 : 'm',", 1)]),
    ("M06 carry exit: `return 0` -> `return 1 - self.precision`", 'caught',
     [(UT, "                return 0\n", "                return 1 - self.precision\n", None)]),
    ("M07 carry exit removed", 'caught',
     [(UT, "            if rounded_post_decimal == '0':\n                return 0\n", "", None)]),
    ("M08 compact form: sign of the imaginary part lost", 'caught',
     [(UT, "        sign = ' + ' if self.value.imag >= 0 else ' - '\n        if self.compact:\n            return sign.strip()",
       "        sign = ' + ' if self.value.imag >= 0 else ' - '\n        if self.compact:\n            return ''", None)]),
    ("M09 exponent3: -1 dropped (off by one in the exponent-of-three rule)", 'caught',
     [(UT, "(self.precision + self.exponent - 1)/3", "(self.precision + self.exponent)/3", None)]),
    ("M10 mantissa: np.floor for np.round", 'caught',
     [(UT, "return int(np.round(self.value/(10**self.exponent)))", "return int(np.floor(self.value/(10**self.exponent)))", None)]),
    ("M11 exponent of |x| >= 1: len(pre_decimal)-precision+1", 'caught',
     [(UT, "        return len(pre_decimal)-self.precision", "        return len(pre_decimal)-self.precision+1", None)]),
    ("M12 infinity sign: `> 0` for `>= 0`", 'caught', [(UT, "if self.value3.mantissa >= 0 else", "if self.value3.mantissa > 0 else", None)]),
    ("M13 value3: min_exp no longer taken from the table", 'caught',
     [(UT, "min_exp=min(self.exp_prefixes.keys()), ", "", None)]),
    ("M14 real_sign: '-' for '- '", 'caught', [(UT, "else '- '", "else '-'", None)]),
    ("M15 polar, degrees: threshold -3 for -2", 'caught', [(UT, "<= -2:", "<= -3:", None)]),
    ("M16 polar, radians: .3f for .4f", 'caught', [(UT, "{self.angle:.4f}", "{self.angle:.3f}", None)]),
    ("M17 is_zero: the test value == 0 removed", 'caught',
     [(UT, "        if self.value == 0:\n            return True\n        return self.exponent < self.min_exp", "        return self.exponent < self.min_exp", None)]),
    ("M18 _float_to_string: one digit less after the point (pinned primitive)", 'caught',
     [(UT, "split('e')[-1]))+1+self.precision", "split('e')[-1]))+self.precision", None)]),
    ("M19 FloatPrecision: default min_exp -15", 'caught', [(UT, "    min_exp: int = -16", "    min_exp: int = -15", None)]),
    ("M20 exp_extension: 'E' for 'e'", 'caught', [(UT, "return f'e{rebase_exp(exp)}'", "return f'E{rebase_exp(exp)}'", None)]),
    ("M21 post_decimal_positions: at least 1", 'caught',
     [(UT, "max(self.precision - pre_decimal_positions, 0)", "max(self.precision - pre_decimal_positions, 1)", None)]),
    ("M22 exponent: abs() dropped", 'caught', [(UT, "abs_value = abs(self.value)", "abs_value = self.value", None)]),
    ("M23 ScientificComplex.imag built from the real part", 'caught',
     [(UT, "ScientificFloat(abs(self.value.imag), self.unit", "ScientificFloat(abs(self.value.real), self.unit", None)]),
    ("M24 exp_prefix: above the table the prefix of min is shown", 'caught',
     [(UT, "            return self.exp_prefixes[max(self.exp_prefixes.keys())]", "            return self.exp_prefixes[min(self.exp_prefixes.keys())]", None)]),
    ("M25 Cartesian form: imaginary part shown when the REAL part is_zero (tests swapped)", 'caught',
     [(UT, "            if self.imag.value3.is_zero:\n                return f'{self.real_sign}{self.real.__str__()}'",
       "            if self.real.value3.is_zero and not self.imag.value3.is_zero:\n                return f'{self.real_sign}{self.real.__str__()}'", None)]),
    ("M26 the rounding that finds the exponent uses precision+1 decimals", 'caught',
     [(UT, "decimals=self.precision)", "decimals=self.precision+1)", None)]),
    ("M27 a loop is introduced (outside the subset)", 'caught',
     [(UT, "        abs_value = abs(self.value)\n", "        abs_value = abs(self.value)\n        for _ in range(1):\n            pass\n", None)]),
    ("E01 exp_prefix: `>=` for `>` (EQUIVALENT: for exp == max both return the prefix of max)", 'either',
     [(UT, "        if exp > max(self.exp_prefixes.keys()):\n            return self.exp_prefixes[", "        if exp >= max(self.exp_prefixes.keys()):\n            return self.exp_prefixes[", None)]),
    # ---------------- harmless rewrites
    ("H01 the maintainer's refactoring /verif/seeded/harmless/H11 (locals for max / min / value3 / mantissa3 / exponent3, flattened rebase_exp)",
     'passes', 'patch:' + H11),
    ("H02 is_zero as one expression: `return self.value == 0 or self.exponent < self.min_exp`", 'passes',
     [(UT, "        if self.value == 0:\n            return True\n        return self.exponent < self.min_exp",
       "        return self.value == 0 or self.exponent < self.min_exp", None)]),
    ("H03 exponent3 with integer floor division: 3*((precision + exponent - 1)//3)", 'passes',
     [(UT, "return int(3*np.floor((self.precision + self.exponent - 1)/3))", "return 3*((self.precision + self.exponent - 1)//3)", None)]),
    ("H04 real_sign with the test reversed: '- ' if value.real < 0 else ''", 'passes',
     [(UT, "sign = '' if self.value.real >= 0 else '- '", "sign = '- ' if self.value.real < 0 else ''", None)]),
    ("H05 docstrings added, @dataclass(frozen=True) -> @dataclass, abs for np.abs, membership test on the dict itself", 'passes',
     [(UT, "    @property\n    def is_zero(self) -> bool:\n", "    @property\n    def is_zero(self) -> bool:\n        \"\"\"below the smallest exponent\"\"\"\n", None),
      (UT, "@dataclass(frozen=True)\nclass FloatPrecision:", "@dataclass\nclass FloatPrecision:", None),
      (UT, "0 if np.abs(self.value3.mantissa3) < 1", "0 if abs(self.value3.mantissa3) < 1", None),
      (UT, "        if exp in self.exp_prefixes.keys():", "        if exp in self.exp_prefixes:", None)]),
    ("H06 mantissa: value*10**(-exponent) for value/(10**exponent)  (exact-equal; in binary64 it is not the same operation)", 'either',
     [(UT, "np.round(self.value/(10**self.exponent))", "np.round(self.value*10**(-self.exponent))", None)]),
    ("H07 exponent: if / else instead of the early return; rounded text kept in a local", 'passes',
     [(UT, "            if rounded_post_decimal == '0':\n                return 0\n            return -(len(rounded_post_decimal)-len(rounded_post_decimal.lstrip('0'))+self.precision)",
       "            if rounded_post_decimal == '0':\n                return 0\n            else:\n                zeros = len(rounded_post_decimal)-len(rounded_post_decimal.lstrip('0'))\n"
       "                return -(zeros+self.precision)", None)]),
]


def apply_edits(src, edits, name):
    if isinstance(edits, str) and edits.startswith('patch:'):
        root = os.path.dirname(os.path.dirname(src))
        r = subprocess.run(['patch', '-p1', '--no-backup-if-mismatch', '-i', edits[6:]], cwd=root, capture_output=True, text=True)
        if r.returncode != 0:
            raise SystemExit(f'{name}: patch does not apply: {r.stdout}{r.stderr}')
        return
    for rel, old, new, occ in edits:
        p = os.path.join(src, *rel.split('/'))
        text = open(p, encoding='utf-8').read()
        n = text.count(old)
        if occ is None:
            if n != 1:
                raise SystemExit(f'{name}: pattern occurs {n} times in {rel} (expected once): {old!r}')
            text = text.replace(old, new)
        elif occ == 'all':
            if n == 0:
                raise SystemExit(f'{name}: pattern absent in {rel}: {old!r}')
            text = text.replace(old, new)
        else:
            parts = text.split(old)
            if len(parts) - 1 <= occ:
                raise SystemExit(f'{name}: pattern occurs {n} times in {rel}, occurrence {occ} wanted: {old!r}')
            text = old.join(parts[:occ + 1]) + new + old.join(parts[occ + 1:])
        with open(p, 'w', encoding='utf-8') as f:
            f.write(text)
    for rel in {e[0] for e in edits}:
        p = os.path.join(src, *rel.split('/'))
        compile(open(p, encoding='utf-8').read(), p, 'exec')                 # the edited file must still be Python


def enclosing(vfile, line):
    name = '?'
    with open(vfile, encoding='utf-8') as f:
        for i, l in enumerate(f, 1):
            m = re.match(r'\s*(Lemma|Theorem|Example|Definition|Fixpoint|Corollary)\s+([A-Za-z0-9_\']+)', l)
            if m:
                name = m.group(2)
            if i >= line:
                break
    return name


def write_if_changed(path, text):
    if os.path.exists(path) and open(path, encoding='utf-8').read() == text:
        return
    with open(path, 'w', encoding='utf-8') as f:
        f.write(text)


def generate_all(src):
    out = {}
    for name in sorted(os.listdir(HERE)):
        if name.startswith('gen_') and name.endswith('.py'):
            out.update(importlib.import_module(name[:-3]).generate(src))
    return out


def main():
    ap = argparse.ArgumentParser()
    ap.add_argument('--src', default=os.path.join(os.environ.get('VERIF_REPO', '/repo'), 'src', 'CircuitCalculator'))
    ap.add_argument('--work', default='/tmp/mutcheck_format')
    ap.add_argument('--only', nargs='*')
    a = ap.parse_args()
    coq0 = os.path.join(os.path.dirname(HERE), 'coq')
    coq = os.path.join(a.work, 'coq')
    if not os.path.isdir(coq):
        os.makedirs(a.work, exist_ok=True)
        shutil.copytree(coq0, coq)          # compiled copy; rebuilt incrementally
    else:                                    # hand-written files may have changed since the copy was made
        for root, _, fs in os.walk(coq0):
            for fn in fs:
                if fn.endswith('.v') or fn in ('_CoqProject', 'Makefile', 'Makefile.conf'):
                    src_ = os.path.join(root, fn)
                    write_if_changed(os.path.join(coq, os.path.relpath(src_, coq0)), open(src_, encoding='utf-8').read())
    rows = []
    for name, expect, edits in EDITS + [('(restore: unmodified source)', 'passes', [])]:
        if a.only and not any(name.startswith(o) for o in a.only) and edits:
            continue
        srcm = os.path.join(a.work, 'repo', 'src', 'CircuitCalculator')
        shutil.rmtree(os.path.join(a.work, 'repo'), ignore_errors=True)
        shutil.copytree(a.src, srcm)
        apply_edits(srcm, edits, name)
        try:
            files = generate_all(srcm)
        except Unsupported as e:
            msg = str(e).replace(srcm + '/', '')
            rows.append((name, expect, 'caught', 'translator refuses: ' + msg))
            print(rows[-1], flush=True)
            continue
        changed = [fn for fn, text in files.items()
                   if not os.path.exists(os.path.join(coq0, 'Gen', fn)) or open(os.path.join(coq0, 'Gen', fn), encoding='utf-8').read() != text]
        for fn, text in files.items():
            write_if_changed(os.path.join(coq, 'Gen', fn), text)
        r = subprocess.run(['timeout', '1800', 'make', '-k', '-j4', 'Properties/C18c.vo', 'Properties/C14c.vo'],
                           cwd=coq, capture_output=True, text=True)
        errs = []
        for m in re.finditer(r'File "\./([^"]+)", line (\d+)', r.stdout + r.stderr):
            lemma = enclosing(os.path.join(coq, m.group(1)), int(m.group(2)))
            errs.append(f'{m.group(1)}: {lemma}')
        gen = 'Gen changed: ' + (', '.join(changed) if changed else 'nothing')
        if r.returncode == 0 and not errs:
            rows.append((name, expect, 'passes', f'C18c and C14c compile ({gen})'))
        else:
            rows.append((name, expect, 'caught', ('stops compiling: ' + '; '.join(dict.fromkeys(errs)) if errs
                         else 'make failed: ' + (r.stderr.strip().splitlines() or ['?'])[-1]) + f' ({gen})'))
        print(rows[-1], flush=True)
    print()
    bad = 0
    for name, expect, got, detail in rows:
        flag = '' if expect in (got, 'either') else '   <-- UNEXPECTED'
        bad += expect not in (got, 'either')
        print(f'{name}\n    {got}: {detail}{flag}')
    return 1 if bad else 0


if __name__ == '__main__':
    sys.exit(main())
