(* Model/RunStateSpace.v — runner entry point (function id 10) for the state-space model over Qc.
   tokens in : network (complex codec of Model/Codec.v; every imaginary part must be 0 — the w = 0 network of an
               R/L/C/ideal-source circuit is real; otherwise the answer is [-3] = outside the modelled domain),
               c_values as list of (label, Qc), l_values likewise, potential nodes, voltage ids, current ids.
   tokens out: res of  sources (list of labels), A, B, C, D (lists of rows of Qc); C and D are the stacked output
               rows of Circuit.state_space_model. *)
From Coq Require Import List Bool ZArith NArith QArith Qcanon.
From CC Require Import Theory.Field Theory.Complex Model.Network Model.Codec Model.StateSpace.
Import ListNotations.

Definition is_real (c : CQ) : bool := Qc_eq_bool (snd c) 0%Qc.

Definition re_elem (e : elem CQ) : option (elem Qcops) :=
  match e with
  | ZV nm k z v => if is_real z && is_real v then Some (@ZV Qcops nm k (fst z) (fst v)) else None
  | YI nm k y i => if is_real y && is_real i then Some (@YI Qcops nm k (fst y) (fst i)) else None
  end.

Fixpoint re_branches (bs : list (branch CQ)) : option (list (branch Qcops)) :=
  match bs with
  | [] => Some []
  | b :: r =>
      match re_elem (el b), re_branches r with
      | Some e, Some r' => Some (@Build_branch Qcops (node1 b) (node2 b) e :: r')
      | _, _ => None
      end
  end.

Definition re_network (n : network CQ) : option (network Qcops) :=
  match re_branches (branches n) with
  | Some bs => Some (@Build_network Qcops bs (zero n))
  | None => None
  end.

Definition pvals : parser (list (label * Qc)) := plist (let* k := plabel in let* v := pQc in pret (k, v)).

Definition emat (M : list (list Qc)) : list Z := elist (elist eQc) M.

Definition run_state_space : parser (list Z) :=
  let* n := pnetwork in let* cv := pvals in let* lv := pvals in
  let* pots := plist plabel in let* vids := plist plabel in let* cids := plist plabel in
  pret (match re_network n with
        | None => [(-3)%Z]
        | Some nr =>
            eres (fun m : ssm Qcops => elist elabel (sources Qcops nr lv) ++ emat (ss_A m) ++ emat (ss_B m)
                                        ++ emat (ss_C m) ++ emat (ss_D m))
                 (state_space_model Qcops nr cv lv pots vids cids)
        end).
