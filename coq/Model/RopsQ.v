(* Model/RopsQ.v — executable instance of [rops] at the rationals, for cross-evaluating Gen/Periodic.v against the
   Python methods: every operation is exact, [rpi] is the exact rational value of the double np.pi, and cos/sin are
   fixed-point Taylor polynomials (accurate to < 1e-20 for |x| <= 8, which is all the harness uses).
   Results are kept reduced ([Qred]) so that equal values are syntactically equal. *)
From Coq Require Import ZArith QArith Qround.
From CC Require Import Model.Rops.

Definition qpi : Q := 884279719003555 # 281474976710656.     (* = float.as_integer_ratio(np.pi) *)

(* cos / sin stand-ins: Taylor polynomials (24 terms) evaluated in 2^-96 fixed point on the argument rounded to
   2^-96; absolute error < 1e-20 for |x| <= 8.  (Exact rational Taylor sums are far too slow under vm_compute.) *)
Definition fx_one : Z := (2 ^ 96)%Z.
Definition to_fx (x : Q) : Z := Qfloor (x * inject_Z fx_one).
Definition of_fx (z : Z) : Q := Qred (Qmake z (Z.to_pos fx_one)).
(* sum_{j <= terms} (-1)^j x^(2j+s) / (2j+s)!  by the term recurrence; s = 0 (k = 0): cos, s = 1 (k = 1): sin *)
Fixpoint taylor_fx (terms : nat) (x2 : Z) (k : Z) (term acc : Z) : Z :=
  match terms with
  | O => acc
  | S r => let term' := (- (term * x2 / fx_one) / ((k + 1) * (k + 2)))%Z in
           taylor_fx r x2 (k + 2) term' (acc + term')%Z
  end.
Definition qcos (x : Q) : Q :=
  let xf := to_fx x in of_fx (taylor_fx 24 (xf * xf / fx_one)%Z 0 fx_one fx_one).
Definition qsin (x : Q) : Q :=
  let xf := to_fx x in of_fx (taylor_fx 24 (xf * xf / fx_one)%Z 1 xf xf).

Definition qmod (x y : Q) : Q := Qred (x - y * inject_Z (Qfloor (x / y))).
Definition qltb (x y : Q) : bool := negb (Qle_bool y x).

Definition QOps : rops :=
  {| RT := Q;
     radd := fun a b => Qred (a + b); rsub := fun a b => Qred (a - b); rmul := fun a b => Qred (a * b);
     rdiv := fun a b => Qred (a / b); ropp := fun a => Qred (- a); rofZ := inject_Z;
     rpi := qpi; rcos := qcos; rsin := qsin; rmod := qmod; rltb := qltb |}.
