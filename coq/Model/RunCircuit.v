(* Model/RunCircuit.v — runner entry points for the Circuit layer over the executable reals Qc / complex CQ. *)
From Coq Require Import List Bool ZArith NArith QArith Qcanon Qround.
From CC Require Import Theory.Field Theory.Complex Model.Network Model.Codec Model.Circuit.
Import ListNotations.

Definition Qc_leb (x y : Qc) : bool := Qle_bool (this x) (this y).
Definition Qc_floor (x : Qc) : Z := Qfloor (this x).
Definition Qc_ofZ (z : Z) : Qc := Q2Qc (inject_Z z).
(* np.round: nearest integer, ties to even *)
Definition Qc_round (x : Qc) : Z :=
  let f := Qfloor (this x) in
  let r := (this x - inject_Z f)%Q in
  match (r ?= 1 # 2)%Q with
  | Lt => f
  | Gt => (f + 1)%Z
  | Eq => if Z.even f then f else (f + 1)%Z
  end.

Definition qcomp := @comp Qcops.

Definition nth_kind (z : Z) : option ckind := nth_error all_kinds (Z.to_nat z).

Definition pcomp : parser qcomp :=
  let* kz := pZ in
  match nth_kind kz with
  | None => fun _ => None
  | Some k =>
      let* id := plabel in let* nodes := plist plabel in
      let* vals := plist (let* key := plabel in let* v := pQc in pret (key, v)) in
      let* wave := plabel in let* c := pQc in let* s := pQc in
      let* harm := plist (let* n := pZ in let* a := pQc in let* hc := pQc in let* hs := pQc in pret (n, (a, (hc, hs)))) in
      pret (@Build_comp Qcops k id nodes vals wave (c, s) harm)
  end.

Definition q_transform (cs : list qcomp) (w wres : Qc) : res (network CQ) :=
  transform_circuit Qcops Qc_leb Qc_round Qc_ofZ cs w wres.

(* fn 3 *)
Definition run_transform_circuit : parser (list Z) :=
  let* cs := plist pcomp in let* w := pQc in let* wres := pQc in
  pret (eres enetwork (q_transform cs w wres)).

(* fn 4: ComplexSolution(circuit, w, peak_values) — potentials of the network's node labels, then v, i, p per branch *)
Definition run_complex_solution : parser (list Z) :=
  let* cs := plist pcomp in let* w := pQc in let* wres := pQc in let* peak := pbool in let* s2 := pQc in
  pret (match complex_solution Qcops Qc_leb Qc_round Qc_ofZ cs w wres peak with
        | Err e => [1%Z; err_code e]
        | Ok s =>
            let n := s_net (cs_sol s) in
            0%Z :: elist (fun l => elabel l ++ eres eCQ (c_potential Qcops s2 s l)) (node_labels n)
            ++ elist (fun b => elabel (bid b) ++ eres eCQ (c_voltage Qcops s2 s (bid b))
                               ++ eres eCQ (c_current Qcops s2 s (bid b)) ++ eres eCQ (c_power Qcops s2 s (bid b)))
                     (branches n)
        end).

(* fn 5: DCSolution(circuit) *)
Definition run_dc_solution : parser (list Z) :=
  let* cs := plist pcomp in let* wres := pQc in
  pret (match dc_solution Qcops Qc_leb Qc_round Qc_ofZ cs wres with
        | Err e => [1%Z; err_code e]
        | Ok s =>
            let n := s_net s in
            0%Z :: elist (fun l => elabel l ++ eres eQc (dc_potential Qcops s l)) (node_labels n)
            ++ elist (fun b => elabel (bid b) ++ eres eQc (dc_voltage Qcops s (bid b))
                               ++ eres eQc (dc_current Qcops s (bid b)) ++ eres eQc (dc_power Qcops s (bid b)))
                     (branches n)
        end).

(* fn 9: frequency_components(circuit, w_max) *)
Definition run_frequency_components : parser (list Z) :=
  let* cs := plist pcomp in let* wmax := pQc in
  pret (eres (elist eQc) (frequency_components Qcops Qc_leb Qc_ofZ Qc_floor cs wmax)).
