(* Model/WrappersPrims.v — the (hand-written, small) Coq meaning of the few Python / numpy constructs that the translator
   tools/gen_wrappers.py emits into Gen/WrappersGen.v beyond the vocabularies of Model/CircuitGenPrims.v (Gen/CircuitGen.v) and
   Model/MatrixPrims.v (Gen/MatrixGen.v).  Everything else in Gen/WrappersGen.v is a compositional image of the Python source.
   Each primitive is the meaning given to ONE construct:

     np.array(L)          L a Python list of numbers      np_array1 L        the 1-D array with the same entries, in order
     L.append(x)          L a local created by []         py_append L x      L with x added at the end
     z.real               z a number returned by the port functions of node_analysis.py (a finite complex number [Some z],
                          or a non-finite float [None], as in Model/Port.v)
                                                          py_real z          the real part; the real part of a non-finite
                                                                             value is non-finite
     a dict[str, float] handed to a function that is generic in the field of the network (the network of a circuit is
     complex, Model/Circuit.v; the values of its components are real)
                                                          dict_real_to_complex d   every value x becomes x + 0j
     np.ndarray(shape=(0, n))                             np_ndarray_0 n     the 2-D array without rows and with n columns
                                                                             (nothing of the uninitialised memory is visible)
     np.vstack([a, b])                                    np_vstack a b      np.atleast_2d of both (a 1-D array of length
                                                                             m is one row of m entries), then the rows of a
                                                                             followed by the rows of b; as everywhere in
                                                                             Model/MatrixPrims.v the ValueError of numpy for
                                                                             unequal row lengths is not modelled and the
                                                                             result keeps the column count of a
   Conventions as in Model/MatrixPrims.v: a 2-D array is an [arr2] (rows and number of columns), a 1-D array a list. *)
From Coq Require Import List Bool NArith Arith.
From CC Require Import Theory.Field Theory.Complex Model.Network Model.StateSpace Model.Port Model.Circuit Model.MatrixPrims.
Import ListNotations.

Definition np_array1 {A : Type} (l : list A) : list A := l.

Definition py_append {A : Type} (l : list A) (x : A) : list A := l ++ [x].

Section Reals.
Variable R : fops.
Notation C := (Cx R).

Definition py_real (z : option C) : option R := option_map (@fst R R) z.

Definition dict_real_to_complex (d : list (label * R)) : list (label * C) := map (fun kv => (fst kv, cre R (snd kv))) d.
End Reals.

Section Arrays.
Context {K : fops}.

Definition np_ndarray_0 (n : nat) : arr2 K := {| a_cols := n; a_rows := [] |}.

(* np.atleast_2d, on the two representations of an array-valued result *)
Class AtLeast2d (T : Type) := np_atleast_2d : T -> arr2 K.
Global Instance atleast_2d_arr2 : AtLeast2d (arr2 K) := fun M => M.
Global Instance atleast_2d_ndarr : AtLeast2d (ndarr K) :=
  fun x => match x with A1 u => {| a_cols := length u; a_rows := [u] |} | A2 M => M end.

Definition np_vstack {T1 T2 : Type} {H1 : AtLeast2d T1} {H2 : AtLeast2d T2} (a : T1) (b : T2) : arr2 K :=
  np_vstack2 (np_atleast_2d a) (np_atleast_2d b).
End Arrays.
Arguments AtLeast2d K T : clear implicits.
