(* Model/Network.v — executable model of CircuitCalculator.Network:
     elements.py (the two dual element records, constructors, classification predicates),
     network.py (Branch, Network, validation, node_labels),
     NodalAnalysis/label_mapping.py (sorted label -> index maps),
     NodalAnalysis/node_analysis.py (MNA matrix and right-hand side, entry by entry),
     NodalAnalysis/bias_point_analysis.py + solution.py (solve, get_potential/voltage/current/power).
   Definitions only; theorems live in Theory/ and Properties/.  Generic in the field [K]. *)
From Coq Require Import List Bool NArith Arith.
From CC Require Import Theory.Field.
Import ListNotations.

(* ---------- labels: Python str as a list of code points, ordered like Python's str ---------- *)
Definition label := list N.

Fixpoint label_eqb (a b : label) : bool :=
  match a, b with
  | [], [] => true
  | x :: a', y :: b' => N.eqb x y && label_eqb a' b'
  | _, _ => false
  end.

Fixpoint label_leb (a b : label) : bool :=
  match a, b with
  | [], _ => true
  | _ :: _, [] => false
  | x :: a', y :: b' => if N.ltb x y then true else if N.eqb x y then label_leb a' b' else false
  end.

Definition lmem (x : label) (l : list label) : bool := existsb (label_eqb x) l.

Fixpoint ldedup (l : list label) : list label :=
  match l with
  | [] => []
  | x :: r => if lmem x r then ldedup r else x :: ldedup r
  end.

Fixpoint linsert (x : label) (l : list label) : list label :=
  match l with
  | [] => [x]
  | y :: r => if label_leb x y then x :: l else y :: linsert x r
  end.

Fixpoint lsort (l : list label) : list label :=
  match l with [] => [] | x :: r => linsert x (lsort r) end.

(* position of a label in a list (dict lookup in a LabelMapping); length l when absent *)
Fixpoint lindex (l : list label) (x : label) : nat :=
  match l with [] => O | y :: r => if label_eqb y x then O else S (lindex r x) end.

(* ---------- results with the exception classes the code raises ---------- *)
Inductive err := EFloatingGround | EAmbiguousIDs | EKeyError | ESingular | EValue | EAttribute | EOther
  | EMultipleGround | EAmbiguousComponent | ETypeError | EZeroDivision | EFileFormat | EFileExists | EUnknownWavetype
  | EUnidentified | EIncorrectInfo | EUnknownComponent | EIndex.
Inductive res (A : Type) := Ok (a : A) | Err (e : err).
Arguments Ok {A} a. Arguments Err {A} e.
Definition bind {A B} (r : res A) (f : A -> res B) : res B :=
  match r with Ok a => f a | Err e => Err e end.

Section Net.
Variable K : fops.
Notation "0" := (f0 K). Notation "1" := (f1 K).
Infix "+" := (fadd K). Infix "*" := (fmul K). Infix "-" := (fsub K). Notation "- x" := (fopp K x).
Infix "/" := (fdiv K).
Notation "x == y" := (feqb K x y) (at level 70).

(* elements.py: NortenElement (fields Z, V) and TheveninElement (fields Y, I); [kind] is the type string *)
Inductive elem :=
| ZV (name : label) (kind : N) (z v : K)
| YI (name : label) (kind : N) (y i : K).

Definition ename (e : elem) : label := match e with ZV n _ _ _ => n | YI n _ _ _ => n end.
Definition ekind (e : elem) : N := match e with ZV _ k _ _ => k | YI _ k _ _ => k end.

(* derived properties; None stands for np.inf (Y, Z) or np.nan (I, V) *)
Definition eY (e : elem) : option K :=
  match e with ZV _ _ z _ => if z == 0 then None else Some (1 / z) | YI _ _ y _ => Some y end.
Definition eI (e : elem) : option K :=
  match e with ZV _ _ z v => if z == 0 then None else Some (v / z) | YI _ _ _ i => Some i end.
Definition eZ (e : elem) : option K :=
  match e with ZV _ _ z _ => Some z | YI _ _ y _ => if y == 0 then None else Some (1 / y) end.
Definition eV (e : elem) : option K :=
  match e with ZV _ _ _ v => Some v | YI _ _ y i => if y == 0 then None else Some (i / y) end.

Definition nz (o : option K) : bool := match o with Some x => negb (x == 0) | None => false end.
Definition isz (o : option K) : bool := match o with Some x => x == 0 | None => false end.
Definition num (o : option K) : bool := match o with Some _ => true | None => false end.

Definition is_voltage_source (e : elem) : bool := nz (eV e).
Definition is_current_source (e : elem) : bool := nz (eI e).
Definition is_ideal_voltage_source (e : elem) : bool := num (eV e) && isz (eZ e).
Definition is_ideal_current_source (e : elem) : bool := num (eI e) && isz (eY e).
Definition is_active (e : elem) : bool := is_voltage_source e || is_current_source e.
Definition is_short_circuit (e : elem) : bool := isz (eV e) && isz (eZ e).
Definition is_open_circuit (e : elem) : bool := isz (eI e) && isz (eY e).

(* kind tags (elements.py type strings) *)
Definition k_impedance := 1%N. Definition k_admittance := 2%N. Definition k_resistor := 3%N.
Definition k_conductor := 4%N. Definition k_load := 5%N. Definition k_voltage_source := 6%N.
Definition k_current_source := 7%N. Definition k_open_circuit := 8%N. Definition k_short_circuit := 9%N.

(* element constructors of elements.py *)
Definition impedance n z := ZV n k_impedance z 0.
Definition admittance n y := YI n k_admittance y 0.
Definition resistor n r := ZV n k_resistor r 0.
Definition conductor n g := YI n k_conductor g 0.
Definition voltage_source n v z := ZV n k_voltage_source z v.
Definition current_source n i y := YI n k_current_source y i.
Definition open_circuit n := YI n k_open_circuit 0 0.
Definition short_circuit n := ZV n k_short_circuit 0 0.
(* load(name, P, V_ref, Q) with V_ref > 0:  Y = (P + jQ)/V_ref^2 ; with I_ref > 0: Z = (P + jQ)/I_ref^2.
   [s] is the already formed complex(P, Q). *)
Definition load_v n (s vref : K) := YI n k_load (s / (vref * vref)) 0.
Definition load_i n (s iref : K) := ZV n k_load (s / (iref * iref)) 0.

(* network.py *)
Record branch := { node1 : label; node2 : label; el : elem }.
Definition bid (b : branch) : label := ename (el b).
Record network := { branches : list branch; zero : label }.

Definition branch_ids (n : network) : list label := map bid (branches n).
Definition node_labels (n : network) : list label :=
  match branches n with
  | [] => [zero n]
  | _ => lsort (ldedup (map node1 (branches n) ++ map node2 (branches n)))
  end.

(* Network.__post_init__ *)
Definition validate (n : network) : res network :=
  if negb (lmem (zero n) (node_labels n)) && negb (Nat.eqb (length (node_labels n)) 0) then Err EFloatingGround
  else if negb (Nat.eqb (length (ldedup (branch_ids n))) (length (branches n))) then Err EAmbiguousIDs
  else Ok n.

(* Network.__getitem__ : {b.id: b for b in branches}[id] — the last branch with that id *)
Fixpoint get_branch (bs : list branch) (id : label) : option branch :=
  match bs with
  | [] => None
  | b :: r => match get_branch r id with Some b' => Some b' | None => if label_eqb (bid b) id then Some b else None end
  end.

Definition connected (i : label) (b : branch) : bool := label_eqb (node1 b) i || label_eqb (node2 b) i.
(* set((n1,n2)) == set((i,j)) *)
Definition between (i j : label) (b : branch) : bool :=
  (label_eqb (node1 b) i || label_eqb (node1 b) j) && (label_eqb (node2 b) i || label_eqb (node2 b) j)
  && (label_eqb i (node1 b) || label_eqb i (node2 b)) && (label_eqb j (node1 b) || label_eqb j (node2 b)).

(* label_mapping.py *)
Definition node_index (n : network) : list label :=
  filter (fun l => negb (label_eqb l (zero n))) (lsort (node_labels n)).
Definition cs_index (n : network) : list label :=
  lsort (map bid (filter (fun b => is_current_source (el b)) (branches n))).
Definition vs_index (n : network) : list label :=
  lsort (map bid (filter (fun b => is_ideal_voltage_source (el b)) (branches n))).
Definition source_index (n : network) : list label :=
  lsort (map bid (filter (fun b => is_current_source (el b)) (branches n))
         ++ map bid (filter (fun b => is_ideal_voltage_source (el b)) (branches n))).

(* node_analysis.py *)
Definition finY (b : branch) : K := match eY (el b) with Some y => y | None => 0 end.
Definition has_finY (b : branch) : bool := num (eY (el b)).

Definition admittance_connected_to (bs : list branch) (i : label) : K :=
  sumF finY (filter has_finY (filter (connected i) bs)).
Definition admittance_between (bs : list branch) (i j : label) : K :=
  sumF finY (filter has_finY (filter (between i j) bs)).

(* branches the admittance matrix is assembled from (see node_admittance_matrix) *)
Definition y_branches (n : network) : list branch := branches n.

Definition Yent (n : network) (i j : label) : K :=
  if label_eqb i j then admittance_connected_to (y_branches n) i
  else - admittance_between (y_branches n) i j.

Definition dir_of (ob : option branch) (node : label) : K :=
  match ob with
  | Some b => if label_eqb (node1 b) node then 1 else if label_eqb (node2 b) node then - (1) else 0
  | None => 0
  end.
Definition Bent (n : network) (node vs : label) : K := dir_of (get_branch (branches n) vs) node.

Definition Qent (n : network) (node cs : label) : K :=
  match get_branch (branches n) cs with
  | Some b => if label_eqb (node2 b) node then 1 else if label_eqb (node1 b) node then - (1) else 0
  | None => 0
  end.

Definition opt0 (o : option K) : K := match o with Some x => x | None => 0 end.
Definition branch_I (n : network) (id : label) : K :=
  match get_branch (branches n) id with Some b => opt0 (eI (el b)) | None => 0 end.
Definition branch_V (n : network) (id : label) : K :=
  match get_branch (branches n) id with Some b => opt0 (eV (el b)) | None => 0 end.

Definition mna_matrix (n : network) : list (list K) :=
  let ns := node_index n in let vs := vs_index n in
  map (fun i => map (Yent n i) ns ++ map (Bent n i) vs) ns
  ++ map (fun v => map (fun i => Bent n i v) ns ++ map (fun _ => 0) vs) vs.

Definition mna_rhs (n : network) : list K :=
  map (fun i => sumF (fun cs => Qent n i cs * branch_I n cs) (cs_index n)) (node_index n)
  ++ map (branch_V n) (vs_index n).

(* (before the fix: commit the admittance matrix was assembled through a *validated* Network of the
   non-ideal-voltage-source branches, raising FloatingGroundNode when the reference node was on none
   of them; now the matrix is assembled from the network itself, ideal voltage sources being dropped
   by the finite-admittance filter.) *)
Definition assemble_check (n : network) : res unit := Ok tt.

(* ---------- exact linear solver (Gauss–Jordan on augmented rows), checked a posteriori ---------- *)
Definition row_scale (c : K) (r : list K) : list K := map (fun x => c * x) r.
Fixpoint row_sub (r : list K) (c : K) (p : list K) : list K :=   (* r - c*p *)
  match r, p with
  | x :: r', y :: p' => (x - c * y) :: row_sub r' c p'
  | _, _ => r
  end.
Definition entry (r : list K) (c : nat) : K := nth c r 0.

Fixpoint find_pivot (c : nat) (rows : list (list K)) : option (list K * list (list K)) :=
  match rows with
  | [] => None
  | r :: rest =>
      if entry r c == 0 then
        match find_pivot c rest with Some (p, others) => Some (p, r :: others) | None => None end
      else Some (r, rest)
  end.

Definition eliminate (c : nat) (p : list K) (rows : list (list K)) : list (list K) :=
  map (fun r => if entry r c == 0 then r else row_sub r (entry r c) p) rows.

(* [done] holds the already pivoted rows in column order *)
Fixpoint gauss_jordan (fuel c : nat) (done todo : list (list K)) : option (list (list K)) :=
  match fuel with
  | O => match todo with [] => Some done | _ => None end
  | S fuel' =>
      match find_pivot c todo with
      | None => None
      | Some (p, others) =>
          let p' := row_scale (1 / entry p c) p in
          gauss_jordan fuel' (S c) (eliminate c p' done ++ [p']) (eliminate c p' others)
      end
  end.

Definition mat_vec (A : list (list K)) (x : list K) : list K := map (fun r => dot r x) A.

Fixpoint vec_eqb (u v : list K) : bool :=
  match u, v with
  | [], [] => true
  | a :: u', b :: v' => (a == b) && vec_eqb u' v'
  | _, _ => false
  end.

Definition solve (A : list (list K)) (b : list K) : option (list K) :=
  let n := length b in
  match gauss_jordan n 0 [] (map (fun rb => fst rb ++ [snd rb]) (combine A b)) with
  | Some rows =>
      let x := map (fun r => entry r n) rows in
      if Nat.eqb (length x) n && vec_eqb (mat_vec A x) b then Some x else None
  | None => None
  end.

(* matrix inverse with the same elimination: augmented [A | I], checked A * X = I *)
Definition unit_vec (n k : nat) : list K := map (fun j => if Nat.eqb j k then 1 else 0) (seq 0 n).
Definition ident (n : nat) : list (list K) := map (unit_vec n) (seq 0 n).
Definition col (M : list (list K)) (j : nat) : list K := map (fun r => entry r j) M.
Definition transpose (ncols : nat) (M : list (list K)) : list (list K) := map (col M) (seq 0 ncols).
Definition mat_mul (ncolsB : nat) (A B : list (list K)) : list (list K) :=
  map (fun r => map (fun j => dot r (col B j)) (seq 0 ncolsB)) A.
Fixpoint mat_eqb (A B : list (list K)) : bool :=
  match A, B with
  | [], [] => true
  | a :: A', b :: B' => vec_eqb a b && mat_eqb A' B'
  | _, _ => false
  end.
Definition inverse (A : list (list K)) : option (list (list K)) :=
  let n := length A in
  match gauss_jordan n 0 [] (map (fun ri => fst ri ++ snd ri) (combine A (ident n))) with
  | Some rows =>
      let X := map (skipn n) rows in
      if Nat.eqb (length X) n && mat_eqb (mat_mul n A X) (ident n) then Some X else None
  | None => None
  end.

(* ---------- bias_point_analysis.py / solution.py ---------- *)
Record solution := { s_net : network; s_x : list K }.

Definition solve_network (n : network) : res solution :=
  bind (validate n) (fun _ =>
  bind (assemble_check n) (fun _ =>
  match solve (mna_matrix n) (mna_rhs n) with
  | Some x => Ok {| s_net := n; s_x := x |}
  | None => Err ESingular
  end)).

Definition get_potential (s : solution) (node : label) : res K :=
  let n := s_net s in
  if label_eqb node (zero n) then Ok 0
  else if lmem node (node_index n) then Ok (nth (lindex (node_index n) node) (s_x s) 0)
  else Err EKeyError.

Definition get_voltage (s : solution) (id : label) : res K :=
  match get_branch (branches (s_net s)) id with
  | None => Err EKeyError
  | Some b => bind (get_potential s (node1 b)) (fun p1 => bind (get_potential s (node2 b)) (fun p2 => Ok (p1 - p2)))
  end.

Definition get_current (s : solution) (id : label) : res K :=
  let n := s_net s in
  if lmem id (vs_index n) then
    Ok (nth (length (node_index n) + lindex (vs_index n) id) (s_x s) 0)
  else match get_branch (branches n) id with
  | None => Err EKeyError
  | Some b =>
      if is_ideal_current_source (el b) then Ok (opt0 (eI (el b)))
      else if is_current_source (el b) then
        bind (get_voltage s id) (fun v => Ok (- (opt0 (eI (el b)) + v / opt0 (eZ (el b)))))
      else bind (get_voltage s id) (fun v => Ok (v / opt0 (eZ (el b))))
  end.

Definition get_power (s : solution) (id : label) : res K :=
  bind (get_voltage s id) (fun v => bind (get_current s id) (fun i => Ok (v * fconj K i))).

(* physical first->second flow: the reported current, sign-corrected for linear sources *)
Definition is_linear_source (e : elem) : bool :=
  negb (is_ideal_voltage_source e) && negb (is_ideal_current_source e) && is_current_source e.

End Net.

Arguments ZV {K}. Arguments YI {K}.
Arguments Build_branch {K}. Arguments Build_network {K}.
Arguments ename {K}.
Arguments ekind {K}.
Arguments eY {K}.
Arguments eI {K}.
Arguments eZ {K}.
Arguments eV {K}.
Arguments nz {K}.
Arguments isz {K}.
Arguments num {K}.
Arguments is_voltage_source {K}.
Arguments is_current_source {K}.
Arguments is_ideal_voltage_source {K}.
Arguments is_ideal_current_source {K}.
Arguments is_active {K}.
Arguments is_short_circuit {K}.
Arguments is_open_circuit {K}.
Arguments impedance {K}.
Arguments admittance {K}.
Arguments resistor {K}.
Arguments conductor {K}.
Arguments voltage_source {K}.
Arguments current_source {K}.
Arguments open_circuit {K}.
Arguments short_circuit {K}.
Arguments load_v {K}.
Arguments load_i {K}.
Arguments bid {K}.
Arguments branch_ids {K}.
Arguments node_labels {K}.
Arguments validate {K}.
Arguments get_branch {K}.
Arguments connected {K}.
Arguments between {K}.
Arguments node_index {K}.
Arguments cs_index {K}.
Arguments vs_index {K}.
Arguments source_index {K}.
Arguments finY {K}.
Arguments has_finY {K}.
Arguments admittance_connected_to {K}.
Arguments admittance_between {K}.
Arguments y_branches {K}.
Arguments Yent {K}.
Arguments dir_of {K}.
Arguments Bent {K}.
Arguments Qent {K}.
Arguments opt0 {K}.
Arguments branch_I {K}.
Arguments branch_V {K}.
Arguments mna_matrix {K}.
Arguments mna_rhs {K}.
Arguments assemble_check {K}.
Arguments row_scale {K}.
Arguments row_sub {K}.
Arguments entry {K}.
Arguments find_pivot {K}.
Arguments eliminate {K}.
Arguments gauss_jordan {K}.
Arguments mat_vec {K}.
Arguments vec_eqb {K}.
Arguments solve {K}.
Arguments unit_vec {K}.
Arguments ident {K}.
Arguments col {K}.
Arguments transpose {K}.
Arguments mat_mul {K}.
Arguments mat_eqb {K}.
Arguments inverse {K}.
Arguments solve_network {K}.
Arguments get_potential {K}.
Arguments get_voltage {K}.
Arguments get_current {K}.
Arguments get_power {K}.
Arguments is_linear_source {K}.
Arguments node1 {K}.
Arguments node2 {K}.
Arguments el {K}.
Arguments branches {K}.
Arguments zero {K}.
Arguments s_net {K}.
Arguments s_x {K}.
Arguments Build_solution {K}.
