(* Model/RunLoaders.v — runner entry point 17: the loaders of Model/Loaders.v over the executable reals Qc.
   tokens:  sub, pi (a rational), oracle table [(x, cos x, sin x)], then the arguments of the sub-function.
   documents: 0 null | 1 b | 2 num den | 3 label | 4 re im (two rationals) | 5 n items | 6 n (label item)* *)
From Coq Require Import List Bool ZArith NArith QArith Qcanon.
From CC Require Import Theory.Field Theory.Complex Model.Network Model.Codec Model.Circuit Model.RunCircuit Model.Loaders.
Import ListNotations.

Definition qjval := jval Qcops.

Fixpoint pjval (fuel : nat) : parser qjval :=
  match fuel with
  | O => fun _ => None
  | S f =>
      let* tag := pZ in
      match tag with
      | 0 => pret JNull
      | 1 => let* b := pbool in pret (JBool b)
      | 2 => let* q := pQc in pret (JNum (q : Qcops))
      | 3 => let* s := plabel in pret (JStr s)
      | 4 => let* z := pCQ in pret (JCplx (R := Qcops) z)
      | 5 => let* l := plist (pjval f) in pret (JList l)
      | 6 => let* l := plist (let* k := plabel in let* v := pjval f in pret (k, v)) in pret (JDict l)
      | _ => fun _ => None
      end%Z
  end.
Definition pdoc : parser qjval := fun ts => pjval (S (length ts)) ts.

Fixpoint ejval (t : qjval) : list Z :=
  match t with
  | JNull => [0%Z]
  | JBool b => 1%Z :: ebool b
  | JNum q => 2%Z :: eQc q
  | JStr s => 3%Z :: elabel s
  | JCplx z => 4%Z :: eCQ z
  | JList l => 5%Z :: Z.of_nat (length l) :: flat_map ejval l
  | JDict l => 6%Z :: Z.of_nat (length l) :: flat_map (fun kv => let '(k, v) := kv in elabel k ++ ejval v) l
  end.

Definition oracle := list (Qc * (Qc * Qc)).
Fixpoint olook (t : oracle) (x : Qc) : Qc * Qc :=
  match t with
  | [] => (1%Qc, 0%Qc)
  | (k, cs) :: r => if Qc_eq_bool k x then cs else olook r x
  end.
Definition poracle : parser oracle := plist (let* k := pQc in let* c := pQc in let* s := pQc in pret (k, (c, s))).

Definition elcomp (c : lcomp Qcops) : list Z :=
  elabel (lc_type c) ++ elabel (lc_id c) ++ elist elabel (lc_nodes c)
  ++ elist (fun kv : label * qjval => elabel (fst kv) ++ ejval (snd kv)) (lc_value c).

Definition same_doc (a b : qjval) : list Z := ebool (jval_eqb Qcops a b).

(* fn 17 *)
Definition run_loaders : parser (list Z) :=
  let* sub := pZ in let* pi := pQc in let* tab := poracle in
  let cis := olook tab in
  match sub with
  | 1 => (* load_network: result, then whether the description is unchanged *)
      let* d := pdoc in
      let '(r, d') := load_network_st Qcops pi cis d in pret (eres enetwork r ++ same_doc d d')
  | 2 => let* deg := pbool in let* d := pdoc in
         let '(r, d') := to_complex_st Qcops pi cis deg d in pret (eres eCQ r ++ same_doc d d')
  | 3 => let* d := pdoc in pret (ejval (dictify_all Qcops d))
  | 4 => let* d := pdoc in pret (eres ejval (undictify_all Qcops Qc_leb pi cis d))
  | 5 => let* d := pdoc in
         let '(r, d') := generate_component_st Qcops Qc_leb d in pret (eres elcomp r ++ same_doc d d')
  | 6 => let* f := plabel in let* d := pdoc in
         pret (match d with JDict kw => eres elcomp (construct Qcops Qc_leb f kw) | _ => [(-1)%Z] end)
  | 7 => let* d := pdoc in
         pret (eres (fun cg : list (lcomp Qcops) * label => elist elcomp (fst cg) ++ elabel (snd cg))
                    (undictify_circuit Qcops Qc_leb d))
  | 8 => (* the loader before fix 6828b52: result, then whether the description is unchanged *)
      let* d := pdoc in
      let '(r, d') := load_network_prefix_st Qcops pi cis d in pret (eres enetwork r ++ same_doc d d')
  | _ => fun _ => None
  end%Z.
