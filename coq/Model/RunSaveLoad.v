(* Model/RunSaveLoad.v — runner entry point 15: the save / load data path of Model/SaveLoad.v over the executable reals Qc.
   tokens:  pi (n d: the exact rational of math.pi), then a list of CONSTRUCTOR CALLS
              n, n times ( class, kwargs, start x (n d) y (n d), end x (n d) y (n d) )
            class : 0 Resistor | 1 Conductance | 2 Impedance | 3 Admittance | 4 Capacitor | 5 Inductance | 6 VoltageSource
                  | 7 CurrentSource | 8 ComplexVoltageSource | 9 ComplexCurrentSource | 10 ACVoltageSource | 11 ACCurrentSource
                  | 12 RectVoltageSource | 13 RectCurrentSource | 14 Ground | 15 Line | 16 Element
                  | 17 followed by (0 | 1 label): any other class with the value of its .type property
            kwargs: a document of Model/RunLoaders.v (0 null | 1 b | 2 n d | 3 label | 4 re im | 5 n items | 6 n (label item)* ),
                    which must be a dictionary (tag 6); anything else: malformed.
   result:  0 :: n :: per call   res SYMBOL                                   (1) what [construct] gives
            and, when every call succeeded (d = the drawing):
            :: n :: per symbol   res (option COMPONENT)                       (4a) [translate] of every symbol of d
            :: res document                                                   (2) [save d]
            and, when save succeeded:
            :: res ( n :: SYMBOL* :: n :: (res (option COMPONENT))* )         (3) [load (save d)] and (4b) its translation
            SYMBOL    = class, _name, .name, is_reverse, attributes (n (label document)* ), _userparams (same), start, end
            COMPONENT = type, id, n points, value dictionary (n (label document)* )
            res X     = 0 X | 1 code (Model/Codec.v);  option X = 0 | 1 X;  point = x (n d) y (n d) *)
From Coq Require Import List Bool ZArith NArith QArith Qcanon.
From CC Require Import Theory.Field Theory.Complex Model.Network Model.Codec Model.Circuit Model.Loaders Model.RunLoaders
  Model.SaveLoad.
Import ListNotations.

Definition sl_symbol := SaveLoad.symbol Qcops.
Definition sl_tcomp := SaveLoad.tcomp Qcops.
Definition sl_point := SaveLoad.point Qcops.

(* ---------- decoding ---------- *)
Definition sl_pcls : parser scls :=
  let* c := pZ in
  match c with
  | 0 => pret CResistor | 1 => pret CConductance | 2 => pret CImpedance | 3 => pret CAdmittance
  | 4 => pret CCapacitor | 5 => pret CInductance | 6 => pret CVoltageSource | 7 => pret CCurrentSource
  | 8 => pret CComplexVoltageSource | 9 => pret CComplexCurrentSource | 10 => pret CACVoltageSource
  | 11 => pret CACCurrentSource | 12 => pret CRectVoltageSource | 13 => pret CRectCurrentSource
  | 14 => pret CGround | 15 => pret CLine | 16 => pret CElement
  | 17 => let* t := pZ in
          match t with
          | 0 => pret (COther None)
          | 1 => let* s := plabel in pret (COther (Some s))
          | _ => fun _ => None
          end
  | _ => fun _ => None
  end%Z.
Definition sl_ppoint : parser sl_point := let* x := pQc in let* y := pQc in pret ((x, y) : sl_point).
Definition sl_pkwargs : parser (dict qjval) :=
  let* d := pdoc in match d with JDict kw => pret kw | _ => fun _ => None end.
Record sl_call := { k_cls : scls; k_kw : dict qjval; k_start : sl_point; k_end : sl_point }.
Definition sl_pcall : parser sl_call :=
  let* c := sl_pcls in let* kw := sl_pkwargs in let* a := sl_ppoint in let* b := sl_ppoint in
  pret {| k_cls := c; k_kw := kw; k_start := a; k_end := b |}.

(* ---------- encoding ---------- *)
Definition sl_ecls (c : scls) : list Z :=
  match c with
  | CResistor => [0] | CConductance => [1] | CImpedance => [2] | CAdmittance => [3] | CCapacitor => [4] | CInductance => [5]
  | CVoltageSource => [6] | CCurrentSource => [7] | CComplexVoltageSource => [8] | CComplexCurrentSource => [9]
  | CACVoltageSource => [10] | CACCurrentSource => [11] | CRectVoltageSource => [12] | CRectCurrentSource => [13]
  | CGround => [14] | CLine => [15] | CElement => [16]
  | COther None => [17; 0]
  | COther (Some s) => 17 :: 1 :: elabel s
  end%Z.
Definition sl_epoint (p : sl_point) : list Z := eQc (fst p) ++ eQc (snd p).
Definition sl_edict (d : dict qjval) : list Z := elist (fun kv : label * qjval => elabel (fst kv) ++ ejval (snd kv)) d.
Definition sl_eoption {A} (e : A -> list Z) (o : option A) : list Z :=
  match o with Some a => 1%Z :: e a | None => [0%Z] end.
Definition sl_esymbol (s : sl_symbol) : list Z :=
  sl_ecls (s_cls s) ++ elabel (s_name s) ++ elabel (pname Qcops s) ++ ebool (s_reverse s)
  ++ sl_edict (s_attr s) ++ sl_edict (s_user s) ++ sl_epoint (s_start s) ++ sl_epoint (s_end s).
Definition sl_etcomp (c : sl_tcomp) : list Z :=
  elabel (t_type c) ++ elabel (t_id c) ++ elist sl_epoint (t_nodes c) ++ sl_edict (t_vals c).

(* fn 15 *)
Definition run_saveload : parser (list Z) :=
  let* pi := pQc in let* calls := plist sl_pcall in
  let construct1 (k : sl_call) := SaveLoad.construct Qcops pi (k_cls k) (k_kw k) (k_start k) (k_end k) in
  let etrans (d : list sl_symbol) := elist (fun s => eres (sl_eoption sl_etcomp) (translate Qcops pi s)) d in
  let head := 0%Z :: elist (fun k => eres sl_esymbol (construct1 k)) calls in
  match mapR construct1 calls with
  | Err _ => pret head
  | Ok d =>
      let sv := save Qcops pi d in
      let tail := match sv with
                  | Err _ => []
                  | Ok doc => eres (fun d' => elist sl_esymbol d' ++ etrans d') (load Qcops pi doc)
                  end in
      pret (head ++ etrans d ++ eres ejval sv ++ tail)
  end.
