(* Model/Transformers.v — executable model of Network/transformers.py.  Every operation ends in the
   validating Network(...) constructor, hence [res]. *)
From Coq Require Import List Bool NArith Arith.
From CC Require Import Theory.Field Model.Network.
Import ListNotations.

Section Trf.
Context {K : fops}.
Notation "0" := (f0 K).
Notation "x == y" := (feqb K x y) (at level 70).

(* dataclass equality: same class, equal fields (numeric ==) *)
Definition elem_eqb (a b : elem K) : bool :=
  match a, b with
  | ZV n k z v, ZV n' k' z' v' => label_eqb n n' && N.eqb k k' && (z == z') && (v == v')
  | YI n k y i, YI n' k' y' i' => label_eqb n n' && N.eqb k k' && (y == y') && (i == i')
  | _, _ => false
  end.
Definition branch_eqb (a b : branch K) : bool :=
  label_eqb (node1 a) (node1 b) && label_eqb (node2 a) (node2 b) && elem_eqb (el a) (el b).
Definition in_keep (e : elem K) (keep : list (elem K)) : bool := existsb (elem_eqb e) keep.

Definition mk (bs : list (branch K)) (z : label) : res (network K) := validate {| branches := bs; zero := z |}.

Definition switch_ground_node (n : network K) (g : label) : res (network K) := mk (branches n) g.

Fixpoint remove_first (b : branch K) (l : list (branch K)) : list (branch K) :=
  match l with [] => [] | a :: r => if branch_eqb a b then r else a :: remove_first b r end.

Definition remove_element (n : network K) (id : label) : res (network K) :=
  match get_branch (branches n) id with
  | None => Err EKeyError
  | Some b => mk (remove_first b (branches n)) (zero n)
  end.

Definition remove_open_circuit_elements (n : network K) : res (network K) :=
  mk (filter (fun b => negb (is_open_circuit (el b))) (branches n)) (zero n).

(* one contraction step: node [an] is absorbed into [rn]; branches that became loops are dropped *)
Definition contract (an rn : label) (bs : list (branch K)) : list (branch K) :=
  let bs1 := map (fun b => if label_eqb (node1 b) an then Build_branch rn (node2 b) (el b) else b) bs in
  let bs2 := map (fun b => if label_eqb (node2 b) an then Build_branch (node1 b) rn (el b) else b) bs1 in
  filter (fun b => negb (label_eqb (node1 b) (node2 b))) bs2.

Definition sc_pair (z : label) (b : branch K) : label * label :=
  if negb (label_eqb (node1 b) z) then (node1 b, node2 b) else (node2 b, node1 b).

(* while a non-exempt short circuit is left: contract the first one, its node pair read from the *current*
   branch list (fix 7870f34; before it the pairs were computed once from the input network).  Every
   iteration removes at least that short circuit, so [length bs] iterations suffice; the fuel is one more. *)
Definition is_target (keep : list (elem K)) (b : branch K) : bool :=
  is_short_circuit (el b) && negb (in_keep (el b) keep).
Fixpoint rsc_loop (fuel : nat) (z : label) (keep : list (elem K)) (bs : list (branch K)) : list (branch K) :=
  match fuel with
  | O => bs
  | S f => match find (is_target keep) bs with
           | None => bs
           | Some sc => let p := sc_pair z sc in rsc_loop f z keep (contract (fst p) (snd p) bs)
           end
  end.
Definition remove_short_circuit_elements (n : network K) (keep : list (elem K)) : res (network K) :=
  mk (rsc_loop (S (length (branches n))) (zero n) keep (branches n)) (zero n).

Definition zero_in_voltage (b : branch K) : branch K :=
  Build_branch (node1 b) (node2 b) (impedance (bid b) (opt0 (eZ (el b)))).
Definition zero_in_current (b : branch K) : branch K :=
  Build_branch (node1 b) (node2 b) (admittance (bid b) (opt0 (eY (el b)))).

Definition short_circuitify_voltage_sources (n : network K) (keep : list (elem K)) : res (network K) :=
  mk (map (fun b => if negb (in_keep (el b) keep) && is_voltage_source (el b) then zero_in_voltage b else b) (branches n))
     (zero n).
Definition open_circuitify_current_sources (n : network K) (keep : list (elem K)) : res (network K) :=
  mk (map (fun b => if negb (in_keep (el b) keep) && is_current_source (el b) then zero_in_current b else b) (branches n))
     (zero n).

Definition remove_ideal_current_sources (n : network K) (keep : list (elem K)) : res (network K) :=
  bind (open_circuitify_current_sources n keep) remove_open_circuit_elements.
Definition remove_ideal_voltage_sources (n : network K) (keep : list (elem K)) : res (network K) :=
  bind (short_circuitify_voltage_sources n keep) (fun m => remove_short_circuit_elements m keep).
Definition passive_network (n : network K) (keep : list (elem K)) : res (network K) :=
  bind (remove_ideal_current_sources n keep) (fun m => remove_ideal_voltage_sources m keep).

End Trf.
