(* Model/Port.v — executable model of the port functions, mirroring the code step by step:
     NodalAnalysis/node_analysis.py      open_circuit_impedance, element_impedance
     NodalAnalysis/bias_point_analysis.py open_circuit_voltage, short_circuit_current
   Results: [res (option K)]; [None] stands for a non-finite float (np.inf, or inf/nan of a division by 0).
   Definitions only; theorems live in Theory/PortThm.v and Properties/C06.v.  Generic in the field [K]. *)
From Coq Require Import List Bool NArith Arith.
From CC Require Import Theory.Field Model.Network Model.Transformers.
Import ListNotations.

Section Port.
Context {K : fops}.
Notation "0" := (f0 K). Notation "1" := (f1 K).
Infix "/" := (fdiv K). Infix "-" := (fsub K).
Notation "x == y" := (feqb K x y) (at level 70).

(* network = trf.open_circuitify_current_sources(trf.short_circuitify_voltage_sources(network))   (keep = []) *)
Definition deactivate (n : network K) : res (network K) :=
  bind (short_circuitify_voltage_sources n []) (fun m => open_circuitify_current_sources m []).

(* probe_id = 'probe' ; while probe_id in network.branch_ids: probe_id += '_'
   Among the |ids|+1 first candidates one is unused, so |ids|+1 units of fuel never run out. *)
Definition probe_base : label := [112; 114; 111; 98; 101]%N.
Definition underscore : N := 95%N.
Fixpoint probe_loop (fuel : nat) (id : label) (ids : list label) : label :=
  match fuel with
  | O => id
  | S f => if lmem id ids then probe_loop f (id ++ [underscore]) ids else id
  end.
Definition probe_id (n : network K) : label :=
  probe_loop (S (length (branch_ids n))) probe_base (branch_ids n).

(* Branch(node2, node1, current_source(probe_id, 1)) *)
Definition probe_branch (m : network K) (n1 n2 : label) : branch K :=
  Build_branch n2 n1 (current_source (probe_id m) 1 0).

(* Network(network.branches + [probe], node_zero_label=node2) *)
Definition attach_probe (m : network K) (n1 n2 : label) : res (network K) :=
  mk (branches m ++ [probe_branch m n1 n2]) n2.

(* A.any(axis=1) *)
Definition row_connected (r : list K) : bool := existsb (fun x => negb (x == 0)) r.

(* boolean-mask indexing  v[mask] *)
Fixpoint select {A : Type} (mask : list bool) (l : list A) : list A :=
  match mask, l with
  | c :: mask', x :: l' => if c then x :: select mask' l' else select mask' l'
  | _, _ => []
  end.
(* np.count_nonzero(mask) *)
Definition count_true (mask : list bool) : nat := length (filter (fun c : bool => c) mask).

(* the part of open_circuit_impedance after the probe network has been built *)
Definition port_solve (np : network K) (n1 : label) : res (option K) :=
  let A := mna_matrix np in
  let b := mna_rhs np in
  let conn := map row_connected A in
  if lmem n1 (node_index np) then                     (* node_index_mapper(network)[node1] *)
    let i1 := lindex (node_index np) n1 in
    if nth i1 conn false then
      match solve (map (select conn) (select conn A)) (select conn b) with   (* A[np.ix_(connected, connected)], b[connected] *)
      | Some x => Ok (Some (nth (count_true (firstn i1 conn)) x 0))
      | None => Ok None                                (* LinAlgError -> inf *)
      end
    else Ok None                                       (* not connected[i1] -> inf *)
  else Err EKeyError.

Definition ideal_source_between (n : network K) (n1 n2 : label) : bool :=
  existsb (fun b => is_ideal_voltage_source (el b)) (filter (between n1 n2) (branches n)).

Definition open_circuit_impedance (n : network K) (n1 n2 : label) : res (option K) :=
  if label_eqb n1 n2 then Ok (Some 0)
  else if ideal_source_between n n1 n2 then Ok (Some 0)
  else bind (deactivate n) (fun m =>
       bind (attach_probe m n1 n2) (fun np => port_solve np n1)).

(* open_circuit_impedance(trf.remove_element(network, element), network[element].node1, network[element].node2) *)
Definition element_impedance (n : network K) (id : label) : res (option K) :=
  bind (remove_element n id) (fun m =>
  match get_branch (branches n) id with
  | None => Err EKeyError
  | Some b => open_circuit_impedance m (node1 b) (node2 b)
  end).

(* open_circuit_voltage: the bias-point solution is built first ([solve_network]; as everywhere in this model a
   singular system is [Err ESingular], where the code falls back to the all-zero vector), then
   0 for identical nodes, else get_potential(node1) - get_potential(node2). *)
Definition open_circuit_voltage (n : network K) (n1 n2 : label) : res K :=
  bind (solve_network n) (fun s =>
  if label_eqb n1 n2 then Ok 0
  else bind (get_potential s n1) (fun p1 => bind (get_potential s n2) (fun p2 => Ok (p1 - p2)))).

(* short_circuit_current = V / Z with Z computed first.  Z and V are both the Python int 0 exactly when the
   nodes are identical (ZeroDivisionError); otherwise V is a numpy complex and the division never raises:
   V/inf = 0, V/0 = inf or nan ([None]). *)
Definition short_circuit_current (n : network K) (n1 n2 : label) : res (option K) :=
  bind (open_circuit_impedance n n1 n2) (fun oz =>
  bind (open_circuit_voltage n n1 n2) (fun v =>
  if label_eqb n1 n2 then Err EZeroDivision
  else match oz with
       | None => Ok (Some 0)
       | Some z => if z == 0 then Ok None else Ok (Some (v / z))
       end)).

End Port.
