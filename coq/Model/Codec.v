(* Model/Codec.v — token codec shared by every runner entry point: a case is a [list Z], a result is
   a [list Z].  Decoders are total ([option]); the extracted driver only moves integers. *)
From Coq Require Import List Bool ZArith NArith QArith Qcanon.
From CC Require Import Theory.Field Theory.Complex Model.Network.
Import ListNotations.

Definition parser (A : Type) := list Z -> option (A * list Z).
Definition pret {A} (a : A) : parser A := fun ts => Some (a, ts).
Definition pbind {A B} (p : parser A) (f : A -> parser B) : parser B :=
  fun ts => match p ts with Some (a, ts') => f a ts' | None => None end.
Notation "'let*' x ':=' p 'in' q" := (pbind p (fun x => q)) (at level 200, x pattern, p at level 100, q at level 200).

Definition pZ : parser Z := fun ts => match ts with t :: r => Some (t, r) | [] => None end.
Definition pnat : parser nat := let* z := pZ in pret (Z.to_nat z).
Definition pN : parser N := let* z := pZ in pret (Z.to_N z).
Definition pbool : parser bool := let* z := pZ in pret (negb (Z.eqb z 0)).

Fixpoint prep {A} (n : nat) (p : parser A) : parser (list A) :=
  match n with
  | O => pret []
  | S k => let* a := p in let* r := prep k p in pret (a :: r)
  end.
Definition plist {A} (p : parser A) : parser (list A) := let* n := pnat in prep n p.
Definition plabel : parser label := plist pN.

Definition pQc : parser Qc := let* n := pZ in let* d := pZ in pret (qc n (Z.to_pos d)).
Definition pCQ : parser CQ := let* r := pQc in let* i := pQc in pret ((r, i) : CQ).

(* encoders *)
Definition eQc (q : Qc) : list Z := [Qnum (this q); Zpos (Qden (this q))].
Definition eCQ (c : CQ) : list Z := eQc (fst c) ++ eQc (snd c).
Definition elabel (l : label) : list Z := Z.of_nat (length l) :: map Z.of_N l.
Definition elist {A} (e : A -> list Z) (l : list A) : list Z := Z.of_nat (length l) :: flat_map e l.
Definition err_code (e : err) : Z :=
  match e with EFloatingGround => 1 | EAmbiguousIDs => 2 | EKeyError => 3 | ESingular => 4
             | EValue => 5 | EAttribute => 6 | EOther => 7
             | EMultipleGround => 8 | EAmbiguousComponent => 9 | ETypeError => 10 | EZeroDivision => 11
             | EFileFormat => 12 | EFileExists => 13 | EUnknownWavetype => 14 | EUnidentified => 15
             | EIncorrectInfo => 16 | EUnknownComponent => 17 | EIndex => 18 end%Z.
Definition eres {A} (e : A -> list Z) (r : res A) : list Z :=
  match r with Ok a => 0%Z :: e a | Err x => [1%Z; err_code x] end.
Definition ebool (b : bool) : list Z := [if b then 1%Z else 0%Z].

(* element constructors (elements.py) by code *)
Definition pelem : parser (elem CQ) :=
  let* c := pZ in let* name := plabel in
  match c with
  | 1 => let* z := pCQ in pret (impedance name z)
  | 2 => let* y := pCQ in pret (admittance name y)
  | 3 => let* r := pCQ in pret (resistor name r)
  | 4 => let* g := pCQ in pret (conductor name g)
  | 5 => let* v := pCQ in let* z := pCQ in pret (voltage_source name v z)
  | 6 => let* i := pCQ in let* y := pCQ in pret (current_source name i y)
  | 7 => pret (@open_circuit CQ name)
  | 8 => pret (@short_circuit CQ name)
  | 9 => let* s := pCQ in let* v := pCQ in pret (load_v name s v)
  | 10 => let* s := pCQ in let* i := pCQ in pret (load_i name s i)
  | 11 => let* k := pN in let* z := pCQ in let* v := pCQ in pret (ZV name k z v)
  | 12 => let* k := pN in let* y := pCQ in let* i := pCQ in pret (YI name k y i)
  | _ => fun _ => None
  end%Z.

Definition pbranch : parser (branch CQ) :=
  let* a := plabel in let* b := plabel in let* e := pelem in pret (Build_branch a b e).
Definition pnetwork : parser (network CQ) :=
  let* z := plabel in let* bs := plist pbranch in pret (Build_network bs z).

Definition eelem (e : elem CQ) : list Z :=
  match e with
  | ZV n k z v => 0%Z :: elabel n ++ [Z.of_N k] ++ eCQ z ++ eCQ v
  | YI n k y i => 1%Z :: elabel n ++ [Z.of_N k] ++ eCQ y ++ eCQ i
  end.
Definition ebranch (b : branch CQ) : list Z := elabel (node1 b) ++ elabel (node2 b) ++ eelem (el b).
Definition enetwork (n : network CQ) : list Z := elabel (zero n) ++ elist ebranch (branches n).
