(* Model/RunDrawing.v — runner entry point 13: the drawing parser / translator of Model/Drawing.v.
   tokens: list of symbols (class, name, reverse, start x y, end x y, node_id), the observed iteration order of
           parser.all_nodes, the observed iteration order of parser.unique_nodes.
   result: [-3]                      a symbol class outside the modelled scope
           2 :: all_nodes :: unique_nodes     the supplied orders do not enumerate the model's node sets
           0 :: per point of oa (x, y, unique_node_mapping, _get_node_index) :: node_label_mapping in insertion order
             :: ground_label :: components (type, id, nodes, negated) *)
From Coq Require Import List Bool ZArith NArith.
From CC Require Import Theory.Field Model.Network Model.Codec Model.Circuit Model.Drawing.
Import ListNotations.

Definition ppoint : parser point := let* x := pZ in let* y := pZ in pret ((x, y) : point).
Definition psymbol : parser symbol :=
  let* c := pN in let* nm := plabel in let* r := pbool in let* a := ppoint in let* b := ppoint in let* id := plabel in
  pret {| s_class := c; s_name := nm; s_reverse := r; s_start := a; s_end := b; s_node_id := id |}.

Definition epoint (p : point) : list Z := [fst p; snd p].
Definition eoption {A} (e : A -> list Z) (o : option A) : list Z :=
  match o with Some a => 1%Z :: e a | None => [0%Z] end.
Definition ecomponent (c : component) : list Z :=
  elabel (kind_name (c_kind c)) ++ elabel (c_id c) ++ elist elabel (c_nodes c) ++ ebool (c_neg c).

Definition run_drawing : parser (list Z) :=
  let* d := plist psymbol in let* oa := plist ppoint in let* ou := plist ppoint in
  if negb (forallb (fun s => in_scope (s_class s)) d) then pret [(-3)%Z]
  else if negb (orders_ok d oa ou) then pret (2%Z :: elist epoint (all_nodes d) ++ elist epoint (unique_nodes d oa))
  else pret (0%Z :: elist (fun p => epoint p ++ eoption epoint (unique_node_mapping d oa p)
                                     ++ eoption elabel (get_node_index d oa ou p)) oa
             ++ elist (fun kv => epoint (fst kv) ++ elabel (snd kv)) (node_label_mapping d oa ou)
             ++ eres elabel (ground_label d oa ou)
             ++ eres (elist ecomponent) (components d oa ou)).
