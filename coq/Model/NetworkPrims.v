(* Model/NetworkPrims.v — the (hand-written, small) Coq meaning of the Python primitives that the translator
   tools/gen_network.py emits into Gen/NetworkGen.v.  Everything else in Gen/NetworkGen.v is a compositional
   image of the Python source.  Conventions (the same as Model/Network.v):
     * str            -> [label] (list of code points); the element `type` strings -> the kind tags [k_*] ([type_tag]);
     * complex/float  -> the field [K]; a value that may be np.inf / np.nan -> [option K] ([None] for both);
                         used as an operand of + - * / it is read through [opt0] (those uses are unreachable for None);
     * exceptions     -> [res] ([Err e]); [bind] sequences in Python evaluation order;
     * set[str]       -> a list of its elements (duplicates allowed), only observed through len / sorted / union;
     * dict built by a comprehension, or dict(zip(ks, vs)) ([combine ks vs]) -> association list, the last entry of a key wins;
     * LabelMapping({k: v for v, k in enumerate(L)}) = LabelMapping(dict(zip(L, range(len(L))))) -> the key list [L] itself,
       index = position;
     * s.update(it) on a local set -> [set_union s (set_of_list it)];  acc = [] / for x in L: ... acc.append(E) ... -> [flat_map];
     * next(filter(f, L), None) = next((x for x in L if f(x)), None) -> [find f L]. *)
From Coq Require Import String Ascii.
From Coq Require Import List Bool NArith Arith.
From CC Require Import Theory.Field Model.Network Model.Transformers.
Import ListNotations.

(* ---------- strings ---------- *)
Definition codes (s : string) : label := map N_of_ascii (list_ascii_of_string s).

(* elements.py `type` strings -> kind tags of Model/Network.v; 0 for a string the model has no tag for *)
Definition type_names : list (label * N) :=
  [ (codes "impedance", k_impedance); (codes "admittance", k_admittance); (codes "resistor", k_resistor);
    (codes "conductor", k_conductor); (codes "load", k_load); (codes "voltage_source", k_voltage_source);
    (codes "current_source", k_current_source); (codes "open_circuit", k_open_circuit);
    (codes "short_circuit", k_short_circuit) ].
Definition type_tag (s : label) : N :=
  match find (fun p => label_eqb (fst p) s) type_names with Some p => snd p | None => 0%N end.

(* ---------- sets of labels ---------- *)
Definition pyset := list label.
Definition set_of_list (l : list label) : pyset := l.            (* set(l), {x for x in l} *)
Definition set_union (a b : pyset) : pyset := a ++ b.            (* a.union(b); a.update(b) rebinds a to it *)
Definition set_len (s : pyset) : nat := length (ldedup s).       (* len(s) *)
Definition set_sorted (s : pyset) : list label := lsort (ldedup s).   (* sorted(s), sorted(list(s)) *)

(* ---------- dict comprehension {k: v for ...} / dict(zip(ks, vs)) and d[k] ---------- *)
Fixpoint dict_get {V : Type} (d : list (label * V)) (k : label) : option V :=
  match d with
  | [] => None
  | (k', v) :: r => match dict_get r k with Some v' => Some v' | None => if label_eqb k' k then Some v else None end
  end.
Definition dict_item {V : Type} (d : list (label * V)) (k : label) : res V :=
  match dict_get d k with Some v => Ok v | None => Err EKeyError end.

(* ---------- LabelMapping ---------- *)
Definition mapping := list label.
Definition enum_mapping (l : list label) : mapping := l.   (* LabelMapping({k: v for v, k in enumerate(l)}), LabelMapping(dict(zip(l, range(len(l))))) *)
Definition mapping_keys (m : mapping) : list label := m.   (* m.keys *)
Definition mapping_N (m : mapping) : nat := length m.      (* m.N *)
Definition mapping_item (m : mapping) (k : label) : res nat :=   (* m[k] : KeyError when absent *)
  if lmem k m then Ok (lindex m k) else Err EKeyError.

Section Prims.
Context {K : fops}.

(* try: return a / b   except ZeroDivisionError: return np.inf | np.nan *)
Definition try_div (a b : K) : option K := if feqb K b (f0 K) then None else Some (fdiv K a b).

(* numpy vector: v[i], v[:n], v[-n:] (v[-0:] is the whole vector).  IndexError is not modelled (as in Model/Network.v). *)
Definition vec_item (v : list K) (i : nat) : K := nth i v (f0 K).
Definition slice_to (v : list K) (n : nat) : list K := firstn n v.
Definition slice_last (v : list K) (n : nat) : list K := match n with O => v | _ => skipn (length v - n) v end.

(* `while (x := cond(s)) is not None: s = body(s, x)` on a list-valued state.  The iteration bound S (length s0) is a
   modelling assumption shared with Model/Transformers.v (rsc_loop): termination of the Python loop is not proved here. *)
Fixpoint while_fuel {S X : Type} (fuel : nat) (cond : S -> option X) (body : S -> X -> S) (s : S) : S :=
  match fuel with
  | O => s
  | Datatypes.S f => match cond s with None => s | Some x => while_fuel f cond body (body s x) end
  end.
Definition while_list {A X : Type} (cond : list A -> option X) (body : list A -> X -> list A) (s0 : list A) : list A :=
  while_fuel (Datatypes.S (length s0)) cond body s0.

End Prims.
