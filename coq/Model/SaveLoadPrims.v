(* Model/SaveLoadPrims.v — HAND-WRITTEN vocabulary in which tools/gen_saveload.py writes Gen/SaveLoadGen.v (the regenerated
   SimpleCircuit/dump_load.py and the element part of SimpleSimulation/schematic.py).  Each definition is the model of one
   Python construct or of one function that lives OUTSIDE the translated files; nothing here mentions a table of
   dump_load.py / schematic.py.  Built on Model/SaveLoad.v (symbols, constructors of Elements.py, translators) and
   Model/Loaders.v (documents).

   Python construct                                   here
   d[k] (d a document value)                          SaveLoad.jfield
   d.get(k, default)                                  jget_default
   try: r  except KeyError: h                         catch_keyerror
   table[v] (str-keyed dict literal, v a document)    table_item          (a key that is not a str is never in the table)
   cd[name], name in cd (cd: dict of dicts)           dict_item, dhas     (after as_key: names are strings in the model)
   kw.update({k: v}) / kw[k] = v                      Loaders.dset
   kw.update(d)                                       SaveLoad.update
   {f: c for f in (..) if f in kw}                    flag_comp
   kw.pop(k, default)                                 dpop_default
   complex(a, b)                                      py_complex_of
   {k(c): v(c) for c in l}                            dict_of_pairs (mapR ..)
   e.type / e.name / e.is_reverse                     sym_type / sym_name / sym_is_reverse     (Elements.py properties)
   e._userparams / e.absanchors                       sym_userparams / sym_absanchors
   simple_circuit_elements.X( ** kw)                  new_element CX kw   (SaveLoad.construct at the origin: not yet placed)
   element.absanchors = v                             set_absanchors
   deserialize_schemdraw_elements(v) for _userparams  deserialize_userparams  (identity on the modelled values; the function
                                                       is pinned by the translator: any edit of it is refused)
   dictify_circuit(circuit_translator(schematic))     dictify_circuit_of  (Circuit/dump_load.py, DiagramTranslator.py)
   schemdraw_serializers.get(type(e), lambda _: None)(e)   ser_by table e  *)
From Coq Require Import List Bool NArith ZArith String.
From CC Require Import Theory.Field Theory.Complex Model.Network Model.Circuit Model.Loaders Model.SaveLoad.
Import ListNotations.

(* the shapes of the lambdas of schemdraw_serializers *)
Inductive serkind :=
| SerId                          (* lambda x: x *)
| SerDict                        (* lambda x: {k: serialize_schemdraw_element(v) for k, v in x.items()} *)
| SerList                        (* lambda x: [serialize_schemdraw_element(e) for e in x] *)
| SerObject (value_fcn : label). (* lambda x: schemdraw_object_properties(x, value_fcn): third-party drawing objects *)

(* Python type names of the modelled document values *)
Definition ty_NoneType : label := Eval compute in lbl "NoneType".
Definition ty_bool : label := Eval compute in lbl "bool".
Definition ty_int : label := Eval compute in lbl "int".
Definition ty_float : label := Eval compute in lbl "float".
Definition ty_str : label := Eval compute in lbl "str".
Definition ty_complex : label := Eval compute in lbl "complex".
Definition ty_list : label := Eval compute in lbl "list".
Definition ty_tuple : label := Eval compute in lbl "tuple".
Definition ty_dict : label := Eval compute in lbl "dict".

(* the drawing state of schemdraw that dictify_element writes and undictify_element restores by attribute assignment;
   NOT part of the symbol model (never read by the translators) *)
Definition drawing_state : list label :=
  Eval compute in map lbl ["segments"; "params"; "anchors"; "transform"; "absdrop"]%string.

(* functools.partial bindings at the end of dump_load.py: (name, base function, keyword, function passed) *)
Definition expected_entry_points : list (label * label * label * label) :=
  Eval compute in map (fun q => match q with (a, b, c, d) => (lbl a, lbl b, lbl c, lbl d) end)
  [("serialize", "dump_load.serialize", "dict_processor", "dictify_all");
   ("dump", "dump_load.dump", "dump_fcn", "serialize");
   ("deserialize", "dump_load.deserialize", "dict_preprocessor", "undictify_schematic");
   ("load", "dump_load.load", "deserialize_fcn", "deserialize")]%string.

(* Python class names of the modelled classes (Elements.py) *)
Definition cls_pyname (c : scls) : option label :=
  match c with
  | CResistor => Some (lbl "Resistor") | CConductance => Some (lbl "Conductance") | CImpedance => Some (lbl "Impedance")
  | CAdmittance => Some (lbl "Admittance") | CCapacitor => Some (lbl "Capacitor") | CInductance => Some (lbl "Inductance")
  | CVoltageSource => Some (lbl "VoltageSource") | CCurrentSource => Some (lbl "CurrentSource")
  | CComplexVoltageSource => Some (lbl "ComplexVoltageSource") | CComplexCurrentSource => Some (lbl "ComplexCurrentSource")
  | CACVoltageSource => Some (lbl "ACVoltageSource") | CACCurrentSource => Some (lbl "ACCurrentSource")
  | CRectVoltageSource => Some (lbl "RectVoltageSource") | CRectCurrentSource => Some (lbl "RectCurrentSource")
  | CGround => Some (lbl "Ground") | CLine => Some (lbl "Line") | CElement => Some (lbl "Element")
  | COther _ => None
  end.
Definition modelled_classes : list scls :=
  [CResistor; CConductance; CImpedance; CAdmittance; CCapacitor; CInductance; CVoltageSource; CCurrentSource;
   CComplexVoltageSource; CComplexCurrentSource; CACVoltageSource; CACCurrentSource; CRectVoltageSource; CRectCurrentSource;
   CGround; CLine; CElement].

Section Prims.
Variable R : fops.
Variable pi : R.
Notation C := (Cx R).
Notation jv := (jval R).
Notation kwargs := (dict (jval R)).
Notation symbol := (symbol R).
Notation "'let*' x ':=' p 'in' q" := (bind p (fun x => q)) (at level 200, x pattern, p at level 100, q at level 200).

(* ---------- Python constructs ---------- *)
Definition jget_default (v : jv) (k : label) (d : jv) : res jv :=
  match v with
  | JDict l => match dget l k with Some x => Ok x | None => Ok d end
  | _ => Err ETypeError
  end.
Definition catch_keyerror {A} (r h : res A) : res A := match r with Err EKeyError => h | _ => r end.
Definition table_item {A} (tbl : list (label * A)) (v : jv) : res A :=
  match v with
  | JStr t => match tlook tbl t with Some f => Ok f | None => Err EKeyError end
  | _ => Err EKeyError
  end.
Definition as_key (v : jv) : res label := as_str R v.
Definition dict_item {A} (d : dict A) (k : label) : res A :=
  match dget d k with Some x => Ok x | None => Err EKeyError end.
Definition flag_comp (flags : list label) (kw : kwargs) (v : jv) : kwargs :=
  map (fun f => (f, v)) (filter (dhas kw) flags).
Definition dpop_default (kw : kwargs) (k : label) (d : jv) : jv * kwargs :=
  (match dget kw k with Some v => v | None => d end, ddel kw k).
Definition py_complex_of (a b : jv) : res C :=
  match as_num R a, as_num R b with
  | Some x, Some y => Ok (py_complex R x y)
  | _, _ => Err ETypeError
  end.
Definition dict_of_pairs {A} (l : list (label * A)) : dict A := update [] l.
(* integer literals *)
Definition jint (n : Z) : jv := JNum (ofZ R n).

(* ---------- serialize_schemdraw_element by table ---------- *)
Section Ser.
Variable tbl : list (label * serkind).
Definition leaf (ty : label) (v : jv) : jv := match tlook tbl ty with Some SerId => v | _ => JNull end.
Fixpoint ser_by (v : jv) : jv :=
  match v with
  | JNull => leaf ty_NoneType v
  | JBool _ => leaf ty_bool v
  | JNum _ => match tlook tbl ty_int with Some SerId => leaf ty_float v | _ => JNull end     (* int or float *)
  | JStr _ => leaf ty_str v
  | JCplx _ => leaf ty_complex v
  | JList l => match tlook tbl ty_list with
               | Some SerList => JList (map ser_by l) | Some SerId => v | _ => JNull end
  | JDict l => match tlook tbl ty_dict with
               | Some SerDict => JDict (map (fun kv => let '(k, x) := kv in (k, ser_by x)) l) | Some SerId => v | _ => JNull end
  end.
(* what the model's [ser] presupposes of the table *)
Definition kind_eqb (a b : option serkind) : bool :=
  match a, b with
  | None, None => true | Some SerId, Some SerId => true | Some SerDict, Some SerDict => true
  | Some SerList, Some SerList => true | _, _ => false
  end.
Definition ser_table_ok : bool :=
  kind_eqb (tlook tbl ty_NoneType) None && kind_eqb (tlook tbl ty_complex) None &&
  kind_eqb (tlook tbl ty_bool) (Some SerId) && kind_eqb (tlook tbl ty_int) (Some SerId) &&
  kind_eqb (tlook tbl ty_float) (Some SerId) && kind_eqb (tlook tbl ty_str) (Some SerId) &&
  kind_eqb (tlook tbl ty_list) (Some SerList) && kind_eqb (tlook tbl ty_tuple) (Some SerList) &&
  kind_eqb (tlook tbl ty_dict) (Some SerDict).
End Ser.

(* ---------- the properties of a symbol (Elements.py) ---------- *)
Definition sym_type (s : symbol) : jv := jopt R (cls_type (s_cls s)).
Definition sym_name (s : symbol) : jv := JStr (pname R s).
Definition sym_is_reverse (s : symbol) : jv := JBool (s_reverse s).
Definition sym_userparams (s : symbol) : jv := JDict (s_user s).
Definition sym_absanchors (s : symbol) : jv := JDict [(q_start, jpoint R (s_start s)); (q_end, jpoint R (s_end s))].

(* ---------- constructing and placing ---------- *)
Definition origin : point R := (f0 R, f0 R).
Definition new_element (c : scls) (kw : kwargs) : res symbol := construct R pi c kw origin origin.
Definition set_absanchors (s : symbol) (v : jv) : res symbol :=
  let* p := jfield R v q_start in let* ps := as_point R p in
  let* p' := jfield R v q_end in let* pe := as_point R p' in
  Ok {| s_cls := s_cls s; s_name := s_name s; s_reverse := s_reverse s; s_attr := s_attr s; s_user := s_user s;
        s_start := ps; s_end := pe |}.
Definition deserialize_userparams (v : jv) : res kwargs := as_dict R v.

(* ---------- the other modules ---------- *)
Definition dictify_circuit_of (d : list symbol) : res jv :=
  let* cs := components R pi d in Ok (JDict [(q_components, JList (map (save_comp R) cs))]).
End Prims.
