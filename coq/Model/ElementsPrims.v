(* Model/ElementsPrims.v — HAND-WRITTEN vocabulary in which tools/gen_elements.py writes Gen/ElementsGen.v (the regenerated
   constructors of the persistable classes of SimpleCircuit/Elements.py).  The generated file is DATA: for every class the
   accepted part of its `__init__` as a small syntax tree ([ctor]), the private attributes its properties read
   ([cf_getters]) and a constant `name` property if it has one.  This file gives that syntax its meaning: an interpreter
   ([run_ctor]) that builds the symbol of Model/SaveLoad.v from the keyword arguments of a call `Cls( **kw)`.  Nothing
   here mentions a class of Elements.py.

   Python                                              here
   def __init__(self, a, b=D, *args, k, l=D, **kwargs)  [Ctor params ...]: the named parameters in source order with their
                                                        defaults; a call binds each from kw or from its default, a missing
                                                        parameter without default is TypeError ([bind_params]); the keyword
                                                        arguments that are not named parameters are `kwargs` ([rest_of]).
                                                        Positional arguments are not modelled ( *args is empty).
   self._f = e                                          SStore "_f" e
   self._f -= e / self._f += e                          SAug "_f" AugSub e / AugAdd e   (numbers only; anything else: EOther)
   if c: <one store>                                    SIf c s
   super().__init__( *args, k=e, ..., **kwargs)         SSuper [(k, e); ...]: the base constructor is called with the
                                                        explicit keywords followed by `kwargs`.  The base is another class
                                                        of Elements.py ([base = Some ctor]) or a class of schemdraw
                                                        ([base = None]): schemdraw's Element.__init__( **kw) is
                                                        `self._userparams.update(kw)` ([record_user])
   self.params[K] = CONST                               SParam K CONST: `params` is ChainMap(_userparams, ...), the write goes
                                                        to _userparams
   e ::= p | self._f | CONST | -e | not e | a if c else b | np.pi | np.pi/N
   schemdraw's Element.__new__(cls, *args, **kw)        _userparams = {k: v for k, v in kw.items() if v is not None}
   @simple_circuit_element                              [decorated = true]: after the class's own __init__ returned,
                                                        SimpleCircuitElement.__init__(name=kw.get(NAME, DN), reverse=kw.get(REV, DR))
                                                        stores _name and _reverse ([decorator_facts], read off the decorator)
   the private attributes                               [s_attr] lists the stored private attribute _x under the key x, in
                                                        the order of the first stores ([attrs_view])
   @property def P(self): return self._f                (_f, P) in cf_getters; [property_reads]: element.P reads _f
   `not e`, `if c`, `a if c else b`                     the condition must be a bool ([truth]); Python's truthiness of other
                                                        values is outside the modelled domain (EOther)
   NOT modelled: the label text and the drawing segments (self.label(..), self.segments.append(..), self.anchors[..] = ..,
   the locals they use); they are taken to be total. *)
From Coq Require Import List Bool NArith ZArith String.
From CC Require Import Theory.Field Theory.Complex Model.Network Model.Circuit Model.Loaders Model.SaveLoad.
Import ListNotations.

(* constants of the source *)
Inductive pconst :=
| KNone | KBool (b : bool) | KStr (s : label) | KInt (z : Z)
| KTuple (l : list pconst)
| KOpaque (text : label).    (* a literal the model has no value for (a float default); the translator checked that no
                                modelled statement reads the parameter *)
Inductive cexpr :=
| EParam (p : label) | EField (f : label) | EConst (k : pconst)
| ENeg (e : cexpr) | ENot (e : cexpr) | EIf (c t e : cexpr)
| EPi | EPiDiv (n : positive).
Inductive augop := AugSub | AugAdd.
Inductive cstmt :=
| SStore (f : label) (e : cexpr)
| SAug (f : label) (op : augop) (e : cexpr)
| SIf (c : cexpr) (s : cstmt)
| SSuper (kws : list (label * cexpr))
| SParam (k : label) (v : pconst).
Inductive ctor := Ctor (params : list (label * option pconst)) (body : list cstmt) (base : option ctor) (decorated : bool).
Definition ctor_params_of (c : ctor) : list (label * option pconst) := match c with Ctor ps _ _ _ => ps end.
Definition ctor_body_of (c : ctor) : list cstmt := match c with Ctor _ b _ _ => b end.
Definition ctor_base_of (c : ctor) : option ctor := match c with Ctor _ _ b _ => b end.
Definition ctor_decorated (c : ctor) : bool := match c with Ctor _ _ _ d => d end.

Record class_facts := {
  cf_ctor : ctor;
  cf_getters : list (label * label);    (* (private attribute, property that returns it) *)
  cf_name_const : option label          (* the class's own `name` property returns this literal *)
}.
(* simple_circuit_element: SimpleCircuitElement.__init__(self, name=kwargs.get(NAME, DN), reverse=kwargs.get(REV, DR)) *)
Record decorator_facts := { d_name_key : label; d_name_default : pconst; d_rev_key : label; d_rev_default : pconst }.

(* what the facts say without running anything *)
Definition param_names (c : ctor) : list label := map fst (ctor_params_of c).
Fixpoint super_keywords (b : list cstmt) : list (label * cexpr) :=
  match b with [] => [] | SSuper kws :: _ => kws | _ :: r => super_keywords r end.
Definition param_default (c : ctor) (p : label) : option (option pconst) := tlook (ctor_params_of c) p.
Fixpoint stores_of (b : list cstmt) : list (label * cexpr) :=
  match b with [] => [] | SStore f e :: r => (f, e) :: stores_of r | _ :: r => stores_of r end.
Fixpoint conditionals_of (b : list cstmt) : list (cexpr * cstmt) :=
  match b with [] => [] | SIf c s :: r => (c, s) :: conditionals_of r | _ :: r => conditionals_of r end.

(* _x -> x *)
Definition attr_key (f : label) : label := match f with 95%N :: r => r | _ => f end.
(* the private attribute the plain property [p] returns *)
Definition property_reads (f : class_facts) (p : label) : option label :=
  match find (fun fp => label_eqb (snd fp) p) (cf_getters f) with Some fp => Some (fst fp) | None => None end.

Section Prims.
Variable R : fops.
Variable pi : R.
Notation jv := (jval R).
Notation kwargs := (dict (jval R)).
Notation symbol := (symbol R).
Notation "'let*' x ':=' p 'in' q" := (bind p (fun x => q)) (at level 200, x pattern, p at level 100, q at level 200).

Fixpoint const_val (k : pconst) : jv :=
  match k with
  | KNone => JNull | KBool b => JBool b | KStr s => JStr s | KInt z => JNum (ofZ R z)
  | KTuple l => JList (map const_val l)
  | KOpaque _ => JNull
  end.

(* binding the named parameters of a keyword-only call *)
Definition default_of (d : option pconst) : jv := match d with Some k => const_val k | None => JNull end.
Definition bind_params (ps : list (label * option pconst)) (kw : kwargs) : res kwargs :=
  if forallb (fun pd => match snd pd with None => dhas kw (fst pd) | Some _ => true end) ps
  then Ok (map (fun pd => (fst pd, match dget kw (fst pd) with Some v => v | None => default_of (snd pd) end)) ps)
  else Err ETypeError.
Definition rest_of (ps : list (label * option pconst)) (kw : kwargs) : kwargs :=
  filter (fun kv => negb (lmem (fst kv) (map fst ps))) kw.

Definition jsub (a b : jv) : res jv := match a, b with JNum x, JNum y => Ok (JNum (fsub R x y)) | _, _ => Err EOther end.
Definition jadd (a b : jv) : res jv := match a, b with JNum x, JNum y => Ok (JNum (fadd R x y)) | _, _ => Err EOther end.

Fixpoint eval (env store : kwargs) (e : cexpr) : res jv :=
  match e with
  | EParam p => match dget env p with Some v => Ok v | None => Err EOther end
  | EField f => match dget store f with Some v => Ok v | None => Err EAttribute end
  | EConst k => Ok (const_val k)
  | ENeg a => let* v := eval env store a in jneg R v
  | ENot a => let* v := eval env store a in let* b := truth R v in Ok (JBool (negb b))
  | EIf c t e' => let* v := eval env store c in let* b := truth R v in if b then eval env store t else eval env store e'
  | EPi => Ok (JNum pi)
  | EPiDiv n => Ok (JNum (fdiv R pi (ofZ R (Zpos n))))
  end.

(* the object under construction *)
Record istate := { i_store : kwargs; i_user : kwargs; i_name : option jv; i_rev : option jv }.
Definition with_store (st : istate) (s : kwargs) : istate :=
  {| i_store := s; i_user := i_user st; i_name := i_name st; i_rev := i_rev st |}.
Definition with_user (st : istate) (u : kwargs) : istate :=
  {| i_store := i_store st; i_user := u; i_name := i_name st; i_rev := i_rev st |}.
(* self._userparams.update(kw) *)
Definition record_user (u kw : kwargs) : kwargs := update u kw.
(* schemdraw's Element.__init__( **kw) *)
Definition external_init (kw : kwargs) (st : istate) : res istate := Ok (with_user st (record_user (i_user st) kw)).

Fixpoint exec_stmt (env rest : kwargs) (super_call : kwargs -> istate -> res istate) (s : cstmt) (st : istate) : res istate :=
  match s with
  | SStore f e => let* v := eval env (i_store st) e in Ok (with_store st (dset (i_store st) f v))
  | SAug f op e =>
      let* old := eval env (i_store st) (EField f) in
      let* v := eval env (i_store st) e in
      let* n := (match op with AugSub => jsub old v | AugAdd => jadd old v end) in
      Ok (with_store st (dset (i_store st) f n))
  | SIf c s' =>
      let* v := eval env (i_store st) c in let* b := truth R v in
      if b then exec_stmt env rest super_call s' st else Ok st
  | SSuper kws =>
      let* vals := mapR (fun ke => let* v := eval env (i_store st) (snd ke) in Ok (fst ke, v)) kws in
      super_call (vals ++ rest) st
  | SParam k v => Ok (with_user st (dset (i_user st) k (const_val v)))
  end.
Fixpoint exec_body (env rest : kwargs) (super_call : kwargs -> istate -> res istate) (b : list cstmt) (st : istate) : res istate :=
  match b with
  | [] => Ok st
  | s :: r => let* st' := exec_stmt env rest super_call s st in exec_body env rest super_call r st'
  end.

Section Init.
Variable dec : decorator_facts.
Definition kw_get (kw : kwargs) (k : label) (d : pconst) : jv := match dget kw k with Some v => v | None => const_val d end.
(* Cls.__init__(self, **kw) *)
Fixpoint run_init (c : ctor) (kw : kwargs) (st : istate) {struct c} : res istate :=
  match c with
  | Ctor ps body base decorated =>
      let* env := bind_params ps kw in
      let super_call := match base with Some b => run_init b | None => external_init end in
      let* st' := exec_body env (rest_of ps kw) super_call body st in
      if decorated
      then Ok {| i_store := i_store st'; i_user := i_user st';
                 i_name := Some (kw_get kw (d_name_key dec) (d_name_default dec));
                 i_rev := Some (kw_get kw (d_rev_key dec) (d_rev_default dec)) |}
      else Ok st'
  end.

(* the symbol lists the private attribute _x under the key x, in the order of the first stores *)
Definition attrs_view (store : kwargs) : kwargs := map (fun fv => (attr_key (fst fv), snd fv)) store.

(* Cls( **kw), then placed with its terminals at ps, pe *)
Definition run_ctor (f : class_facts) (cls : scls) (kw : kwargs) (ps pe : point R) : res symbol :=
  let st0 := {| i_store := []; i_user := filter (fun kv => not_null R (snd kv)) kw; i_name := None; i_rev := None |} in
  let* st := run_init (cf_ctor f) kw st0 in
  let* nm := (match i_name st with None => Err EAttribute | Some (JStr s) => Ok s | Some _ => Err EOther end) in
  let* rv := (match i_rev st with None => Err EAttribute | Some (JBool b) => Ok b | Some _ => Err EOther end) in
  Ok {| s_cls := cls; s_name := nm; s_reverse := rv; s_attr := attrs_view (i_store st);
        s_user := i_user st; s_start := ps; s_end := pe |}.
(* the `name` property *)
Definition name_property (f : class_facts) (s : symbol) : label :=
  match cf_name_const f with Some l => l | None => s_name s end.
End Init.
End Prims.
