(* Model/StateSpace.v — executable model of
     Network/NodalAnalysis/state_space_model.py  (state_space_matrices, NodalStateSpaceModel, nodal_state_space_model),
     Circuit/state_space_model.py                (state_space_model: stacking of the output rows),
     Circuit/solution.py                         (TransientSolution: what is handed to the solver, how outputs are read),
   function by function on list matrices (rows = inner lists).  Generic in the field [K] (the reals of the w = 0
   network: capacitors are open circuits, inductors short circuits = ideal voltage sources with V = 0).
   [cvals]/[lvals] are the Python dicts c_values / l_values as association lists in insertion order (keys unique).
   Definitions only; theorems live in Theory/StateSpaceThm.v.

   Deliberate abstraction: np.linalg.inv is modelled by the exact checked [inverse] (failure = LinAlgError = ESingular);
   1/L for L = 0 (numpy: inf with a RuntimeWarning, no exception) is the field's 1/0 — zero capacitances / inductances
   are outside the modelled domain. *)
From Coq Require Import List Bool NArith Arith.
From CC Require Import Theory.Field Model.Network.
Import ListNotations.

Section SS.
Variable K : fops.
Notation "0" := (f0 K). Notation "1" := (f1 K).
Infix "+" := (fadd K). Infix "*" := (fmul K). Infix "-" := (fsub K). Notation "- x" := (fopp K x).
Infix "/" := (fdiv K).
Notation mat := (list (list K)).

(* ---------- numpy helpers on list matrices ---------- *)
Definition zero_row (m : nat) : list K := map (fun _ => 0) (seq 0 m).                  (* np.zeros(m) *)
Definition hstack (A B : mat) : mat := map (fun p => fst p ++ snd p) (combine A B).     (* np.hstack((A, B)) *)
Definition diag (d : list K) : mat :=                                                   (* np.diag(d) *)
  map (fun k => map (fun j => if Nat.eqb j k then nth k d 0 else 0) (seq 0 (length d))) (seq 0 (length d)).
Definition row_opp (u : list K) : list K := map (fun x => - x) u.
Definition mat_opp (A : mat) : mat := map row_opp A.                                    (* -A *)
Definition row_minus (u v : list K) : list K := map (fun p => fst p - snd p) (combine u v).
Definition mat_sub (A B : mat) : mat := map (fun p => row_minus (fst p) (snd p)) (combine A B).   (* A - B *)
Definition select_cols (idx : list nat) (A : mat) : mat := map (fun r => map (fun p => entry r p) idx) A.  (* A[:, idx] *)

Variable n : network K.
Variable cvals lvals : list (label * K).

Definition ckeys : list label := map fst cvals.
Definition lkeys : list label := map fst lvals.
Definition ss_N : nat := length (node_index n).
Definition ss_M : nat := length (vs_index n).
Definition ss_dim : nat := (ss_N + ss_M)%nat.
Definition ss_nC : nat := length cvals.
Definition ss_nL : nat := length lvals.
Definition ss_nst : nat := (ss_nC + ss_nL)%nat.

(* ---------- state_space_matrices ---------- *)
Definition has_branch (id : label) : bool := match get_branch (branches n) id with Some _ => true | None => false end.

(* Delta[k][i]: +1 at node1, then -1 at node2 (the later assignment wins) *)
Definition delta_ent (id i : label) : K :=
  match get_branch (branches n) id with
  | Some b => if label_eqb (node2 b) i then - (1) else if label_eqb (node1 b) i then 1 else 0
  | None => 0
  end.

(* element_incidence_matrix(values): network[value] raises KeyError as soon as the product loop runs once *)
Definition element_incidence_matrix (values : list label) : res mat :=
  if negb (Nat.eqb ss_N 0) && negb (forallb has_branch values) then Err EKeyError
  else Ok (map (fun id => map (delta_ent id) (node_index n) ++ map (fun _ => 0) (vs_index n)) values).

(* the block matrix Q = [[Qi, 0], [0, I]]; rows: node_index then vs_index, columns: cs_index then vs_index *)
Definition Qmat : mat :=
  map (fun i => map (Qent n i) (cs_index n) ++ map (fun _ => 0) (vs_index n)) (node_index n)
  ++ map (fun k => map (fun _ => 0) (cs_index n) ++ unit_vec ss_M k) (seq 0 ss_M).
Definition columns : list label := cs_index n ++ vs_index n.
Definition QS_idx : list nat :=
  filter (fun p => negb (lmem (nth p columns []) lkeys)) (seq 0 (length columns)).
Definition QS : mat := select_cols QS_idx Qmat.
(* columns.index(l) raises ValueError for a label that is no source of the network *)
Definition QL : res mat :=
  if forallb (fun l => lmem l columns) lkeys then Ok (select_cols (map (lindex columns) lkeys) Qmat) else Err EValue.

(* NodalStateSpaceModel.sources *)
Definition sources : list label := cs_index n ++ filter (fun v => negb (lmem v lkeys)) (vs_index n).
(* B.shape[1] = D.shape[1] = number of selected columns (= len(sources) unless an l_values key names a current source) *)
Definition ss_nS : nat := length QS_idx.

(* value_matrix: Lambda = diag(-C..., L...), invLambda = diag(1/Lambda_kk) *)
Definition lam : list K := map (fun p => - snd p) cvals ++ map snd lvals.
Definition Lambda : mat := diag lam.
Definition invLambda : mat := diag (map (fun x => 1 / x) lam).

Record ssm := { ss_A : mat; ss_B : mat; ss_C : mat; ss_D : mat }.

Definition DQ_of (Delta QLm : mat) : mat := hstack (transpose ss_dim Delta) QLm.

Definition state_space_matrices : res ssm :=
  bind (element_incidence_matrix ckeys) (fun Delta =>
  let A_tilde := mna_matrix n in
  bind QL (fun QLm =>
  let DQ := DQ_of Delta QLm in
  match inverse A_tilde with
  | None => Err ESingular
  | Some inv_A_tilde =>
      let transformed := mat_mul ss_dim (transpose ss_nst DQ) inv_A_tilde in
      match inverse (mat_mul ss_nst transformed DQ) with
      | None => Err ESingular
      | Some sorted_A_tilde =>
          let A := mat_mul ss_nst invLambda sorted_A_tilde in
          let C := mat_mul ss_nst (transpose ss_dim transformed) sorted_A_tilde in
          let B := mat_mul ss_nS (mat_mul ss_dim (mat_opp invLambda) (transpose ss_nst C)) QS in
          let D := mat_mul ss_nS (mat_sub inv_A_tilde (mat_mul ss_dim (transpose ss_dim transformed) (transpose ss_nst C))) QS in
          Ok {| ss_A := A; ss_B := B; ss_C := C; ss_D := D |}
      end
  end)).

(* nodal_state_space_model: the matrices together with network, dicts and the three label maps (Section variables) *)
Definition nodal_state_space_model : res ssm := state_space_matrices.

(* ---------- NodalStateSpaceModel: output rows ---------- *)
Section Rows.
Variable m : ssm.

(* _row_for_potential(node_id, matrix); [ncols] = matrix.shape[1] *)
Definition row_for_potential (node : label) (ncols : nat) (Mx : mat) : res (list K) :=
  if label_eqb node (zero n) then Ok (zero_row ncols)
  else if lmem node (node_index n) then Ok (nth (lindex (node_index n) node) Mx [])
  else Err EKeyError.

Definition c_row_for_potential (node : label) : res (list K) := row_for_potential node ss_nst (ss_C m).
Definition d_row_for_potential (node : label) : res (list K) := row_for_potential node ss_nS (ss_D m).

Definition row_voltage (id : label) (ncols : nat) (Mx : mat) : res (list K) :=
  match get_branch (branches n) id with
  | None => Err EKeyError
  | Some b =>
      bind (row_for_potential (node1 b) ncols Mx) (fun pos =>
      bind (row_for_potential (node2 b) ncols Mx) (fun neg => Ok (row_minus pos neg)))
  end.
Definition c_row_voltage (id : label) : res (list K) := row_voltage id ss_nst (ss_C m).
Definition d_row_voltage (id : label) : res (list K) := row_voltage id ss_nS (ss_D m).

Fixpoint vlookup (l : list (label * K)) (k : label) : K :=
  match l with [] => 0 | (k', v) :: r => if label_eqb k' k then v else vlookup r k end.

(* (pos - neg)/Z ; Z = inf (open circuit, Y = 0) gives the zero row *)
Definition row_over_Z (r : list K) (e : elem K) : list K :=
  match eZ e with Some z => map (fun x => x / z) r | None => map (fun _ => 0) r end.

Definition c_row_current (id : label) : res (list K) :=
  if lmem id ckeys then Ok (row_scale (vlookup cvals id) (nth (lindex ckeys id) (ss_A m) []))
  else if lmem id (vs_index n) then Ok (nth (lindex (vs_index n) id + ss_N) (ss_C m) [])
  else if lmem id (cs_index n) then Ok (zero_row ss_nst)
  else match get_branch (branches n) id with
       | None => Err EKeyError
       | Some b => bind (row_voltage id ss_nst (ss_C m)) (fun r => Ok (row_over_Z r (el b)))
       end.

Definition d_row_current (id : label) : res (list K) :=
  if lmem id ckeys then Ok (row_scale (vlookup cvals id) (nth (lindex ckeys id) (ss_B m) []))
  else if lmem id (vs_index n) then Ok (nth (lindex (vs_index n) id + ss_N) (ss_D m) [])
  else if lmem id (cs_index n) then Ok (unit_vec ss_nS (lindex (cs_index n) id))
  else match get_branch (branches n) id with
       | None => Err EKeyError
       | Some b => bind (row_voltage id ss_nS (ss_D m)) (fun r => Ok (row_over_Z r (el b)))
       end.

Fixpoint mapR {A B} (f : A -> res B) (l : list A) : res (list B) :=
  match l with
  | [] => Ok []
  | a :: r => bind (f a) (fun b => bind (mapR f r) (fun bs => Ok (b :: bs)))
  end.

(* Circuit/state_space_model.py: C rows stacked first (potentials, voltages, currents), then the D rows *)
Definition stacked_C (pots vids cids : list label) : res mat :=
  bind (mapR c_row_for_potential pots) (fun a =>
  bind (mapR c_row_voltage vids) (fun b =>
  bind (mapR c_row_current cids) (fun c => Ok (a ++ b ++ c)))).
Definition stacked_D (pots vids cids : list label) : res mat :=
  bind (mapR d_row_for_potential pots) (fun a =>
  bind (mapR d_row_voltage vids) (fun b =>
  bind (mapR d_row_current cids) (fun c => Ok (a ++ b ++ c)))).
End Rows.

(* Circuit.state_space_model(circuit, potential_nodes, voltage_ids, current_ids) on the w = 0 network of the circuit *)
Definition state_space_model (pots vids cids : list label) : res ssm :=
  bind nodal_state_space_model (fun m =>
  bind (stacked_C m pots vids cids) (fun C =>
  bind (stacked_D m pots vids cids) (fun D =>
  Ok {| ss_A := ss_A m; ss_B := ss_B m; ss_C := C; ss_D := D |}))).

(* ---------- TransientSolution ---------- *)
(* the solver is called with StateSpaceModel(A, B, C = eye(n), D = zeros(n, #inputs)), the input samples
   u[k] = input[sources[k]](tin), the time grid and x0 = zeros(n).  [T] = type of the time grid,
   [sig] = type of a sampled signal (np.ndarray over the grid). *)
Section Transient.
Variables T sig : Type.
Variable sim : ssm -> list sig -> T -> list K -> list sig.        (* states over time, one signal per state *)
Variable input : label -> T -> sig.                              (* self.input[id](self.tin) *)

Definition transient_model (m : ssm) : ssm :=
  {| ss_A := ss_A m; ss_B := ss_B m; ss_C := ident ss_nst; ss_D := map (fun _ => zero_row ss_nS) (seq 0 ss_nst) |}.
Definition transient_u (tin : T) : list sig := map (fun id => input id tin) sources.
Definition transient_x0 : list K := zero_row ss_nst.
Definition transient_states (m : ssm) (tin : T) : list sig :=
  sim (transient_model m) (transient_u tin) tin transient_x0.
End Transient.

End SS.

Arguments ss_A {K}. Arguments ss_B {K}. Arguments ss_C {K}. Arguments ss_D {K}. Arguments Build_ssm {K}.
