(* Model/Drawing.v — executable model of CircuitCalculator.SimpleCircuit:
     DiagramParser.py   (SchematicDiagramParser: all_nodes, _get_equal_electrical_potential_nodes, unique_nodes,
                         unique_node_mapping, node_label_mapping, ground, ground_label, _get_node_index),
     DiagramTranslator.py (DiagramTranslator.__call__, circuit_translator up to the Circuit constructor),
     CircuitComponentTranslators.py (circuit_translator_map: which component kind a symbol class becomes, terminal swap
                         and sign bookkeeping of reversed sources).
   A point is the pair of hundredths round(100*x), round(100*y) of an anchor AFTER elm.round_node (round(., 2)).
   A drawing is the list of its symbols in insertion order.  Python keeps points in sets; wherever the code's result
   depends on the iteration order of a set, the order is a PARAMETER of the model:
     [oa] = iteration order of  self.all_nodes     (used by unique_nodes: the FIRST visited member of a class stays),
     [ou] = iteration order of  self.unique_nodes  (used by node_label_mapping: numbering order of the unlabelled
            classes, and by ground: list(unique_nodes)[0] when there is no ground symbol). *)
From Coq Require Import List Bool ZArith NArith Arith Lia.
From CC Require Import Theory.Field Model.Network Model.Circuit.
Import ListNotations.

(* ------------------------------------------------------------------ points *)
Definition point := (Z * Z)%type.
Definition pt_eqb (a b : point) : bool := Z.eqb (fst a) (fst b) && Z.eqb (snd a) (snd b).
Definition pmem (x : point) (l : list point) : bool := existsb (pt_eqb x) l.
(* set.add on a duplicate-free list *)
Definition padd (x : point) (l : list point) : list point := if pmem x l then l else l ++ [x].
Definition pnub (l : list point) : list point := fold_left (fun acc x => padd x acc) l [].

(* ------------------------------------------------------------------ symbols *)
Record symbol := {
  s_class : N;          (* code of type(element), table below *)
  s_name : label;       (* element.name *)
  s_reverse : bool;     (* element.is_reverse *)
  s_start : point;      (* round_node(absanchors['start']) *)
  s_end : point;        (* round_node(absanchors['end'])   (Node, LabelNode, Ground: start = end = position) *)
  s_node_id : label     (* Node / LabelNode / Ground: element.node_id *)
}.
Definition drawing := list symbol.

Definition c_Resistor := 1%N.        Definition c_Impedance := 2%N.       Definition c_Conductance := 3%N.
Definition c_VoltageSource := 4%N.   Definition c_ComplexVoltageSource := 5%N.
Definition c_CurrentSource := 6%N.   Definition c_ComplexCurrentSource := 7%N.
Definition c_ACVoltageSource := 8%N. Definition c_ACCurrentSource := 9%N.
Definition c_RectVoltageSource := 10%N.     Definition c_RectCurrentSource := 11%N.
Definition c_TriangleVoltageSource := 12%N. Definition c_TriangleCurrentSource := 13%N.
Definition c_SawtoothVoltageSource := 14%N. Definition c_SawtoothCurrentSource := 15%N.
Definition c_Capacitor := 16%N.      Definition c_Inductance := 17%N.     Definition c_Lamp := 18%N.
Definition c_Ground := 19%N.         Definition c_Line := 20%N.           Definition c_LabeledLine := 21%N.
Definition c_Node := 22%N.           Definition c_LabelNode := 23%N.
Definition c_RealCurrentSource := 24%N.     Definition c_RealVoltageSource := 25%N.
Definition c_Switch := 26%N.         Definition c_Admittance := 27%N.   (* drawable, but not in circuit_translator_map *)

(* the classes in scope: every one of them has a [name] attribute and 'start'/'end' anchors, so all of them are
   circuit_elements (Line included: its name is '') *)
Definition in_scope (c : N) : bool := N.leb 1 c && N.leb c 27.
Definition has_name (c : N) : bool := in_scope c.
(* type(e) is elm.Line — LabeledLine is a subclass and does NOT count *)
Definition is_line (s : symbol) : bool := N.eqb (s_class s) c_Line.
(* isinstance(e, elm.Node): Node, LabelNode, Ground *)
Definition is_node (s : symbol) : bool :=
  N.eqb (s_class s) c_Node || N.eqb (s_class s) c_LabelNode || N.eqb (s_class s) c_Ground.
Definition is_ground_sym (s : symbol) : bool := N.eqb (s_class s) c_Ground.

Definition circuit_elements (d : drawing) : list symbol := filter (fun s => has_name (s_class s)) d.
Definition line_elements (d : drawing) : list symbol := filter is_line d.
Definition node_elements (d : drawing) : list symbol := filter is_node d.

(* all_nodes, as a duplicate-free list (the Python value is a set) *)
Definition all_nodes (d : drawing) : list point :=
  pnub (map s_start (circuit_elements d) ++ map s_end (circuit_elements d)
        ++ map s_start (line_elements d) ++ map s_end (line_elements d)).

(* ------------------------------------------------------------------ _get_equal_electrical_potential_nodes *)
Definition wires (d : drawing) : list (point * point) := map (fun s => (s_start s, s_end s)) (line_elements d).

(* body of `for line in self.line_elements` *)
Definition visit (X : list point) (w : point * point) : list point :=
  if pmem (fst w) X then padd (snd w) X else if pmem (snd w) X then padd (fst w) X else X.
Definition pass (ws : list (point * point)) (X : list point) : list point := fold_left visit ws X.
(* while len(X) > old_length: old_length = len(X); one pass *)
Fixpoint iterate (ws : list (point * point)) (fuel : nat) (X : list point) : list point :=
  match fuel with
  | O => X
  | S f => let X' := pass ws X in if Nat.ltb (length X) (length X') then iterate ws f X' else X'
  end.
Definition equal_potential_nodes (d : drawing) (p : point) : list point :=
  iterate (wires d) (S (length (wires d))) [p].

(* ------------------------------------------------------------------ unique_nodes *)
(* nodes = self.all_nodes; for node in self.all_nodes (iteration order oa): if node in nodes: remove the members of
   node's class that are still in nodes, add node *)
Definition unique_step (d : drawing) (nodes : list point) (node : point) : list point :=
  if pmem node nodes
  then filter (fun x => negb (pmem x (equal_potential_nodes d node))) nodes ++ [node]
  else nodes.
Definition unique_nodes (d : drawing) (oa : list point) : list point :=
  fold_left (unique_step d) oa (all_nodes d).

(* unique_node_mapping[n]:  identical = class(n) - {n};  unique_nodes & identical : pop() if non-empty, else n.
   (the intersection has at most one member — DrawingThm.unique_one_per_class — so pop() is deterministic) *)
Definition rep (d : drawing) (oa : list point) (n : point) : point :=
  match filter (fun u => pmem u (equal_potential_nodes d n) && negb (pt_eqb u n)) (unique_nodes d oa) with
  | [] => n
  | u :: _ => u
  end.
(* dictionary lookup: KeyError (None) outside all_nodes *)
Definition unique_node_mapping (d : drawing) (oa : list point) (n : point) : option point :=
  if pmem n (all_nodes d) then Some (rep d oa n) else None.

(* ------------------------------------------------------------------ node_label_mapping *)
(* a dict with Point keys: association list in insertion order, keys unique *)
Definition pdict := list (point * label).
Fixpoint dict_get (m : pdict) (k : point) : option label :=
  match m with [] => None | (k', v) :: r => if pt_eqb k' k then Some v else dict_get r k end.
Definition dict_has (m : pdict) (k : point) : bool := match dict_get m k with Some _ => true | None => false end.
Fixpoint dict_set (m : pdict) (k : point) (v : label) : pdict :=
  match m with
  | [] => [(k, v)]
  | (k', v') :: r => if pt_eqb k' k then (k', v) :: r else (k', v') :: dict_set r k v
  end.

(* str(n) for n >= 0: decimal digits, most significant first *)
Fixpoint dec_aux (fuel : nat) (n : N) (acc : label) : label :=
  match fuel with
  | O => acc
  | S f => let acc' := (48 + N.modulo n 10)%N :: acc in
           if N.eqb (N.div n 10) 0 then acc' else dec_aux f (N.div n 10) acc'
  end.
Definition dec (n : nat) : label := dec_aux (S n) (N.of_nat n) [].

(* {unique_node_mapping[get_nodes(e)[0]] : e.node_id for e in node_elements}: later symbols overwrite the value,
   the key keeps its first position.  (The key lookup cannot fail: node symbols are circuit elements, their
   position is in all_nodes — DrawingThm.node_elements_in_all.) *)
Definition labelled (d : drawing) (oa : list point) : pdict :=
  fold_left (fun m e => dict_set m (rep d oa (s_start e)) (s_node_id e)) (node_elements d) [].

(* while str(node_index) in node_labels.values(): node_index += 1 *)
Fixpoint skip (fuel : nat) (n : nat) (vals : list label) : nat :=
  match fuel with
  | O => n
  | S f => if lmem (dec n) vals then skip f (S n) vals else n
  end.
(* for p in unlabeled_nodes: skip; node_labels.update({p: str(node_index)}) — node_index itself is NOT incremented:
   the next round skips it because it is a value now *)
Fixpoint assign (ps : list point) (n : nat) (m : pdict) : pdict :=
  match ps with
  | [] => m
  | p :: r => let n' := skip (S (length m)) n (map snd m) in assign r n' (dict_set m p (dec n'))
  end.
Definition node_label_mapping (d : drawing) (oa ou : list point) : pdict :=
  let m := labelled d oa in
  assign (filter (fun p => negb (dict_has m p)) ou) (length m + 1) m.

(* _get_node_index *)
Definition get_node_index (d : drawing) (oa ou : list point) (p : point) : option label :=
  match unique_node_mapping d oa p with
  | Some u => dict_get (node_label_mapping d oa ou) u
  | None => None
  end.

(* ------------------------------------------------------------------ ground, ground_label *)
Definition ground (d : drawing) (ou : list point) : res point :=
  let gs := filter is_ground_sym (node_elements d) in
  if Nat.ltb 1 (length gs) then Err EMultipleGround
  else match gs with
       | [] => match ou with [] => Err EIndex | u :: _ => Ok u end
       | g :: _ => Ok (s_start g)
       end.
Definition ground_label (d : drawing) (oa ou : list point) : res label :=
  bind (ground d ou) (fun g => match get_node_index d oa ou g with Some l => Ok l | None => Err EKeyError end).

(* ------------------------------------------------------------------ circuit_translator_map *)
Inductive translator :=
| TPassive (k : ckind)      (* nodes=(nodes[0], nodes[1]) *)
| TSource (k : ckind)       (* nodes swapped and the stored value negated when is_reverse; the symbol constructor
                               stored  -value  when reverse: the component gets the constructor's value back *)
| TRealSource (k : ckind)   (* Real{Current,Voltage}Source: the translator swaps and negates when is_reverse, the symbol
                               constructor stores the value as given *)
| TShort                    (* LabeledLine: short_circuit, nodes swapped when is_reverse *)
| TGround                   (* ground(nodes=(nodes[0],)) *)
| TNone.                    (* none_translator *)

Definition translator_of (c : N) : option translator :=
  match c with
  | 1 => Some (TPassive KResistor) | 2 => Some (TPassive KImpedance) | 3 => Some (TPassive KConductance)
  | 4 => Some (TSource KDcV) | 5 => Some (TSource KCplxV) | 6 => Some (TSource KDcI) | 7 => Some (TSource KCplxI)
  | 8 => Some (TSource KAcV) | 9 => Some (TSource KAcI)
  | 10 => Some (TSource KPerV) | 11 => Some (TSource KPerI) | 12 => Some (TSource KPerV) | 13 => Some (TSource KPerI)
  | 14 => Some (TSource KPerV) | 15 => Some (TSource KPerI)
  | 16 => Some (TPassive KCapacitor) | 17 => Some (TPassive KInductance) | 18 => Some (TPassive KLamp)
  | 19 => Some TGround | 20 => Some TNone | 21 => Some TShort | 22 => Some TNone | 23 => Some TNone
  | 24 => Some (TRealSource KDcI) | 25 => Some (TRealSource KDcV)
  | 26 => Some (TPassive KResistor)      (* Switch: resistor with R = inf (open) or 1e-12 (closed) *)
  | _ => None                            (* KeyError -> UnknownTranslator *)
  end%N.

Record component := {
  c_kind : ckind; c_id : label; c_nodes : list label;
  c_neg : bool    (* the value handed to the component constructor is MINUS the value given to the symbol constructor *)
}.

(* the value stored by the symbol's constructor is minus its argument *)
Definition stored_neg (t : translator) (reverse : bool) : bool :=
  match t with TSource _ => reverse | _ => false end.

Definition apply_translator (t : translator) (s : symbol) (a b : label) : option component :=
  let swap := if s_reverse s then [b; a] else [a; b] in
  match t with
  | TPassive k => Some {| c_kind := k; c_id := s_name s; c_nodes := [a; b]; c_neg := false |}
  | TSource k | TRealSource k =>
      Some {| c_kind := k; c_id := s_name s; c_nodes := swap; c_neg := xorb (stored_neg t (s_reverse s)) (s_reverse s) |}
  | TShort => Some {| c_kind := KShort; c_id := s_name s; c_nodes := swap; c_neg := false |}
  | TGround => Some {| c_kind := KGround; c_id := s_name s; c_nodes := [a]; c_neg := false |}
  | TNone => None
  end.

(* DiagramTranslator.__call__ with an arbitrary labelling function; both the table lookup and the node lookups sit
   inside `try: ... except KeyError: raise UnknownTranslator` *)
Definition translate_symbol (idx : point -> option label) (s : symbol) : res (option component) :=
  match translator_of (s_class s), idx (s_start s), idx (s_end s) with
  | Some t, Some a, Some b => Ok (apply_translator t s a b)
  | _, _, _ => Err EUnknownComponent
  end.

Fixpoint translate_all (idx : point -> option label) (d : drawing) : res (list component) :=
  match d with
  | [] => Ok []
  | s :: r => bind (translate_symbol idx s) (fun c =>
              bind (translate_all idx r) (fun cs => Ok (match c with Some x => x :: cs | None => cs end)))
  end.

(* the component list circuit_translator hands to Circuit(...) *)
Definition components (d : drawing) (oa ou : list point) : res (list component) :=
  translate_all (get_node_index d oa ou) d.

(* ------------------------------------------------------------------ admissible orders (checked by the runner) *)
Definition same_set (a b : list point) : bool := forallb (fun x => pmem x b) a && forallb (fun x => pmem x a) b.
Fixpoint pnodup (l : list point) : bool := match l with [] => true | x :: r => negb (pmem x r) && pnodup r end.
Definition enumerates (o s : list point) : bool := pnodup o && same_set o s.
Definition orders_ok (d : drawing) (oa ou : list point) : bool :=
  enumerates oa (all_nodes d) && enumerates ou (unique_nodes d oa).
