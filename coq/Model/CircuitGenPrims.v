(* Model/CircuitGenPrims.v — the vocabulary Gen/CircuitGen.v is written in, beyond Model/Circuit.v, Model/CircuitPrims.v and
   Model/Network.v (hand-written; definitions only).  tools/gen_circuit.py translates every function / method of
   Circuit/circuit.py and Circuit/solution.py into a Gallina definition over these primitives.  Each primitive is the
   meaning given to ONE Python construct:

     x.type   (x a Component)                 ctype x               the type string of the component's kind
     L[i]     (i a literal / an index)        list_at L i           IndexError  -> Err EIndex
     L.index(x)  (list of str)                list_index L x        ValueError  -> Err EValue; the FIRST position
     try: v = e / except E: return h          try_except e E h k    only the named exception class is caught
     a / b    (Python floats)                 py_div a b            ZeroDivisionError when b == 0.0
     np.arange(k)  (k an np.floor result + 1) np_arange k           0, 1, ..., k-1 (empty when k <= 0)
     A[M]     (M a boolean array)             mask_select A M       the entries of A whose mask entry is True, in order
     np.where(M, A, B)                        np_where M A B        position by position
     transformers[x.type](x, w, w_resolution) transformers_call x w wres     KeyError, then the REGENERATED translator
                                                                    (Gen/Tables.v: the table, Gen/Transformers.v: the functions)
     x.type in transformers.keys()            in_transformers x
     Network(branches=bs, node_zero_label=g)  Network_ctor bs g     Network.__post_init__ (FloatingGroundNode, AmbiguousBranchIDs)
     self.solver(network)                     solver_call network   the dataclass default nodal_analysis_bias_point_solver
     raise MultipleGroundNodes / AmbiguousComponentID              Err EMultipleGround / Err EAmbiguousComponent
   and two recognised idioms with a fixed meaning (shape checked by the translator):
     np.vectorize(lambda t: np.array(np.sum([np.abs(V)*np.cos(w*t+np.angle(V)) for V, w in zip(Vs, ws)])))
                                              cosine_sum (combine Vs ws) : timefn   — the list of (phasor, angular frequency)
                                              terms; its value at an instant is [timefn_eval] (Model/CircuitMore.v)
     lambda t: np.array(f(t))*np.array(g(t))  timefn_product f g : timefn * timefn  — pointwise product of two time functions *)
From Coq Require Import List Bool NArith ZArith Arith String.
From CC Require Import Theory.Field Theory.Complex Model.Network Gen.Tables Model.Circuit Model.CircuitPrims Gen.Transformers.
Import ListNotations.

(* ---- lists ---- *)
Definition list_at {A} (l : list A) (i : nat) : res A :=
  match nth_error l i with Some a => Ok a | None => Err EIndex end.

Fixpoint list_index (l : list label) (x : label) : res nat :=
  match l with
  | [] => Err EValue
  | y :: r => if label_eqb y x then Ok O else bind (list_index r x) (fun i => Ok (S i))
  end.

Definition mask_select {A} (l : list A) (m : list bool) : list A :=
  map (@fst A bool) (filter (@snd A bool) (combine l m)).

Definition np_where {A} (m : list bool) (a b : list A) : list A :=
  map (fun p : bool * (A * A) => if fst p then fst (snd p) else snd (snd p)) (combine m (combine a b)).

Definition np_arange (k : Z) : list Z := map Z.of_nat (seq 0 (Z.to_nat k)).

(* ---- exceptions ---- *)
Definition err_eqb (a b : err) : bool :=
  match a, b with
  | EFloatingGround, EFloatingGround | EAmbiguousIDs, EAmbiguousIDs | EKeyError, EKeyError | ESingular, ESingular
  | EValue, EValue | EAttribute, EAttribute | EOther, EOther | EMultipleGround, EMultipleGround
  | EAmbiguousComponent, EAmbiguousComponent | ETypeError, ETypeError | EZeroDivision, EZeroDivision
  | EFileFormat, EFileFormat | EFileExists, EFileExists | EUnknownWavetype, EUnknownWavetype
  | EUnidentified, EUnidentified | EIncorrectInfo, EIncorrectInfo | EUnknownComponent, EUnknownComponent
  | EIndex, EIndex => true
  | _, _ => false
  end.

(* try: v = e / except E: return h / <rest using v> *)
Definition try_except {A B} (e : res A) (E : err) (h : res B) (k : A -> res B) : res B :=
  match e with
  | Ok a => k a
  | Err x => if err_eqb x E then h else Err x
  end.

Section GenPrims.
Variable R : fops.
Variable leb : R -> R -> bool.
Variable rnd : R -> Z.
Variable ofZ : Z -> R.
Notation C := (Cx R).
Notation comp := (Model.Circuit.comp R).

Definition ctype (c : comp) : label := kind_name (ck c).

Definition py_div (a b : R) : res R := if feqb R b (f0 R) then Err EZeroDivision else Ok (fdiv R a b).

(* transformers[x.type](x, w, w_resolution) *)
Definition transformers_call (c : comp) (w wres : R) : res (branch C) :=
  dispatch R transformer_table (g_functions R leb rnd ofZ) c w wres.
(* x.type in transformers.keys() *)
Definition in_transformers (c : comp) : bool :=
  match flookup (ctype c) transformer_table with Some _ => true | None => false end.

(* Network(branches=bs, node_zero_label=g): the frozen dataclass and its __post_init__ validation *)
Definition Network_ctor (bs : list (branch C)) (g : label) : res (network C) :=
  validate {| branches := bs; zero := g |}.

(* self.solver(network) with the default solver *)
Definition solver_call (n : network C) : res (solution C) := solve_network n.

(* time functions t |-> sum_k |X_k| cos(w_k t + arg X_k), represented by their terms (X_k, w_k) *)
Definition timefn := list (C * R).
Definition cosine_sum (terms : list (C * R)) : timefn := terms.
Definition timefn_product (f g : timefn) : timefn * timefn := (f, g).

End GenPrims.
