(* Model/PortPrims.v — HAND-WRITTEN vocabulary in which tools/gen_loaders.py writes Gen/PortGen.v (the regenerated
   Network/equivalent_sources.py).  Each definition is the model of one Python construct or of one function that lives
   OUTSIDE the translated file; nothing here mentions a class of equivalent_sources.py.

   The values the two port functions hand out are Python ints or numpy numbers, and division tells them apart:
     int / int 0            ZeroDivisionError
     numpy / 0, int / numpy 0      inf or nan, no exception ([PyNp None] = a non-finite value)
     x / inf                0
   [pyv]: PyInt z = the Python int z ; PyNp (Some x) = the numpy complex x ; PyNp None = non-finite (np.inf, inf, nan).

   open_circuit_voltage(network, n1, n2)    port_open_circuit_voltage   (bias_point_analysis.py: the solution is built first,
                                            then the int 0 for identical nodes, else a numpy difference of potentials)
   open_circuit_impedance(network, n1, n2)  port_open_circuit_impedance (node_analysis.py: the int 0 for identical nodes and
                                            for an ideal voltage source between the nodes, else numpy / np.inf)
   a / b, a * b, -a, INT                    py_truediv, py_times, py_negate, PyInt *)
From Coq Require Import List Bool NArith ZArith.
From CC Require Import Theory.Field Model.Network Model.Transformers Model.Port Model.Loaders.
Import ListNotations.

Inductive pyv (K : fops) := PyInt (z : Z) | PyNp (x : option K).
Arguments PyInt {K} z. Arguments PyNp {K} x.

Section PortPrims.
Variable K : fops.
Notation "'let*' x ':=' p 'in' q" := (bind p (fun x => q)) (at level 200, x pattern, p at level 100, q at level 200).

Definition port_open_circuit_voltage (n : network K) (n1 n2 : label) : res (pyv K) :=
  let* v := open_circuit_voltage n n1 n2 in Ok (if label_eqb n1 n2 then PyInt 0 else PyNp (Some v)).
Definition port_open_circuit_impedance (n : network K) (n1 n2 : label) : res (pyv K) :=
  let* oz := open_circuit_impedance n n1 n2 in
  Ok (if label_eqb n1 n2 || ideal_source_between n n1 n2 then PyInt 0 else PyNp oz).

(* numpy division: finite / inf = 0; anything / 0 and inf / inf are non-finite *)
Definition np_div (a b : option K) : option K :=
  match b with
  | None => match a with Some _ => Some (f0 K) | None => None end
  | Some y => if feqb K y (f0 K) then None else match a with Some x => Some (fdiv K x y) | None => None end
  end.
Definition as_np (a : pyv K) : option K := match a with PyInt z => Some (ofZ K z) | PyNp x => x end.
Definition py_truediv (a b : pyv K) : res (pyv K) :=
  match a, b with
  | PyInt _, PyInt z => if Z.eqb z 0 then Err EZeroDivision else Ok (PyNp (np_div (as_np a) (as_np b)))   (* a float *)
  | _, _ => Ok (PyNp (np_div (as_np a) (as_np b)))
  end.
Definition np_mul (a b : option K) : option K :=
  match a, b with Some x, Some y => Some (fmul K x y) | _, _ => None end.
Definition py_times (a b : pyv K) : res (pyv K) :=
  match a, b with
  | PyInt x, PyInt y => Ok (PyInt (x * y))
  | _, _ => Ok (PyNp (np_mul (as_np a) (as_np b)))
  end.
Definition py_negate (a : pyv K) : res (pyv K) :=
  match a with PyInt x => Ok (PyInt (- x)) | PyNp (Some x) => Ok (PyNp (Some (fopp K x))) | PyNp None => Ok (PyNp None) end.
End PortPrims.
