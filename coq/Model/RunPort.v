(* Model/RunPort.v — runner entry point 6: the port functions of Model/Port.v over CQ.
   tokens: sub-function, network, then  node1 node2  (1, 3, 4)  or  element id  (2).
   result: [res (option CQ)] encoded  0 1 re im | 0 0 (non-finite) | 1 errcode. *)
From Coq Require Import List Bool ZArith NArith.
From CC Require Import Theory.Field Theory.Complex Model.Network Model.Codec Model.Transformers Model.Port.
Import ListNotations.

Definition eopt {A} (e : A -> list Z) (o : option A) : list Z :=
  match o with Some a => 1%Z :: e a | None => [0%Z] end.

Definition run_port : parser (list Z) :=
  let* op := pZ in
  let* n := pnetwork in
  match op with
  | 1 => let* a := plabel in let* b := plabel in pret (eres (eopt eCQ) (open_circuit_impedance n a b))
  | 2 => let* id := plabel in pret (eres (eopt eCQ) (element_impedance n id))
  | 3 => let* a := plabel in let* b := plabel in
         pret (eres (eopt eCQ) (bind (open_circuit_voltage n a b) (fun v => Ok (Some v))))
  | 4 => let* a := plabel in let* b := plabel in pret (eres (eopt eCQ) (short_circuit_current n a b))
  | _ => fun _ => None
  end%Z.
