(* Model/RunAnnotation.v — runner entry point 14: the annotation texts of Model/Annotation.v.
   tokens: adapter (0 empty | 1 real | 2 complex | 3 sinusoidal), precision, polar, deg, sin, hertz, w (n d),
           quantity (0 voltage | 1 current | 2 power | 3 potential), reverse,
           reading: real (n d), complex re (n d) im (n d),
           then TWO oracle rows, the first for the value as read and the second for its negation (the model decides
           which one is consulted: it applies the reverse sign itself and looks the formatted value up):
             |z| (n d), small-angle flag, angle text, arg z (n d), arg z + pi/2 (n d), degrees of the phase used (n d)
           and w/2/pi (n d).
   result: the code points of the text. *)
From Coq Require Import List Bool ZArith NArith QArith.
From CC Require Import Model.Network Model.Codec Model.Format Model.Annotation.
Import ListNotations.
Open Scope Z_scope.

Record orow := { o_abs : Q; o_small : bool; o_text : label; o_arg : Q; o_half : Q; o_deg : Q }.
Definition porow : parser orow :=
  let* a := pQ in let* s := pbool in let* t := plabel in let* g := pQ in let* h := pQ in let* d := pQ in
  pret {| o_abs := a; o_small := s; o_text := t; o_arg := g; o_half := h; o_deg := d |}.

Definition ceqb (a b : cval) : bool := Qeq_bool (fst a) (fst b) && Qeq_bool (snd a) (snd b).
(* the row of the value that is formatted: the reading itself or (otherwise) its negation *)
Definition pick (z : cval) (r1 r2 : orow) (z' : cval) : orow := if ceqb z' z then r1 else r2.

Definition polar_of (z : cval) (r1 r2 : orow) : polar_oracle :=
  {| po_abs := fun z' => o_abs (pick z r1 r2 z');
     po_small := fun _ z' => o_small (pick z r1 r2 z');
     po_text := fun _ z' => o_text (pick z r1 r2 z') |}.
(* so_add_halfpi / so_degrees receive the phase: the rows are told apart by it *)
Definition sin_of (z : cval) (r1 r2 : orow) (hz : Q) : sin_oracle :=
  {| so_abs := fun z' => o_abs (pick z r1 r2 z');
     so_arg := fun z' => o_arg (pick z r1 r2 z');
     so_add_halfpi := fun x => if Qeq_bool x (o_arg r1) then o_half r1 else o_half r2;
     so_degrees := fun x => if Qeq_bool x (o_arg r1) || Qeq_bool x (o_half r1) then o_deg r1 else o_deg r2;
     so_hz := fun _ => hz |}.

Definition quantity_of (k : Z) : option quantity :=
  match k with 0 => Some QVoltage | 1 => Some QCurrent | 2 => Some QPower | 3 => Some QPotential | _ => None end.

Definition run_annotation : parser (list Z) :=
  let* a := pZ in let* p := pZ in let* polar := pbool in let* deg := pbool in let* sn := pbool in let* hertz := pbool in
  let* w := pQ in let* qk := pZ in let* reverse := pbool in
  let* x := pQ in let* re := pQ in let* im := pQ in
  let* r1 := porow in let* r2 := porow in let* hz := pQ in
  match quantity_of qk with
  | None => pret [(-3)%Z]
  | Some q =>
    let z := (re, im) in
    let ad := match a with
              | 1 => Some (AdReal p) | 2 => Some (AdComplex (Some w) p polar deg)
              | 3 => Some (AdSin w p sn deg hertz) | 0 => Some AdEmpty | _ => None end in
    match ad with
    | None => pret [(-3)%Z]
    | Some ad => pret (0 :: etext (annotation (polar_of z r1 r2) (sin_of z r1 r2 hz) ad q reverse
                                              {| rd_real := x; rd_cplx := z |}))
    end
  end.
