(* Model/Heap.v — a small state model for histories of calls over a pool of shared argument objects.
   Abstract part: [step : pool -> op -> pool * result]; a history is run with [fold_left]; the isolated evaluation of
   an operation is its result on the initial pool.
   Concrete part: the pool holds descriptions (documents), networks and exemption lists; the operations are the loaders
   of Model/Loaders.v in state-passing style (the post-state of the argument is written back into the pool) and the pure
   functions of Model/Network.v / Model/Transformers.v lifted as  fun s => (s, f args). *)
From Coq Require Import List Bool NArith Arith.
From CC Require Import Theory.Field Theory.Complex Model.Network Model.Transformers Model.Circuit Model.Loaders.
Import ListNotations.

Section Abstract.
Variables obj op result : Type.
Variable step : list obj -> op -> list obj * result.

(* the operation leaves every object of the pool as it found it *)
Definition Frame (o : op) : Prop := forall s, fst (step s o) = s.
(* the result obtained for the same description in isolation: on the initial pool *)
Definition iso (s0 : list obj) (o : op) : result := snd (step s0 o).

(* one process: the pool is threaded through the calls; the trace records pool and result after every call *)
Definition run_acc (acc : list obj * list (list obj * result)) (o : op) : list obj * list (list obj * result) :=
  let sr := step (fst acc) o in (fst sr, snd acc ++ [sr]).
Definition run_from (acc : list obj * list (list obj * result)) (ops : list op) := fold_left run_acc ops acc.
Definition run (s0 : list obj) (ops : list op) : list (list obj * result) := snd (run_from (s0, []) ops).
Definition final (s0 : list obj) (ops : list op) : list obj := fst (run_from (s0, []) ops).
End Abstract.

Fixpoint set_nth {A} (i : nat) (x : A) (l : list A) : list A :=
  match l, i with
  | [], _ => []
  | _ :: r, O => x :: r
  | a :: r, S j => a :: set_nth j x r
  end.

Section Concrete.
Variable R : fops.
Variable leb : R -> R -> bool.
Variable pi : R.
Variable cis : R -> R * R.
Notation C := (Cx R).

Inductive obj := ODoc (d : jval R) | ONet (n : network C) | OKeep (k : list (elem C)) | OLabel (l : label).
Inductive op :=
| LoadNetwork (i : nat) | ToComplex (deg : bool) (i : nat) | DictifyAll (i : nat) | UndictifyAll (i : nat)
| GenerateComponent (i : nat) | UndictifyCircuit (i : nat)
| Solve (i : nat) | Potential (i j : nat) | Voltage (i j : nat) | Current (i j : nat) | Power (i j : nat)
| SwitchGround (i j : nat) | RemoveElement (i j : nat) | RemoveOpen (i : nat) | RemoveShort (i k : nat)
| ShortVoltageSources (i k : nat) | OpenCurrentSources (i k : nat) | RemoveIdealCurrent (i k : nat)
| RemoveIdealVoltage (i k : nat) | Passive (i k : nat).
Inductive result :=
| RNet (r : res (network C)) | RCplx (r : res C) | RDoc (r : res (jval R)) | RComp (r : res (lcomp R))
| RCircuit (r : res (list (lcomp R) * label)) | RSol (r : res (solution C)) | RVal (r : res C) | RWrongArgument.

Definition get_doc (s : list obj) (i : nat) : option (jval R) := match nth_error s i with Some (ODoc d) => Some d | _ => None end.
Definition get_net (s : list obj) (i : nat) : option (network C) := match nth_error s i with Some (ONet n) => Some n | _ => None end.
Definition get_keep (s : list obj) (i : nat) : option (list (elem C)) := match nth_error s i with Some (OKeep k) => Some k | _ => None end.
Definition get_label (s : list obj) (i : nat) : option label := match nth_error s i with Some (OLabel l) => Some l | _ => None end.

(* a loader: runs on the document at position i and writes the post-state of that document back *)
Definition on_doc {X} (s : list obj) (i : nat) (f : jval R -> X * jval R) (wrap : X -> result) : list obj * result :=
  match get_doc s i with
  | Some d => let '(r, d') := f d in (set_nth i (ODoc d') s, wrap r)
  | None => (s, RWrongArgument)
  end.
(* a pure function of objects of the pool *)
Definition pure1 {X} (s : list obj) (a : option X) (f : X -> result) : list obj * result :=
  match a with Some x => (s, f x) | None => (s, RWrongArgument) end.
Definition pure2 {X Y} (s : list obj) (a : option X) (b : option Y) (f : X -> Y -> result) : list obj * result :=
  match a, b with Some x, Some y => (s, f x y) | _, _ => (s, RWrongArgument) end.
Definition query (n : network C) (f : solution C -> res C) : result :=
  RVal (bind (solve_network n) f).

(* [copies]: whether load_network copies each entry before popping from it (true: the code of today) *)
Definition step_gen (copies : bool) (s : list obj) (o : op) : list obj * result :=
  match o with
  | LoadNetwork i => on_doc s i (fun d => load_network_gen R pi cis copies d) RNet
  | ToComplex deg i => on_doc s i (to_complex_st R pi cis deg) RCplx
  | DictifyAll i => on_doc s i (fun d => let '(r, d') := dictify_all_st R d in (Ok r, d')) RDoc
  | UndictifyAll i => on_doc s i (undictify_all_st R leb pi cis) RDoc
  | GenerateComponent i => on_doc s i (generate_component_st R leb) RComp
  | UndictifyCircuit i => on_doc s i (undictify_circuit_st R leb) RCircuit
  | Solve i => pure1 s (get_net s i) (fun n => RSol (solve_network n))
  | Potential i j => pure2 s (get_net s i) (get_label s j) (fun n l => query n (fun sol => get_potential sol l))
  | Voltage i j => pure2 s (get_net s i) (get_label s j) (fun n l => query n (fun sol => get_voltage sol l))
  | Current i j => pure2 s (get_net s i) (get_label s j) (fun n l => query n (fun sol => get_current sol l))
  | Power i j => pure2 s (get_net s i) (get_label s j) (fun n l => query n (fun sol => get_power sol l))
  | SwitchGround i j => pure2 s (get_net s i) (get_label s j) (fun n l => RNet (switch_ground_node n l))
  | RemoveElement i j => pure2 s (get_net s i) (get_label s j) (fun n l => RNet (remove_element n l))
  | RemoveOpen i => pure1 s (get_net s i) (fun n => RNet (remove_open_circuit_elements n))
  | RemoveShort i k => pure2 s (get_net s i) (get_keep s k) (fun n kp => RNet (remove_short_circuit_elements n kp))
  | ShortVoltageSources i k => pure2 s (get_net s i) (get_keep s k) (fun n kp => RNet (short_circuitify_voltage_sources n kp))
  | OpenCurrentSources i k => pure2 s (get_net s i) (get_keep s k) (fun n kp => RNet (open_circuitify_current_sources n kp))
  | RemoveIdealCurrent i k => pure2 s (get_net s i) (get_keep s k) (fun n kp => RNet (remove_ideal_current_sources n kp))
  | RemoveIdealVoltage i k => pure2 s (get_net s i) (get_keep s k) (fun n kp => RNet (remove_ideal_voltage_sources n kp))
  | Passive i k => pure2 s (get_net s i) (get_keep s k) (fun n kp => RNet (passive_network n kp))
  end.
Definition step_model : list obj -> op -> list obj * result := step_gen true.
(* the library before fix 6828b52 *)
Definition step_prefix : list obj -> op -> list obj * result := step_gen false.
End Concrete.

Arguments ODoc {R}. Arguments ONet {R}. Arguments OKeep {R}. Arguments OLabel {R}.
Arguments RNet {R}. Arguments RCplx {R}. Arguments RDoc {R}. Arguments RComp {R}. Arguments RCircuit {R}.
Arguments RSol {R}. Arguments RVal {R}. Arguments RWrongArgument {R}.
