(* Model/Run.v — runner entry points: [dispatch fn tokens] decodes a case, runs the model over CQ
   (Gaussian rationals) and encodes the result.  Malformed token streams give [-1]. *)
From Coq Require Import List Bool ZArith NArith.
From CC Require Import Theory.Field Theory.Complex Model.Network Model.Codec Model.Transformers Model.Circuit Model.RunCircuit Model.RunStateSpace Model.Format Model.RunLoaders Model.RunPort Model.Drawing Model.RunDrawing Model.Annotation Model.RunAnnotation Model.RunSaveLoad.
Import ListNotations.

(* fn 1: full bias-point solution: potentials of node_labels (sorted), then v,i,p of every branch in
   listing order *)
Definition run_solve (n : network CQ) : list Z :=
  match solve_network n with
  | Err e => [1%Z; err_code e]
  | Ok s =>
      0%Z :: elist (fun l => elabel l ++ eres eCQ (get_potential s l)) (node_labels n)
      ++ elist (fun b => elabel (bid b) ++ eres eCQ (get_voltage s (bid b))
                         ++ eres eCQ (get_current s (bid b)) ++ eres eCQ (get_power s (bid b)))
               (branches n)
  end.

(* fn 2: network transformers.  tokens: op, network, then op-specific arguments *)
Definition run_transform (op : Z) : parser (list Z) :=
  let* n := pnetwork in
  match op with
  | 1 => let* g := plabel in pret (eres enetwork (switch_ground_node n g))
  | 2 => let* id := plabel in pret (eres enetwork (remove_element n id))
  | 3 => pret (eres enetwork (remove_open_circuit_elements n))
  | 4 => let* keep := plist pelem in pret (eres enetwork (remove_short_circuit_elements n keep))
  | 5 => let* keep := plist pelem in pret (eres enetwork (short_circuitify_voltage_sources n keep))
  | 6 => let* keep := plist pelem in pret (eres enetwork (open_circuitify_current_sources n keep))
  | 7 => let* keep := plist pelem in pret (eres enetwork (remove_ideal_current_sources n keep))
  | 8 => let* keep := plist pelem in pret (eres enetwork (remove_ideal_voltage_sources n keep))
  | 9 => let* keep := plist pelem in pret (eres enetwork (passive_network n keep))
  | _ => fun _ => None
  end%Z.

Definition with_parse {A} (p : parser A) (f : A -> list Z) (ts : list Z) : list Z :=
  match p ts with Some (a, []) => f a | _ => [(-1)%Z] end.

Definition dispatch (fn : Z) (ts : list Z) : list Z :=
  match fn with
  | 1 => with_parse pnetwork run_solve ts
  | 2 => match ts with op :: r => with_parse (run_transform op) (fun x => x) r | [] => [(-1)%Z] end
  | 3 => with_parse run_transform_circuit (fun x => x) ts
  | 4 => with_parse run_complex_solution (fun x => x) ts
  | 5 => with_parse run_dc_solution (fun x => x) ts
  | 6 => with_parse run_port (fun x => x) ts
  | 9 => with_parse run_frequency_components (fun x => x) ts
  | 10 => with_parse run_state_space (fun x => x) ts
  | 13 => with_parse run_drawing (fun x => x) ts
  | 14 => with_parse run_annotation (fun x => x) ts
  | 15 => with_parse run_saveload (fun x => x) ts
  | 17 => with_parse run_loaders (fun x => x) ts
  | 18 => run_format ts
  | _ => [(-2)%Z]
  end%Z.
