(* Model/Run.v — runner entry points: [dispatch fn tokens] decodes a case, runs the model over CQ
   (Gaussian rationals) and encodes the result.  Malformed token streams give [-1]. *)
From Coq Require Import List Bool ZArith NArith.
From CC Require Import Theory.Field Theory.Complex Model.Network Model.Codec.
Import ListNotations.

(* fn 1: full bias-point solution: potentials of node_labels (sorted), then v,i,p of every branch in
   listing order *)
Definition run_solve (n : network CQ) : list Z :=
  match solve_network n with
  | Err e => [1%Z; err_code e]
  | Ok s =>
      0%Z :: elist (fun l => elabel l ++ eres eCQ (get_potential s l)) (node_labels n)
      ++ elist (fun b => elabel (bid b) ++ eres eCQ (get_voltage s (bid b))
                         ++ eres eCQ (get_current s (bid b)) ++ eres eCQ (get_power s (bid b)))
               (branches n)
  end.

Definition with_parse {A} (p : parser A) (f : A -> list Z) (ts : list Z) : list Z :=
  match p ts with Some (a, []) => f a | _ => [(-1)%Z] end.

Definition dispatch (fn : Z) (ts : list Z) : list Z :=
  match fn with
  | 1 => with_parse pnetwork run_solve ts
  | _ => [(-2)%Z]
  end%Z.
