(* Model/MatrixPrims.v — the (hand-written, small) Coq meaning of the numpy / itertools / dict primitives that the
   translator tools/gen_matrix.py emits into Gen/MatrixGen.v.  Everything else in Gen/MatrixGen.v is a compositional
   image of the Python source.  Conventions (those of Model/NetworkPrims.v, plus):
     * 2-D np.ndarray -> [arr2]: the list of rows TOGETHER WITH the number of columns (shape[1] of an array with no
                         row is not recoverable from a list of lists); dtype is ignored: every number is in [K];
     * 1-D np.ndarray -> [list K]; a boolean mask -> [list bool];
     * a function whose results are 1-D on some paths and 2-D on others returns [ndarr];
     * dict[str, float] -> association list in insertion order (a Python dict has unique keys);
     * `for x in L: <assignments to M>` -> [fold_left (fun M x => ...) L M], or [for_res] when the body can raise;
     * IndexError / shape-mismatch ValueError of numpy are not modelled (as in Model/StateSpace.v);
     * np.linalg.inv / solve -> the model's checked Gauss-Jordan [inverse] / [solve] (LinAlgError = [Err ESingular] / [None]);
     * x.real of the real matrix of the w = 0 network -> the matrix itself (Model/StateSpace.v works over the reals). *)
From Coq Require Import List Bool NArith Arith.
From CC Require Import Theory.Field Model.Network Model.Transformers Model.NetworkPrims Model.StateSpace Model.Port.
Import ListNotations.

(* ---------- generic list helpers ---------- *)
Fixpoint set_nth {A : Type} (l : list A) (i : nat) (v : A) : list A :=      (* l[i] = v ; out of range: unchanged *)
  match l, i with
  | [], _ => []
  | _ :: r, O => v :: r
  | x :: r, S i' => x :: set_nth r i' v
  end.

Definition enumerate {A : Type} (l : list A) : list (nat * A) := combine (seq 0 (length l)) l.   (* enumerate(l) *)

(* itertools.combinations(l, 2) *)
Fixpoint combinations2 {A : Type} (l : list A) : list (A * A) :=
  match l with [] => [] | x :: r => map (fun y => (x, y)) r ++ combinations2 r end.

(* `for x in l: s = body(s, x)` with a body that can raise *)
Fixpoint for_res {S A : Type} (l : list A) (body : S -> A -> res S) (s : S) : res S :=
  match l with [] => Ok s | a :: r => bind (body s a) (fun s' => for_res r body s') end.

(* [f(x) for x in l] with f raising *)
Fixpoint map_res {A B : Type} (f : A -> res B) (l : list A) : res (list B) :=
  match l with
  | [] => Ok []
  | a :: r => bind (f a) (fun b => bind (map_res f r) (fun bs => Ok (b :: bs)))
  end.

(* [x for x in l if p(x)] with p raising *)
Fixpoint filter_res {A : Type} (p : A -> res bool) (l : list A) : res (list A) :=
  match l with
  | [] => Ok []
  | a :: r => bind (p a) (fun c => bind (filter_res p r) (fun xs => Ok (if c then a :: xs else xs)))
  end.

(* [f(x) for x in l if c(x)] / {k(x): v(x) for x in l if c(x)} with c AND f raising: evaluated item by item, c(x1), f(x1), c(x2), ... *)
Fixpoint comp_res {A B : Type} (c : A -> res bool) (f : A -> res B) (l : list A) : res (list B) :=
  match l with
  | [] => Ok []
  | a :: r => bind (c a) (fun t => if t then bind (f a) (fun b => bind (comp_res c f r) (fun bs => Ok (b :: bs)))
                                   else comp_res c f r)
  end.

(* l.index(x): ValueError when absent *)
Definition list_index (l : list label) (x : label) : res nat := if lmem x l then Ok (lindex l x) else Err EValue.

(* list.sort(key=...) with a str key: stable insertion sort *)
Fixpoint insert_by_key {A : Type} (key : A -> label) (x : A) (l : list A) : list A :=
  match l with
  | [] => [x]
  | y :: r => if label_leb (key x) (key y) then x :: l else y :: insert_by_key key x r
  end.
Fixpoint sort_by_key {A : Type} (key : A -> label) (l : list A) : list A :=
  match l with [] => [] | x :: r => insert_by_key key x (sort_by_key key r) end.

(* set((a, b)) == set((c, d)) *)
Definition set2_eqb (a b c d : label) : bool :=
  forallb (fun x => lmem x [c; d]) [a; b] && forallb (fun x => lmem x [a; b]) [c; d].

(* s = s0 ; while s in l: s += suffix   (among the |l|+1 first candidates one is not in l) *)
Fixpoint while_in_append_fuel (fuel : nat) (s suffix : label) (l : list label) : label :=
  match fuel with
  | O => s
  | S f => if lmem s l then while_in_append_fuel f (s ++ suffix) suffix l else s
  end.
Definition while_in_append (s suffix : label) (l : list label) : label :=
  while_in_append_fuel (S (length l)) s suffix l.

(* ---------- dict[str, float] ---------- *)
Definition dict_keys {V : Type} (d : list (label * V)) : list label := map fst d.     (* iteration, .keys() *)
Definition dict_values {V : Type} (d : list (label * V)) : list V := map snd d.       (* .values() *)
Definition dict_mem {V : Type} (k : label) (d : list (label * V)) : bool := lmem k (map fst d).   (* k in d *)

(* d[k] = v on a dict that was created by {} / a dict comprehension in the same function (its keys are unique): an existing key
   keeps its position and gets the new value, a new key is appended *)
Fixpoint dict_set {V : Type} (d : list (label * V)) (k : label) (v : V) : list (label * V) :=
  match d with
  | [] => [(k, v)]
  | (k', v') :: r => if label_eqb k' k then (k', v) :: r else (k', v') :: dict_set r k v
  end.

(* {k: v for ...}: the items are stored one after the other (a repeated key keeps its first position and gets the last value) *)
Definition dict_of_items {V : Type} (l : list (label * V)) : list (label * V) :=
  fold_left (fun d kv => dict_set d (fst kv) (snd kv)) l [].

(* set(l) of ints, only observed through len *)
Definition natset_of_list (l : list nat) : list nat := l.
Definition natset_len (s : list nat) : nat := length (nodup Nat.eq_dec s).

(* ---------- LabelMapping beyond Model/NetworkPrims.v ---------- *)
(* The class LabelMapping and label_mapping.filter are translated (Gen/MatrixGen.v, module py_label_mapping_m) over the dict
   of the object, an association list label -> index ([fmapping]).  The other modules see a LabelMapping that a mapper built
   (LabelMapping({k: v for v, k in enumerate(L)}), [enum_mapping L]) as the key list L itself ([mapping]); [lm_dict] is the
   dict of that object, and Theory/MatrixGenThm.v (section LabelMappingClass) proves that every translated member, applied
   to [lm_dict m], is the primitive [mapping_*] / [fmapping_*] used for it (for keys without duplicates). *)
Definition lm_dict (m : mapping) : list (label * nat) := combine m (seq 0 (length m)).
Definition mapping_values (m : mapping) : list nat := seq 0 (length m).      (* m.values of an enumerate-mapping *)
Definition mapping_index (m : mapping) (k : label) : nat := lindex m k.      (* m[k], m(k) for a key k taken from m itself *)
(* label_mapping.filter(m, p): the sub-dict, each key keeping its ORIGINAL index *)
Definition fmapping := list (label * nat).       (* a LabelMapping object: its dict *)
Definition mapping_filter (m : mapping) (p : label -> bool) : fmapping :=
  filter (fun kv => p (fst kv)) (combine m (seq 0 (length m))).
Definition mapping_filter_res (m : mapping) (p : label -> res bool) : res fmapping :=
  filter_res (fun kv => p (fst kv)) (combine m (seq 0 (length m))).
Definition fmapping_keys (m : fmapping) : list label := map fst m.
Definition fmapping_item (m : fmapping) (k : label) : res nat := dict_item m k.

Section Prims.
Context {K : fops}.
Notation "0" := (f0 K). Notation "1" := (f1 K).

(* sum(l): 0 + l[0] + l[1] + ... *)
Definition py_sum (l : list K) : K := fold_left (fadd K) l 0.

(* ---------- 2-D arrays ---------- *)
Record arr2 := { a_cols : nat; a_rows : list (list K) }.

Definition np_zeros2 (r c : nat) : arr2 := {| a_cols := c; a_rows := map (fun _ => zero_row K c) (seq 0 r) |}.
Definition np_zeros1 (m : nat) : list K := zero_row K m.
Definition np_shape0 (M : arr2) : nat := length (a_rows M).
Definition np_shape1 (M : arr2) : nat := a_cols M.
(* M[i, j] = v,  M[i][j] = v *)
Definition arr_set (M : arr2) (i j : nat) (v : K) : arr2 :=
  {| a_cols := a_cols M; a_rows := set_nth (a_rows M) i (set_nth (nth i (a_rows M) []) j v) |}.
Definition vec_set (u : list K) (i : nat) (v : K) : list K := set_nth u i v.
Definition np_T (M : arr2) : arr2 := {| a_cols := length (a_rows M); a_rows := transpose (a_cols M) (a_rows M) |}.
Definition np_hstack2 (A B : arr2) : arr2 :=
  {| a_cols := a_cols A + a_cols B; a_rows := hstack K (a_rows A) (a_rows B) |}.
Definition np_vstack2 (A B : arr2) : arr2 := {| a_cols := a_cols A; a_rows := a_rows A ++ a_rows B |}.
Definition np_matmul (A B : arr2) : arr2 := {| a_cols := a_cols B; a_rows := mat_mul (a_cols B) (a_rows A) (a_rows B) |}.
Definition np_matvec (A : arr2) (x : list K) : list K := mat_vec (a_rows A) x.
Definition np_neg (A : arr2) : arr2 := {| a_cols := a_cols A; a_rows := mat_opp K (a_rows A) |}.
Definition np_sub (A B : arr2) : arr2 := {| a_cols := a_cols A; a_rows := mat_sub K (a_rows A) (a_rows B) |}.
Definition np_scal_vec (c : K) (u : list K) : list K := row_scale c u.              (* c * u *)
(* M / z with z possibly np.inf ([None]): x / inf = 0 *)
Definition vec_div_opt (u : list K) (z : option K) : list K :=
  match z with Some z' => map (fun x => fdiv K x z') u | None => map (fun _ => 0) u end.
Definition np_div_opt (A : arr2) (z : option K) : arr2 :=
  {| a_cols := a_cols A; a_rows := map (fun r => vec_div_opt r z) (a_rows A) |}.
Definition np_diag_of_list (d : list K) : arr2 := {| a_cols := length d; a_rows := diag K d |}.   (* np.diag(1-D) *)
Definition np_diag_of_arr (M : arr2) : list K :=                                                 (* np.diag(2-D) *)
  map (fun k => entry (nth k (a_rows M) []) k) (seq 0 (Nat.min (length (a_rows M)) (a_cols M))).
Definition np_real (M : arr2) : arr2 := M.
Definition np_linalg_inv (M : arr2) : res arr2 :=
  match inverse (a_rows M) with Some X => Ok {| a_cols := a_cols M; a_rows := X |} | None => Err ESingular end.
Definition np_linalg_solve (A : arr2) (b : list K) : option (list K) := solve (a_rows A) b.
Definition np_any_axis1 (M : arr2) : list bool := map row_connected (a_rows M).       (* M.any(axis=1) *)
Definition np_ix (M : arr2) (r c : list bool) : arr2 :=                              (* M[np.ix_(r, c)] *)
  {| a_cols := count_true c; a_rows := map (select c) (select r (a_rows M)) |}.
Definition vec_mask (u : list K) (m : list bool) : list K := select m u.             (* u[m] *)
Definition bvec_item (m : list bool) (i : nat) : bool := nth i m false.
Definition arr_cols (M : arr2) (idx : list nat) : arr2 :=                            (* M[:, idx] *)
  {| a_cols := length idx; a_rows := select_cols K idx (a_rows M) |}.
Definition arr_row (M : arr2) (i : nat) : list K := nth i (a_rows M) [].             (* M[i], M[i][:] *)
Definition arr_row_slice (M : arr2) (a b : nat) : arr2 :=                            (* M[a:b], M[:][a:b] *)
  {| a_cols := a_cols M; a_rows := firstn (b - a) (skipn a (a_rows M)) |}.

(* results that are 1-D on some paths and 2-D on others *)
Inductive ndarr := A1 (u : list K) | A2 (M : arr2).

(* NodalStateSpaceModel (with the fields A, B, C, D of its base class sp.StateSpaceModel first) *)
Record nssm := {
  m_A : arr2; m_B : arr2; m_C : arr2; m_D : arr2;
  m_network : network K;
  m_c_values : list (label * K);
  m_l_values : list (label * K);
  m_node_index_mapping : mapping;
  m_voltage_source_index_mapping : mapping;
  m_current_source_index_mapping : mapping }.

End Prims.
Arguments arr2 K : clear implicits.
Arguments ndarr K : clear implicits.
Arguments nssm K : clear implicits.
