(* Model/Annotation.v — the annotation texts written on a schematic.
     SimpleCircuit/DiagramSolution.py : RealNetworkDiagramSolution, ComplexNetworkDiagramSolution,
                                        TimeDomainSteadyStateDiagramSolution (get_voltage/current/power/potential),
                                        SchematicDiagramSolution.draw_* (which text goes on which label, label direction)
     SimpleCircuit/Display.py         : print_real, print_complex, print_sinosoidal, print_active_power
     SimpleSimulation/schematic.py    : the `solutions` table, SolutionDefinition.diagram_solution_creator
                                        (parameter filtering by signature), the annotation lists of a description.
   Built on Model/Format.v (exact model of Utils.py).  Values are the exact rationals of the binary64 numbers the
   adapter receives from the solution object; a complex value is a pair.

   Transcendental / rounded float operations are ORACLES, packaged as functions of the value that is formatted (so that
   the reverse annotation consults the oracle at the negated value, as the code does):
     abs(z)              -> po_abs / so_abs          np.angle(z, deg) rendered '.2f' / '.4f' -> po_text
     log10|angle| <= -2/-5 -> po_small               cmath.phase(z) -> so_arg
     x + pi/2 in binary64 -> so_add_halfpi           math.degrees  -> so_degrees            w/2/pi -> so_hz
   HAND-WRITTEN MIRRORS (not generated from the source; a change of the Python tables must be repeated here):
     [solutions], [sol_signature] (the parameter names of the four factory functions), the unit letters, the prefix
     table ids (tab_umk = {-6:'u',-3:'m',3:'k'} for print_real/complex/sinosoidal, tab_default for print_active_power
     and the phase / angular-frequency texts, tab_hz for the hertz text). *)
From Coq Require Import List Bool ZArith NArith QArith Qabs Lia String.
From CC Require Import Model.Network Model.Format Model.Circuit.
Import ListNotations.
Open Scope Z_scope.

(* ---------- quantities, units, the reverse sign ---------- *)
Inductive quantity := QVoltage | QCurrent | QPower | QPotential.

Definition unit_of (q : quantity) : label :=
  match q with QVoltage => [86%N] | QCurrent => [65%N] | QPower => [87%N] | QPotential => [86%N] end.   (* V A W V *)

(* get_potential(name) has no reverse parameter *)
Definition takes_reverse (q : quantity) : bool := match q with QPotential => false | _ => true end.
Definition eff_reverse (q : quantity) (reverse : bool) : bool := takes_reverse q && reverse.

(* sign = -1 if reverse else 1 ; sign * value  (exact in binary64: 1*x = x, -1*x = -x) *)
Definition sgnQ (reverse : bool) (x : Q) : Q := if reverse then (- x)%Q else x.
Definition cval := (Q * Q)%type.
Definition coppQ (z : cval) : cval := ((- fst z)%Q, (- snd z)%Q).
Definition sgnC (reverse : bool) (z : cval) : cval := if reverse then coppQ z else z.

(* ---------- Display.py ---------- *)
Definition ARROW_DOWN : N := 8595%N.    (* '↓' *)
Definition ARROW_UP : N := 8593%N.      (* '↑' *)
Definition Qpos (x : Q) : bool := 0 <? Qnum x.                     (* value > 0 *)

(* print_real(value, unit, precision): ScientificFloat(value.real, unit, precision, True, {-6:'u',-3:'m',3:'k'}) *)
Definition print_real (x : Q) (un : label) (p : Z) : label := sci_text x p true tab_umk un.

(* print_active_power(value, precision): ScientificFloat(abs(value), 'W', precision, use_exp_prefix=True) -- DEFAULT table --
   followed by '↓' if value > 0 else '↑' *)
Definition print_active_power (x : Q) (p : Z) : label :=
  sci_text (Qabs x) p true tab_default [87%N] ++ [if Qpos x then ARROW_DOWN else ARROW_UP].

(* print_complex(value, unit, precision, polar, deg): compact, use_exp_prefix, table u/m/k *)
Record polar_oracle := {
  po_abs : cval -> Q;                     (* abs(value) *)
  po_small : bool -> cval -> bool;        (* deg -> value -> np.log10(np.abs(angle)) <= -2 (deg) / -5 (rad) *)
  po_text : bool -> cval -> label         (* deg -> value -> f'{angle:.2f}' (deg) / f'{angle:.4f}' (rad) *)
}.
Definition print_complex (O : polar_oracle) (z : cval) (un : label) (p : Z) (polar deg : bool) : label :=
  if polar then polar_text (po_abs O z) p true tab_umk un (po_small O deg z) deg (po_text O deg z)
  else complex_text (fst z) (snd z) p true tab_umk un true.

(* print_sinosoidal(value, unit, precision, w, sin, deg, hertz) *)
Record sin_oracle := {
  so_abs : cval -> Q;                     (* abs(value) *)
  so_arg : cval -> Q;                     (* cmath.phase(value) *)
  so_add_halfpi : Q -> Q;                 (* x |-> x + pi/2 (binary64 addition) *)
  so_degrees : Q -> Q;                    (* math.degrees *)
  so_hz : Q -> Q                          (* w |-> w/2/pi *)
}.
Definition thr_1em4 : Q := 7378697629483821 # 73786976294838206464.      (* the binary64 number written 1e-4 *)
Definition Qgtb (a b : Q) : bool := Qnum b * Zpos (Qden a) <? Qnum a * Zpos (Qden b).    (* a > b *)
Definition DOT : N := 183%N.            (* '·' *)
Definition t_sin : label := [115; 105; 110]%N.
Definition t_cos : label := [99; 111; 115]%N.
Definition t_2pi : label := [50; 960; 183]%N.      (* '2π·' *)
Definition t_dot_t : label := [183; 116]%N.        (* '·t' *)
Definition u_hz : label := [72; 122]%N.            (* 'Hz' *)
Definition u_per_s : label := [47; 115]%N.         (* '/s' *)
Definition u_degree : label := [176%N].            (* '°' *)

(* phase_value = phase(value) (+ pi/2 if sin) *)
Definition sin_phase (O : sin_oracle) (z : cval) (sin : bool) : Q :=
  if sin then so_add_halfpi O (so_arg O z) else so_arg O z.
(* str(abs_phase_value) *)
Definition phase_text (O : sin_oracle) (ph : Q) (p : Z) (deg : bool) : label :=
  if deg then sci_text (Qabs (so_degrees O ph)) p false tab_default u_degree
  else sci_text (Qabs ph) p false tab_default [].
Definition freq_text (O : sin_oracle) (w : Q) (p : Z) (hertz : bool) : label :=
  if hertz then t_2pi ++ sci_text (so_hz O w) p true tab_hz u_hz else sci_text w p false tab_default u_per_s.
Definition amplitude_text (O : sin_oracle) (z : cval) (un : label) (p : Z) : label :=
  sci_text (so_abs O z) p true tab_umk un.

Definition print_sinusoidal (O : sin_oracle) (z : cval) (un : label) (p : Z) (w : Q) (sin deg hertz : bool) : label :=
  let ph := sin_phase O z sin in
  if Qnum w =? 0 then amplitude_text O z un p
  else amplitude_text O z un p ++ DOT :: (if sin then t_sin else t_cos) ++ 40%N :: freq_text O w p hertz ++ t_dot_t
       ++ (if Qgtb (Qabs ph) thr_1em4 then (if Qpos ph then [43%N] else [45%N]) ++ phase_text O ph p deg else [])
       ++ [41%N].

(* ---------- DiagramSolution.py: the three adapters ---------- *)
(* RealNetworkDiagramSolution *)
Definition real_ann (q : quantity) (reverse : bool) (x : Q) (p : Z) : label :=
  let v := sgnQ (eff_reverse q reverse) x in
  match q with
  | QPower => print_active_power v p
  | _ => print_real v (unit_of q) p
  end.
(* ComplexNetworkDiagramSolution *)
Definition complex_ann (O : polar_oracle) (q : quantity) (reverse : bool) (z : cval) (p : Z) (polar deg : bool) : label :=
  print_complex O (sgnC (eff_reverse q reverse) z) (unit_of q) p polar deg.
(* TimeDomainSteadyStateDiagramSolution (its solution object is built with peak_values=True by the factory) *)
Definition sin_ann (O : sin_oracle) (q : quantity) (reverse : bool) (z : cval) (p : Z) (w : Q) (sin deg hertz : bool) : label :=
  print_sinusoidal O (sgnC (eff_reverse q reverse) z) (unit_of q) p w sin deg hertz.

(* SchematicDiagramSolution.draw_voltage / draw_current: the `reverse` handed to the label symbol *)
Definition label_reverse (reverse element_is_reverse : bool) : bool :=
  if element_is_reverse then negb reverse else reverse.

(* ---------- one type for the adapters ---------- *)
Inductive adapter :=
| AdEmpty                                              (* EmptyDiagramSolution *)
| AdReal (p : Z)                                       (* real_solution(schematic, precision) *)
| AdComplex (w : option Q) (p : Z) (polar deg : bool)  (* complex_solution (w = None) / single_frequency_complex_solution *)
| AdSin (w : Q) (p : Z) (sin deg hertz : bool).        (* single_frequency_time_domain_steady_state_solution *)

(* the quantity held by the solution object of the adapter, as seen by the text functions *)
Record reading := { rd_real : Q; rd_cplx : cval }.

Definition annotation (PO : polar_oracle) (SO : sin_oracle) (ad : adapter) (q : quantity) (reverse : bool) (v : reading) : label :=
  match ad with
  | AdEmpty => []
  | AdReal p => real_ann q reverse (rd_real v) p
  | AdComplex _ p polar deg => complex_ann PO q reverse (rd_cplx v) p polar deg
  | AdSin w p sin deg hertz => sin_ann SO q reverse (rd_cplx v) p w sin deg hertz
  end.

(* ---------- SimpleSimulation/schematic.py ---------- *)
Inductive sol_fn := SF_real | SF_complex | SF_single_frequency_complex | SF_empty.

(* solutions = {'dc': real_solution, 'real': real_solution, 'complex': complex_solution,
                'single_frequency_time_domain': single_frequency_complex_solution} *)
Definition solutions : list (label * sol_fn) :=
  [(lbl "dc", SF_real); (lbl "real", SF_real); (lbl "complex", SF_complex);
   (lbl "single_frequency_time_domain", SF_single_frequency_complex)].

(* signature(solution_fcn).parameters.keys() *)
Definition k_schematic : label := Eval compute in lbl "schematic".
Definition k_precision : label := Eval compute in lbl "precision".
Definition k_polar : label := Eval compute in lbl "polar".
Definition k_deg : label := Eval compute in lbl "deg".
Definition k_w : label := Eval compute in lbl "w".
Definition k_type : label := Eval compute in lbl "type".
Definition k_name : label := Eval compute in lbl "name".
Definition k_reverse : label := Eval compute in lbl "reverse".
Definition sol_signature (f : sol_fn) : list label :=
  match f with
  | SF_real => [k_schematic; k_precision]
  | SF_complex => [k_schematic; k_precision; k_polar; k_deg]
  | SF_single_frequency_complex => [k_schematic; k_w; k_precision; k_polar; k_deg]
  | SF_empty => [k_schematic]
  end.

(* values of a description (JSON scalars; anything else is outside the modelled domain) *)
Inductive dvalue := DInt (n : Z) | DNum (x : Q) | DBool (b : bool) | DStr (s : label) | DOther.
Definition ddict := list (label * dvalue).
Fixpoint dlook (d : ddict) (k : label) : option dvalue :=
  match d with [] => None | (k', v) :: r => if label_eqb k' k then Some v else dlook r k end.
Fixpoint tlook {A} (t : list (label * A)) (k : label) : option A :=
  match t with [] => None | (k', v) :: r => if label_eqb k' k then Some v else tlook r k end.

(* solution_type = data.get('type', 'unknown'); solutions.get(solution_type, ds.empty_solution) *)
Definition select_solution (data : ddict) : sol_fn :=
  match dlook data k_type with
  | Some (DStr s) => match tlook solutions s with Some f => f | None => SF_empty end
  | _ => SF_empty
  end.
(* {k: v for k, v in data.items() if k in feasible_solution_params} *)
Definition filter_params (f : sol_fn) (data : ddict) : ddict :=
  filter (fun kv => lmem (fst kv) (sol_signature f)) data.

Inductive derr := DE_TypeError     (* solution_fcn(schematic=schematic, **params) with a second 'schematic' *)
                | DE_Outside.      (* a parameter value the model does not represent (precision not an int, ...) *)
Inductive dres (A : Type) := DOk (a : A) | DErr (e : derr).
Arguments DOk {A}. Arguments DErr {A}.

Definition get_int (d : ddict) (k : label) (default : Z) : dres Z :=
  match dlook d k with None => DOk default | Some (DInt n) => DOk n | Some _ => DErr DE_Outside end.
Definition get_bool (d : ddict) (k : label) (default : bool) : dres bool :=
  match dlook d k with None => DOk default | Some (DBool b) => DOk b | Some _ => DErr DE_Outside end.
Definition get_num (d : ddict) (k : label) (default : Q) : dres Q :=
  match dlook d k with None => DOk default | Some (DNum x) => DOk x | Some (DInt n) => DOk (inject_Z n)
                     | Some _ => DErr DE_Outside end.
Definition dbind {A B} (r : dres A) (f : A -> dres B) : dres B := match r with DOk a => f a | DErr e => DErr e end.

(* the factory call with the filtered parameters (defaults of the signatures: precision=3, polar=False, deg=False, w=0) *)
Definition call_factory (f : sol_fn) (params : ddict) : dres adapter :=
  if match dlook params k_schematic with Some _ => true | None => false end then DErr DE_TypeError
  else match f with
  | SF_empty => DOk AdEmpty
  | SF_real => dbind (get_int params k_precision 3) (fun p => DOk (AdReal p))
  | SF_complex =>
      dbind (get_int params k_precision 3) (fun p => dbind (get_bool params k_polar false) (fun po =>
      dbind (get_bool params k_deg false) (fun dg => DOk (AdComplex None p po dg))))
  | SF_single_frequency_complex =>
      dbind (get_num params k_w 0) (fun w => dbind (get_int params k_precision 3) (fun p =>
      dbind (get_bool params k_polar false) (fun po => dbind (get_bool params k_deg false) (fun dg =>
      DOk (AdComplex (Some w) p po dg)))))
  end.
(* SolutionDefinition.diagram_solution_creator *)
Definition adapter_of_description (data : ddict) : dres adapter :=
  let f := select_solution data in call_factory f (filter_params f data).

(* one entry of solution['voltages'] / ['currents'] / ['powers']: draw_voltage( ** v) with reverse=False by default
   (potentials: draw_potential(name, loc), no reverse) *)
Definition entry_reverse (entry : ddict) : dres bool := get_bool entry k_reverse false.
Definition declarative_annotation (PO : polar_oracle) (SO : sin_oracle) (data : ddict) (q : quantity) (entry : ddict)
    (v : reading) : dres label :=
  dbind (adapter_of_description data) (fun ad => dbind (entry_reverse entry) (fun rev =>
  DOk (annotation PO SO ad q rev v))).
