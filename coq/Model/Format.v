(* Model/Format.v — exact, executable model of the number rendering pipeline of
     Utils.py      : FloatPrecision (.exponent .mantissa .is_zero .is_inf), Float3 (.exponent3 .mantissa3),
                     ScientificFloat.__str__ (exp_extension, exp_prefix), ScientificComplex.__str__
     Display.py    : the prefix tables handed to those classes by the print_* helpers.
   The model works on the exact rational value x = n/d of the binary64 input (every float is a rational),
   over Z / positive / Q only — no floats.  Where the code reads digits off str(float), the model reads the
   exact decimal digits of x; where the code rounds with np.round the model rounds half-to-even exactly.
   Texts are lists of Unicode code points (label = list N, as in Model/Network.v). *)
From Coq Require Import List Bool ZArith NArith QArith Qabs Lia.
From CC Require Import Model.Network.
Import ListNotations.
Open Scope Z_scope.

(* ---------- decimal digits ---------- *)
(* number of decimal digits of n (n >= 1; 1 for n <= 9): len(str(n)) *)
Fixpoint ndig_aux (fuel : nat) (n : Z) : Z :=
  match fuel with
  | O => 1
  | S f => if n <? 10 then 1 else 1 + ndig_aux f (n / 10)
  end.
Definition ndigits (n : Z) : Z := ndig_aux (S (Z.to_nat (Z.log2 n))) n.

(* code points of the decimal digits of n >= 0, most significant first: f'{n:d}' *)
Fixpoint digs (fuel : nat) (n : Z) : list N :=
  match fuel with
  | O => []
  | S f => (if n <? 10 then [] else digs f (n / 10)) ++ [Z.to_N (48 + n mod 10)]
  end.
Definition digits (n : Z) : list N := digs (S (Z.to_nat (Z.log2 n))) n.
(* f'{n:d}' for any integer *)
Definition zstr (n : Z) : list N := if n <? 0 then 45%N :: digits (- n) else digits n.
(* f'{n:0{w}d}' for n >= 0 *)
Definition pad0 (w : Z) (l : list N) : list N := repeat 48%N (Z.to_nat (w - Z.of_nat (length l))) ++ l.

(* ---------- rounding: np.round = round half to even, of the rational n/d (d > 0) ---------- *)
Definition rhe (n d : Z) : Z :=
  let q := n / d in
  let r := n mod d in
  match 2 * r ?= d with
  | Lt => q
  | Gt => q + 1
  | Eq => if Z.even q then q else q + 1
  end.

(* ---------- FloatPrecision ---------- *)
(* number of zeros directly after the decimal point of a/b, 0 < a < b:
   len(post_decimal) - len(post_decimal.lstrip('0')) *)
Definition zeros (a b : Z) : Z := ndigits ((b - 1) / a) - 1.

(* FloatPrecision.exponent on |x| = a/b *)
Definition exponent_ab (a b p : Z) : Z :=
  if a =? 0 then 0                                   (* '0.0': pre '0', rounded 0.0 -> post '0' -> 0 *)
  else if b <=? a then ndigits (a / b) - p            (* pre_decimal <> '0': len(pre_decimal) - precision *)
  else
    let exp0 := zeros a b in
    let D := 10 ^ (exp0 + p) in
    let R := rhe (a * D) b in                         (* rounded_value = R / D *)
    let F := R mod D in                               (* its part after the decimal point *)
    if F =? 0 then 0                                  (* rounded_post_decimal == '0' *)
    else - (zeros F D + p).

Definition exponent (x : Q) (p : Z) : Z := exponent_ab (Z.abs (Qnum x)) (Zpos (Qden x)) p.

(* FloatPrecision.mantissa = int(np.round(value / 10**exponent)) *)
Definition mantissa_e (x : Q) (e : Z) : Z :=
  if e <? 0 then rhe (Qnum x * 10 ^ (- e)) (Zpos (Qden x)) else rhe (Qnum x) (Zpos (Qden x) * 10 ^ e).
Definition mantissa (x : Q) (p : Z) : Z := mantissa_e x (exponent x p).

Definition is_zero (x : Q) (p min_exp : Z) : bool := (Qnum x =? 0) || (exponent x p <? min_exp).
Definition is_inf (x : Q) (p max_exp : Z) : bool := exponent x p >? max_exp.

(* ---------- Float3 ---------- *)
Definition exponent3 (e p : Z) : Z := 3 * ((p + e - 1) / 3).
(* mantissa3 = mantissa * 10**(exponent - exponent3), as a fraction num/den *)
Definition m3num (m e p : Z) : Z := let k := e - exponent3 e p in if k >=? 0 then m * 10 ^ k else m.
Definition m3den (e p : Z) : Z := let k := e - exponent3 e p in if k >=? 0 then 1 else 10 ^ (- k).

(* ---------- prefix tables: Python dict[int, str] as an association list ---------- *)
Definition table := list (Z * label).
Definition tkeys (t : table) : list Z := map fst t.
Definition lmax (l : list Z) : Z := match l with [] => 0 | a :: r => fold_right Z.max a r end.
Definition lmin (l : list Z) : Z := match l with [] => 0 | a :: r => fold_right Z.min a r end.
Fixpoint tlookup (t : table) (k : Z) : option label :=
  match t with [] => None | (k', l) :: r => if k' =? k then Some l else tlookup r k end.
Definition tget (t : table) (k : Z) : label := match tlookup t k with Some l => l | None => [] end.
Definition tmem (t : table) (k : Z) : bool := match tlookup t k with Some _ => true | None => false end.

(* ScientificFloat.value3: min_exp / max_exp handed to Float3 *)
Definition max_exp (up : bool) (t : table) : Z := if up then lmax (tkeys t) else 16.
Definition min_exp (up : bool) (t : table) : Z := if up then lmin (tkeys t) else -16.

Definition exp_prefix (up : bool) (t : table) (e3 : Z) : label :=
  if negb up then []
  else if e3 >? lmax (tkeys t) then tget t (lmax (tkeys t))
  else if e3 <? lmin (tkeys t) then tget t (lmin (tkeys t))
  else tget t e3.

Definition rebase_exp (up : bool) (t : table) (e3 : Z) : Z :=
  if negb up then e3
  else if tmem t e3 then 0
  else if e3 >? lmax (tkeys t) then e3 - lmax (tkeys t)
  else if e3 <? lmin (tkeys t) then e3 - lmin (tkeys t)
  else 0.
Definition exp_extension (up : bool) (t : table) (e3 : Z) : label :=
  let r := rebase_exp up t e3 in if r =? 0 then [] else 101%N :: zstr r.

(* ---------- ScientificFloat.__str__ from (mantissa, exponent) ---------- *)
Definition INF : N := 8734%N.     (* '∞' *)
Definition number_text (m e p : Z) : label :=
  let num := m3num m e p in
  let den := m3den e p in
  let an := Z.abs num in
  let prepos := if an <? den then 0 else ndigits (an / den) in      (* pre_decimal_positions *)
  let postpos := Z.max (p - prepos) 0 in                             (* post_decimal_positions *)
  let pre := Z.quot num den in                                       (* int(mantissa3): truncation *)
  let post := rhe ((an mod den) * 10 ^ postpos) den in               (* int(np.round(|m3| % 1 * 10**postpos)) *)
  zstr pre ++ (if postpos =? 0 then [] else 46%N :: pad0 postpos (digits post)).

Definition float_text (m e p : Z) (up : bool) (t : table) (un : label) : label :=
  if e >? max_exp up t then (if m >=? 0 then [INF] else [45%N; INF])
  else
    let e3 := exponent3 e p in
    number_text m e p ++ exp_extension up t e3 ++ exp_prefix up t e3 ++ un.

(* str(ScientificFloat(x, unit, p, up, t)) *)
Definition sci_text (x : Q) (p : Z) (up : bool) (t : table) (un : label) : label :=
  float_text (mantissa x p) (exponent x p) p up t un.

(* ---------- ScientificComplex.__str__ ---------- *)
Definition real_sign (re : Q) (compact : bool) : label :=
  if Qnum re >=? 0 then [] else if compact then [45%N] else [45%N; 32%N].
Definition imag_sign (im : Q) (compact : bool) : label :=
  if Qnum im >=? 0 then (if compact then [43%N] else [32%N; 43%N; 32%N])
  else (if compact then [45%N] else [32%N; 45%N; 32%N]).
Definition LJ : N := 106%N.       (* 'j' *)

Definition complex_text (re im : Q) (p : Z) (up : bool) (t : table) (un : label) (compact : bool) : label :=
  let tre := sci_text (Qabs re) p up t un in
  let tim := sci_text (Qabs im) p up t un in
  if is_zero (Qabs im) p (min_exp up t) then real_sign re compact ++ tre
  else if is_zero (Qabs re) p (min_exp up t) then
    (if Qnum im <? 0 then imag_sign im compact ++ LJ :: tim else LJ :: tim)
  else real_sign re compact ++ tre ++ imag_sign im compact ++ LJ :: tim.

(* polar form: |value| is rendered by sci_text; the angle needs np.angle (transcendental), so its rendered
   text f'{angle:.2f}' / f'{angle:.4f}' and the outcome of the test log10|angle| <= -2 / -5 are inputs *)
Definition polar_text (absv : Q) (p : Z) (up : bool) (t : table) (un : label)
    (angle_small deg : bool) (angle_text : label) : label :=
  let ta := sci_text absv p up t un in
  if angle_small then ta
  else ta ++ 8736%N :: angle_text ++ (if deg then [176%N] else []).

(* ---------- the prefix tables used by Display.py (and the default of Utils.py) ---------- *)
Definition tab_default : table :=            (* Utils.ScientificFloat default *)
  [(-12, [112%N]); (-9, [110%N]); (-6, [117%N]); (-3, [109%N]); (-1, [99%N]);
   (3, [107%N]); (6, [77%N]); (9, [71%N]); (12, [84%N])].
Definition tab_umk : table := [(-6, [117%N]); (-3, [109%N]); (3, [107%N])].           (* print_complex/abs/real/sinosoidal *)
Definition tab_hz : table := [(-3, [109%N]); (3, [107%N]); (6, [77%N]); (9, [71%N]); (12, [84%N])].
Definition tab_ohm : table := [(-3, [109%N]); (3, [107%N]); (6, [77%N]); (9, [71%N])].  (* resistance/conductance/impedance *)
Definition tab_cap : table := [(-12, [112%N]); (-9, [110%N]); (-6, [956%N]); (-3, [109%N])].
Definition tab_ind : table := [(-9, [110%N]); (-6, [956%N]); (-3, [109%N])].
Definition table_of_id (i : Z) : option table :=
  match i with
  | 1 => Some tab_default | 2 => Some tab_umk | 3 => Some tab_hz | 4 => Some tab_ohm
  | 5 => Some tab_cap | 6 => Some tab_ind | _ => None
  end.

(* ---------- near-tie variants, used only by the correspondence harness ----------
   The code takes the exponent from one float computation (np.round(|x|*10**exp0, p)) and the mantissa from another
   (np.round(x / 10**exponent)); when the exactly scaled value lies within a few ulp of a tie the two float roundings
   may fall on different sides.  [sci_text2 xe xm] takes the exponent from xe and the mantissa from xm;
   [sci_text2 x x = sci_text x]. *)
Definition sci_text2 (xe xm : Q) (p : Z) (up : bool) (t : table) (un : label) : label :=
  float_text (mantissa_e xm (exponent xe p)) (exponent xe p) p up t un.
Definition complex_text2 (re rem im imm : Q) (p : Z) (up : bool) (t : table) (un : label) (compact : bool) : label :=
  let tre := sci_text2 (Qabs re) (Qabs rem) p up t un in
  let tim := sci_text2 (Qabs im) (Qabs imm) p up t un in
  if is_zero (Qabs im) p (min_exp up t) then real_sign re compact ++ tre
  else if is_zero (Qabs re) p (min_exp up t) then
    (if Qnum im <? 0 then imag_sign im compact ++ LJ :: tim else LJ :: tim)
  else real_sign re compact ++ tre ++ imag_sign im compact ++ LJ :: tim.

(* ---------- runner entry (function id 18 of Model/Run.v) ----------
   tokens in : mode :: ...
     mode 0 : num den p use_prefix table unit            -> code points of str(ScientificFloat(x, unit, p, use_prefix, table))
     mode 1 : re_n re_d im_n im_d p use_prefix table compact unit
                                                         -> code points of str(ScientificComplex(..., polar=False))
     mode 2 : num den p                                  -> exponent, mantissa
     mode 3 : num den p use_prefix table unit angle_small deg angle_text
                                                         -> code points of the polar rendering
     mode 4 : xe_n xe_d xm_n xm_d p use_prefix table unit -> sci_text2 (near-tie variant)
     mode 5 : re rem im imm (8 tokens) p use_prefix table compact unit -> complex_text2 (near-tie variant)
   table : id (1..6 = the constants above), or 0 followed by a list of (key, label);
   unit, angle_text, labels : length-prefixed code points.  Malformed input: [-1]. *)
From CC Require Import Model.Codec.
Definition pQ : parser Q := let* n := pZ in let* d := pZ in pret (Qmake n (Z.to_pos d)).
Definition ptable : parser table :=
  let* i := pZ in
  if i =? 0 then plist (let* k := pZ in let* l := plabel in pret (k, l))
  else match table_of_id i with Some t => pret t | None => fun _ => None end.
Definition etext (l : label) : list Z := map Z.of_N l.

Definition run_format_p : parser (list Z) :=
  let* mode := pZ in
  match mode with
  | 0 => let* x := pQ in let* p := pZ in let* up := pbool in let* t := ptable in let* un := plabel in
         pret (etext (sci_text x p up t un))
  | 1 => let* re := pQ in let* im := pQ in let* p := pZ in let* up := pbool in let* t := ptable in
         let* compact := pbool in let* un := plabel in
         pret (etext (complex_text re im p up t un compact))
  | 2 => let* x := pQ in let* p := pZ in pret [exponent x p; mantissa x p]
  | 3 => let* x := pQ in let* p := pZ in let* up := pbool in let* t := ptable in let* un := plabel in
         let* small := pbool in let* deg := pbool in let* at_ := plabel in
         pret (etext (polar_text x p up t un small deg at_))
  | 4 => let* xe := pQ in let* xm := pQ in let* p := pZ in let* up := pbool in let* t := ptable in let* un := plabel in
         pret (etext (sci_text2 xe xm p up t un))
  | 5 => let* re := pQ in let* rem := pQ in let* im := pQ in let* imm := pQ in let* p := pZ in let* up := pbool in
         let* t := ptable in let* compact := pbool in let* un := plabel in
         pret (etext (complex_text2 re rem im imm p up t un compact))
  | _ => fun _ => None
  end.
Definition run_format (ts : list Z) : list Z :=
  match run_format_p ts with Some (r, []) => r | _ => [-1] end.
