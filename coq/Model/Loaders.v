(* Model/Loaders.v — executable model of the description loaders:
     Network/loaders.py       (to_complex, network_branch_translators, load_network),
     dump_load.py             (dictify_all_complex_values, undictify_complex_values, undictify_all_complex_values),
     Circuit/components.py    (the component constructors, as an INTERPRETER of Gen.Tables.component_ctors),
     Circuit/dump_load.py     (generate_component, undictify_circuit; Circuit.__post_init__ = Model.Circuit.ground_node).
   The loaders are interpreters of the tables regenerated from the Python source (Gen/Tables.v): a change of a table
   entry (e.g. kwargs['Y'] instead of kwargs.pop('Y')) changes what this file computes.

   Documents are JSON-like values [jval] over a real field R (numbers) and Cx R (Python complex); a Python dict is an
   association list in insertion order (lookup = first match, pop = delete every match).
   Transcendental functions are oracles: [cis x] = (np.cos x, np.sin x), [pi] = np.pi.

   Every loader is written in state-passing style: it returns its result AND the post-state of the object it was given
   ([..._st : jval -> res X * jval]); the writes of the Python code (dict.pop, d[k] = v) are performed on a local
   dictionary which is either a copy (`entry = dict(entry)`, flag [copies] = true: the code of today) or the caller's
   object itself ([copies] = false: load_network before fix 6828b52).

   Modelled domain.  Python stores any object as an element value / identifier; the model has numbers and labels only.
   Where the implementation would accept an object the model cannot represent (a string as a resistance, a number as
   an identifier, a complex phase, ...) the model answers [Err EOther] — "outside the modelled domain" —; these cases
   are listed at the definitions ([EOther] is never the model of a Python exception here). *)
From Coq Require Import List Bool NArith ZArith Arith String.
From CC Require Import Theory.Field Theory.Complex Model.Network Gen.Tables Model.Circuit.
Import ListNotations.

(* ---------- string constants (precomputed code-point lists) ---------- *)
Definition s_real : label := Eval compute in lbl "real".
Definition s_imag : label := Eval compute in lbl "imag".
Definition s_abs : label := Eval compute in lbl "abs".
Definition s_phase : label := Eval compute in lbl "phase".
Definition s_phase_deg : label := Eval compute in lbl "phase_deg".
Definition s_N1 : label := Eval compute in lbl "N1".
Definition s_N2 : label := Eval compute in lbl "N2".
Definition s_id : label := Eval compute in lbl "id".
Definition s_name : label := Eval compute in lbl "name".
Definition s_type : label := Eval compute in lbl "type".
Definition s_value : label := Eval compute in lbl "value".
Definition s_nodes : label := Eval compute in lbl "nodes".
Definition s_components : label := Eval compute in lbl "components".
Definition s_wavetype : label := Eval compute in lbl "wavetype".
Definition s_zero : label := Eval compute in lbl "0".
Definition s_Z : label := Eval compute in lbl "Z".
Definition s_Y : label := Eval compute in lbl "Y".
Definition s_R : label := Eval compute in lbl "R".
Definition s_G : label := Eval compute in lbl "G".
Definition s_V : label := Eval compute in lbl "V".
Definition s_I : label := Eval compute in lbl "I".
Definition c_impedance : label := Eval compute in lbl "impedance".
Definition c_admittance : label := Eval compute in lbl "admittance".
Definition c_resistor : label := Eval compute in lbl "resistor".
Definition c_conductor : label := Eval compute in lbl "conductor".
Definition c_voltage_source : label := Eval compute in lbl "voltage_source".
Definition c_current_source : label := Eval compute in lbl "current_source".
Definition c_open_circuit : label := Eval compute in lbl "open_circuit".
Definition c_short_circuit : label := Eval compute in lbl "short_circuit".

(* ---------- generic helpers ---------- *)
Section MapR.
Context {A B : Type} (f : A -> res B).
(* a list comprehension whose body may raise: left to right, the first exception wins *)
Fixpoint mapR (l : list A) : res (list B) :=
  match l with
  | [] => Ok []
  | a :: r => match f a with
              | Err e => Err e
              | Ok b => match mapR r with Ok bs => Ok (b :: bs) | Err e => Err e end
              end
  end.
End MapR.

Section Dict.
Context {A : Type}.
Definition dict := list (label * A).
Fixpoint dget (d : dict) (k : label) : option A :=
  match d with [] => None | (k', v) :: r => if label_eqb k' k then Some v else dget r k end.
Definition ddel (d : dict) (k : label) : dict := filter (fun kv => negb (label_eqb (fst kv) k)) d.
Definition dhas (d : dict) (k : label) : bool := match dget d k with Some _ => true | None => false end.
(* d[k] = v : an existing key keeps its position, a new key is appended *)
Fixpoint dset (d : dict) (k : label) (v : A) : dict :=
  match d with
  | [] => [(k, v)]
  | (k', v') :: r => if label_eqb k' k then (k', v) :: r else (k', v') :: dset r k v
  end.
Definition dkeys (d : dict) : list label := map fst d.
End Dict.
Arguments dict A : clear implicits.

Fixpoint has_dup (l : list label) : bool :=
  match l with [] => false | x :: r => lmem x r || has_dup r end.

(* sorted(list(d.keys())) == sorted([k1, k2])  for two different constants k1, k2 *)
Definition keys_are {A} (d : dict A) (k1 k2 : label) : bool :=
  match d with
  | [(a, _); (b, _)] => (label_eqb a k1 && label_eqb b k2) || (label_eqb a k2 && label_eqb b k1)
  | _ => false
  end.

Section Loaders.
Variable R : fops.
Variable leb : R -> R -> bool.        (* <= on the reals *)
Variable pi : R.                      (* np.pi *)
Variable cis : R -> R * R.            (* x |-> (np.cos x, np.sin x) *)
Notation C := (Cx R).
Notation "0" := (f0 R). Notation "1" := (f1 R).
Infix "+" := (fadd R). Infix "*" := (fmul R). Infix "-" := (fsub R). Notation "- x" := (fopp R x).
Infix "/" := (fdiv R).
Notation "'let*' x ':=' p 'in' q" := (bind p (fun x => q)) (at level 200, x pattern, p at level 100, q at level 200).

(* integer literals of the source (defaults, constants, 180) *)
Fixpoint posR (p : positive) : R :=
  match p with xH => 1 | xO q => (1 + 1) * posR q | xI q => 1 + (1 + 1) * posR q end.
Definition ofZ (z : Z) : R := match z with Z0 => 0 | Zpos p => posR p | Zneg p => - posR p end.
Definition ltb0 (x : R) : bool := negb (leb 0 x).          (* x < 0 *)

(* ---------- documents ---------- *)
Inductive jval :=
| JNull | JBool (b : bool) | JNum (q : R) | JStr (s : label) | JCplx (z : C)
| JList (l : list jval) | JDict (l : list (label * jval)).

Section JInd.
Variable P : jval -> Prop.
Hypothesis HNull : P JNull.
Hypothesis HBool : forall b, P (JBool b).
Hypothesis HNum : forall q, P (JNum q).
Hypothesis HStr : forall s, P (JStr s).
Hypothesis HCplx : forall z, P (JCplx z).
Hypothesis HList : forall l, Forall P l -> P (JList l).
Hypothesis HDict : forall l, Forall (fun kv => P (snd kv)) l -> P (JDict l).
Fixpoint jval_ind' (t : jval) : P t :=
  match t with
  | JNull => HNull | JBool b => HBool b | JNum q => HNum q | JStr s => HStr s | JCplx z => HCplx z
  | JList l => HList l ((fix go (l : list jval) : Forall P l :=
                           match l with [] => Forall_nil P | x :: r => Forall_cons x (jval_ind' x) (go r) end) l)
  | JDict l => HDict l ((fix go (l : list (label * jval)) : Forall (fun kv => P (snd kv)) l :=
                           match l with
                           | [] => Forall_nil _
                           | (k, v) :: r => Forall_cons (P := fun kv => P (snd kv)) (k, v) (jval_ind' v) (go r)
                           end) l)
  end.
End JInd.

Definition jdict := dict jval.

Definition feq2 (a b : C) : bool := feqb R (fst a) (fst b) && feqb R (snd a) (snd b).
Fixpoint jval_eqb (a b : jval) : bool :=
  match a, b with
  | JNull, JNull => true
  | JBool x, JBool y => Bool.eqb x y
  | JNum x, JNum y => feqb R x y
  | JStr x, JStr y => label_eqb x y
  | JCplx x, JCplx y => feq2 x y
  | JList l1, JList l2 =>
      (fix go (l1 l2 : list jval) : bool :=
         match l1, l2 with
         | [], [] => true
         | x :: r, y :: s => jval_eqb x y && go r s
         | _, _ => false
         end) l1 l2
  | JDict l1, JDict l2 =>
      (fix go (l1 l2 : list (label * jval)) : bool :=
         match l1, l2 with
         | [], [] => true
         | (k, x) :: r, (k', y) :: s => label_eqb k k' && jval_eqb x y && go r s
         | _, _ => false
         end) l1 l2
  | _, _ => false
  end.

(* Python numbers: bool and float are real, complex is complex *)
Inductive pynum := PReal (x : R) | PCplx (z : C).
Definition b2r (b : bool) : R := if b then 1 else 0.
Definition as_num (v : jval) : option pynum :=
  match v with JNum q => Some (PReal q) | JBool b => Some (PReal (b2r b)) | JCplx z => Some (PCplx z) | _ => None end.
Definition as_real (v : jval) : option R :=
  match v with JNum q => Some q | JBool b => Some (b2r b) | _ => None end.
Definition num_c (n : pynum) : C := match n with PReal x => (x, 0) | PCplx z => z end.
Definition cj : C := (0, 1).
(* complex(a, b) = a + b*1j ; for two reals exactly (a, b) *)
Definition py_complex (a b : pynum) : C :=
  match a, b with
  | PReal x, PReal y => (x, y)
  | _, _ => fadd C (num_c a) (fmul C cj (num_c b))
  end.
(* a * complex(c, s) *)
Definition scale (a : pynum) (cs : R * R) : C :=
  match a with PReal x => (x * fst cs, x * snd cs) | PCplx z => fmul C z (cs : C) end.
Definition deg2rad (x : R) : R := x * pi / ofZ 180.

(* ---------- Network/loaders.py : to_complex ----------
   try: complex(z['real'], z['imag'])            except (KeyError, TypeError): fall through
   try: phase = z['phase']*pi/180 if degree else z['phase']; z['abs']*complex(cos phase, sin phase)
                                                 except (KeyError, TypeError): raise FileFormatError
   A non-dictionary z makes z['real'] a TypeError, hence FileFormatError.
   Outside the domain (EOther): a complex phase (numpy computes a complex cosine), a list as phase in radians. *)
Definition cartesian_of (d : jdict) : option C :=
  match dget d s_real, dget d s_imag with
  | Some a, Some b => match as_num a, as_num b with Some x, Some y => Some (py_complex x y) | _, _ => None end
  | _, _ => None
  end.
Definition polar_of (degree : bool) (d : jdict) : res C :=
  match dget d s_phase with
  | None => Err EFileFormat
  | Some (JCplx _) => Err EOther
  | Some (JList _) => if degree then Err EFileFormat else Err EOther
  | Some p =>
      match as_real p with
      | None => Err EFileFormat
      | Some ph =>
          match dget d s_abs with
          | None => Err EFileFormat
          | Some a => match as_num a with
                      | None => Err EFileFormat
                      | Some n => Ok (scale n (cis (if degree then deg2rad ph else ph)))
                      end
          end
      end
  end.
Definition to_complex (degree : bool) (z : jval) : res C :=
  match z with
  | JDict d => match cartesian_of d with Some c => Ok c | None => polar_of degree d end
  | _ => Err EFileFormat
  end.
(* to_complex only reads its argument (since fix 10cfbc8; before it `z['phase'] *= pi/180` rewrote it) *)
Definition to_complex_st (degree : bool) (z : jval) : res C * jval := (to_complex degree z, z).

(* ---------- state-passing over a local dictionary ---------- *)
Definition st (X : Type) := jdict -> res X * jdict.
Definition sret {X} (x : X) : st X := fun d => (Ok x, d).
Definition sbind {X Y} (m : st X) (f : X -> st Y) : st Y :=
  fun d => match m d with (Ok x, d') => f x d' | (Err e, d') => (Err e, d') end.
(* d.pop(k) ; [e] is the error a missing key turns into *)
Definition spop (k : label) (e : err) : st jval :=
  fun d => match dget d k with Some v => (Ok v, ddel d k) | None => (Err e, d) end.
(* d[k] (read) *)
Definition sread (k : label) (e : err) : st jval :=
  fun d => match dget d k with Some v => (Ok v, d) | None => (Err e, d) end.
(* d[k] = v *)
Definition sset (k : label) (v : jval) : st unit := fun d => (Ok tt, dset d k v).
Definition sget : st jdict := fun d => (Ok d, d).
Definition slift {X} (r : res X) : st X := fun d => (r, d).
Notation "'do*' x ':=' p 'in' q" := (sbind p (fun x => q)) (at level 200, x pattern, p at level 100, q at level 200).

(* ---------- calling a Python function with keyword arguments ----------
   TypeError for: a keyword given twice, an unexpected keyword, a missing required parameter. *)
Definition check_keywords (params : list label) (kw : jdict) : res unit :=
  if has_dup (dkeys kw) then Err ETypeError
  else if forallb (fun k => lmem k params) (dkeys kw) then Ok tt else Err ETypeError.

(* ---------- Network/elements.py constructors, called by name with keyword arguments ----------
   the parameter lists come from Gen.Tables.element_ctors; the bodies are the constructors of Model/Network.v.
   Outside the domain (EOther): a non-numeric value, a non-string name, a constructor the loader table does not use
   (`load`). *)
Definition find_ector (c : label) : option (list (str * bool)) :=
  match find (fun e => label_eqb (fst (fst e)) c) element_ctors with Some e => Some (snd (fst e)) | None => None end.
Definition bind_element_args (params : list (str * bool)) (kw : jdict) : res unit :=
  let* _ := check_keywords (map fst params) kw in
  if forallb (fun p => snd p || dhas kw (fst p)) params then Ok tt else Err ETypeError.
Definition arg_c (kw : jdict) (p : label) (dflt : C) : res C :=
  match dget kw p with
  | Some v => match as_num v with Some n => Ok (num_c n) | None => Err EOther end
  | None => Ok dflt
  end.
Definition arg_name (kw : jdict) : res label :=
  match dget kw s_name with Some (JStr s) => Ok s | _ => Err EOther end.
Definition c0 : C := (0, 0).
Definition element_body (ctor : label) (kw : jdict) : res (elem C) :=
  let* n := arg_name kw in
  if label_eqb ctor c_impedance then let* z := arg_c kw s_Z c0 in Ok (impedance n z)
  else if label_eqb ctor c_admittance then let* y := arg_c kw s_Y c0 in Ok (admittance n y)
  else if label_eqb ctor c_resistor then let* r := arg_c kw s_R c0 in Ok (resistor n r)
  else if label_eqb ctor c_conductor then let* g := arg_c kw s_G c0 in Ok (conductor n g)
  else if label_eqb ctor c_voltage_source then
    let* v := arg_c kw s_V c0 in let* z := arg_c kw s_Z c0 in Ok (voltage_source n v z)      (* Z : complex = 0 *)
  else if label_eqb ctor c_current_source then
    let* i := arg_c kw s_I c0 in let* y := arg_c kw s_Y c0 in Ok (current_source n i y)      (* Y : complex = 0 *)
  else if label_eqb ctor c_open_circuit then Ok (open_circuit n)
  else if label_eqb ctor c_short_circuit then Ok (short_circuit n)
  else Err EOther.
Definition call_element_ctor (ctor : label) (kw : jdict) : res (elem C) :=
  match find_ector ctor with
  | None => Err EOther
  | Some params => let* _ := bind_element_args params kw in element_body ctor kw
  end.

(* ---------- Network/loaders.py : network_branch_translators, interpreted from Gen.Tables.network_loader_table ----------
   an entry (ctor, conv, rest) stands for   lambda **kwargs: elm.ctor(P=to_complex(kwargs.pop(K)), ..., **kwargs) :
   the converted arguments are evaluated left to right (kwargs.pop(K) / kwargs[K]: KeyError when absent), then the
   remaining kwargs are passed on ([rest]). *)
Fixpoint apply_conv (convs : list (str * str * bool * bool)) (kw acc : jdict) : res (jdict * jdict) :=
  match convs with
  | [] => Ok (rev acc, kw)
  | (p, k, popped, tc) :: r =>
      match dget kw k with
      | None => Err EKeyError
      | Some v =>
          let kw' := if popped then ddel kw k else kw in
          let* v' := (if tc then let* c := to_complex false v in Ok (JCplx c) else Ok v) in
          apply_conv r kw' ((p, v') :: acc)
      end
  end.
Definition call_translator (e : lentry) (kw : jdict) : res (elem C) :=
  let* ck := apply_conv (l_conv e) kw [] in
  call_element_ctor (l_ctor e) (fst ck ++ (if l_rest e then snd ck else [])).
Definition find_lentry (t : label) : option lentry := find (fun e => label_eqb (l_type e) t) network_loader_table.
(* network_branch_translators[t] : KeyError for an unknown key, TypeError for an unhashable one *)
Definition lookup_translator (t : jval) : res lentry :=
  match t with
  | JStr s => match find_lentry s with Some e => Ok e | None => Err EKeyError end
  | JList _ | JDict _ => Err ETypeError
  | _ => Err EKeyError
  end.
Definition as_label (v : jval) : res label := match v with JStr s => Ok s | _ => Err EOther end.

(* entry_to_branch, after `entry = dict(entry)`, on the local dictionary.
   Outside the domain (EOther): N1 / N2 / id that are not strings. *)
Definition entry_to_branch_local : st (branch C) :=
  do* n1 := spop s_N1 EKeyError in
  do* n2 := spop s_N2 EKeyError in
  do* idv := spop s_id EKeyError in
  do* _ := sset s_name idv in
  do* ty := spop s_type EKeyError in
  do* kw := sget in
  slift (let* e := lookup_translator ty in
         let* x := call_translator e kw in
         let* a := as_label n1 in let* b := as_label n2 in
         Ok (Build_branch a b x)).

(* Outside the domain (EOther): an entry that is a string or a list (dict(entry) iterates it); numbers, None:
   dict(x) is a TypeError *)
Definition entry_to_branch_st (copies : bool) (entry : jval) : res (branch C) * jval :=
  match entry with
  | JDict d => let '(r, d') := entry_to_branch_local d in (r, JDict (if copies then d else d'))
  | JStr _ | JList _ => (Err EOther, entry)
  | _ => (Err ETypeError, entry)
  end.
(* [entry_to_branch(entry) for entry in network_dict] : stops at the first exception *)
Fixpoint entries_st (copies : bool) (l : list jval) : res (list (branch C)) * list jval :=
  match l with
  | [] => (Ok [], [])
  | e :: r =>
      match entry_to_branch_st copies e with
      | (Err x, e') => (Err x, e' :: r)
      | (Ok b, e') =>
          let '(rr, r') := entries_st copies r in
          (match rr with Ok bs => Ok (b :: bs) | Err x => Err x end, e' :: r')
      end
  end.
(* `except KeyError: raise FileExistsError` *)
Definition keyerror_to_fileexists {X} (r : res X) : res X :=
  match r with Err EKeyError => Err EFileExists | _ => r end.
(* Outside the domain (EOther): a description that is not a list *)
Definition load_network_gen (copies : bool) (desc : jval) : res (network C) * jval :=
  match desc with
  | JList l =>
      let '(r, l') := entries_st copies l in
      (keyerror_to_fileexists (let* bs := r in validate {| branches := bs; zero := s_zero |}), JList l')
  | _ => (Err EOther, desc)
  end.
Definition load_network_st : jval -> res (network C) * jval := load_network_gen true.
Definition load_network (desc : jval) : res (network C) := fst (load_network_st desc).
(* the loader before fix 6828b52 (no `entry = dict(entry)`) *)
Definition load_network_prefix_st : jval -> res (network C) * jval := load_network_gen false.

(* ---------- dump_load.py ---------- *)
Fixpoint dictify_all (t : jval) : jval :=
  match t with
  | JCplx z => JDict [(s_real, JNum (fst z)); (s_imag, JNum (snd z))]
  | JList l => JList (map dictify_all l)
  | JDict l => JDict (map (fun kv => let '(k, v) := kv in (k, dictify_all v)) l)
  | _ => t
  end.
Definition dictify_all_st (t : jval) : jval * jval := (dictify_all t, t).

(* one value of undictify_complex_values: the three `if isinstance(value, dict) and sorted(keys) == ...`.
   value['abs'] < 0 is a TypeError for anything but a real number; np.cos of a string / None / dict is a TypeError.
   Outside the domain (EOther): complex or list phase. *)
Definition polar_value (a p : jval) (deg : bool) : res jval :=
  match as_real a with
  | None => Err ETypeError
  | Some r =>
      if ltb0 r then Err EValue
      else match p with
           | JCplx _ | JList _ => Err EOther
           | _ => match as_real p with
                  | None => Err ETypeError
                  | Some ph => Ok (JCplx (scale (PReal r) (cis (if deg then deg2rad ph else ph))))
                  end
           end
  end.
Definition undict1 (v : jval) : res jval :=
  match v with
  | JDict d =>
      if keys_are d s_real s_imag then
        match dget d s_real, dget d s_imag with
        | Some a, Some b => match as_num a, as_num b with
                            | Some x, Some y => Ok (JCplx (py_complex x y))
                            | _, _ => Err ETypeError
                            end
        | _, _ => Err EOther
        end
      else if keys_are d s_abs s_phase then
        match dget d s_abs, dget d s_phase with Some a, Some p => polar_value a p false | _, _ => Err EOther end
      else if keys_are d s_abs s_phase_deg then
        match dget d s_abs, dget d s_phase_deg with Some a, Some p => polar_value a p true | _, _ => Err EOther end
      else Ok v
  | _ => Ok v
  end.
(* undictify_complex_values(data): rewrites the values of [data] in place, in item order; returns data.
   (result, post-state of the argument): on an exception the values before the offending one are already replaced. *)
Fixpoint undictify_values_st (d : jdict) : res jdict * jdict :=
  match d with
  | [] => (Ok [], [])
  | (k, v) :: r =>
      match undict1 v with
      | Err e => (Err e, d)
      | Ok v' => let '(rr, r') := undictify_values_st r in
                 (match rr with Ok x => Ok ((k, v') :: x) | Err e => Err e end, (k, v') :: r')
      end
  end.
Definition undictify_values (d : jdict) : res jdict := fst (undictify_values_st d).
(* the inner `convert` of undictify_all_complex_values *)
Fixpoint undict_conv (t : jval) : res jval :=
  match t with
  | JDict l =>
      let* l' := mapR (fun kv => let '(k, v) := kv in let* v' := undict_conv v in Ok (k, v')) l in
      undict1 (JDict l')
  | JList l => let* l' := mapR undict_conv l in Ok (JList l')
  | _ => Ok t
  end.
(* undictify_all_complex_values(data) = undictify_complex_values({k: convert(v) for k, v in data.items()});
   anything but a dictionary has no .items(): AttributeError *)
Definition undictify_all (t : jval) : res jval :=
  match t with
  | JDict l =>
      let* l' := mapR (fun kv => let '(k, v) := kv in let* v' := undict_conv v in Ok (k, v')) l in
      let* l'' := undictify_values l' in Ok (JDict l'')
  | _ => Err EAttribute
  end.
Definition undictify_all_st (t : jval) : res jval * jval := (undictify_all t, t).

(* ---------- Circuit/components.py : the constructors, interpreted from Gen.Tables.component_ctors ---------- *)
Record lcomp := { lc_type : label; lc_id : label; lc_nodes : list label; lc_value : jdict }.

Definition default_value (d : pdefault) : option jval :=
  match d with
  | NoDefault => None
  | DefZ z => Some (JNum (ofZ z))
  | DefStr s => Some (JStr s)
  | DefNodes l => Some (JList (map JStr l))
  end.
(* the environment parameter -> value of a call f( **kw) *)
Fixpoint bind_defaults (params : list (str * pdefault)) (kw : jdict) : res jdict :=
  match params with
  | [] => Ok []
  | (p, d) :: r =>
      let* v := match dget kw p with
                | Some v => Ok v
                | None => match default_value d with Some v => Ok v | None => Err ETypeError end
                end in
      let* env := bind_defaults r kw in Ok ((p, v) :: env)
  end.
Definition bind_params (params : list (str * pdefault)) (kw : jdict) : res jdict :=
  let* _ := check_keywords (map fst params) kw in bind_defaults params kw.
(* periodic_function(wavetype): any value that is not one of the known names -> UnknownWavetype *)
Definition check_wavetype (env : jdict) : res unit :=
  match dget env s_wavetype with
  | Some (JStr w) => if lmem w wavetypes then Ok tt else Err EUnknownWavetype
  | Some _ => Err EUnknownWavetype
  | None => Err EOther
  end.
(* `if p < 0: raise ValueError` in source order; `<` between a non-real and 0 is a TypeError *)
Fixpoint check_guards (gs : list str) (env : jdict) : res unit :=
  match gs with
  | [] => Ok tt
  | g :: r =>
      match dget env g with
      | None => Err EOther
      | Some v => match as_real v with
                  | None => Err ETypeError
                  | Some x => if ltb0 x then Err EValue else check_guards r env
                  end
      end
  end.
(* p.real / p.imag : AttributeError on strings, None, lists, dicts *)
Definition eval_vexpr (env : jdict) (e : vexpr) : res jval :=
  match e with
  | VConstZ z => Ok (JNum (ofZ z))
  | VParam p => match dget env p with Some v => Ok v | None => Err EOther end
  | VReal p => match dget env p with
               | Some (JNum q) => Ok (JNum q) | Some (JBool b) => Ok (JNum (b2r b)) | Some (JCplx z) => Ok (JNum (fst z))
               | Some _ => Err EAttribute | None => Err EOther
               end
  | VImag p => match dget env p with
               | Some (JNum _) => Ok (JNum 0) | Some (JBool _) => Ok (JNum 0) | Some (JCplx z) => Ok (JNum (snd z))
               | Some _ => Err EAttribute | None => Err EOther
               end
  end.
Definition as_labels (v : jval) : res (list label) :=
  match v with JList l => mapR as_label l | _ => Err EOther end.
(* the waveform lookup precedes the guards in both periodic constructors (the table does not record its position).
   Outside the domain (EOther): an id that is not a string, nodes that are not a list of strings. *)
Definition run_ctor (c : ctor) (kw : jdict) : res lcomp :=
  let* env := bind_params (c_params c) kw in
  let* _ := (if c_checks_wavetype c then check_wavetype env else Ok tt) in
  let* _ := check_guards (c_guards c) env in
  let* vals := mapR (fun kv : str * vexpr => let* v := eval_vexpr env (snd kv) in Ok (fst kv, v)) (c_values c) in
  let* idv := match dget env s_id with Some v => as_label v | None => Err EOther end in
  let* nodes := match dget env s_nodes with Some v => as_labels v | None => Err EOther end in
  Ok {| lc_type := c_type c; lc_id := idv; lc_nodes := nodes; lc_value := vals |}.
Definition find_ctor_fun (f : label) : option ctor := find (fun c => label_eqb (c_fun c) f) component_ctors.
(* components.<f>( **kw) *)
Definition construct (f : label) (kw : jdict) : res lcomp :=
  match find_ctor_fun f with Some c => run_ctor c kw | None => Err EOther end.

(* ---------- Circuit/dump_load.py ---------- *)
Fixpoint tfind (k : label) (t : list (str * str)) : option str :=
  match t with [] => None | (k', x) :: r => if label_eqb k' k then Some x else tfind k r end.
(* circuit_component_translators[component_type] *)
Definition lookup_component_factory (t : jval) : res label :=
  match t with
  | JStr s => match tfind s circuit_loader_table with Some f => Ok f | None => Err EUnknownComponent end
  | JList _ | JDict _ => Err ETypeError
  | _ => Err EUnknownComponent
  end.
(* `except TypeError: raise IncorrectComponentInformation` around the constructor call *)
Definition typeerror_to_incorrect {X} (r : res X) : res X :=
  match r with Err ETypeError => Err EIncorrectInfo | _ => r end.
Definition generate_component_local : st lcomp :=
  do* idv := sread s_id EUnidentified in
  do* val := spop s_value EIncorrectInfo in
  do* ty := spop s_type EIncorrectInfo in
  do* nodes := sread s_nodes EIncorrectInfo in
  slift (let* f := lookup_component_factory ty in
         typeerror_to_incorrect
           match val with
           | JDict vd => construct f ((s_id, idv) :: (s_nodes, nodes) :: vd)
           | _ => Err ETypeError           (* argument after ** must be a mapping *)
           end).
(* `component = component.copy()` : the pops act on the copy.  Outside the domain (EOther): a non-dictionary *)
Definition generate_component_st (d : jval) : res lcomp * jval :=
  match d with
  | JDict l => (fst (generate_component_local l), d)
  | _ => (Err EOther, d)
  end.
Definition generate_component (d : jval) : res lcomp := fst (generate_component_st d).

(* the Circuit-layer view of a loaded component (oracle fields left empty: Circuit.__post_init__ reads type, id, nodes) *)
Definition kind_of_type (t : label) : option ckind := find (fun k => label_eqb (kind_name k) t) all_kinds.
Fixpoint numeric_values (d : jdict) : list (label * R) :=
  match d with
  | [] => []
  | (k, v) :: r => match as_real v with Some x => (k, x) :: numeric_values r | None => numeric_values r end
  end.
Definition to_comp (c : lcomp) : res (comp R) :=
  match kind_of_type (lc_type c) with
  | None => Err EOther
  | Some k => Ok (Build_comp k (lc_id c) (lc_nodes c) (numeric_values (lc_value c))
                    (match dget (lc_value c) s_wavetype with Some (JStr w) => w | _ => [] end) (1, 0) [])
  end.
(* undictify_circuit(circuit) = Circuit([generate_component(e) for e in circuit['components']]).
   Outside the domain (EOther): `components` that is not a list *)
Definition undictify_circuit (d : jval) : res (list lcomp * label) :=
  match d with
  | JDict l =>
      match dget l s_components with
      | None => Err EKeyError
      | Some (JList es) =>
          let* cs := mapR generate_component es in
          let* ccs := mapR to_comp cs in
          let* g := ground_node R ccs in Ok (cs, g)
      | Some _ => Err EOther
      end
  | _ => Err EOther
  end.
Definition undictify_circuit_st (d : jval) : res (list lcomp * label) * jval := (undictify_circuit d, d).

End Loaders.

Arguments JNull {R}. Arguments JBool {R}. Arguments JNum {R}. Arguments JStr {R}. Arguments JCplx {R}.
Arguments JList {R}. Arguments JDict {R}.
Arguments lc_type {R}. Arguments lc_id {R}. Arguments lc_nodes {R}. Arguments lc_value {R}. Arguments Build_lcomp {R}.
