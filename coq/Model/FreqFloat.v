(* Model/FreqFloat.v — the GENERIC model function [frequency_components] of Model/Circuit.v instantiated at IEEE binary64
   (Coq's primitive floats): np.floor, float *, float /, ==, <= exactly as circuit.py computes them.  Evaluated by the
   harness with vm_compute on the same (components, w_max) and compared BIT FOR BIT with the implementation's list. *)
From Coq Require Import List ZArith String PrimFloat Uint63 FloatOps SpecFloat.
From CC Require Import Theory.Field Model.Network Model.Circuit.
Import ListNotations.

Definition Fl : fops :=
  {| car := float; f0 := 0%float; f1 := 1%float; fadd := PrimFloat.add; fmul := PrimFloat.mul; fsub := PrimFloat.sub;
     fopp := PrimFloat.opp; fdiv := PrimFloat.div; finv := fun x => PrimFloat.div 1%float x;
     feqb := PrimFloat.eqb; fconj := fun x => x |}.

(* np.floor of a finite float as an integer (non-finite: -1, which makes the arange empty; the harness excludes such cases) *)
Definition floorZ (x : float) : Z :=
  match Prim2SF x with
  | S754_zero _ => 0%Z
  | S754_finite s m e =>
      let v := (if (0 <=? e)%Z then Z.shiftl (Zpos m) e else Z.shiftr (Zpos m) (- e))%Z in
      if s then (if (0 <=? e)%Z then - v
                 else if Z.eqb (Z.land (Zpos m) (Z.ones (- e))) 0 then - v else - v - 1)%Z
      else v
  | _ => (-1)%Z
  end.
(* float(k) for the small non-negative integers np.arange produces *)
Definition ofZf (z : Z) : float := PrimFloat.of_uint63 (Uint63.of_Z z).

Definition mkc (periodic : bool) (w : option float) : comp Fl :=
  @Build_comp Fl (if periodic then KPerV else KAcV) [] []
              (match w with Some x => [(lbl "w"%string, x)] | None => [] end) [] (0%float, 0%float) [].

Definition freq_float (cs : list (bool * option float)) (wmax : float) : list float :=
  match frequency_components Fl PrimFloat.leb ofZf floorZ (map (fun c => mkc (fst c) (snd c)) cs) wmax with
  | Ok l => l
  | Err _ => [neg_infinity]
  end.
