(* Model/DrawingPrims.v — the vocabulary Gen/DrawingGen.v is written in (hand-written; definitions only).
   tools/gen_drawing.py translates SimpleCircuit/DiagramParser.py, DiagramTranslator.py and CircuitComponentTranslators.py
   (with the facts of SimpleCircuit/Elements.py they rely on) into Gallina definitions over these primitives and those of
   Model/Drawing.v.  Each primitive is the meaning given to ONE Python construct:

     a set of Points                      duplicate-free [list point] (first insertion first)
     set([x]) / {f(e) for e in L}         set_of_list [x] / set_of_list (map f L)
     A.union(B)                           set_union A B          (B's members appended in B's order when new)
     A.intersection(B)                    set_inter A B          (A's order)
     x in A, len(A), A.add(x)             set_mem x A, length A, set_add x A
     A.remove(x)                          set_remove x A         (KeyError when absent; [res] monad)
     A.pop()                              set_pop A              (KeyError when empty; the FIRST member — callers must show
                                                                  that the set has at most one member)
     for x in self.all_nodes              iterates [set_iter oa (g_all_nodes d)] = the order parameter oa
     for x in self.unique_nodes           iterates [set_iter ou ...] = ou;   list(self.unique_nodes) likewise
     for x in <other set>: S.remove(x)    iterates [set_iter_any s] = the model's list order (accepted only for this
                                          order-insensitive body)
     type(e)                              type_of e = s_class e;   type(e) is elm.C   ->  type_is e c_C   (exact class)
     isinstance(e, elm.C)                 isinstance e <the classes of the model that are subclasses of C, from Elements.py>
     try: _ = e.name / except AttributeError     has_attribute e <the classes that have the attribute, from Elements.py>
     elm.round_node(e.absanchors['start'])       rounded_anchor e A_start   (= s_start e: the model's points ARE the
                                                  rounded anchors);  'end' likewise
     elm.get_nodes(e)                     the static pair [rounded_anchor e a | a <- default n_labels of Elements.get_nodes]
     {}, D.update({k: v}), D[k]           [], kd_set D k v, kd_lookup D k (KeyError)
     {K: V for e in L}                    dict_comp_res L (fun e => K, V)   (key evaluated before value, later e wins, the key
                                                                             keeps its first position)
     D.keys(), D.values(), len(D)         dict_keys D, dict_values D, length D
     str(n)                               py_str n = Drawing.dec n
     L[i] (L a list), T[i] (T a tuple parameter)     nth_res L i (IndexError)
     [x for x in L if x is not None]      filter_not_none L
     for x in L: <body>                   fold_left / for_res (when the body can raise) over the tuple of the variables the
                                          body rebinds
     while C: <body>                      while_loop fuel C body state — only two shapes are accepted, each with its bound:
                                            `while len(S) > old: old = len(S); for x in L: ...`   fuel = loop_bound L = #L + 2
                                            `while str(i) in D.values(): i += 1`                 fuel = #D + 1
                                          (Theory/DrawingGenThm.v: more fuel never changes the result)
     while True: <body>;                  do_until fuel body stop next state — one shape is accepted:
       if <stop>: return <e>                `while True: old = len(S); for .. in L: ..; if len(S) == old: return <e>`
                                          fuel = loop_bound L = #L + 2 (Theory/DrawingGenThm.v: more fuel never changes the
                                          result); <e> is evaluated over the locals bound after the last round
     for x in L: if c: return e           match find (fun x => c) L with Some x => e | None => <the statements after the
                                          loop> end     (c cannot raise and mutates nothing)
     hasattr(e, 'name')                   has_attribute e <the classes that have the attribute, from Elements.py>
     a if c else b                        if c then a else b; when a branch can raise or rebinds a local (S.pop()) the
                                          branches are computations returning the value together with the rebound locals
     D[k] = v                             kd_set D k v  (v is evaluated before k)
     k in D, k not in D                   pmem k (dict_keys D), negb ..
     [elm.get_nodes(e) for e in L]        map (fun e => (rounded_anchor e a1, rounded_anchor e a2)) L;  `for a, b in` such
                                          a list binds the components
     try: <r> except KeyError: raise E    except_KeyError <r> (Err E)
     element.A  (translator functions)    attr_value prov element "A": the constructor ARGUMENT the attribute was stored
                                          from (SArg), negated when the constructor stores `X if not reverse else -X` and the
                                          symbol is reversed; [prov] is read off Elements.py
     x.real, -x, x*y, x/y, pi, inf, 180, 1e-12       SRealPart, SNeg, SMul, SDiv, SPi, SInf, SNum "180", SNum "1e-12"
     a if c else b  (c not is_reverse)    SIf c a b with c = CTruth v | CEq v w   (is_reverse itself is the model field s_reverse);
     if c: return ccp.f(.., K=a) / return ccp.f(.., K=b)     the same, merged value by value
     ccp.f(id=.., nodes=.., K=v, ...)     mk_gcomponent "f" id nodes [("K", v); ...]  (keywords in source order) *)
From Coq Require Import String.
From Coq Require Import List Bool ZArith NArith Arith.
From CC Require Import Theory.Field Model.Network Model.Circuit Model.Drawing.
Import ListNotations.

Local Notation "'let*' x ':=' p 'in' q" := (bind p (fun x => q)) (at level 200, x pattern, p at level 100, q at level 200).

(* ------------------------------------------------------------------ sets of points *)
Definition set_of_list (l : list point) : list point := pnub l.
Definition set_mem (x : point) (s : list point) : bool := pmem x s.
Definition set_add (x : point) (s : list point) : list point := padd x s.
Definition set_union (a b : list point) : list point := fold_left (fun acc x => padd x acc) b a.
Definition set_inter (a b : list point) : list point := filter (fun x => pmem x b) a.
Definition set_remove (x : point) (s : list point) : res (list point) :=
  if pmem x s then Ok (filter (fun y => negb (pt_eqb y x)) s) else Err EKeyError.
Definition set_pop (s : list point) : res (point * list point) :=
  match s with [] => Err EKeyError | x :: r => Ok (x, r) end.
Definition set_iter (order s : list point) : list point := order.
Definition set_iter_any (s : list point) : list point := s.

(* ------------------------------------------------------------------ symbols *)
Inductive anchor := A_start | A_end.
Definition rounded_anchor (e : symbol) (a : anchor) : point :=
  match a with A_start => s_start e | A_end => s_end e end.
Definition drawing_elements (d : drawing) : list symbol := d.
Definition type_of (e : symbol) : N := s_class e.
Definition type_is (e : symbol) (c : N) : bool := N.eqb (s_class e) c.
Definition class_in (c : N) (cs : list N) : bool := existsb (N.eqb c) cs.
Definition isinstance (e : symbol) (subclasses : list N) : bool := class_in (s_class e) subclasses.
Definition has_attribute (e : symbol) (classes : list N) : bool := class_in (s_class e) classes.

(* ------------------------------------------------------------------ dictionaries keyed by points *)
Definition kdict (V : Type) := list (point * V).
Fixpoint kd_get {V} (m : kdict V) (k : point) : option V :=
  match m with [] => None | (k', v) :: r => if pt_eqb k' k then Some v else kd_get r k end.
Fixpoint kd_set {V} (m : kdict V) (k : point) (v : V) : kdict V :=
  match m with
  | [] => [(k, v)]
  | (k', v') :: r => if pt_eqb k' k then (k', v) :: r else (k', v') :: kd_set r k v
  end.
Definition kd_lookup {V} (m : kdict V) (k : point) : res V :=
  match kd_get m k with Some v => Ok v | None => Err EKeyError end.
Definition dict_keys {V} (m : kdict V) : list point := map fst m.
Definition dict_values {V} (m : kdict V) : list V := map snd m.

(* ------------------------------------------------------------------ loops and exceptions *)
Fixpoint for_res {A S} (l : list A) (s : S) (f : S -> A -> res S) : res S :=
  match l with [] => Ok s | x :: r => bind (f s x) (fun s' => for_res r s' f) end.
Fixpoint map_res {A B} (f : A -> res B) (l : list A) : res (list B) :=
  match l with
  | [] => Ok []
  | x :: r => bind (f x) (fun y => bind (map_res f r) (fun ys => Ok (y :: ys)))
  end.
Definition dict_comp_res {A V} (l : list A) (f : A -> res (point * V)) : res (kdict V) :=
  for_res l [] (fun m x => bind (f x) (fun kv => Ok (kd_set m (fst kv) (snd kv)))).
Fixpoint while_loop {S} (fuel : nat) (cond : S -> bool) (body : S -> S) (s : S) : S :=
  match fuel with O => s | Datatypes.S f => if cond s then while_loop f cond body (body s) else s end.
Definition loop_bound {A} (l : list A) : nat := S (S (length l)).
(* while True: <body>; if <stop>: return ..   the body runs, then the test decides between leaving and another round.
   [body] maps the loop-carried locals to ALL locals bound after the body (the test and the returned expression may read
   a local the body introduces), [next] projects them back to the loop-carried ones.  [fuel] bounds the number of
   FURTHER rounds. *)
Fixpoint do_until {S S'} (fuel : nat) (body : S -> S') (stop : S' -> bool) (next : S' -> S) (s : S) : S' :=
  match fuel with
  | O => body s
  | Datatypes.S f => let s' := body s in if stop s' then s' else do_until f body stop next (next s')
  end.
Definition nth_res {A} (l : list A) (i : nat) : res A :=
  match nth_error l i with Some x => Ok x | None => Err EIndex end.
Fixpoint filter_not_none {A} (l : list (option A)) : list A :=
  match l with [] => [] | Some x :: r => x :: filter_not_none r | None :: r => filter_not_none r end.
Definition except_KeyError {A} (r : res A) (handler : res A) : res A :=
  match r with Err EKeyError => handler | _ => r end.
Definition py_str (n : nat) : label := dec n.

(* ------------------------------------------------------------------ component translators *)
(* values handed to the components.py constructors, as expressions over the ARGUMENTS of the symbol's constructor *)
Inductive sval :=
| SArg (a : label)                     (* the argument `a` given to the symbol's constructor *)
| SAttr (a : label)                    (* element.a, an attribute whose store is not a plain copy of an argument *)
| SRealPart (v : sval) | SNeg (v : sval) | SMul (a b : sval) | SDiv (a b : sval)
| SPi | SInf | SNum (text : label) | SStr (s : label)
| SDot (v : sval) (a : label)          (* v.a *)
| SIf (c : scond) (t e : sval)         (* t if c else e, for a condition the model has no field for *)
with scond := CTruth (v : sval) | CEq (a b : sval).

(* how Elements.py stores a constructor argument behind a read-only property *)
Inductive prov :=
| PArg (a : label)                     (* self._x = a                          *)
| PNegIfReverse (a : label).           (* self._x = a if not reverse else -a   *)

Fixpoint prov_lookup (t : list (N * label * prov)) (c : N) (a : label) : option prov :=
  match t with
  | [] => None
  | (c', a', p) :: r => if N.eqb c' c && label_eqb a' a then Some p else prov_lookup r c a
  end.
Definition attr_value (t : list (N * label * prov)) (e : symbol) (a : label) : sval :=
  match prov_lookup t (s_class e) a with
  | Some (PArg x) => SArg x
  | Some (PNegIfReverse x) => if s_reverse e then SNeg (SArg x) else SArg x
  | None => SAttr a
  end.

Record gcomponent := {
  gc_ctor : label;                     (* the components.py constructor called *)
  gc_id : label; gc_nodes : list label;
  gc_values : list (label * sval)      (* the other keyword arguments, in source order *)
}.
Definition mk_gcomponent (ctor id : label) (nodes : list label) (values : list (label * sval)) : gcomponent :=
  {| gc_ctor := ctor; gc_id := id; gc_nodes := nodes; gc_values := values |}.
Definition mk_Circuit (l : list gcomponent) : list gcomponent := l.

Definition translator_fn (A : Type) := symbol -> list label -> res (option A).
Fixpoint table_get {A} (t : list (N * A)) (c : N) : option A :=
  match t with [] => None | (c', f) :: r => if N.eqb c' c then Some f else table_get r c end.
Definition table_lookup {A} (t : list (N * A)) (c : N) : res A :=
  match table_get t c with Some f => Ok f | None => Err EKeyError end.

(* ------------------------------------------------------------------ from a generated component to Model/Drawing.v's *)
(* the constructor name is the type string of the component it builds, for every constructor the drawing layer uses
   (Gen/Tables.v: c_fun = c_type; checked in Theory/DrawingGenThm.v) *)
Definition kind_of_ctor (f : label) : option ckind :=
  find (fun k => label_eqb (kind_name k) f) all_kinds.
(* number of sign flips between the constructor argument and the value *)
Fixpoint sneg (v : sval) : bool :=
  match v with SNeg x => negb (sneg x) | SRealPart x => sneg x | _ => false end.
Fixpoint vfind (k : label) (l : list (label * sval)) : option sval :=
  match l with [] => None | (k', v) :: r => if label_eqb k' k then Some v else vfind k r end.
(* the source value: keyword V, else keyword I *)
Definition main_value (l : list (label * sval)) : option sval :=
  match vfind (lbl "V") l with Some v => Some v | None => vfind (lbl "I") l end.
Definition erase (g : gcomponent) : option component :=
  match kind_of_ctor (gc_ctor g) with
  | None => None
  | Some k => Some {| c_kind := k; c_id := gc_id g; c_nodes := gc_nodes g;
                      c_neg := match main_value (gc_values g) with Some v => sneg v | None => false end |}
  end.
Definition mk_Network {B} (l : list B) (g : label) : list B * label := (l, g).
