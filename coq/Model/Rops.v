(* Model/Rops.v — the small record of "real number" operations over which the translated formulas of
   SignalProcessing/periodic_functions.py (Gen/Periodic.v) are generic.  Two instances are used:
   Coq's [R] (Theory/RopsR.v, for the proofs) and [Q] with a rational stand-in for pi
   (Model/RopsQ.v, for cross-evaluation against the Python methods). *)
From Coq Require Import ZArith.

Record rops := {
  RT : Type;
  radd : RT -> RT -> RT; rsub : RT -> RT -> RT; rmul : RT -> RT -> RT; rdiv : RT -> RT -> RT;
  ropp : RT -> RT;
  rofZ : Z -> RT;                (* int -> float coercion of Python's mixed arithmetic *)
  rpi : RT;                      (* np.pi *)
  rcos : RT -> RT; rsin : RT -> RT;   (* np.cos, np.sin *)
  rmod : RT -> RT -> RT;         (* Python float % / np.mod: result has the sign of the divisor *)
  rltb : RT -> RT -> bool        (* < on floats *)
}.
