(* Model/FormatPrims.v — HAND-WRITTEN vocabulary in which tools/gen_format.py writes Gen/FormatGen.v (the regenerated
   Utils.py: FloatPrecision, Float3, ScientificFloat, ScientificComplex).  Built on Model/Format.v (digits, rhe, tables)
   and Model/Annotation.v (cval, polar_oracle).  Theory/FormatGenThm.v proves the generated definitions equal to the
   hand model Model/Format.v (statements: Properties/C18c.v).

   A Python float is its exact rational value (every binary64 is a rational); an int that takes part in float arithmetic
   is injected.  THE IDENTIFICATION (the documented trusted base of C18, harness/c18.py TRUSTED): every float operation
   below is the exact operation on rationals, and the text of a float is its exact (possibly infinite) decimal expansion.

   Python construct                                   here                          exact meaning
   10**k  (k an int)                                  fpow10 k                      the rational 10^k (an int for k >= 0, the float 10**k for k < 0)
   x*y, x/y, x+y, x-y, -x on floats                   Qmult Qdiv Qplus Qminus Qopp  exact; an int operand is inject_Z
   abs(x), np.abs(x) of a float / int                 Qabs / Z.abs
   x < y, x <= y, x > y, x >= y, x == y on numbers    Z.ltb ... on ints; float_ltb float_leb float_eqb when a float takes part
   np.round(x)                                        np_round x : Z                round half to even of the exact x (rhe)
   np.round(x, decimals=d)                            np_round_decimals x d         np.round(x * 10**d) / 10**d (numpy's own definition), exact
   np.floor(x)                                        np_floor x : Z                floor of the exact x
   int(x) of a float                                  float_int x                   truncation towards zero
   x % 1 of a float                                   float_mod1 x                  x - floor(x), exact
   str(x) of a float, self._float_to_string(x)        float_str x : fstr            the decimal text of x: sign, digits of floor|x|, '.', the
                                                                                    (infinite) digit sequence of the fractional part.  str(float)
                                                                                    prints the shortest round-trip digits and switches to the
                                                                                    e-notation outside [1e-4, 1e16); _float_to_string undoes the
                                                                                    e-notation with a '.{n}f' format; both are READ AS the exact
                                                                                    expansion (FloatPrecision._float_to_string is pinned by shape).
   s.split('.')[0]  of such a text                    fs_pre s : label              '-'? digits of floor |x|      (a real, finite string)
   s.split('.')[-1] of such a text                    fs_post s : dstr              the digits after the point = the fractional part of |x|
   len(d) - len(d.lstrip('0'))  (d a dstr)            leading_zeros d               number of zeros directly after the point; 1 for '0' (x integral)
   d == '0'                                           dstr_is_zero d                the fractional part is 0 ('N.0')
   len(s) of a str                                    str_len s
   s == t on strs                                     label_eqb s t
   s.strip()                                          str_strip s                   white space (the code points of str.isspace) removed at both ends
   str(n), f'{n}', f'{n:d}' of an int                 zstr n  (Model/Format.v)
   f'{n:0{w}d}' of an int                             fmt_0wd w n                   zero padded to width w, sign first
   d.keys(), max(ks), min(ks), k in ks                tkeys d, keys_max ks, keys_min ks, keys_mem k ks
                                                                                    (max/min of an empty dict raise ValueError in the code; here 0, as
                                                                                    Format.lmax/lmin — the C18 theorems need table_ok t, which has t <> [])
   d[k], d.get(k, dflt)                               dict_getitem d k, dict_get d k dflt   (KeyError not modelled: '' )
   np.angle(z, deg=b), abs(z) of a complex            ao_angle AO z b, ao_abs AO z   oracles (transcendental)
   np.log10(x) <= k                                   ao_log10_le AO x k             oracle
   f'{x:.{n}f}' of the angle                          ao_fmt_f AO n x                oracle
   with np.errstate(divide='ignore'):                 nothing (silences the log10(0) warning only) *)
From Coq Require Import List Bool ZArith NArith QArith Qabs Qround Lia.
From CC Require Import Model.Network Model.Format Model.Annotation.
Import ListNotations.
Open Scope Z_scope.

(* ---------- numbers ---------- *)
Definition fpow10 (k : Z) : Q := if k <? 0 then 1 # Z.to_pos (10 ^ (- k)) else inject_Z (10 ^ k).
Definition float_ltb (x y : Q) : bool := Qnum x * QDen y <? Qnum y * QDen x.
Definition float_leb (x y : Q) : bool := Qnum x * QDen y <=? Qnum y * QDen x.
Definition float_eqb (x y : Q) : bool := Qnum x * QDen y =? Qnum y * QDen x.
Definition np_round (x : Q) : Z := rhe (Qnum x) (QDen x).
Definition np_round_decimals (x : Q) (d : Z) : Q := (inject_Z (np_round (x * fpow10 d)) / fpow10 d)%Q.
Definition np_floor (x : Q) : Z := Qfloor x.
Definition float_int (x : Q) : Z := Z.quot (Qnum x) (QDen x).
Definition float_mod1 (x : Q) : Q := (Qnum x mod QDen x) # Qden x.

(* ---------- the text of a float ---------- *)
Definition fstr := Q.                 (* the text of the float with this exact value *)
Definition dstr := Q.                 (* the digit sequence after the point of a text: the fractional part, in [0, 1) *)
Definition float_str (x : Q) : fstr := x.
Definition fs_pre (s : fstr) : label :=
  if Qnum s <? 0 then 45%N :: digits (Qfloor (Qabs s)) else digits (Qfloor s).
Definition fs_post (s : fstr) : dstr := float_mod1 (Qabs s).
Definition dstr_is_zero (d : dstr) : bool := Qnum d =? 0.
Definition leading_zeros (d : dstr) : Z := if Qnum d =? 0 then 1 else zeros (Qnum d) (QDen d).

(* ---------- strings ---------- *)
Definition str_len (s : label) : Z := Z.of_nat (length s).
Definition is_space (c : N) : bool :=           (* str.isspace of one character *)
  ((9 <=? c)%N && (c <=? 13)%N) || ((28 <=? c)%N && (c <=? 32)%N) || (c =? 133)%N || (c =? 160)%N || (c =? 5760)%N ||
  ((8192 <=? c)%N && (c <=? 8202)%N) || (c =? 8232)%N || (c =? 8233)%N || (c =? 8239)%N || (c =? 8287)%N || (c =? 12288)%N.
Fixpoint lstrip (s : label) : label := match s with c :: r => if is_space c then lstrip r else s | [] => [] end.
Definition str_strip (s : label) : label := rev (lstrip (rev (lstrip s))).
Definition fmt_0wd (w n : Z) : label :=
  if n <? 0 then 45%N :: pad0 (w - 1) (digits (- n)) else pad0 w (digits n).

(* ---------- dict[int, str] ---------- *)
Definition keys_max (l : list Z) : Z := lmax l.
Definition keys_min (l : list Z) : Z := lmin l.
Definition keys_mem (k : Z) (l : list Z) : bool := existsb (Z.eqb k) l.
Definition dict_getitem (t : table) (k : Z) : label := tget t k.
Definition dict_get (t : table) (k : Z) (dflt : label) : label :=
  match tlookup t k with Some l => l | None => dflt end.

(* ---------- the transcendental parts of the polar rendering ---------- *)
Record angle_oracle := {
  ao_abs : cval -> Q;                   (* abs(value) of a complex *)
  ao_angle : cval -> bool -> Q;         (* float(np.angle(value, deg=deg)) *)
  ao_log10_le : Q -> Z -> bool;         (* np.log10(x) <= k *)
  ao_fmt_f : Z -> Q -> label            (* f'{x:.{n}f}' *)
}.
(* the oracle of Model/Annotation.v (print_complex, C14) read off the finer one: thresholds -2 / -5 and 2 / 4 digits are
   those written in the comments of [polar_oracle] *)
Definition po_of (A : angle_oracle) : polar_oracle :=
  {| po_abs := ao_abs A;
     po_small := fun deg z => ao_log10_le A (Qabs (ao_angle A z deg)) (if deg then -2 else -5);
     po_text := fun deg z => ao_fmt_f A (if deg then 2 else 4) (ao_angle A z deg) |}.
