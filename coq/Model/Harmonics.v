(* Model/Harmonics.v — hand-written model of AbstractHarmonicCoefficients.{amplitude, phase, a, b, c}, fourier_series and
   periodic_function of SignalProcessing/periodic_functions.py.
   The translator (tools/gen_periodic.py) also TRANSLATES the five generic methods and periodic_function (Gen/Periodic.v:
   abstract_amplitude .. abstract_c, lookup_periodic_function); Theory/PeriodicGenThm.v / Properties/C08c.v prove them equal
   to the definitions below.  Only fourier_series (and the header, fields and abstract stubs of the class) are still pinned
   by their exact source text: the translator fails if that text changes.
   Generic in the record of real operations [O] and in the two coefficient functions.
   Complex numbers are pairs (re, im); np.exp(1j*x) = (cos x, sin x); -1j*x has imaginary part -x. *)
From Coq Require Import ZArith NArith List Bool.
From CC Require Import Model.Network Model.Rops Gen.Periodic.
Import ListNotations.

Inductive perr := EUnknownWavetype | ETransformationError.
Inductive pres (A : Type) := POk (a : A) | PErr (e : perr).
Arguments POk {A} a. Arguments PErr {A} e.

Section Harmonics.
Variable O : rops.

(* an instance of a subclass of AbstractHarmonicCoefficients: its two abstract methods (already applied to the
   dataclass fields amplitude0, phase0, offset0) *)
Record harmonics := { amp_coeff : Z -> RT O; ph_coeff : Z -> RT O }.

(* def amplitude(self, n): if n < 0: return self._amplitude_coefficient(-n); return self._amplitude_coefficient(n) *)
Definition amplitude (h : harmonics) (n : Z) : RT O :=
  if (n <? 0)%Z then amp_coeff h (- n)%Z else amp_coeff h n.

(* def phase(self, n): if n < 0: return -self._phase_coefficient(-n); return self._phase_coefficient(n) *)
Definition phase (h : harmonics) (n : Z) : RT O :=
  if (n <? 0)%Z then ropp O (ph_coeff h (- n)%Z) else ph_coeff h n.

(* def a(self, n): return self.amplitude(n)*np.cos(self.phase(n)) *)
Definition coef_a (h : harmonics) (n : Z) : RT O := rmul O (amplitude h n) (rcos O (phase h n)).

(* def b(self, n): return -self.amplitude(n)*np.sin(self.phase(n))          [ (-amplitude) * sin ] *)
Definition coef_b (h : harmonics) (n : Z) : RT O := rmul O (ropp O (amplitude h n)) (rsin O (phase h n)).

Definition cis (x : RT O) : RT O * RT O := (rcos O x, rsin O x).
Definition cscal (r : RT O) (z : RT O * RT O) : RT O * RT O := (rmul O r (fst z), rmul O r (snd z)).
Definition cconj (z : RT O * RT O) : RT O * RT O := (fst z, ropp O (snd z)).

(* def c(self, n): if n < 0: return self.amplitude(-n)/2*np.exp(-1j*self.phase(-n))
                   return self.amplitude(n)/2*np.exp(1j*self.phase(n)) *)
Definition coef_c (h : harmonics) (n : Z) : RT O * RT O :=
  if (n <? 0)%Z then cscal (rdiv O (amplitude h (- n)%Z) (rofZ O 2)) (cis (ropp O (phase h (- n)%Z)))
  else cscal (rdiv O (amplitude h n) (rofZ O 2)) (cis (phase h n)).

Fixpoint assocN {A} (i : N) (l : list (N * A)) : option A :=
  match l with [] => None | (k, v) :: r => if N.eqb k i then Some v else assocN i r end.

(* fourier_series(tf) = fourier_series_mapping[type(tf)](amplitude0=tf.amplitude, phase0=tf.phase, offset0=tf.offset),
   KeyError -> TransformationError.  [i] is the index of type(tf) among the time-function classes. *)
Definition fourier_series (i : N) (s_period s_amplitude s_phase s_offset : RT O) : pres harmonics :=
  match assocN i harmonics_of with
  | None => PErr ETransformationError
  | Some j =>
      match amplitude_coefficient O j, phase_coefficient O j with
      | Some fa, Some fp => POk {| amp_coeff := fa s_amplitude s_phase s_offset; ph_coeff := fp s_amplitude s_phase s_offset |}
      | _, _ => PErr ETransformationError
      end
  end.
End Harmonics.

(* the class attribute `wavetype` (dataclass default) of time class i *)
Fixpoint wavetype_of_in (l : list (label * N)) (i : N) : option label :=
  match l with [] => None | (w, k) :: r => if N.eqb k i then Some w else wavetype_of_in r i end.
Definition wavetype_of (i : N) : option label := wavetype_of_in wavetypes i.

(* periodic_function(wavetype) = [pf for pf in periodic_functions if pf.wavetype == wavetype][0],
   IndexError -> UnknownWavetype *)
Definition periodic_function (name : label) : pres N :=
  match filter (fun i => match wavetype_of i with Some w => label_eqb w name | None => false end) periodic_functions with
  | i :: _ => POk i
  | [] => PErr EUnknownWavetype
  end.
