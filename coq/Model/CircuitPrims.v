(* Model/CircuitPrims.v — the vocabulary Gen/Transformers.v is written in (hand-written; definitions only).
   tools/gen_transformers.py translates every translator function of Circuit/transformers.py into a Gallina definition
   over these primitives and those of Model/Circuit.v ([vget], [node_at], [mkbranch], [cre], [polar], [rabs], [gtb]) and
   Model/Network.v (the element constructors).  Each primitive is the meaning given to ONE Python construct:

     float(x.value['K'])                 vget c "K"            (KeyError when the key is absent; `res` monad, source order)
     x.nodes[i]                          node_at c i           (IndexError)
     x.id                                cid c
     complex(a, b)                       py_complex a b
     a float where a complex is expected real_to_complex a
     elm.complex_value(X) / (X, 0)       complex_value_re X
     elm.complex_value(X, phi)           complex_value_phi c X phi   — only when phi IS float(x.value['phi']): cos/sin of the
                                          component's own phase are oracle data of the model ([ccis c])
     elm.admittance_value(G=a, B=b)      admittance_value a b   (absent keyword: 0; absY/phi/degree keep their defaults)
     elm.impedance_value(R=a, X=b)       impedance_value a b
     np.abs(e)                           py_abs e
     a > b, a >= b, a < b, a <= b        py_gt, py_ge, py_lt, py_le
     np.round(e)                         rnd e : Z;   an np.round result used as a number: ofZ n
     elm.load(id, P, V_ref)              elm_load (cid c) P V_ref   (I_ref = -1, Q = 0: the AttributeError / ValueError guards)
     ntw.Branch(x.nodes[i], x.nodes[j], e)   branch_at c i j e; [mkbranch c e] when (i, j) = (0, 1) and e cannot raise
     if cond: v = e                      let v := if cond then e else v in ...
     if cond: return e                   if cond then e else ...
   and, for the periodic sources, three idioms with a fixed meaning (checked shape, see tools/gen_transformers.py):
     str(x.value['wavetype'])            value_wavetype c
     fourier_series(periodic_function(wt)(period=2*np.pi/w0, amplitude=A, phase=phi))
                                         fourier_series_of c wt w0 A phi   (UnknownWavetype, ZeroDivisionError, then the
                                          component's harmonic oracle [charm c])
     ccp.ac_X_source(id=x.id, nodes=(x.nodes[0], x.nodes[1]), w=w, phi=fp.phase(n), V=fp.amplitude(n), R=r)
       followed by `return ac_X_source(that, w, w_resolution)`
                                         harmonic fp n >>= fun h => single_frequency_voltage_source c h r
                                         (resp. _current_source): the ideal sinusoidal source of the n-th harmonic with the
                                          source's own R / G, on frequency by construction. *)
From Coq Require Import List Bool NArith ZArith String.
From CC Require Import Theory.Field Theory.Complex Model.Network Model.Circuit.
Import ListNotations.

Section Prims.
Variable R : fops.
Variable leb : R -> R -> bool.
Notation C := (Cx R).
Notation comp := (Model.Circuit.comp R).
Notation "'let*' x ':=' p 'in' q" := (bind p (fun x => q)) (at level 200, x pattern, p at level 100, q at level 200).

Definition py_complex (a b : R) : C := (a, b).
Definition real_to_complex (a : R) : C := cre R a.
Definition complex_value_re (x : R) : C := cre R x.
Definition complex_value_phi (c : comp) (x phi : R) : C := polar R x (ccis c).
Definition admittance_value (g b : R) : C := (g, b).
Definition impedance_value (r x : R) : C := (r, x).

Definition py_abs (x : R) : R := rabs R leb x.
Definition py_gt (x y : R) : bool := gtb R leb x y.
Definition py_le (x y : R) : bool := leb x y.
Definition py_lt (x y : R) : bool := gtb R leb y x.
Definition py_ge (x y : R) : bool := leb y x.

(* elements.load(name, P, V_ref) — I_ref = -1 and Q = 0 by default:
     V_ref < 0 (and I_ref < 0): AttributeError;  V_ref == 0 (and I_ref < 0): ValueError;
     otherwise V_ref > 0: TheveninElement(Y = complex(P, 0)/V_ref**2, I = 0, type 'load') *)
Definition elm_load (n : label) (p vref : R) : res (elem C) :=
  if gtb R leb (f0 R) vref then Err EAttribute
  else if feqb R vref (f0 R) then Err EValue
  else Ok (load_v (K:=C) n (cre R p) (cre R vref)).

(* ntw.Branch(x.nodes[i], x.nodes[j], e): the two subscripts are evaluated first, in this order *)
Definition branch_at (c : comp) (i j : nat) (e : elem C) : res (branch C) :=
  let* a := node_at R c i in let* b := node_at R c j in Ok (Build_branch (K:=C) a b e).
(* the same when the element expression itself can raise: Python evaluates it after the two subscripts *)
Definition branch_at_then (c : comp) (i j : nat) (e : res (elem C)) : res (branch C) :=
  let* a := node_at R c i in let* b := node_at R c j in let* x := e in Ok (Build_branch (K:=C) a b x).

(* ---- periodic sources: the recognised idioms ---- *)
Definition value_wavetype (c : comp) : label := cwave c.
Definition harmonics := list (Z * (R * (R * R))).
(* fourier_series(periodic_function(wt)(period=2*np.pi/w0, amplitude=A, phase=phi)): periodic_function(wt) is evaluated
   first (UnknownWavetype), then 2*np.pi/w0 (ZeroDivisionError on the Python float 0.0); the resulting harmonic
   coefficients are the oracle table carried by the component (amplitude(n), cos(phase(n)), sin(phase(n))) *)
Definition fourier_series_of (c : comp) (wt : label) (w0 amp phi : R) : res harmonics :=
  if negb (lmem wt wavetypes) then Err EUnknownWavetype
  else if feqb R w0 (f0 R) then Err EZeroDivision
  else Ok (charm c).
(* (fp.amplitude(n), fp.phase(n)) — EOther when the oracle table has no entry for n (an artefact of the model only) *)
Definition harmonic (fp : harmonics) (n : Z) : res (R * (R * R)) :=
  match hlook R fp n with Some d => Ok d | None => Err EOther end.
(* ac_voltage_source(ccp.ac_voltage_source(id, nodes, w=w, phi=phase(n), V=amplitude(n), R=r), w, w_resolution) *)
Definition single_frequency_voltage_source (c : comp) (h : R * (R * R)) (r : R) : res (branch C) :=
  mkbranch R c (voltage_source (K:=C) (cid c) (polar R (fst h) (snd h)) (cre R r)).
Definition single_frequency_current_source (c : comp) (h : R * (R * R)) (g : R) : res (branch C) :=
  mkbranch R c (current_source (K:=C) (cid c) (polar R (fst h) (snd h)) (cre R g)).

(* transformers[type](component, w, w_resolution): dictionary lookup (KeyError), then the call *)
Fixpoint flookup {X} (k : label) (t : list (label * X)) : option X :=
  match t with [] => None | (k', x) :: r => if label_eqb k' k then Some x else flookup k r end.
Definition translator := comp -> R -> R -> res (branch C).
Definition dispatch (table : list (label * label)) (funs : list (label * translator)) (c : comp) (w wres : R)
  : res (branch C) :=
  match flookup (kind_name (ck c)) table with
  | None => Err EKeyError
  | Some f => match flookup f funs with Some g => g c w wres | None => Err EOther end
  end.

End Prims.
