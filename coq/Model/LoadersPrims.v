(* Model/LoadersPrims.v — HAND-WRITTEN vocabulary in which tools/gen_loaders.py writes Gen/LoadersGen.v (the regenerated function
   bodies of Network/loaders.py, dump_load.py, Circuit/dump_load.py).  Each definition is the model of ONE Python construct, of
   one builtin / numpy function, or of one function or class that lives OUTSIDE the translated files; nothing here mentions a
   function of the translated files.  Built on Model/Loaders.v (documents [jval], dictionaries as association lists, the
   constructors of Network/elements.py and Circuit/components.py as interpreters of Gen/Tables.v).

   Every Python value of the translated functions is a document value [jv]; Python complex = [JCplx], float / int = [JNum],
   dict = [JDict] (insertion order; the keys of a Python dict are distinct).  "outside the modelled domain" = [Err EOther].

   Python construct                                 here
   x[k]           (k a str)                         py_getitem       KeyError (absent), TypeError (x not a dict)
   x[k] = v                                         py_setitem
   x.pop(k)                                         py_pop           (value, x without k)
   dict(x)                                          py_dict          copy; TypeError for numbers / None; str, list: EOther
   x.copy()                                         py_copy
   x.items() / x.keys()                             py_items / py_keys       AttributeError unless x is a dict
   for e in x / [.. for e in x]                     py_iter          lists only (dict, str: EOther; else TypeError)
   f( ** x)                                         py_kwargs        TypeError unless x is a mapping
   TABLE[x]  (str-keyed dict literal)               py_table_item    KeyError; TypeError for an unhashable x
   isinstance(x, complex | dict | list)             is_complex / is_dict / is_list
   sorted(a) == sorted(b)   (lists of str)          same_keys        equal as multisets
   complex(a, b)                                    py_complex
   a * b   (one operand a float or a complex)       py_mul
   a / n   (n a nonzero int literal)                py_div_int
   a < n   (n an int literal)                       py_lt_int        TypeError unless a is real
   x.real / x.imag                                  py_real / py_imag
   np.pi, np.cos, np.sin, np.deg2rad                np_pi (oracle), np_cos, np_sin (oracle [cis]), np_deg2rad
   try: .. except (E, ..): ..                       try_res / tryS (handler continues), reraise (handler raises)
   raise E                                          Err E
   statements on a mutable argument                 letS / seqS: state-passing (result, post-state of the argument)
   for k, v in d.items(): .. d[k] = e ..            for_items_jv     the item under the loop key is the state of the body
   for k in keys: <update of a local dict>          for_each
   {k: v for k, v in d.items() if k not in KEYS}    dict_without
   for F in (f, g if c else h): <body>               unrolled by the translator (one copy of the body per function)
   [f(e) for e in x]  with f state-passing          map_st_jv
   Branch(n1, n2, e) / Network(bs) / Circuit(cs)    Branch_ctor / Network_ctor / Circuit_ctor   (network.py, circuit.py)
   asdict(c)                                        asdict_lcomp     (dataclass Component: type, id, nodes, value)       *)
From Coq Require Import List Bool NArith ZArith String.
From CC Require Import Theory.Field Theory.Complex Model.Network Gen.Tables Model.Circuit Model.Loaders.
Import ListNotations.

(* the text formats of dump_load.py: json.dumps / json.loads, yaml.dump / yaml.safe_load *)
Inductive textfmt := FJson | FYaml.
Definition textfmt_eqb (a b : textfmt) : bool := match a, b with FJson, FJson | FYaml, FYaml => true | _, _ => false end.

(* what the hand model presupposes of dump_load.py's format tables (suffix / format name -> codec), both directions *)
Definition expected_formats : list (label * textfmt) :=
  Eval compute in [(lbl "json", FJson); (lbl "yaml", FYaml); (lbl "yml", FYaml)]%string.
(* functools.partial bindings at the end of Circuit/dump_load.py: (name, base function, keyword, function passed) *)
Definition expected_circuit_entry_points : list (label * label * label * label) :=
  Eval compute in map (fun q => match q with (a, b, c, d) => (lbl a, lbl b, lbl c, lbl d) end)
  [("deserialize", "dump_load.deserialize", "dict_preprocessor", "undictify_circuit");
   ("load", "dump_load.load", "deserialize_fcn", "deserialize");
   ("serialize", "dump_load.serialize", "dict_processor", "dictify_circuit");
   ("save", "dump_load.dump", "dump_fcn", "serialize")]%string.

Definition err_eqb (a b : err) : bool :=
  match a, b with
  | EFloatingGround, EFloatingGround | EAmbiguousIDs, EAmbiguousIDs | EKeyError, EKeyError | ESingular, ESingular
  | EValue, EValue | EAttribute, EAttribute | EOther, EOther | EMultipleGround, EMultipleGround
  | EAmbiguousComponent, EAmbiguousComponent | ETypeError, ETypeError | EZeroDivision, EZeroDivision
  | EFileFormat, EFileFormat | EFileExists, EFileExists | EUnknownWavetype, EUnknownWavetype
  | EUnidentified, EUnidentified | EIncorrectInfo, EIncorrectInfo | EUnknownComponent, EUnknownComponent
  | EIndex, EIndex => true
  | _, _ => false
  end.
(* `except (E1, E2)`: none of the modelled exception classes is a subclass of KeyError or TypeError *)
Definition handles (l : list err) (e : err) : bool := existsb (err_eqb e) l.

(* ---------- exceptions ---------- *)
(* try: <body that returns>  except Es: <handler falls through>; <rest>       (rest = h) *)
Definition try_res {X} (m : res X) (hs : err -> bool) (h : res X) : res X :=
  match m with Err e => if hs e then h else Err e | Ok x => Ok x end.
(* try: <body>  except Es: raise E' *)
Definition reraise {X} (m : res X) (hs : err -> bool) (e' : err) : res X :=
  match m with Err e => if hs e then Err e' else Err e | Ok x => Ok x end.

(* ---------- state passing: (result, post-state of the mutable argument) ---------- *)
Definition bindS {S X Y} (p : res X) (s : S) (f : X -> res Y * S) : res Y * S :=
  match p with Ok x => f x | Err e => (Err e, s) end.
Definition seqS {S X Y} (m : res X * S) (f : X -> S -> res Y * S) : res Y * S :=
  match m with (Ok x, s) => f x s | (Err e, s) => (Err e, s) end.
Definition tryS {S X} (m : res X * S) (hs : err -> bool) (h : S -> res X * S) : res X * S :=
  match m with (Err e, s) => if hs e then h s else (Err e, s) | (Ok x, s) => (Ok x, s) end.
(* the result of a state-passing function called on a fresh object (its post-state is unobservable) *)
Definition st_fst {S X} (m : res X * S) : res X := fst m.
(* the post-state of a fresh local object, when the statement succeeded *)
Definition st_state {S X} (m : res X * S) : res S := match m with (Ok _, s) => Ok s | (Err e, _) => Err e end.

Section ForEach.
Context {A S : Type} (body : A -> S -> res S).
Fixpoint for_each (l : list A) (s : S) : res S :=
  match l with [] => Ok s | a :: r => match body a s with Ok s' => for_each r s' | Err e => Err e end end.
End ForEach.

Section MapSt.
Context {A B : Type} (f : A -> res B * A).
(* [f(e) for e in l] where f may rewrite e: left to right, stops at the first exception *)
Fixpoint map_st (l : list A) : res (list B) * list A :=
  match l with
  | [] => (Ok [], [])
  | e :: r =>
      match f e with
      | (Err x, e') => (Err x, e' :: r)
      | (Ok b, e') =>
          let '(rr, r') := map_st r in
          (match rr with Ok bs => Ok (b :: bs) | Err x => Err x end, e' :: r')
      end
  end.
End MapSt.

Section Prims.
Variable R : fops.
Variable leb : R -> R -> bool.
Variable pi : R.
Variable cis : R -> R * R.
Notation C := (Cx R).
Notation jv := (jval R).
Notation jdict := (dict (jval R)).
Notation "'let*' x ':=' p 'in' q" := (bind p (fun x => q)) (at level 200, x pattern, p at level 100, q at level 200).

Definition jint (n : Z) : jv := JNum (ofZ R n).

(* ---------- dictionaries and lists ---------- *)
Definition py_getitem (x : jv) (k : label) : res jv :=
  match x with
  | JDict d => match dget d k with Some v => Ok v | None => Err EKeyError end
  | _ => Err ETypeError
  end.
Definition py_setitem (x : jv) (k : label) (v : jv) : res jv :=
  match x with JDict d => Ok (JDict (dset d k v)) | _ => Err ETypeError end.
(* list.pop(str) is a TypeError, str / number / None have no pop *)
Definition py_pop (x : jv) (k : label) : res (jv * jv) :=
  match x with
  | JDict d => match dget d k with Some v => Ok (v, JDict (ddel d k)) | None => Err EKeyError end
  | JList _ => Err ETypeError
  | _ => Err EAttribute
  end.
(* dict(x): a str or a list is iterated for key/value pairs: outside the modelled domain *)
Definition py_dict (x : jv) : res jv :=
  match x with JDict d => Ok (JDict d) | JStr _ | JList _ => Err EOther | _ => Err ETypeError end.
(* x.copy(): dictionaries; lists (which also have .copy()) are outside the modelled domain *)
Definition py_copy (x : jv) : res jv :=
  match x with JDict d => Ok (JDict d) | JList _ => Err EOther | _ => Err EAttribute end.
Definition py_items (x : jv) : res jdict := match x with JDict d => Ok d | _ => Err EAttribute end.
Definition py_keys (x : jv) : res (list label) := match x with JDict d => Ok (dkeys d) | _ => Err EAttribute end.
Definition py_iter (x : jv) : res (list jv) :=
  match x with JList l => Ok l | JDict _ | JStr _ => Err EOther | _ => Err ETypeError end.
Definition py_kwargs (x : jv) : res jdict := match x with JDict d => Ok d | _ => Err ETypeError end.
Definition py_table_item {A} (find : label -> option A) (x : jv) : res A :=
  match x with
  | JStr s => match find s with Some a => Ok a | None => Err EKeyError end
  | JList _ | JDict _ => Err ETypeError
  | _ => Err EKeyError
  end.
(* {k: v for k, v in d.items() if k not in keys} *)
Definition dict_without (d : jdict) (keys : list label) : jdict := filter (fun kv => negb (lmem (fst kv) keys)) d.
Definition is_complex (x : jv) : bool := match x with JCplx _ => true | _ => false end.
Definition is_dict (x : jv) : bool := match x with JDict _ => true | _ => false end.
Definition is_list (x : jv) : bool := match x with JList _ => true | _ => false end.

(* sorted(a) == sorted(b) for lists of str: the same strings with the same multiplicities *)
Definition lcount (x : label) (l : list label) : nat := List.length (filter (label_eqb x) l).
Definition same_keys (a b : list label) : bool :=
  Nat.eqb (List.length a) (List.length b) && forallb (fun x => Nat.eqb (lcount x a) (lcount x b)) a.

(* ---------- numbers ---------- *)
Definition py_complex (a b : jv) : res jv :=
  match as_num R a, as_num R b with
  | Some x, Some y => Ok (JCplx (Loaders.py_complex R x y))
  | _, _ => Err ETypeError
  end.
(* a * b where the translator knows one operand to be a float or a complex (no sequence repetition): TypeError unless both
   are numbers; real * complex scales both parts *)
Definition py_mul (a b : jv) : res jv :=
  match as_num R a, as_num R b with
  | Some (PReal _ x), Some (PReal _ y) => Ok (JNum (fmul R x y))
  | Some n, Some (PCplx _ z) => Ok (JCplx (scale R n z))
  | Some (PCplx _ z), Some (PReal _ y) => Ok (JCplx (scale R (PReal R y) z))
  | _, _ => Err ETypeError
  end.
Definition py_div_int (a : jv) (n : Z) : res jv :=
  match as_num R a with
  | Some (PReal _ x) => Ok (JNum (fdiv R x (ofZ R n)))
  | Some (PCplx _ z) => Ok (JCplx (fdiv R (fst z) (ofZ R n), fdiv R (snd z) (ofZ R n)))
  | None => Err ETypeError
  end.
(* a < n : complex, str, None, list, dict against an int are TypeErrors *)
Definition py_lt_int (a : jv) (n : Z) : res bool :=
  match as_real R a with Some x => Ok (negb (leb (ofZ R n) x)) | None => Err ETypeError end.
Definition py_real (a : jv) : res jv :=
  match as_num R a with Some (PReal _ x) => Ok (JNum x) | Some (PCplx _ z) => Ok (JNum (fst z)) | None => Err EAttribute end.
Definition py_imag (a : jv) : res jv :=
  match as_num R a with Some (PReal _ _) => Ok (JNum (f0 R)) | Some (PCplx _ z) => Ok (JNum (snd z)) | None => Err EAttribute end.
Definition np_pi : jv := JNum pi.
(* numpy ufuncs on a scalar; a complex argument (complex cosine) and a list (array result) are outside the modelled domain;
   str, None, dict: TypeError *)
Definition np_real_fun (f : R -> R) (a : jv) : res jv :=
  match a with
  | JCplx _ | JList _ => Err EOther
  | _ => match as_real R a with Some x => Ok (JNum (f x)) | None => Err ETypeError end
  end.
Definition np_cos : jv -> res jv := np_real_fun (fun x => fst (cis x)).
Definition np_sin : jv -> res jv := np_real_fun (fun x => snd (cis x)).
Definition np_deg2rad : jv -> res jv := np_real_fun (deg2rad R pi).

(* ---------- loops over a mutable dictionary ---------- *)
Section ForItems.
(* body key value : (result, new value of d[key]) ; on an exception the items before are already replaced *)
Variable body : label -> jv -> res unit * jv.
Fixpoint for_items (d : jdict) : res unit * jdict :=
  match d with
  | [] => (Ok tt, [])
  | (k, v) :: r =>
      match body k v with
      | (Err e, c) => (Err e, (k, c) :: r)
      | (Ok _, c) => let '(rr, r') := for_items r in (rr, (k, c) :: r')
      end
  end.
Definition for_items_jv (x : jv) : res unit * jv :=
  match x with
  | JDict d => let '(r, d') := for_items d in (r, JDict d')
  | _ => (Err EAttribute, x)
  end.
End ForItems.
Definition map_st_jv {B} (f : jv -> res B * jv) (x : jv) : res (list B) * jv :=
  match x with
  | JList l => let '(r, l') := map_st f l in (r, JList l')
  | _ => (Err EOther, x)
  end.

(* ---------- the classes of the other modules ---------- *)
(* Branch(n1, n2, element): the model has string node labels only *)
Definition Branch_ctor (n1 n2 : jv) (e : elem C) : res (branch C) :=
  let* a := as_label R n1 in let* b := as_label R n2 in Ok (Build_branch a b e).
(* Network(branches) with the default node_zero_label = '0': the frozen dataclass and its __post_init__ validation *)
Definition Network_ctor (bs : list (branch C)) : res (network C) := validate {| branches := bs; zero := s_zero |}.
(* Circuit(components): __post_init__ (ground node, distinct identifiers) *)
Definition Circuit_ctor (cs : list (lcomp R)) : res (list (lcomp R) * label) :=
  let* ccs := mapR (to_comp R) cs in let* g := ground_node R ccs in Ok (cs, g).
(* the rows of the two loader tables (Gen/Tables.v) *)
Definition find_cfactory (t : label) : option label := tfind t circuit_loader_table.
(* dataclasses.asdict(component) *)
Definition asdict_lcomp (c : lcomp R) : jv :=
  JDict [(s_type, JStr (lc_type c)); (s_id, JStr (lc_id c)); (s_nodes, JList (map (fun n => JStr n) (lc_nodes c)));
         (s_value, JDict (lc_value c))].
End Prims.

Notation "'letS' x ':=' p 'on' s 'in' q" := (bindS p s (fun x => q)) (at level 200, x pattern, p at level 100, q at level 200).
Notation "'seqS*' x ',' s ':=' m 'in' q" := (seqS m (fun x s => q)) (at level 200, x pattern, s name, m at level 100, q at level 200).
