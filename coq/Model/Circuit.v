(* Model/Circuit.v — executable model of CircuitCalculator.Circuit:
     components.py  (the component constructors with their sign guards and value dictionaries),
     circuit.py     (Circuit.__post_init__: ground rule, duplicate ids; transform_circuit; frequency_components),
     transformers.py (one translator per component kind: component -> network branch at angular frequency w),
     solution.py    (DCSolution, ComplexSolution on top of the bias-point solver of Model/Network.v).
   Component values are reals [R]; network elements live in the complex pairs [Cx R].
   Transcendental functions are not computed here: a sinusoidal source carries (cos phi, sin phi) of its own phase,
   a periodic source carries, per harmonic order, (amplitude n, cos (phase n), sin (phase n)) — oracle data supplied
   with the case (DESIGN §2.2); [rnd] is np.round (ties to even), [leb] is <= on the reals. *)
From Coq Require Import List Bool NArith ZArith Arith String Ascii.
From CC Require Import Theory.Field Theory.Complex Model.Network.
Import ListNotations.

Definition lbl (s : string) : label := map N_of_ascii (list_ascii_of_string s).

Inductive ckind := KResistor | KConductance | KCapacitor | KInductance | KImpedance | KAdmittance
  | KDcV | KAcV | KCplxV | KPerV | KDcI | KAcI | KCplxI | KPerI | KLamp | KResLoad | KShort | KGround.

Definition all_kinds : list ckind := [KResistor; KConductance; KCapacitor; KInductance; KImpedance; KAdmittance;
  KDcV; KAcV; KCplxV; KPerV; KDcI; KAcI; KCplxI; KPerI; KLamp; KResLoad; KShort; KGround].

Definition ckind_eqb (a b : ckind) : bool :=
  match a, b with
  | KResistor, KResistor | KConductance, KConductance | KCapacitor, KCapacitor | KInductance, KInductance
  | KImpedance, KImpedance | KAdmittance, KAdmittance | KDcV, KDcV | KAcV, KAcV | KCplxV, KCplxV | KPerV, KPerV
  | KDcI, KDcI | KAcI, KAcI | KCplxI, KCplxI | KPerI, KPerI | KLamp, KLamp | KResLoad, KResLoad | KShort, KShort
  | KGround, KGround => true
  | _, _ => false
  end.

(* the type string components.py stores *)
Definition kind_name (k : ckind) : label :=
  lbl match k with
  | KResistor => "resistor" | KConductance => "conductance" | KCapacitor => "capacitor" | KInductance => "inductance"
  | KImpedance => "impedance" | KAdmittance => "admittance" | KDcV => "dc_voltage_source" | KAcV => "ac_voltage_source"
  | KCplxV => "complex_voltage_source" | KPerV => "periodic_voltage_source" | KDcI => "dc_current_source"
  | KAcI => "ac_current_source" | KCplxI => "complex_current_source" | KPerI => "periodic_current_source"
  | KLamp => "lamp" | KResLoad => "resistive_load" | KShort => "short_circuit" | KGround => "ground"
  end%string.

(* the name of the translator function Circuit.transformers.transformers maps the kind to (None: not in the table) *)
Definition translator_name (k : ckind) : option label :=
  match k with
  | KGround => None
  | KLamp | KResLoad => Some (lbl "resistive_load")
  | k => Some (kind_name k)
  end.
Definition has_translator (k : ckind) : bool := match translator_name k with Some _ => true | None => false end.

(* value keys written by the constructor of each kind (components.py) *)
Definition keys_written (k : ckind) : list label :=
  map lbl match k with
  | KResistor => ["R"] | KConductance => ["G"] | KCapacitor => ["C"] | KInductance => ["L"]
  | KImpedance => ["R"; "X"] | KAdmittance => ["G"; "B"]
  | KDcV | KAcV => ["V"; "R"; "w"; "phi"]
  | KCplxV => ["V_real"; "V_imag"; "R"; "X"]
  | KPerV => ["wavetype"; "V"; "w"; "phi"; "R"]
  | KDcI | KAcI => ["I"; "G"; "w"; "phi"]
  | KCplxI => ["I_real"; "I_imag"; "G"; "B"]
  | KPerI => ["wavetype"; "I"; "w"; "phi"; "G"]
  | KLamp | KResLoad => ["P"; "V_ref"]
  | KShort | KGround => []
  end%string.

(* value keys the translator of each kind reads *)
Definition keys_read (k : ckind) : list label :=
  map lbl match k with
  | KResistor => ["R"] | KConductance => ["G"] | KCapacitor => ["C"] | KInductance => ["L"]
  | KImpedance => ["R"; "X"] | KAdmittance => ["G"; "B"]
  | KDcV => ["V"; "R"; "w"] | KAcV => ["V"; "phi"; "R"; "w"]
  | KCplxV => ["V_real"; "V_imag"; "R"; "X"]
  | KPerV => ["wavetype"; "w"; "V"; "phi"; "R"]
  | KDcI => ["I"; "G"; "w"] | KAcI => ["I"; "G"; "w"; "phi"]
  | KCplxI => ["I_real"; "I_imag"; "G"; "B"]
  | KPerI => ["wavetype"; "w"; "I"; "phi"; "G"]
  | KLamp | KResLoad => ["P"; "V_ref"]
  | KShort | KGround => []
  end%string.

(* parameters guarded by `if p < 0: raise ValueError` in the constructor *)
Definition guarded (k : ckind) : list label :=
  map lbl match k with
  | KResistor => ["R"] | KConductance => ["G"] | KCapacitor => ["C"] | KInductance => ["L"]
  | KDcV => ["R"] | KAcV => ["R"; "w"] | KPerV => ["R"; "w"]
  | KDcI => ["G"] | KAcI => ["G"; "w"] | KPerI => ["G"; "w"]
  | KLamp | KResLoad => ["P"; "V_ref"]
  | _ => []
  end%string.

Section Circ.
Variable R : fops.
Variable leb : R -> R -> bool.
Variable rnd : R -> Z.
Variable ofZ : Z -> R.
Notation C := (Cx R).
Notation "0" := (f0 R). Notation "1" := (f1 R).
Infix "+" := (fadd R). Infix "*" := (fmul R). Infix "-" := (fsub R). Notation "- x" := (fopp R x).
Infix "/" := (fdiv R).

Definition cre (x : R) : C := (x, 0).
Definition cim (x : R) : C := (0, x).
Definition rabs (x : R) : R := if leb 0 x then x else - x.
Definition gtb (x y : R) : bool := negb (leb x y).

Record comp := {
  ck : ckind; cid : label; cnodes : list label;
  cvals : list (label * R);        (* numeric entries of the value dictionary, in insertion order *)
  cwave : label;                   (* value['wavetype'] of periodic sources *)
  ccis : R * R;                    (* (np.cos(phi), np.sin(phi)) for this component's own value['phi'] *)
  charm : list (Z * (R * (R * R))) (* periodic sources: n -> (amplitude(n), cos(phase(n)), sin(phase(n))) *)
}.

Fixpoint vlook (l : list (label * R)) (k : label) : option R :=
  match l with [] => None | (k', v) :: r => if label_eqb k' k then Some v else vlook r k end.
Definition vget (c : comp) (k : string) : res R :=
  match vlook (cvals c) (lbl k) with Some v => Ok v | None => Err EKeyError end.
Definition node_at (c : comp) (i : nat) : res label :=
  match nth_error (cnodes c) i with Some l => Ok l | None => Err EIndex end.

Notation "'let*' x ':=' p 'in' q" := (bind p (fun x => q)) (at level 200, x pattern, p at level 100, q at level 200).

Definition mkbranch (c : comp) (e : elem C) : res (branch C) :=
  let* a := node_at c 0 in let* b := node_at c 1 in Ok (Build_branch a b e).

(* elements.complex_value(X, phi) with finite X:  X * complex(cos phi, sin phi) *)
Definition polar (x : R) (cs : R * R) : C := (x * fst cs, x * snd cs).

(* ---- transformers.py, one function per table entry ---- *)
Definition t_resistor c := let* r := vget c "R" in mkbranch c (resistor (cid c) (cre r)).
Definition t_conductance c := let* g := vget c "G" in mkbranch c (conductor (cid c) (cre g)).
Definition t_impedance c := let* r := vget c "R" in let* x := vget c "X" in mkbranch c (impedance (cid c) ((r, x) : C)).
Definition t_admittance c := let* g := vget c "G" in let* b := vget c "B" in mkbranch c (admittance (cid c) ((g, b) : C)).
Definition t_capacitor c (w : R) := let* cv := vget c "C" in mkbranch c (admittance (cid c) (cim (w * cv))).
Definition t_inductance c (w : R) := let* l := vget c "L" in mkbranch c (impedance (cid c) (cim (w * l))).

Definition off_frequency (w ws wres : R) : bool := gtb (rabs (w - ws)) wres.

Definition t_dc_voltage_source c (w wres : R) :=
  let* v := vget c "V" in let* r := vget c "R" in let* ws := vget c "w" in
  mkbranch c (if off_frequency w ws wres then short_circuit (cid c) else voltage_source (cid c) (cre v) (cre r)).
Definition t_ac_voltage_source c (w wres : R) :=
  let* v := vget c "V" in let* _ := vget c "phi" in let* r := vget c "R" in let* ws := vget c "w" in
  mkbranch c (if off_frequency w ws wres then short_circuit (cid c) else voltage_source (cid c) (polar v (ccis c)) (cre r)).
Definition t_complex_voltage_source c :=
  let* vr := vget c "V_real" in let* vi := vget c "V_imag" in let* r := vget c "R" in let* x := vget c "X" in
  mkbranch c (voltage_source (cid c) ((vr, vi) : C) ((r, x) : C)).
Definition t_dc_current_source c (w wres : R) :=
  let* i := vget c "I" in let* g := vget c "G" in let* ws := vget c "w" in
  mkbranch c (if off_frequency w ws wres then open_circuit (cid c) else current_source (cid c) (cre i) (cre g)).
Definition t_ac_current_source c (w wres : R) :=
  let* i := vget c "I" in let* g := vget c "G" in let* ws := vget c "w" in let* _ := vget c "phi" in
  mkbranch c (if off_frequency w ws wres then open_circuit (cid c) else current_source (cid c) (polar i (ccis c)) (cre g)).
Definition t_complex_current_source c :=
  let* ir := vget c "I_real" in let* ii := vget c "I_imag" in let* g := vget c "G" in let* b := vget c "B" in
  mkbranch c (current_source (cid c) ((ir, ii) : C) ((g, b) : C)).

Fixpoint hlook (l : list (Z * (R * (R * R)))) (n : Z) : option (R * (R * R)) :=
  match l with [] => None | (m, d) :: r => if Z.eqb m n then Some d else hlook r n end.

(* periodic source at w: harmonic order n = round(w/w0); active iff |w/w0 - n| <= res/w0; then an ideal sinusoidal
   source with the n-th harmonic's amplitude and phase and the source's own R / G (since fix 735295e; before it the
   code built ccp.ac_*_source(id, nodes, w, phi, V) with the default R = 0 / G = 0) *)
Definition wavetypes : list label := map lbl ["const"; "cos"; "sin"; "rect"; "tri"; "saw"]%string.
Definition harmonic_of c (w wres : R) : res (option (R * (R * R))) :=
  let* w0 := vget c "w" in
  if negb (lmem (cwave c) wavetypes) then Err EUnknownWavetype else
  if feqb R w0 0 then Err EZeroDivision else
  let n := rnd (w / w0) in
  if gtb (rabs (w / w0 - ofZ n)) (wres / w0) then Ok None
  else match hlook (charm c) n with Some d => Ok (Some d) | None => Err EOther end.
Definition t_periodic_voltage_source c (w wres : R) :=
  let* _ := vget c "w" in let* _ := vget c "V" in let* _ := vget c "phi" in
  let* h := harmonic_of c w wres in
  match h with
  | None => mkbranch c (short_circuit (cid c))
  | Some (a, cs) => let* r := vget c "R" in mkbranch c (voltage_source (cid c) (polar a cs) (cre r))
  end.
Definition t_periodic_current_source c (w wres : R) :=
  let* _ := vget c "w" in let* _ := vget c "I" in let* _ := vget c "phi" in
  let* h := harmonic_of c w wres in
  match h with
  | None => mkbranch c (open_circuit (cid c))
  | Some (a, cs) => let* g := vget c "G" in mkbranch c (current_source (cid c) (polar a cs) (cre g))
  end.
Definition t_short_circuit c := mkbranch c (short_circuit (cid c)).
(* elm.load(id, P, V_ref) with I_ref = -1, Q = 0 *)
Definition t_resistive_load c :=
  let* p := vget c "P" in let* vr := vget c "V_ref" in
  if gtb 0 vr then Err EAttribute        (* V_ref < 0 and I_ref < 0 *)
  else if feqb R vr 0 then Err EValue    (* V_ref == 0 and I_ref < 0 *)
  else mkbranch c (load_v (cid c) (cre p) (cre vr)).

Definition translate (c : comp) (w wres : R) : res (branch C) :=
  match ck c with
  | KResistor => t_resistor c | KConductance => t_conductance c
  | KImpedance => t_impedance c | KAdmittance => t_admittance c
  | KCapacitor => t_capacitor c w | KInductance => t_inductance c w
  | KDcV => t_dc_voltage_source c w wres | KAcV => t_ac_voltage_source c w wres | KCplxV => t_complex_voltage_source c
  | KPerV => t_periodic_voltage_source c w wres
  | KDcI => t_dc_current_source c w wres | KAcI => t_ac_current_source c w wres | KCplxI => t_complex_current_source c
  | KPerI => t_periodic_current_source c w wres
  | KLamp | KResLoad => t_resistive_load c
  | KShort => t_short_circuit c
  | KGround => Err EKeyError
  end.

Fixpoint mapM {A B} (f : A -> res B) (l : list A) : res (list B) :=
  match l with
  | [] => Ok []
  | a :: r => let* b := f a in let* bs := mapM f r in Ok (b :: bs)
  end.

(* circuit.py: Circuit.__post_init__ *)
Definition is_ground (c : comp) : bool := ckind_eqb (ck c) KGround.
Definition first_node (c : comp) : res label := node_at c 0.
Definition ground_node (cs : list comp) : res label :=
  match cs with
  | [] => Ok []
  | c0 :: _ =>
      let gs := filter is_ground cs in
      let* gnodes := mapM first_node gs in
      if Nat.ltb 1 (List.length gnodes) then Err EMultipleGround
      else let* g := match gnodes with [] => first_node c0 | g :: _ => Ok g end in
      if negb (Nat.eqb (List.length (ldedup (map cid cs))) (List.length cs)) then Err EAmbiguousComponent else Ok g
  end.

Definition transform_circuit (cs : list comp) (w wres : R) : res (network C) :=
  let* g := ground_node cs in
  let* bs := mapM (fun c => translate c w wres) (filter (fun c => has_translator (ck c)) cs) in
  validate {| branches := bs; zero := g |}.

(* solution.py *)
Variable sqrt2 : R.
Record csol := { cs_sol : solution C; cs_peak : bool }.
Definition complex_solution (cs : list comp) (w wres : R) (peak : bool) : res csol :=
  let* n := transform_circuit cs w wres in let* s := solve_network n in Ok {| cs_sol := s; cs_peak := peak |}.
Definition unpeak (s : csol) (x : C) : C := if cs_peak s then x else fdiv C x (cre sqrt2).
Definition c_potential s l := let* x := get_potential (cs_sol s) l in Ok (unpeak s x).
Definition c_voltage s id := let* x := get_voltage (cs_sol s) id in Ok (unpeak s x).
Definition c_current s id := let* x := get_current (cs_sol s) id in Ok (unpeak s x).
Definition half : R := 1 / (1 + 1).
Definition c_power s id :=
  let* v := c_voltage s id in let* i := c_current s id in
  Ok (if cs_peak s then fmul C (fmul C (cre half) v) (fconj C i) else fmul C v (fconj C i)).
(* DCSolution: the w = 0 network, real parts *)
Definition dc_solution (cs : list comp) (wres : R) : res (solution C) :=
  let* n := transform_circuit cs 0 wres in solve_network n.
Definition dc_potential (s : solution C) l : res R := let* x := get_potential s l in Ok (fst x).
Definition dc_voltage (s : solution C) id : res R := let* x := get_voltage s id in Ok (fst x).
Definition dc_current (s : solution C) id : res R := let* x := get_current s id in Ok (fst x).
Definition dc_power (s : solution C) id : res R := let* v := dc_voltage s id in let* i := dc_current s id in Ok (v * i).

(* circuit.py: frequency_components(circuit, w_max) over exact reals: per component [w] or [w*n | 0 <= n <= floor(w_max/w)],
   merged through a set, sorted ascending.  [flr] is np.floor. *)
Variable flr : R -> Z.
Definition is_periodic (c : comp) : bool := ckind_eqb (ck c) KPerV || ckind_eqb (ck c) KPerI.
Definition comp_frequencies (c : comp) (wmax : R) : res (list R) :=
  match vlook (cvals c) (lbl "w") with
  | None => Ok []
  | Some w =>
      if is_periodic c then
        if feqb R w 0 then Err EZeroDivision
        else let nmax := flr (wmax / w) in
             Ok (map (fun k => w * ofZ (Z.of_nat k)) (seq 0 (Z.to_nat (nmax + 1))))
      else Ok [w]
  end.
Fixpoint rinsert (x : R) (l : list R) : list R :=
  match l with [] => [x] | y :: r => if feqb R x y then l else if leb x y then x :: l else y :: rinsert x r end.
Definition rsort_dedup (l : list R) : list R := fold_right rinsert [] l.
Definition frequency_components (cs : list comp) (wmax : R) : res (list R) :=
  let* ls := mapM (fun c => comp_frequencies c wmax) cs in Ok (rsort_dedup (List.concat ls)).

End Circ.

Arguments ck {R}. Arguments cid {R}. Arguments cnodes {R}. Arguments cvals {R}. Arguments cwave {R}.
Arguments ccis {R}. Arguments charm {R}. Arguments Build_comp {R}.
Arguments cs_sol {R}. Arguments cs_peak {R}.
