(* Model/AnnotationPrims.v — HAND-WRITTEN vocabulary in which tools/gen_annotation.py writes Gen/AnnotationGen.v (the
   regenerated SimpleCircuit/DiagramSolution.py, the four text functions of SimpleCircuit/Display.py it calls, the getters
   of Circuit/solution.py ComplexSolution, and the annotation part of SimpleSimulation/schematic.py), plus the hand SPECIFICATION of what SchematicDiagramSolution.draw_* puts on the
   drawing ([drawn_spec]; Model/Annotation.v has [label_reverse] only).  Built on Model/Annotation.v.

   Python construct                                     here
   sign * value (sign an int, value float / complex)    int_times_Q / int_times_C
   self.solution.get_voltage(name) ...                  dc_get / cx_get s QVoltage ...   (the solution object AT that name)
   self.solution.w                                      cx_w s
   DCSolution(circuit=circuit_translator(schematic))    DCSolution_of rd           rd : the readings of the schematic
   ComplexSolution(circuit=.., w=w, peak_values=b)      ComplexSolution_of rd w b
   an object with get_voltage/current/power/potential   solution_methods (the DiagramSolution protocol)
   elm.VoltageLabel(element, vlabel=t, reverse=r, color=c) etc.   a [drawn] record; a keyword that is not passed is None
   str(ScientificFloat(v, unit, p, up, table))          Format.sci_text v p up table unit      (Utils.py: C18)
   str(ScientificComplex(...))                          scientific_complex_str
   abs(z) / phase(z) / degrees(x) / x + pi/2 / w/2/pi   the oracles so_abs / so_arg / so_degrees / so_add_halfpi / so_hz
   solutions.get(data.get(k, d), fallback)              table_get
   {k: v for k, v in data.items() if k in names}        keep_keys *)
From Coq Require Import List Bool ZArith NArith QArith Qabs String.
From CC Require Import Model.Network Model.Format Model.Circuit Model.Annotation.
Import ListNotations.
Open Scope Z_scope.

Definition int_times_Q (s : Z) (x : Q) : Q := (inject_Z s * x)%Q.
Definition int_times_C (s : Z) (z : cval) : cval := ((inject_Z s * fst z)%Q, (inject_Z s * snd z)%Q).

(* the solution objects handed to the adapters, read at one element / node name *)
Record dc_solution := { dc_get : quantity -> Q }.
Record cx_solution := { cx_get : quantity -> cval; cx_w : Q; cx_peak : bool }.
Definition DCSolution_of (rd : quantity -> reading) : dc_solution := {| dc_get := fun q => rd_real (rd q) |}.
Definition ComplexSolution_of (rd : quantity -> reading) (w : Q) (peak : bool) : cx_solution :=
  {| cx_get := fun q => rd_cplx (rd q); cx_w := w; cx_peak := peak |}.

(* the DiagramSolution protocol *)
Record solution_methods := {
  sm_get_voltage : bool -> label; sm_get_current : bool -> label; sm_get_power : bool -> label; sm_get_potential : label }.
Definition sm_get (q : quantity) (sm : solution_methods) (reverse : bool) : label :=
  match q with
  | QVoltage => sm_get_voltage sm reverse | QCurrent => sm_get_current sm reverse | QPower => sm_get_power sm reverse
  | QPotential => sm_get_potential sm
  end.

(* what draw_* returns: the label symbol with the keyword arguments it was given *)
Inductive label_cls := LVoltageLabel | LCurrentLabel | LPowerLabel | LLabelNode.
Inductive color := Blue | Red | Green.
Record drawn := {
  dr_cls : label_cls;
  dr_text : option label;       (* vlabel= / ilabel= / plabel= / name= *)
  dr_reverse : option bool;     (* reverse= *)
  dr_start : option bool;       (* start= *)
  dr_color : option color;      (* color= *)
  dr_loc : option label;        (* id_loc= *)
  dr_at_element : bool          (* first positional argument is the element / at=element.absdrop[0] *)
}.

(* SPECIFICATION (hand-written): the label of quantity q carries the text of the adapter for the requested direction; the
   arrow of a voltage / current label is reversed exactly when request and element direction differ; a current label sits
   at the start unless end=True; colours blue / red / green / blue *)
Definition drawn_spec (q : quantity) (text : label) (reverse element_is_reverse end_ : bool) (loc : label) : drawn :=
  match q with
  | QVoltage => {| dr_cls := LVoltageLabel; dr_text := Some text; dr_reverse := Some (label_reverse reverse element_is_reverse);
                   dr_start := None; dr_color := Some Blue; dr_loc := None; dr_at_element := true |}
  | QCurrent => {| dr_cls := LCurrentLabel; dr_text := Some text; dr_reverse := Some (label_reverse reverse element_is_reverse);
                   dr_start := Some (negb end_); dr_color := Some Red; dr_loc := None; dr_at_element := true |}
  | QPower => {| dr_cls := LPowerLabel; dr_text := Some text; dr_reverse := None; dr_start := None; dr_color := Some Green;
                 dr_loc := None; dr_at_element := true |}
  | QPotential => {| dr_cls := LLabelNode; dr_text := Some text; dr_reverse := None; dr_start := None; dr_color := Some Blue;
                     dr_loc := Some loc; dr_at_element := true |}
  end.

(* which solver each factory of DiagramSolution.py builds: has a frequency parameter?, peak values? *)
Inductive solver := DCSol | CplxSol (takes_w : bool) (peak : bool).

(* the lists of a solution description and the quantity drawn for each entry (fill) *)
Definition annotation_lists : list (label * quantity) :=
  Eval compute in [(lbl "voltages", QVoltage); (lbl "currents", QCurrent); (lbl "potentials", QPotential); (lbl "powers", QPower)].
(* optional parameters of draw_voltage / draw_current / draw_power / draw_potential with their defaults *)
Definition draw_defaults : list (quantity * list (label * dvalue)) :=
  Eval compute in
  [(QVoltage, [(lbl "reverse", DBool false)]); (QCurrent, [(lbl "reverse", DBool false); (lbl "end", DBool false)]);
   (QPower, [(lbl "reverse", DBool false)]); (QPotential, [(lbl "loc", DStr [])])].

(* solutions.get(data.get(key, default_key), fallback): a key that is not a str is not in a str-keyed table *)
Definition table_get {A} (tbl : list (label * A)) (data : ddict) (key default_key : label) (fallback : A) : A :=
  match dlook data key with
  | Some (DStr s) => match Annotation.tlook tbl s with Some f => f | None => fallback end
  | Some _ => fallback
  | None => match Annotation.tlook tbl default_key with Some f => f | None => fallback end
  end.
Definition keep_keys (names : list label) (data : ddict) : ddict := filter (fun kv => lmem (fst kv) names) data.
Definition dres_map {A B} (f : A -> B) (r : dres A) : dres B := match r with DOk a => DOk (f a) | DErr e => DErr e end.

(* str(ScientificComplex(value, unit, precision, use_exp_prefix, compact, polar, deg, exp_prefixes)) (Utils.py, C18):
   Model/Format.v's two renderings, with the transcendental parts of the polar one taken from the oracle *)
Definition scientific_complex_str (O : polar_oracle) (z : cval) (un : label) (p : Z) (up compact polar deg : bool) (t : table) : label :=
  if polar then polar_text (po_abs O z) p up t un (po_small O deg z) deg (po_text O deg z)
  else complex_text (fst z) (snd z) p up t un compact.
