(* Model/SaveLoad.v — the DATA PATH of saving / loading a schematic and of the declarative element lists.
     SimpleCircuit/dump_load.py       : dictify_element, schematic_to_dict, dictify_all, combine_to_complex,
                                        simple_circuit_element_types, undictify_element, undictify_schematic
     SimpleCircuit/Elements.py        : what each persistable class keeps of its constructor arguments (_V = -V under
                                        reverse, _phi -= pi/2 under sin, ...), the name / is_reverse / type properties
     SimpleCircuit/CircuitComponentTranslators.py : symbol -> component (type, id, terminal order, value dictionary)
     Circuit/components.py            : the value dictionaries written by the component constructors
     SimpleSimulation/schematic.py    : element_handlers, element_factory, apply_direction_and_length, apply_position, fill
   HAND-WRITTEN MIRRORS: [element_types] (simple_circuit_element_types), [element_handlers], the per-class constructor
   and translator rules, the key strings.

   What is modelled.  A symbol is a constructed Python object: its class, name, is_reverse, the attributes its __init__
   computed from the keyword arguments ([s_attr]), schemdraw's record of the keyword arguments ([s_user] = _userparams)
   and the two absolute terminal points (absanchors['start'], ['end']).  Node names are a function of the terminal
   points (DiagramParser rounds them and numbers the distinct ones), so a translated component carries the POINTS of its
   terminals in order.  Python values are [jval] trees (Model/Loaders.v); a schemdraw Point / Segment / Transform object
   is identified with its dictified form, hence deserialize_schemdraw_elements is the identity on the model and
   serialize_schemdraw_element only replaces what it cannot write (complex, None, unknown objects) by None.
   NOT modelled: segments, params, anchors, transform, absdrop (third-party drawing state, restored verbatim by
   attribute assignment and never read by the translators); the JSON text layer (json.dumps/loads of floats, and
   dump_load's complex <-> {'real','imag'} wrapping, C17); the sign guards of components.py (ValueError for R < 0, ...:
   they fire equally before and after a round trip); Circuit.__post_init__.
   Outside the modelled domain -> [Err EOther]; UnknownTranslator -> [Err EUnknownComponent]; a missing constructor
   argument -> [Err ETypeError]; a missing attribute -> [Err EAttribute]. *)
From Coq Require Import List Bool NArith ZArith String.
From CC Require Import Theory.Field Theory.Complex Model.Network Model.Circuit Model.Loaders.
Import ListNotations.

(* ---------- key and type strings ---------- *)
Definition q_R : label := Eval compute in lbl "R".
Definition q_G : label := Eval compute in lbl "G".
Definition q_C : label := Eval compute in lbl "C".
Definition q_L : label := Eval compute in lbl "L".
Definition q_Z : label := Eval compute in lbl "Z".
Definition q_Y : label := Eval compute in lbl "Y".
Definition q_X : label := Eval compute in lbl "X".
Definition q_B : label := Eval compute in lbl "B".
Definition q_V : label := Eval compute in lbl "V".
Definition q_I : label := Eval compute in lbl "I".
Definition q_w : label := Eval compute in lbl "w".
Definition q_phi : label := Eval compute in lbl "phi".
Definition q_deg : label := Eval compute in lbl "deg".
Definition q_sin : label := Eval compute in lbl "sin".
Definition q_V_real : label := Eval compute in lbl "V_real".
Definition q_V_imag : label := Eval compute in lbl "V_imag".
Definition q_I_real : label := Eval compute in lbl "I_real".
Definition q_I_imag : label := Eval compute in lbl "I_imag".
Definition q_wavetype : label := Eval compute in lbl "wavetype".
Definition q_rect : label := Eval compute in lbl "rect".
Definition q_name : label := Eval compute in lbl "name".
Definition q_reverse : label := Eval compute in lbl "reverse".
Definition q_type : label := Eval compute in lbl "type".
Definition q_values : label := Eval compute in lbl "values".
Definition q_value : label := Eval compute in lbl "value".
Definition q_id : label := Eval compute in lbl "id".
Definition q_nodes : label := Eval compute in lbl "nodes".
Definition q_userparams : label := Eval compute in lbl "_userparams".
Definition q_absanchors : label := Eval compute in lbl "absanchors".
Definition q_start : label := Eval compute in lbl "start".
Definition q_end : label := Eval compute in lbl "end".
Definition q_circuit : label := Eval compute in lbl "circuit".
Definition q_components : label := Eval compute in lbl "components".
Definition q_simple_circuit : label := Eval compute in lbl "simple_circuit".
Definition q_direction : label := Eval compute in lbl "direction".
Definition q_length : label := Eval compute in lbl "length".
Definition q_place_after : label := Eval compute in lbl "place_after".
Definition q_zero : label := Eval compute in lbl "0".

Definition t_resistor : label := Eval compute in lbl "resistor".
Definition t_conductance : label := Eval compute in lbl "conductance".
Definition t_impedance : label := Eval compute in lbl "impedance".
Definition t_admittance : label := Eval compute in lbl "admittance".
Definition t_capacitor : label := Eval compute in lbl "capacitor".
Definition t_inductance : label := Eval compute in lbl "inductance".
Definition t_voltage_source : label := Eval compute in lbl "voltage_source".
Definition t_current_source : label := Eval compute in lbl "current_source".
Definition t_ac_voltage_source : label := Eval compute in lbl "ac_voltage_source".
Definition t_ac_current_source : label := Eval compute in lbl "ac_current_source".
Definition t_rect_voltage_source : label := Eval compute in lbl "rect_voltage_source".
Definition t_rect_current_source : label := Eval compute in lbl "rect_current_source".
Definition t_complex_voltage_source : label := Eval compute in lbl "complex_voltage_source".
Definition t_complex_current_source : label := Eval compute in lbl "complex_current_source".
Definition t_ground : label := Eval compute in lbl "ground".
Definition t_line : label := Eval compute in lbl "line".
Definition t_dc_voltage_source : label := Eval compute in lbl "dc_voltage_source".
Definition t_dc_current_source : label := Eval compute in lbl "dc_current_source".
Definition t_periodic_voltage_source : label := Eval compute in lbl "periodic_voltage_source".
Definition t_periodic_current_source : label := Eval compute in lbl "periodic_current_source".

(* ---------- classes ---------- *)
Inductive scls :=
| CResistor | CConductance | CImpedance | CAdmittance | CCapacitor | CInductance
| CVoltageSource | CCurrentSource | CComplexVoltageSource | CComplexCurrentSource
| CACVoltageSource | CACCurrentSource | CRectVoltageSource | CRectCurrentSource
| CGround | CLine
| CElement                          (* simple_circuit_elements.Element: the generic fall-back of the loader *)
| COther (ty : option label).       (* any other class, with the value of its .type property (None: no such property,
                                       e.g. Lamp); tri_/saw_ sources, labeled_line, node, label_node, switch, real_*_source *)

(* the .type property *)
Definition cls_type (c : scls) : option label :=
  match c with
  | CResistor => Some t_resistor | CConductance => Some t_conductance | CImpedance => Some t_impedance
  | CAdmittance => Some t_admittance | CCapacitor => Some t_capacitor | CInductance => Some t_inductance
  | CVoltageSource => Some t_voltage_source | CCurrentSource => Some t_current_source
  | CComplexVoltageSource => Some t_complex_voltage_source | CComplexCurrentSource => Some t_complex_current_source
  | CACVoltageSource => Some t_ac_voltage_source | CACCurrentSource => Some t_ac_current_source
  | CRectVoltageSource => Some t_rect_voltage_source | CRectCurrentSource => Some t_rect_current_source
  | CGround => Some t_ground | CLine => Some t_line
  | CElement => None
  | COther t => t
  end.

(* simple_circuit_element_types (dump_load.py), in source order *)
Definition element_types : list (label * scls) :=
  [(t_voltage_source, CVoltageSource); (t_current_source, CCurrentSource);
   (t_ac_voltage_source, CACVoltageSource); (t_ac_current_source, CACCurrentSource);
   (t_rect_voltage_source, CRectVoltageSource); (t_rect_current_source, CRectCurrentSource);
   (t_complex_voltage_source, CComplexVoltageSource); (t_complex_current_source, CComplexCurrentSource);
   (t_resistor, CResistor); (t_conductance, CConductance); (t_impedance, CImpedance); (t_admittance, CAdmittance);
   (t_capacitor, CCapacitor); (t_inductance, CInductance); (t_ground, CGround); (t_line, CLine)].
Fixpoint tlook {A} (t : list (label * A)) (k : label) : option A :=
  match t with [] => None | (k', v) :: r => if label_eqb k' k then Some v else tlook r k end.

Section SaveLoad.
Variable R : fops.
Variable pi : R.                       (* np.pi / math.pi *)
Notation C := (Cx R).
Notation jv := (jval R).
Notation kwargs := (dict (jval R)).
Notation "'let*' x ':=' p 'in' q" := (bind p (fun x => q)) (at level 200, x pattern, p at level 100, q at level 200).

Definition point := (R * R)%type.
Definition two : R := fadd R (f1 R) (f1 R).
Definition halfpi : R := fdiv R pi two.
Definition rad (x : R) : R := deg2rad R pi x.            (* x*pi/180 *)
Definition jzero : jv := JNum (f0 R).

Record symbol := {
  s_cls : scls;
  s_name : label;                   (* _name *)
  s_reverse : bool;                 (* is_reverse *)
  s_attr : kwargs;                  (* the private attributes set by __init__: _R, _V, _w, _phi, _deg, _sin, ... *)
  s_user : kwargs;                  (* _userparams *)
  s_start : point; s_end : point    (* absanchors['start'], absanchors['end'] *)
}.
(* the .name property: Line answers '' *)
Definition pname (s : symbol) : label := match s_cls s with CLine => [] | _ => s_name s end.

(* ---------- dictionaries ---------- *)
(* d.update(v) *)
Definition update {A} (d : dict A) (v : dict A) : dict A := fold_left (fun d kv => dset d (fst kv) (snd kv)) v d.

(* ---------- Elements.py: the constructors ---------- *)
Definition arg (kw : kwargs) (k : label) : res jv :=
  match dget kw k with Some v => Ok v | None => Err ETypeError end.
Definition flag (kw : kwargs) (k : label) : res bool :=
  match dget kw k with None => Ok false | Some (JBool b) => Ok b | Some _ => Err EOther end.
Definition str_or (kw : kwargs) (k : label) (default : label) : res label :=
  match dget kw k with None => Ok default | Some (JStr s) => Ok s | Some _ => Err EOther end.
Definition str_req (kw : kwargs) (k : label) : res label :=
  match dget kw k with None => Err ETypeError | Some (JStr s) => Ok s | Some _ => Err EOther end.
(* -V *)
Definition jneg (v : jv) : res jv :=
  match v with
  | JNum x => Ok (JNum (fopp R x)) | JCplx z => Ok (JCplx (fopp C z)) | JBool b => Ok (JNum (fopp R (b2r R b)))
  | _ => Err ETypeError
  end.
Definition neg_if (b : bool) (v : jv) : res jv := if b then jneg v else Ok v.
(* phi - np.pi/2 *)
Definition jshift (v : jv) : res jv := match v with JNum x => Ok (JNum (fsub R x halfpi)) | _ => Err EOther end.

(* schemdraw's own `reverse` parameter: the voltage sources pass `not reverse` *)
Definition sd_reverse (c : scls) (rev : bool) : option bool :=
  match c with
  | CVoltageSource | CComplexVoltageSource | CACVoltageSource | CRectVoltageSource => Some (negb rev)
  | CGround | CLine | CElement | COther _ => None
  | _ => Some rev
  end.
Definition not_null (v : jv) : bool := match v with JNull => false | _ => true end.
Definition q_show_name : label := Eval compute in lbl "show_name".
Definition q_show_value : label := Eval compute in lbl "show_value".
Definition q_precision : label := Eval compute in lbl "precision".
Definition q_label_offset : label := Eval compute in lbl "label_offset".
(* the named parameters of each __init__ (Elements.py): they are consumed by the class; every other keyword argument is handed
   on to schemdraw's Element.__init__ *)
Definition ctor_params (c : scls) : list label :=
  match c with
  | CVoltageSource | CComplexVoltageSource => [q_name; q_V; q_reverse; q_precision]
  | CCurrentSource | CComplexCurrentSource => [q_I; q_name; q_reverse; q_precision]
  | CResistor => [q_R; q_name; q_show_name; q_show_value; q_reverse]
  | CConductance => [q_G; q_name; q_show_name; q_show_value; q_reverse]
  | CImpedance => [q_Z; q_name; q_show_name; q_show_value; q_precision; q_reverse]
  | CAdmittance => [q_Y; q_name; q_show_name; q_show_value; q_precision; q_reverse]
  | CACVoltageSource => [q_V; q_w; q_phi; q_name; q_show_name; q_show_value; q_sin; q_deg; q_reverse; q_precision]
  | CACCurrentSource => [q_I; q_w; q_phi; q_name; q_show_name; q_show_value; q_sin; q_deg; q_reverse; q_precision]
  | CRectVoltageSource => [q_V; q_w; q_phi; q_name; q_sin; q_deg; q_reverse]
  | CRectCurrentSource => [q_I; q_w; q_phi; q_name; q_sin; q_deg; q_reverse]
  | CCapacitor => [q_C; q_name; q_show_name; q_show_value; q_reverse]
  | CInductance => [q_L; q_name; q_show_name; q_show_value; q_label_offset; q_reverse]
  | CGround | CLine | CElement | COther _ => []
  end.
(* Element.__new__ records the keyword arguments that are not None; Element.__init__ updates with what reaches it: the
   `reverse` the class passes on, then every keyword argument the class does not consume (a None among them IS recorded);
   Ground.__init__(name='0') passes its name on, given or not *)
Definition mk_user (c : scls) (kw : kwargs) (rev : bool) (nm : label) : kwargs :=
  let u := filter (fun kv => not_null (snd kv)) kw in
  let u1 := match sd_reverse c rev with Some b => dset u q_reverse (JBool b) | None => u end in
  let u2 := fold_left (fun d kv => if not_null (snd kv) || lmem (fst kv) (ctor_params c) then d else dset d (fst kv) JNull) kw u1 in
  match c with CGround => dset u2 q_name (JStr nm) | _ => u2 end.

Definition src_attrs (kw : kwargs) (rev : bool) (amp : label) (shift : bool) : res kwargs :=
  let* v := arg kw amp in let* w := arg kw q_w in let* ph := arg kw q_phi in
  let* sn := flag kw q_sin in let* dg := flag kw q_deg in
  let* v' := neg_if rev v in
  let* ph' := (if shift && sn then jshift ph else Ok ph) in
  Ok [(amp, v'); (q_w, w); (q_phi, ph'); (q_deg, JBool dg); (q_sin, JBool sn)].
Definition one_attr (kw : kwargs) (k : label) : res kwargs := let* v := arg kw k in Ok [(k, v)].
Definition amp_attr (kw : kwargs) (rev : bool) (k : label) : res kwargs :=
  let* v := arg kw k in let* v' := neg_if rev v in Ok [(k, v')].

Definition attrs_of (c : scls) (kw : kwargs) (rev : bool) : res kwargs :=
  match c with
  | CResistor => one_attr kw q_R | CConductance => one_attr kw q_G | CCapacitor => one_attr kw q_C
  | CInductance => one_attr kw q_L | CImpedance => one_attr kw q_Z | CAdmittance => one_attr kw q_Y
  | CVoltageSource | CComplexVoltageSource => amp_attr kw rev q_V
  | CCurrentSource | CComplexCurrentSource => amp_attr kw rev q_I
  | CACVoltageSource => src_attrs kw rev q_V true            (* if self._sin: self._phi -= np.pi/2 *)
  | CACCurrentSource => src_attrs kw rev q_I true
  | CRectVoltageSource => src_attrs kw rev q_V false          (* the rectangular sources keep phi as given *)
  | CRectCurrentSource => src_attrs kw rev q_I false
  | CGround | CLine | CElement => Ok []
  | COther _ => Err EOther
  end.
Definition ctor_name (c : scls) (kw : kwargs) : res label :=
  match c with
  | CGround => str_or kw q_name q_zero           (* Ground(name='0') *)
  | CLine | CElement | COther _ => str_or kw q_name []
  | _ => str_req kw q_name                       (* name: str is a required keyword *)
  end.
Definition construct (c : scls) (kw : kwargs) (ps pe : point) : res symbol :=
  let* rev := flag kw q_reverse in
  let* nm := ctor_name c kw in
  let* at_ := attrs_of c kw rev in
  Ok {| s_cls := c; s_name := nm; s_reverse := rev; s_attr := at_; s_user := mk_user c kw rev nm; s_start := ps; s_end := pe |}.

(* ---------- CircuitComponentTranslators.py + components.py ---------- *)
Record tcomp := { t_type : label; t_id : label; t_nodes : list point; t_vals : kwargs }.

Definition getattr (s : symbol) (k : label) : res jv :=
  match dget (s_attr s) k with Some v => Ok v | None => Err EAttribute end.
Definition num (v : jv) : res R := match v with JNum x => Ok x | _ => Err EOther end.
Definition cplx (v : jv) : res C := match as_num R v with Some n => Ok (num_c R n) | None => Err EOther end.
Definition truth (v : jv) : res bool := match v with JBool b => Ok b | _ => Err EOther end.
Definition plain_nodes (s : symbol) : list point := [s_start s; s_end s].
(* (nodes[0], nodes[1]) if not element.is_reverse else (nodes[1], nodes[0]) *)
Definition src_nodes (s : symbol) : list point := if s_reverse s then [s_end s; s_start s] else [s_start s; s_end s].
Definition sgn (s : symbol) (x : R) : R := if s_reverse s then fopp R x else x.
Definition sgnc (s : symbol) (z : C) : C := if s_reverse s then fopp C z else z.
Definition mk (ty : label) (s : symbol) (nodes : list point) (vals : kwargs) : res (option tcomp) :=
  Ok (Some {| t_type := ty; t_id := s_name s; t_nodes := nodes; t_vals := vals |}).
Definition passive (s : symbol) (ty k : label) : res (option tcomp) :=
  let* v := getattr s k in mk ty s (plain_nodes s) [(k, v)].
Definition phase_of (s : symbol) : res R :=
  let* ph := getattr s q_phi in let* p := num ph in let* dg := getattr s q_deg in let* d := truth dg in
  Ok (if d then rad p else p).

Definition translate (s : symbol) : res (option tcomp) :=
  match s_cls s with
  | CResistor => passive s t_resistor q_R
  | CConductance => passive s t_conductance q_G
  | CCapacitor => passive s t_capacitor q_C
  | CInductance => passive s t_inductance q_L
  | CImpedance => let* z := getattr s q_Z in let* c := cplx z in
                  mk t_impedance s (plain_nodes s) [(q_R, JNum (fst c)); (q_X, JNum (snd c))]
  | CAdmittance => Err EUnknownComponent          (* no entry in circuit_translator_map: UnknownTranslator *)
  | CVoltageSource => let* v := getattr s q_V in let* c := cplx v in
                      mk t_dc_voltage_source s (src_nodes s) [(q_V, JNum (sgn s (fst c))); (q_R, jzero); (q_w, jzero); (q_phi, jzero)]
  | CCurrentSource => let* v := getattr s q_I in let* c := cplx v in
                      mk t_dc_current_source s (src_nodes s) [(q_I, JNum (sgn s (fst c))); (q_G, jzero); (q_w, jzero); (q_phi, jzero)]
  | CComplexVoltageSource => let* v := getattr s q_V in let* c := cplx v in let z := sgnc s c in
                      mk t_complex_voltage_source s (src_nodes s)
                         [(q_V_real, JNum (fst z)); (q_V_imag, JNum (snd z)); (q_R, jzero); (q_X, jzero)]
  | CComplexCurrentSource => let* v := getattr s q_I in let* c := cplx v in let z := sgnc s c in
                      mk t_complex_current_source s (src_nodes s)
                         [(q_I_real, JNum (fst z)); (q_I_imag, JNum (snd z)); (q_G, jzero); (q_B, jzero)]
  | CACVoltageSource => let* v := getattr s q_V in let* x := num v in let* w := getattr s q_w in let* ph := phase_of s in
                      mk t_ac_voltage_source s (src_nodes s) [(q_V, JNum (sgn s x)); (q_R, jzero); (q_w, w); (q_phi, JNum ph)]
  | CACCurrentSource => let* v := getattr s q_I in let* x := num v in let* w := getattr s q_w in let* ph := phase_of s in
                      mk t_ac_current_source s (src_nodes s) [(q_I, JNum (sgn s x)); (q_G, jzero); (q_w, w); (q_phi, JNum ph)]
  | CRectVoltageSource => let* v := getattr s q_V in let* x := num v in let* w := getattr s q_w in let* ph := phase_of s in
                      mk t_periodic_voltage_source s (src_nodes s)
                         [(q_wavetype, JStr q_rect); (q_V, JNum (sgn s x)); (q_w, w); (q_phi, JNum ph); (q_R, jzero)]
  | CRectCurrentSource => let* v := getattr s q_I in let* x := num v in let* w := getattr s q_w in let* ph := phase_of s in
                      mk t_periodic_current_source s (src_nodes s)
                         [(q_wavetype, JStr q_rect); (q_I, JNum (sgn s x)); (q_w, w); (q_phi, JNum ph); (q_G, jzero)]
  | CGround => mk t_ground s [s_start s] []
  | CLine | CElement => Ok None                   (* none_translator *)
  | COther _ => Err EOther                        (* classes outside this model *)
  end.

(* circuit_translator: the components of the drawing, in drawing order *)
Fixpoint components (d : list symbol) : res (list tcomp) :=
  match d with
  | [] => Ok []
  | s :: r => let* c := translate s in let* cs := components r in
              Ok (match c with Some x => x :: cs | None => cs end)
  end.

(* ---------- dump_load.py: save ---------- *)
(* serialize_schemdraw_element on the modelled values *)
Fixpoint ser (v : jv) : jv :=
  match v with
  | JCplx _ => JNull
  | JList l => JList (map ser l)
  | JDict l => JDict (map (fun kv => let '(k, x) := kv in (k, ser x)) l)
  | _ => v
  end.
Definition ser_dict (d : kwargs) : kwargs := map (fun kv => let '(k, x) := kv in (k, ser x)) d.
Definition jpoint (p : point) : jv := JList [JNum (fst p); JNum (snd p)].
Definition jopt (o : option label) : jv := match o with Some s => JStr s | None => JNull end.

(* dictify_element *)
Definition save_symbol (s : symbol) : jv :=
  JDict [(q_type, jopt (cls_type (s_cls s))); (q_name, JStr (pname s)); (q_reverse, JBool (s_reverse s));
         (q_values, JDict [(q_userparams, JDict (ser_dict (s_user s)));
                           (q_absanchors, JDict [(q_start, jpoint (s_start s)); (q_end, jpoint (s_end s))])])].
(* asdict(component); the node names are replaced by the terminal points (the loader does not read them) *)
Definition save_comp (c : tcomp) : jv :=
  JDict [(q_type, JStr (t_type c)); (q_id, JStr (t_id c)); (q_nodes, JList (map jpoint (t_nodes c)));
         (q_value, JDict (t_vals c))].
(* dictify_all *)
Definition save (d : list symbol) : res jv :=
  let* cs := components d in
  Ok (JDict [(q_circuit, JDict [(q_components, JList (map save_comp cs))]);
             (q_simple_circuit, JList (map save_symbol d))]).

(* ---------- dump_load.py: load ---------- *)
Definition jfield (v : jv) (k : label) : res jv :=
  match v with
  | JDict d => match dget d k with Some x => Ok x | None => Err EKeyError end
  | _ => Err ETypeError
  end.
Definition as_dict (v : jv) : res kwargs := match v with JDict d => Ok d | _ => Err EOther end.
Definition as_list (v : jv) : res (list jv) := match v with JList l => Ok l | _ => Err EOther end.
Definition as_str (v : jv) : res label := match v with JStr s => Ok s | _ => Err EOther end.
Definition as_point (v : jv) : res point := match v with JList [JNum x; JNum y] => Ok (x, y) | _ => Err EOther end.

(* combine_to_complex((re, im), z, kv): kv.update({z: complex(kv.pop(re, 0), kv.pop(im, 0))}) *)
Definition combine (re im z : label) (kw : kwargs) : res kwargs :=
  let a := match dget kw re with Some v => v | None => jzero end in
  let b := match dget kw im with Some v => v | None => jzero end in
  match as_num R a, as_num R b with
  | Some x, Some y => Ok (dset (ddel (ddel kw re) im) z (JCplx (py_complex R x y)))
  | _, _ => Err ETypeError
  end.
(* the lambdas of simple_circuit_element_types *)
Definition pre_ctor (c : scls) (kw : kwargs) : res kwargs :=
  match c with
  | CComplexVoltageSource => combine q_V_real q_V_imag q_V kw
  | CComplexCurrentSource => combine q_I_real q_I_imag q_I kw
  | CImpedance => combine q_R q_X q_Z kw
  | CAdmittance => combine q_G q_B q_Y kw
  | _ => Ok kw
  end.
(* kwargs.update({flag: False for flag in ('deg', 'sin') if flag in kwargs}) *)
Definition clear_flag (kw : kwargs) (f : label) : kwargs := if dhas kw f then dset kw f (JBool false) else kw.
Definition clear_flags (kw : kwargs) : kwargs := clear_flag (clear_flag kw q_deg) q_sin.

(* {c['id']: c['value'] for c in schematic_dict['circuit']['components']} *)
Definition read_comp (c : jv) : res (label * kwargs) :=
  let* i := jfield c q_id in let* id := as_str i in let* v := jfield c q_value in let* vals := as_dict v in Ok (id, vals).
Definition circuit_dict (doc : jv) : res (dict kwargs) :=
  let* ci := jfield doc q_circuit in let* cs := jfield ci q_components in let* l := as_list cs in
  let* pairs := mapR read_comp l in Ok (update [] pairs).

(* undictify_element; [fixed] = true: the code of today (4ff892f), false: before it (the flags are left as they were) *)
Definition load_symbol (fixed : bool) (cd : dict kwargs) (e : jv) : res symbol :=
  let* vals := jfield e q_values in
  let* up := jfield vals q_userparams in let* u := as_dict up in
  let* nmv := jfield e q_name in let* nm := as_str nmv in
  let* rv := jfield e q_reverse in
  let kw2 := dset (dset u q_name nmv) q_reverse rv in
  let kw3 := match dget cd nm with
             | Some cv => let k := update kw2 cv in if fixed && dhas cv q_phi then clear_flags k else k
             | None => kw2
             end in
  let* ty := jfield e q_type in
  let c := match ty with
           | JStr t => match tlook element_types t with Some c => c | None => CElement end
           | _ => CElement
           end in
  let* kw4 := pre_ctor c kw3 in
  let* an := jfield vals q_absanchors in
  let* ps := (let* p := jfield an q_start in as_point p) in
  let* pe := (let* p := jfield an q_end in as_point p) in
  construct c kw4 ps pe.

(* undictify_schematic *)
Definition load_gen (fixed : bool) (doc : jv) : res (list symbol) :=
  let* cd := circuit_dict doc in
  let* sc := jfield doc q_simple_circuit in let* l := as_list sc in
  mapR (load_symbol fixed cd) l.
Definition load : jv -> res (list symbol) := load_gen true.
Definition load_before_fix : jv -> res (list symbol) := load_gen false.

(* one save / load cycle, and n of them *)
Definition cycle (d : list symbol) : res (list symbol) := let* doc := save d in load doc.
Fixpoint cycles (n : nat) (d : list symbol) : res (list symbol) :=
  match n with O => Ok d | S k => let* d' := cycle d in cycles k d' end.

(* what the property compares *)
Record view := { v_cls : scls; v_name : label; v_reverse : bool; v_start : point; v_end : point; v_comp : res (option tcomp) }.
Definition view_of (s : symbol) : view :=
  {| v_cls := s_cls s; v_name := pname s; v_reverse := s_reverse s; v_start := s_start s; v_end := s_end s;
     v_comp := translate s |}.

(* ================================================================================================ *)
(* declarative element lists (SimpleSimulation/schematic.py) and the programmatic construction        *)
(* ================================================================================================ *)
Inductive direction := DRight | DLeft | DUp | DDown.
Definition dir_vec (d : direction) : R * R :=
  match d with
  | DRight => (f1 R, f0 R) | DLeft => (fopp R (f1 R), f0 R) | DUp => (f0 R, f1 R) | DDown => (f0 R, fopp R (f1 R))
  end.
(* the grid semantics of schemdraw placement: end = start + len * dir; an element without direction is a one-terminal
   symbol here (ground, node): end = start.  (A two-terminal element without direction continues in the drawing's
   current direction with the drawing's unit length: not modelled.) *)
Definition move (p : point) (d : option direction) (len : R) : point :=
  match d with
  | Some d => (fadd R (fst p) (fmul R len (fst (dir_vec d))), fadd R (snd p) (fmul R len (snd (dir_vec d))))
  | None => p
  end.

(* a placed element: class, constructor keyword arguments, terminal points *)
Record placed := { pl_cls : scls; pl_kw : kwargs; pl_start : point; pl_end : point }.
(* the .name property of an object of class c built with keyword arguments kw *)
Definition kw_name (c : scls) (kw : kwargs) : label :=
  match c with CLine => [] | _ => match dget kw q_name with Some (JStr s) => s | _ => [] end end.
Definition pl_name (p : placed) : label := kw_name (pl_cls p) (pl_kw p).

(* one element of a description *)
Record delem := {
  e_type : label;                   (* 'type' *)
  e_vals : kwargs;                  (* every other entry except direction / length / place_after: name, reverse, values *)
  e_dir : option direction;         (* 'direction' in right/left/up/down; anything else: None *)
  e_len : option R;                 (* 'length' (default 1) *)
  e_after : option label            (* 'place_after' (None or absent: None) *)
}.
Definition t_lamp : label := Eval compute in lbl "lamp".
Definition t_node : label := Eval compute in lbl "node".
Definition t_labeled_line : label := Eval compute in lbl "labeled_line".
(* element_handlers: type -> class *)
Definition element_handlers (ty : label) (vals : kwargs) : option scls :=
  tlook [(t_resistor, CResistor); (t_conductance, CConductance); (t_impedance, CImpedance); (t_admittance, CAdmittance);
         (t_capacitor, CCapacitor); (t_inductance, CInductance);
         (t_line, if dhas vals q_name then COther (Some t_labeled_line) else CLine);
         (t_node, COther (Some t_node)); (t_lamp, COther None); (t_ground, CGround);
         (t_voltage_source, CVoltageSource); (t_ac_voltage_source, CACVoltageSource);
         (t_complex_voltage_source, CComplexVoltageSource); (t_current_source, CCurrentSource);
         (t_ac_current_source, CACCurrentSource); (t_complex_current_source, CComplexCurrentSource)] ty.
(* element_factory(cls, name='', reverse=False, **kwargs): the keyword arguments handed to the class *)
Definition with_defaults (kw : kwargs) : kwargs :=
  let kw1 := if dhas kw q_name then kw else dset kw q_name (JStr []) in
  if dhas kw1 q_reverse then kw1 else dset kw1 q_reverse (JBool false).
(* the description entry itself is passed as **kwargs: type, direction, length, place_after travel along *)
Definition jdir (d : direction) : jv :=
  JStr (match d with DRight => lbl "right" | DLeft => lbl "left" | DUp => lbl "up" | DDown => lbl "down" end).
Definition entry_dict (e : delem) : kwargs :=
  (q_type, JStr (e_type e)) :: e_vals e
  ++ (match e_dir e with Some d => [(q_direction, jdir d)] | None => [] end)
  ++ (match e_len e with Some l => [(q_length, JNum l)] | None => [] end)
  ++ (match e_after e with Some a => [(q_place_after, JStr a)] | None => [] end).
Definition layout_keys : list label := [q_type; q_direction; q_length; q_place_after].
Definition strip_layout (kw : kwargs) : kwargs := filter (fun kv => negb (lmem (fst kv) layout_keys)) kw.

(* get_placed_element: schematic.elements[[se.name for se in schematic.elements].index(label)] — first match *)
Fixpoint find_placed (done : list placed) (name : label) : option placed :=
  match done with [] => None | p :: r => if label_eqb (pl_name p) name then Some p else find_placed r name end.
(* the drawing's current position: the end of the element added last *)
Definition last_end (done : list placed) (origin : point) : point := last (map pl_end done) origin.

(* fill: elements are appended in order; [done] is in drawing order *)
Definition place_decl (unit_ : R) (origin : point) (done : list placed) (e : delem) : res placed :=
  match element_handlers (e_type e) (e_vals e) with
  | None => Err EUnknownComponent                                   (* errors.UnknownCircuitElement *)
  | Some c =>
      let len := fmul R (match e_len e with Some l => l | None => f1 R end) unit_ in
      let* start := match e_after e with
                    | None => Ok (last_end done origin)
                    | Some a => match find_placed done a with Some p => Ok (pl_end p) | None => Err EValue end
                    end in
      Ok {| pl_cls := c; pl_kw := with_defaults (entry_dict e); pl_start := start; pl_end := move start (e_dir e) len |}
  end.
Fixpoint build_decl (unit_ : R) (origin : point) (done : list placed) (es : list delem) : res (list placed) :=
  match es with
  | [] => Ok done
  | e :: r => let* p := place_decl unit_ origin done e in build_decl unit_ origin (done ++ [p]) r
  end.

(* the programmatic construction:  d += Cls( ** kw).<direction>(length).at(obj.end)  where obj is a Python variable
   bound to an element created earlier: here its index in the drawing *)
Record pstep := {
  p_cls : scls; p_kw : kwargs;
  p_dir : option direction; p_len : R;          (* absolute length *)
  p_at : option nat                             (* .at(elements[i].end), or the drawing's current position *)
}.
Definition place_prog (origin : point) (done : list placed) (s : pstep) : res placed :=
  let* start := match p_at s with
                | None => Ok (last_end done origin)
                | Some i => match nth_error done i with Some p => Ok (pl_end p) | None => Err EIndex end
                end in
  Ok {| pl_cls := p_cls s; pl_kw := p_kw s; pl_start := start; pl_end := move start (p_dir s) (p_len s) |}.
Fixpoint build_prog (origin : point) (done : list placed) (ss : list pstep) : res (list placed) :=
  match ss with
  | [] => Ok done
  | s :: r => let* p := place_prog origin done s in build_prog origin (done ++ [p]) r
  end.

(* the equivalent program of a description: same class, the element's own entries with the factory defaults, the
   length multiplied by the unit, place_after resolved to the first element of that name ([names]: the names of the
   elements already in the drawing, in order) *)
Fixpoint index_name (names : list label) (name : label) : option nat :=
  match names with
  | [] => None
  | x :: r => if label_eqb x name then Some O else match index_name r name with Some i => Some (S i) | None => None end
  end.
Definition equivalent_step (unit_ : R) (names : list label) (e : delem) : res pstep :=
  match element_handlers (e_type e) (e_vals e) with
  | None => Err EUnknownComponent
  | Some c =>
      let* at_ := match e_after e with
                  | None => Ok None
                  | Some a => match index_name names a with Some i => Ok (Some i) | None => Err EValue end
                  end in
      Ok {| p_cls := c; p_kw := with_defaults (e_vals e); p_dir := e_dir e;
            p_len := fmul R (match e_len e with Some l => l | None => f1 R end) unit_; p_at := at_ |}
  end.
Definition entry_name (e : delem) : label :=
  match element_handlers (e_type e) (e_vals e) with Some c => kw_name c (with_defaults (e_vals e)) | None => [] end.
Fixpoint equivalent_program (unit_ : R) (names : list label) (es : list delem) : res (list pstep) :=
  match es with
  | [] => Ok []
  | e :: r => let* s := equivalent_step unit_ names e in
              let* ss := equivalent_program unit_ (names ++ [entry_name e]) r in Ok (s :: ss)
  end.

(* what is compared: class, name, element values (the attributes the class computes), terminal points *)
Record pview := { pv_cls : scls; pv_name : label; pv_reverse : res bool; pv_attr : res kwargs; pv_start : point; pv_end : point }.
Definition pview_of (p : placed) : pview :=
  {| pv_cls := pl_cls p; pv_name := pl_name p; pv_reverse := flag (pl_kw p) q_reverse;
     pv_attr := (let* rev := flag (pl_kw p) q_reverse in attrs_of (pl_cls p) (pl_kw p) rev);
     pv_start := pl_start p; pv_end := pl_end p |}.
End SaveLoad.

Arguments s_cls {R}. Arguments s_name {R}. Arguments s_reverse {R}. Arguments s_attr {R}. Arguments s_user {R}.
Arguments s_start {R}. Arguments s_end {R}.
Arguments t_type {R}. Arguments t_id {R}. Arguments t_nodes {R}. Arguments t_vals {R}.
