(* Model/NetBranch.v — SimpleCircuit/NetworkBranchTranslators.py (hand-written; definitions only).
   1. the vocabulary Gen/NetBranchGen.v (tools/gen_netbranch.py) needs beyond Model/DrawingPrims.v:
        ntw.Branch(nodes[i], nodes[j], ntw_elm.g(K=v, ..., name=element.name))
                                           mk_gbranch n_i n_j "g" (s_name element) [("K", v); ...]
      with the values [sval] as expressions over the ARGUMENTS of the symbol's constructor (Model/DrawingPrims.v);
   2. the hand-written model of the table network_translator_map and of the functions it binds:
        net_translator_of, apply_net_translator, net_translate_symbol, net_translate_all, net_branches
      (compare translator_of / apply_translator / translate_symbol / translate_all / components of Model/Drawing.v);
   3. erase_branch: from a generated branch whose single value is closed (plus or minus one constructor argument) to the
      sign bookkeeping of the hand model; denote_branch: the branch of Model/Network.v once the arguments have values.

   What the code does, and does not do.  Unlike the circuit translators (CircuitComponentTranslators.py), the network
   translators NEVER look at element.is_reverse and NEVER swap the nodes: the branch always runs nodes[0] -> nodes[1]
   ('start' -> 'end').  The orientation of a reversed source reaches the network only through the sign the SYMBOL constructor
   stored (Elements.py: self._V = V if not reverse else -V; likewise I), and the voltage source translator hands over
   V = -element.V.  Hence, in terms of the value V / I given to the symbol constructor:
        VoltageSource   not reversed: voltage_source(V = -V)      reversed: voltage_source(V = +V)
        CurrentSource   not reversed: current_source(I = +I)      reversed: current_source(I = -I)
   RealCurrentSource / RealVoltageSource are bound to functions that call ntw_elm.linear_current_source /
   ntw_elm.linear_voltage_source, which Network/elements.py does not define: AttributeError, and since
   DiagramTranslator.__call__ only catches KeyError, network_translator fails with it. *)
From Coq Require Import String.
From Coq Require Import List Bool ZArith NArith Arith.
From CC Require Import Theory.Field Model.Network Model.Circuit Model.Drawing Model.DrawingPrims.
Import ListNotations.
Local Open Scope string_scope.

(* ------------------------------------------------------------------ 1. vocabulary of the generated file *)
Record gbranch := {
  gb_node1 : label; gb_node2 : label;  (* Branch.node1, Branch.node2 *)
  gb_ctor : label;                     (* the Network/elements.py constructor called *)
  gb_name : label;                     (* its name= *)
  gb_values : list (label * sval)      (* its other keyword arguments, in source order *)
}.
Definition mk_gbranch (n1 n2 ctor name : label) (values : list (label * sval)) : gbranch :=
  {| gb_node1 := n1; gb_node2 := n2; gb_ctor := ctor; gb_name := name; gb_values := values |}.

(* ------------------------------------------------------------------ 2. the hand model *)
(* the element constructors the translators reach *)
Inductive nkind := NKResistor | NKImpedance | NKCurrentSource | NKVoltageSource.
Definition all_nkinds : list nkind := [NKResistor; NKImpedance; NKCurrentSource; NKVoltageSource].
(* name of the constructor in Network/elements.py (also the type string it stores) *)
Definition nkind_name (k : nkind) : label :=
  match k with
  | NKResistor => lbl "resistor" | NKImpedance => lbl "impedance"
  | NKCurrentSource => lbl "current_source" | NKVoltageSource => lbl "voltage_source"
  end.
(* the keyword of that constructor that receives the symbol's value; it is also the name of the symbol's own constructor
   argument (and read-only property) the value comes from: Resistor(R=..).R -> resistor(R=..), ... *)
Definition nkind_key (k : nkind) : label :=
  match k with
  | NKResistor => lbl "R" | NKImpedance => lbl "Z" | NKCurrentSource => lbl "I" | NKVoltageSource => lbl "V"
  end.

Inductive ntranslator :=
| NBranch (k : nkind)     (* Branch(nodes[0], nodes[1], <k>(<key> = [-]element.<key>, name = element.name)) *)
| NMissing                (* the function calls a constructor that Network/elements.py does not have: AttributeError *)
| NNone.                  (* none_translator *)

Definition net_translator_of (c : N) : option ntranslator :=
  match c with
  | 1 => Some (NBranch NKResistor)          (* Resistor *)
  | 2 => Some (NBranch NKImpedance)         (* Impedance *)
  | 6 => Some (NBranch NKCurrentSource)     (* CurrentSource *)
  | 4 => Some (NBranch NKVoltageSource)     (* VoltageSource *)
  | 24 => Some NMissing                     (* RealCurrentSource: ntw_elm.linear_current_source *)
  | 25 => Some NMissing                     (* RealVoltageSource: ntw_elm.linear_voltage_source *)
  | 20 => Some NNone                        (* Line *)
  | 22 => Some NNone                        (* Node *)
  | 23 => Some NNone                        (* LabelNode *)
  | 19 => Some NNone                        (* Ground *)
  | _ => None                               (* KeyError -> UnknownTranslator *)
  end%N.

Record nbranch := {
  nb_kind : nkind; nb_name : label;
  nb_node1 : label; nb_node2 : label;
  nb_neg : bool   (* the value handed to the element constructor is MINUS the value given to the symbol constructor
                     (argument [nkind_key nb_kind] of the symbol named nb_name) *)
}.

(* sign between the symbol constructor's argument and the element constructor's:
   the symbol stores  x if not reverse else -x  for V and I; the voltage source translator negates once more *)
Definition net_neg (k : nkind) (reverse : bool) : bool :=
  match k with
  | NKVoltageSource => negb reverse
  | NKCurrentSource => reverse
  | NKResistor | NKImpedance => false
  end.

Definition apply_net_translator (t : ntranslator) (s : symbol) (a b : label) : res (option nbranch) :=
  match t with
  | NBranch k => Ok (Some {| nb_kind := k; nb_name := s_name s; nb_node1 := a; nb_node2 := b;
                             nb_neg := net_neg k (s_reverse s) |})
  | NMissing => Err EAttribute
  | NNone => Ok None
  end.

(* DiagramTranslator.__call__ with network_translator_map and an arbitrary labelling function: the table lookup and the
   node lookups sit inside `try: ... except KeyError: raise UnknownTranslator`; the AttributeError of a missing
   constructor passes through *)
Definition net_translate_symbol (idx : point -> option label) (s : symbol) : res (option nbranch) :=
  match net_translator_of (s_class s), idx (s_start s), idx (s_end s) with
  | Some t, Some a, Some b => apply_net_translator t s a b
  | _, _, _ => Err EUnknownComponent
  end.

Fixpoint net_translate_all (idx : point -> option label) (d : drawing) : res (list nbranch) :=
  match d with
  | [] => Ok []
  | s :: r => bind (net_translate_symbol idx s) (fun c =>
              bind (net_translate_all idx r) (fun cs => Ok (match c with Some x => x :: cs | None => cs end)))
  end.

(* what network_translator hands to Network(...): the branches in drawing order, then parser.ground_label
   (the list is built first: a translation error wins over MultipleGroundNodes) *)
Definition net_branches (d : drawing) (oa ou : list point) : res (list nbranch * label) :=
  bind (net_translate_all (get_node_index d oa ou) d) (fun bs =>
  bind (ground_label d oa ou) (fun g => Ok (bs, g))).

(* ------------------------------------------------------------------ 3. from generated branches to the hand model *)
Definition nkind_of_ctor (f : label) : option nkind :=
  find (fun k => label_eqb (nkind_name k) f) all_nkinds.
(* a closed value that is plus or minus ONE constructor argument: the argument and the number of sign flips (mod 2) *)
Fixpoint signed_arg (v : sval) : option (label * bool) :=
  match v with
  | SArg a => Some (a, false)
  | SNeg x => match signed_arg x with Some (a, n) => Some (a, negb n) | None => None end
  | _ => None
  end.
(* defined when the constructor is one of the four, its only keyword besides name= is the kind's key, and the value is
   plus or minus the symbol constructor's argument of the same name *)
Definition erase_branch (g : gbranch) : option nbranch :=
  match nkind_of_ctor (gb_ctor g), gb_values g with
  | Some k, [(key, v)] =>
      match signed_arg v with
      | Some (a, n) =>
          if label_eqb key (nkind_key k) && label_eqb a (nkind_key k)
          then Some {| nb_kind := k; nb_name := gb_name g; nb_node1 := gb_node1 g; nb_node2 := gb_node2 g; nb_neg := n |}
          else None
      | None => None
      end
  | _, _ => None
  end.
(* the canonical generated branch of a hand branch *)
Definition reify_branch (b : nbranch) : gbranch :=
  mk_gbranch (nb_node1 b) (nb_node2 b) (nkind_name (nb_kind b)) (nb_name b)
    [(nkind_key (nb_kind b), if nb_neg b then SNeg (SArg (nkind_key (nb_kind b))) else SArg (nkind_key (nb_kind b)))].

Definition erase_net (p : list gbranch * label) : list (option nbranch) * label := (map erase_branch (fst p), snd p).
Definition some_net (p : list nbranch * label) : list (option nbranch) * label := (map Some (fst p), snd p).

(* the branch of Model/Network.v, given the values of the symbols' constructor arguments: [val name key] is the argument
   [key] of the symbol called [name]; the second parameter of voltage_source / current_source takes its default 0 *)
Section Denote.
Variable K : fops.
Variable val : label -> label -> K.
Definition nb_value (b : nbranch) : K :=
  let x := val (nb_name b) (nkind_key (nb_kind b)) in if nb_neg b then fopp K x else x.
Definition denote_branch (b : nbranch) : branch K :=
  {| node1 := nb_node1 b; node2 := nb_node2 b;
     el := match nb_kind b with
           | NKResistor => resistor (nb_name b) (nb_value b)
           | NKImpedance => impedance (nb_name b) (nb_value b)
           | NKCurrentSource => current_source (nb_name b) (nb_value b) (f0 K)
           | NKVoltageSource => voltage_source (nb_name b) (nb_value b) (f0 K)
           end |}.
(* Network(branches, node_zero_label) *)
Definition denote_network (p : list nbranch * label) : network K :=
  {| branches := map denote_branch (fst p); zero := snd p |}.
End Denote.
