(* Model/CircuitWrappers.v — hand-written model of the circuit-level wrappers
     Circuit/impedance.py          open_circuit_impedance, element_impedance, open_circuit_dc_resistance, element_dc_resistance
     Circuit/state_space_model.py  state_space_model
   as the compositions that the C06 / C10 harness runs evaluate (harness/c06.py examine_circuit_sweep; harness/ssrun.py
   impl_model with Model/RunPort.v / Model/RunStateSpace.v): the hand-written [transform_circuit] of Model/Circuit.v, followed by
     * [open_circuit_impedance] / [element_impedance] of Model/Port.v on the network of each angular frequency of the sweep;
     * [state_space_model] of Model/StateSpace.v on the w = 0 network, with the capacitance / inductance dictionaries read off the
       component list (component id -> float(value['C']) of the capacitors, float(value['L']) of the inductances, in the
       order of the component list).
   A circuit is its component list [cs]; [wres] is the value of the default of transform_circuit's parameter w_resolution.
   The network of a circuit lives in C = Cx R, the component values in R: the dictionaries are embedded by [cre] (the
   state-space model is generic in its field and is used at C; on the real w = 0 network of an R/L/C/ideal-source circuit all
   its entries are real — np.real is the identity there, Model/MatrixPrims.v).
   Definitions only; Theory/WrappersGenThm.v proves the definitions regenerated from the source (Gen/WrappersGen.v) equal to
   these. *)
From Coq Require Import List Bool NArith ZArith String.
From CC Require Import Theory.Field Theory.Complex Model.Network Model.Transformers Model.Port Model.StateSpace Model.Circuit.
Import ListNotations.
Local Open Scope string_scope.

Section CircuitWrappers.
Variable R : fops.
Variable leb : R -> R -> bool.
Variable rnd : R -> Z.
Variable ofZ : Z -> R.
Variable wres : R.
Notation C := (Cx R).
Notation comp := (comp R).
Notation transform_circuit := (transform_circuit R leb rnd ofZ).

(* ---------- Circuit/impedance.py ---------- *)
(* one network per angular frequency, in the order of the sweep; the first exception ends the sweep *)
Definition circuit_open_circuit_impedance (cs : list comp) (n1 n2 : label) (ws : list R) : res (list (option C)) :=
  mapM (fun w => bind (transform_circuit cs w wres) (fun n => open_circuit_impedance n n1 n2)) ws.

Definition circuit_element_impedance (cs : list comp) (id : label) (ws : list R) : res (list (option C)) :=
  mapM (fun w => bind (transform_circuit cs w wres) (fun n => element_impedance n id)) ws.

(* .real of a port result: the real part; a non-finite result stays non-finite *)
Definition real_part (z : option C) : option R := match z with Some x => Some (fst x) | None => None end.

(* the w = 0 entry of the sweep, real part *)
Definition circuit_open_circuit_dc_resistance (cs : list comp) (n1 n2 : label) : res (option R) :=
  bind (transform_circuit cs (f0 R) wres) (fun n => bind (open_circuit_impedance n n1 n2) (fun z => Ok (real_part z))).

Definition circuit_element_dc_resistance (cs : list comp) (id : label) : res (option R) :=
  bind (transform_circuit cs (f0 R) wres) (fun n => bind (element_impedance n id) (fun z => Ok (real_part z))).

(* ---------- Circuit/state_space_model.py ---------- *)
(* {c.id: float(c.value[key]) for c in components if c.type == <type string of kind k>}: KeyError when the key is missing *)
Definition component_values (k : ckind) (key : string) (cs : list comp) : res (list (label * R)) :=
  mapM (fun c => bind (vget R c key) (fun v => Ok (cid c, v))) (filter (fun c => ckind_eqb (ck c) k) cs).

Definition embed_values (d : list (label * R)) : list (label * C) := map (fun kv => (fst kv, cre R (snd kv))) d.

(* the w = 0 network first, then the capacitor dictionary, then the inductance dictionary, then Model/StateSpace.v *)
Definition circuit_state_space_model (cs : list comp) (pots vids cids : list label) : res (ssm C) :=
  bind (transform_circuit cs (f0 R) wres) (fun n =>
  bind (component_values KCapacitor "C" cs) (fun cv =>
  bind (component_values KInductance "L" cs) (fun lv =>
  state_space_model C n (embed_values cv) (embed_values lv) pots vids cids))).

End CircuitWrappers.
