(* Extraction of the executable model.  Only ExtrOcamlBasic (bool, option, unit, list, prod, sumbool,
   sumor -> OCaml natives); Z, N, positive, nat stay the extracted inductive types.  No Extract Constant. *)
From Coq Require Import Extraction ExtrOcamlBasic.
From CC Require Import Model.Run.
Extraction Language OCaml.
Extraction "Extract/model.ml" dispatch.
