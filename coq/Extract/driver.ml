(* driver: each input line "fn t1 t2 ..." (hexadecimal integers, optional leading '-') -> one output
   line of hexadecimal integers.  Conversion walks the constructors of the extracted binary
   positive directly; no arithmetic is done outside the extracted code. *)
(* no `open Model`: the extracted code defines its own [string]; only these names are needed *)
type positive = Model.positive = XI of positive | XO of positive | XH
type z = Model.z = Z0 | Zpos of positive | Zneg of positive
let dispatch = Model.dispatch
let hexval c = match c with
  | '0'..'9' -> Char.code c - 48 | 'a'..'f' -> Char.code c - 87 | 'A'..'F' -> Char.code c - 55
  | _ -> failwith "bad hex digit"
(* bits, least significant first *)
let bits_of_hex (s : string) (start : int) : bool list =
  let acc = ref [] in
  for i = start to String.length s - 1 do
    let v = hexval s.[i] in
    (* most significant nibble first in the string: prepend so that final list is LSB first *)
    acc := ((v land 1) <> 0) :: ((v land 2) <> 0) :: ((v land 4) <> 0) :: ((v land 8) <> 0) :: !acc
  done;
  !acc
let rec strip_high (l : bool list) : bool list = (* drop trailing false (high zeros) *)
  match l with
  | [] -> []
  | b :: r -> (match strip_high r with [] -> if b then [true] else [] | r' -> b :: r')
let rec pos_of_bits (l : bool list) : positive =
  match l with
  | [true] -> XH
  | true :: r -> XI (pos_of_bits r)
  | false :: r -> XO (pos_of_bits r)
  | [] -> failwith "zero"
let z_of_string (s : string) : z =
  let neg = String.length s > 0 && s.[0] = '-' in
  match strip_high (bits_of_hex s (if neg then 1 else 0)) with
  | [] -> Z0
  | bits -> if neg then Zneg (pos_of_bits bits) else Zpos (pos_of_bits bits)
let rec bits_of_pos (p : positive) : bool list =
  match p with XH -> [true] | XO q -> false :: bits_of_pos q | XI q -> true :: bits_of_pos q
let hex_of_bits (l : bool list) : string =
  let rec nibbles l acc = match l with
    | [] -> acc
    | _ ->
      let take k l = (match l with b :: r -> ((if b then k else 0), r) | [] -> (0, [])) in
      let (a, l) = take 1 l in let (b, l) = take 2 l in let (c, l) = take 4 l in let (d, l) = take 8 l in
      nibbles l ("0123456789abcdef".[a + b + c + d] :: acc) in
  let cs = Array.of_list (nibbles l []) in
  String.init (Array.length cs) (fun i -> cs.(i))
let string_of_z (x : z) : string =
  match x with
  | Z0 -> "0"
  | Zpos p -> hex_of_bits (bits_of_pos p)
  | Zneg p -> "-" ^ hex_of_bits (bits_of_pos p)
let () =
  try
    while true do
      let line = input_line stdin in
      let toks = List.filter (fun s -> s <> "") (String.split_on_char ' ' line) in
      match toks with
      | [] -> print_newline ()
      | f :: rest ->
        let out = dispatch (z_of_string f) (List.map z_of_string rest) in
        print_string (String.concat " " (List.map string_of_z out)); print_newline ()
    done
  with End_of_file -> ()
