(* Theory/Mna.v — soundness of the modified nodal analysis of Model/Network.v:
   every solution vector of  mna_matrix n * x = mna_rhs n  yields a solution of the circuit equations
   (Theory/Spec.v), including KCL at the reference node.  Generic in the field. *)
From Coq Require Import List Bool NArith Arith Permutation Lia Field Ring.
From CC Require Import Theory.Field Theory.Labels Model.Network Theory.Spec.
Import ListNotations.

Section Mna.
Variable K : fops.
Hypothesis KOK : fops_ok K.
Add Field Kf : (Kth K KOK).
Notation "0" := (f0 K). Notation "1" := (f1 K).
Infix "+" := (fadd K). Infix "*" := (fmul K). Infix "-" := (fsub K). Notation "- x" := (fopp K x).
Infix "/" := (fdiv K).
Notation "x == y" := (feqb K x y) (at level 70).

Ltac feq x y := destruct (feqb_spec KOK x y).
Ltac leq a b := destruct (label_eqb_spec a b).

(* ---------------- element facts ---------------- *)
Lemma inv_nz (y : K) : y <> 0 -> 1 / y <> 0.
Proof. intros Hy H. apply (f1_neq_0 KOK). replace 1 with ((1 / y) * y) by (field; exact Hy).
  rewrite H. ring. Qed.

Lemma ivs_noY (e : elem K) : is_ideal_voltage_source e = negb (num (eY e)).
Proof. destruct e as [nm k z v|nm k y i]; unfold is_ideal_voltage_source; simpl.
  - feq z 0; reflexivity.
  - feq y 0; simpl; [reflexivity|]. feq (1 / y) 0; [exfalso; eapply inv_nz; eauto|reflexivity]. Qed.

Lemma has_finY_ivs (b : branch K) : has_finY b = negb (is_ideal_voltage_source (el b)).
Proof. unfold has_finY. rewrite ivs_noY, negb_involutive. reflexivity. Qed.

Lemma ivs_I0 (e : elem K) : is_ideal_voltage_source e = true -> opt0 (eI e) = 0.
Proof. rewrite ivs_noY. destruct e as [nm k z v|nm k y i]; simpl.
  - feq z 0; simpl; [reflexivity|discriminate].
  - discriminate. Qed.

Lemma not_cs_I0 (e : elem K) : is_current_source e = false -> opt0 (eI e) = 0.
Proof. unfold is_current_source, nz. destruct (eI e) as [i|]; simpl; [|reflexivity].
  feq i 0; simpl; [auto|discriminate]. Qed.

Lemma eY_finY (b : branch K) y : eY (el b) = Some y -> finY b = y.
Proof. unfold finY. intros ->. reflexivity. Qed.

(* ---------------- list facts ---------------- *)
Lemma nth_nil (k : nat) : nth k (@nil K) 0 = 0.
Proof. destruct k; reflexivity. Qed.

Lemma dot_nil_r (u : list K) : dot u [] = 0.
Proof. unfold dot. destruct u; reflexivity. Qed.

Lemma dot_map_lindex (f : label -> K) (ls : list label) (x : list K) : NoDup ls ->
  dot (map f ls) x = sumF (fun l => f l * nth (lindex ls l) x 0) ls.
Proof.
  revert x. induction ls as [|a ls IH]; intros x ND; [reflexivity|].
  inversion ND as [|? ? Ha ND']; subst.
  destruct x as [|x0 xs].
  - rewrite dot_nil_r. symmetry. apply (sumF_zero_in KOK). intros l _. rewrite nth_nil. ring.
  - unfold dot; simpl. rewrite label_eqb_refl. f_equal.
    fold (dot (map f ls) xs). rewrite IH by assumption.
    apply sumF_ext_in. intros l Hl. leq a l; [subst; contradiction|reflexivity].
Qed.

Lemma nth_firstn_lt {A} (l : list A) (k m : nat) d : k < m -> nth k (firstn m l) d = nth k l d.
Proof. revert k m. induction l as [|a l IH]; intros k m H.
  - rewrite firstn_nil. reflexivity.
  - destruct m; [lia|]. destruct k; simpl; [reflexivity|]. apply IH. lia. Qed.

Lemma nth_skipn {A} (l : list A) (k m : nat) d : nth k (skipn m l) d = nth (m + k) l d.
Proof. revert l. induction m as [|m IH]; intros l; simpl; [reflexivity|].
  destruct l; [destruct k; reflexivity|]. apply IH. Qed.

Lemma dot_two_maps (f g : label -> K) (ls vs : list label) (x : list K) :
  NoDup ls -> NoDup vs -> length ls <= length x ->
  dot (map f ls ++ map g vs) x =
  sumF (fun l => f l * nth (lindex ls l) x 0) ls + sumF (fun v => g v * nth (length ls + lindex vs v) x 0) vs.
Proof.
  intros N1 N2 HL.
  rewrite <- (firstn_skipn (length ls) x) at 1.
  rewrite (dot_app KOK) by (rewrite map_length, firstn_length; lia).
  rewrite !dot_map_lindex by assumption. f_equal.
  - apply sumF_ext_in. intros l Hl. rewrite nth_firstn_lt; [reflexivity|apply lindex_lt; assumption].
  - apply sumF_ext_in. intros l Hl. rewrite nth_skipn. reflexivity.
Qed.

Lemma app_inj_len {A} (a a' b b' : list A) : length a = length a' -> a ++ b = a' ++ b' -> a = a' /\ b = b'.
Proof. revert a'. induction a as [|x a IH]; intros [|y a'] HL H; simpl in *; try discriminate; [auto|].
  injection H as -> H. injection HL as HL. destruct (IH a' HL H) as [-> ->]. auto. Qed.

(* ---------------- the network under study ---------------- *)
Variable n : network K.
Hypothesis WF : wf n.
Notation bs := (branches n).
Notation ns := (node_index n).
Notation vss := (vs_index n).
Notation z0 := (zero n).

Definition sgn (i : label) (b : branch K) : K :=
  (if label_eqb (node1 b) i then 1 else 0) - (if label_eqb (node2 b) i then 1 else 0).

Lemma kcl_sum_sgn (j : branch K -> K) (i : label) (l : list (branch K)) :
  kcl_sum l j i = sumF (fun b => sgn i b * j b) l.
Proof. unfold kcl_sum. apply sumF_ext. intros b. unfold sgn.
  destruct (label_eqb (node1 b) i), (label_eqb (node2 b) i); ring. Qed.

Lemma ids_nodup : NoDup (map bid bs). Proof. exact (proj1 WF). Qed.
Lemma noloop : forall b, In b bs -> node1 b <> node2 b. Proof. exact (proj2 (proj2 WF)). Qed.

Definition endpoints : list label := map node1 bs ++ map node2 bs.

Lemma node_labels_In l : bs <> [] -> (In l (node_labels n) <-> In l endpoints).
Proof. unfold node_labels, endpoints. destruct (branches n) eqn:E; [congruence|]. intros _.
  rewrite lsort_In, ldedup_In. reflexivity. Qed.

Lemma node_labels_NoDup : NoDup (node_labels n).
Proof. unfold node_labels. destruct (branches n).
  - constructor; [simpl; tauto|constructor].
  - apply lsort_NoDup, ldedup_NoDup. Qed.

Lemma ns_NoDup : NoDup ns.
Proof. unfold node_index. apply filter_NoDup, lsort_NoDup, node_labels_NoDup. Qed.

Lemma ns_In l : In l ns <-> l <> z0 /\ In l endpoints.
Proof. unfold node_index. rewrite filter_In, lsort_In.
  destruct (branches n) eqn:E.
  - unfold node_labels, endpoints. rewrite E. simpl. leq l (zero n); simpl; intuition congruence.
  - rewrite node_labels_In by congruence.
    leq l (zero n); simpl; intuition congruence. Qed.

Lemma ns_not_zero : ~ In z0 ns.
Proof. rewrite ns_In. tauto. Qed.

Lemma endpoint_cases b : In b bs -> (node1 b = z0 \/ In (node1 b) ns) /\ (node2 b = z0 \/ In (node2 b) ns).
Proof. intros Hb. split.
  - leq (node1 b) (zero n); [auto|right]. apply ns_In. split; [assumption|]. apply in_or_app. left. apply in_map. exact Hb.
  - leq (node2 b) (zero n); [auto|right]. apply ns_In. split; [assumption|]. apply in_or_app. right. apply in_map. exact Hb.
Qed.

Lemma get_branch_None (l : list (branch K)) id : ~ In id (map bid l) -> get_branch l id = None.
Proof. induction l as [|a l IH]; simpl; [reflexivity|]. intros H.
  rewrite IH by tauto. leq (bid a) id; [tauto|reflexivity]. Qed.

Lemma get_branch_In (l : list (branch K)) b : NoDup (map bid l) -> In b l -> get_branch l (bid b) = Some b.
Proof. induction l as [|a l IH]; simpl; [tauto|]. intros ND [->|Hb].
  - inversion ND; subst. rewrite get_branch_None by assumption. rewrite label_eqb_refl. reflexivity.
  - inversion ND; subst. rewrite IH by assumption. reflexivity. Qed.

Lemma vss_perm : Permutation vss (map bid (filter (fun b => is_ideal_voltage_source (el b)) bs)).
Proof. apply lsort_perm. Qed.

Lemma vss_NoDup : NoDup vss.
Proof. apply lsort_NoDup. apply NoDup_map_filter. exact ids_nodup. Qed.

Lemma cs_perm : Permutation (cs_index n) (map bid (filter (fun b => is_current_source (el b)) bs)).
Proof. apply lsort_perm. Qed.

(* potentials and flows read off x *)
Notation phi x := (phi_of n x).
Notation flow x := (flow_of n x).

Lemma phi_zero x : phi x z0 = 0.
Proof. unfold phi_of. rewrite label_eqb_refl. reflexivity. Qed.

Lemma phi_ns x l : In l ns -> nth (lindex ns l) x 0 = phi x l.
Proof. intros H. unfold phi_of. leq l (zero n); [subst; exfalso; exact (ns_not_zero H)|reflexivity]. Qed.

(* Σ over the non-reference nodes of an indicator of a node that is the reference or in the list *)
Lemma sum_pick (x : list K) (m : label) (c : K) : (m = z0 \/ In m ns) ->
  sumF (fun l => if label_eqb l m then c * phi x l else 0) ns = c * phi x m.
Proof. intros H.
  rewrite (sumF_indicator KOK label_eqb label_eqb_spec (fun l => c * phi x l) m ns ns_NoDup).
  fold (lmem m ns). destruct (lmem m ns) eqn:E; [reflexivity|].
  apply lmem_false in E. destruct H as [->|H]; [|contradiction]. rewrite phi_zero. ring. Qed.

Lemma sgn_sum_phi (x : list K) b : In b bs ->
  sumF (fun l => sgn l b * phi x l) ns = bvolt (phi x) b.
Proof. intros Hb. destruct (endpoint_cases b Hb) as [E1 E2].
  rewrite (sumF_ext _ (fun l => (if label_eqb l (node1 b) then 1 * phi x l else 0)
                                + (if label_eqb l (node2 b) then (- (1)) * phi x l else 0))).
  2:{ intros l. unfold sgn. rewrite (label_eqb_sym (node1 b) l), (label_eqb_sym (node2 b) l).
      destruct (label_eqb l (node1 b)), (label_eqb l (node2 b)); ring. }
  rewrite (sumF_add KOK), !sum_pick by assumption. unfold bvolt. ring. Qed.

(* ---------------- the admittance block ---------------- *)
Definition yent_b (i l : label) (b : branch K) : K :=
  if label_eqb i l then (if connected i b then 1 else 0) else (if between i l b then - (1) else 0).

Lemma Yent_as_sum i l :
  Yent n i l = sumF (fun b => if has_finY b then finY b * yent_b i l b else 0) bs.
Proof. unfold Yent, y_branches, admittance_connected_to, admittance_between, yent_b.
  destruct (label_eqb i l).
  - rewrite (sumF_filter KOK), (sumF_filter KOK). apply sumF_ext. intros b.
    destruct (connected i b), (has_finY b); ring.
  - rewrite (sumF_filter KOK), (sumF_filter KOK), <- (sumF_opp KOK). apply sumF_ext. intros b.
    destruct (between i l b), (has_finY b); ring.
Qed.

Lemma between_simpl i l (b : branch K) : i <> l -> node1 b <> node2 b ->
  between i l b = (label_eqb (node1 b) i && label_eqb (node2 b) l) || (label_eqb (node1 b) l && label_eqb (node2 b) i).
Proof. intros H1 H2. unfold between.
  leq (node1 b) i; leq (node1 b) l; leq (node2 b) i; leq (node2 b) l; leq i (node1 b); leq i (node2 b);
  leq l (node1 b); leq l (node2 b); simpl; try reflexivity; congruence. Qed.

Lemma inner_sum (x : list K) i b : In b bs -> In i ns ->
  sumF (fun l => yent_b i l b * phi x l) ns = sgn i b * bvolt (phi x) b.
Proof. intros Hb Hi. pose proof (noloop b Hb) as NL. destruct (endpoint_cases b Hb) as [E1 E2].
  rewrite (sumF_ext_in _ (fun l => (if label_eqb l i then (if connected i b then 1 else 0) * phi x l else 0)
     + ((if label_eqb l (node2 b) then (if label_eqb (node1 b) i then - (1) else 0) * phi x l else 0)
     + (if label_eqb l (node1 b) then (if label_eqb (node2 b) i then - (1) else 0) * phi x l else 0)))).
  2:{ intros l Hl. unfold yent_b. rewrite (label_eqb_sym l i). leq i l.
      - subst l. rewrite (label_eqb_sym i (node2 b)), (label_eqb_sym i (node1 b)).
        leq (node1 b) i; leq (node2 b) i; try ring; congruence.
      - rewrite between_simpl by assumption. rewrite (label_eqb_sym l (node2 b)), (label_eqb_sym l (node1 b)).
        leq (node1 b) i; leq (node2 b) l; leq (node1 b) l; leq (node2 b) i; simpl; try ring; congruence. }
  rewrite !(sumF_add KOK), !sum_pick by auto.
  unfold sgn, connected, bvolt.
  leq (node1 b) i; leq (node2 b) i; simpl; subst; try ring. congruence.
Qed.

(* Σ_l Yent(i,l)·phi(l)  regrouped by branch *)
Lemma y_block (x : list K) i : In i ns ->
  sumF (fun l => Yent n i l * phi x l) ns
  = sumF (fun b => if has_finY b then sgn i b * (finY b * bvolt (phi x) b) else 0) bs.
Proof. intros Hi.
  rewrite (sumF_ext _ (fun l => sumF (fun b => (if has_finY b then finY b else 0) * (yent_b i l b * phi x l)) bs)).
  2:{ intros l. rewrite Yent_as_sum, <- (sumF_scal_r KOK). apply sumF_ext. intros b. destruct (has_finY b); ring. }
  rewrite (sumF_swap KOK). apply sumF_ext_in. intros b Hb.
  rewrite (sumF_scal_l KOK), inner_sum by assumption. destruct (has_finY b); ring. Qed.

Lemma Bent_sgn i b : In b bs -> Bent n i (bid b) = sgn i b.
Proof. intros Hb. unfold Bent. rewrite get_branch_In by (assumption || exact ids_nodup).
  unfold dir_of, sgn. pose proof (noloop b Hb). leq (node1 b) i; leq (node2 b) i; try ring. congruence. Qed.

Lemma Qent_sgn i b : In b bs -> Qent n i (bid b) = - sgn i b.
Proof. intros Hb. unfold Qent. rewrite get_branch_In by (assumption || exact ids_nodup).
  unfold sgn. pose proof (noloop b Hb). leq (node1 b) i; leq (node2 b) i; try ring. congruence. Qed.

Lemma branch_I_In b : In b bs -> branch_I n (bid b) = opt0 (eI (el b)).
Proof. intros Hb. unfold branch_I. rewrite get_branch_In by (assumption || exact ids_nodup). reflexivity. Qed.

Lemma branch_V_In b : In b bs -> branch_V n (bid b) = opt0 (eV (el b)).
Proof. intros Hb. unfold branch_V. rewrite get_branch_In by (assumption || exact ids_nodup). reflexivity. Qed.

(* the voltage-source block of a node row *)
Lemma b_block (x : list K) i :
  sumF (fun v => Bent n i v * nth (length ns + lindex vss v) x 0) vss
  = sumF (fun b => if is_ideal_voltage_source (el b) then sgn i b * flow x b else 0) bs.
Proof.
  rewrite (sumF_perm KOK _ _ _ vss_perm), sumF_map, (sumF_filter KOK).
  apply sumF_ext_in. intros b Hb. destruct (is_ideal_voltage_source (el b)) eqn:E; [|reflexivity].
  rewrite Bent_sgn by assumption. unfold flow_of. rewrite E. reflexivity. Qed.

(* the current-source right-hand side of a node row *)
Lemma rhs_block i :
  sumF (fun cs => Qent n i cs * branch_I n cs) (cs_index n)
  = - sumF (fun b => sgn i b * opt0 (eI (el b))) bs.
Proof.
  rewrite (sumF_perm KOK _ _ _ cs_perm), sumF_map, (sumF_filter KOK), <- (sumF_opp KOK).
  apply sumF_ext_in. intros b Hb. destruct (is_current_source (el b)) eqn:E.
  - rewrite Qent_sgn, branch_I_In by assumption. ring.
  - rewrite (not_cs_I0 _ E). ring. Qed.

Definition row_top (i : label) : list K := map (Yent n i) ns ++ map (Bent n i) vss.
Definition row_bot (v : label) : list K := map (fun i => Bent n i v) ns ++ map (fun _ => 0) vss.

(* row i of A*x - b is the KCL residual at node i of the candidate read off x *)
Theorem mna_row_is_kcl (x : list K) i : In i ns -> length x = (length ns + length vss)%nat ->
  dot (row_top i) x - sumF (fun cs => Qent n i cs * branch_I n cs) (cs_index n)
  = kcl_sum bs (flow x) i.
Proof. intros Hi HL. unfold row_top.
  rewrite dot_two_maps by (apply ns_NoDup || apply vss_NoDup || lia).
  rewrite (sumF_ext_in _ (fun l => Yent n i l * phi x l)) by (intros l Hl; rewrite phi_ns by assumption; reflexivity).
  rewrite y_block, b_block, rhs_block, kcl_sum_sgn by assumption.
  assert (Hc : forall a b c d : K, a + b + c = d -> a + b - - c = d) by (intros a b c d <-; ring).
  apply Hc. rewrite <- !(sumF_add KOK). apply sumF_ext_in. intros b Hb.
  unfold flow_of. rewrite has_finY_ivs.
  destruct (is_ideal_voltage_source (el b)) eqn:E; simpl.
  - rewrite (ivs_I0 _ E). ring.
  - ring.
Qed.

(* a voltage-source row of A*x is the branch voltage of that source *)
Theorem mna_row_is_source_voltage (x : list K) b : In b bs -> length x = (length ns + length vss)%nat ->
  dot (row_bot (bid b)) x = bvolt (phi x) b.
Proof. intros Hb HL. unfold row_bot.
  rewrite dot_two_maps by (apply ns_NoDup || apply vss_NoDup || lia).
  rewrite (sumF_zero_in KOK (fun v => 0 * _)) by (intros; ring).
  rewrite (sumF_ext_in _ (fun l => sgn l b * phi x l)).
  2:{ intros l Hl. rewrite phi_ns, Bent_sgn by assumption. reflexivity. }
  rewrite sgn_sum_phi by assumption. ring. Qed.

(* KCL summed over all nodes vanishes identically: each branch leaves one node and enters another *)
Lemma kcl_total (j : branch K -> K) (all : list label) : NoDup all -> (forall l, In l endpoints -> In l all) ->
  sumF (fun i => kcl_sum bs j i) all = 0.
Proof. intros ND Hall.
  rewrite (sumF_ext _ (fun i => sumF (fun b => sgn i b * j b) bs)) by (intros; apply kcl_sum_sgn).
  rewrite (sumF_swap KOK). apply (sumF_zero_in KOK). intros b Hb.
  rewrite (sumF_scal_r KOK).
  assert (H1 : In (node1 b) all) by (apply Hall, in_or_app; left; apply in_map; exact Hb).
  assert (H2 : In (node2 b) all) by (apply Hall, in_or_app; right; apply in_map; exact Hb).
  unfold sgn. rewrite (sumF_sub KOK).
  rewrite (sumF_ext _ (fun i => if label_eqb i (node1 b) then 1 else 0)) by (intros i; rewrite label_eqb_sym; reflexivity).
  rewrite (sumF_ext (fun i => if label_eqb (node2 b) i then 1 else 0) (fun i => if label_eqb i (node2 b) then 1 else 0))
    by (intros i; rewrite label_eqb_sym; reflexivity).
  rewrite !(sumF_indicator KOK label_eqb label_eqb_spec (fun _ => 1) _ all ND).
  apply lmem_spec in H1, H2. unfold lmem in H1, H2. rewrite H1, H2. ring. Qed.

Lemma kcl_untouched (j : branch K -> K) i : ~ In i endpoints -> kcl_sum bs j i = 0.
Proof. intros H. unfold kcl_sum. apply (sumF_zero_in KOK). intros b Hb.
  leq (node1 b) i; [exfalso; apply H, in_or_app; left; subst; apply in_map; exact Hb|].
  leq (node2 b) i; [exfalso; apply H, in_or_app; right; subst; apply in_map; exact Hb|]. ring. Qed.

Definition solves (x : list K) : Prop :=
  length x = (length ns + length vss)%nat /\ mat_vec (mna_matrix n) x = mna_rhs n.

Lemma solves_rows (x : list K) : solves x ->
  (forall i, In i ns -> dot (row_top i) x = sumF (fun cs => Qent n i cs * branch_I n cs) (cs_index n))
  /\ (forall v, In v vss -> dot (row_bot v) x = branch_V n v).
Proof. intros [HL H]. unfold mat_vec, mna_matrix, mna_rhs in H.
  rewrite map_app, !map_map in H. apply app_inj_len in H; [|rewrite !map_length; reflexivity].
  destruct H as [H1 H2]. split.
  - intros i Hi. exact (ext_in_map H1 i Hi).
  - intros v Hv. exact (ext_in_map H2 v Hv). Qed.

Theorem mna_sound (x : list K) : solves x -> CircuitSpec n (phi x) (flow x).
Proof. intros S. pose proof (solves_rows x S) as [Rtop Rbot]. destruct S as [HL _].
  assert (Hk : forall i, In i ns -> kcl_sum bs (flow x) i = 0).
  { intros i Hi. rewrite <- mna_row_is_kcl by assumption. rewrite Rtop by assumption. ring. }
  split; [apply phi_zero|]. split.
  - (* KCL at every label *)
    intros i. destruct (in_dec (list_eq_dec N.eq_dec) i endpoints) as [Hi|Hi]; [|apply kcl_untouched; exact Hi].
    leq i (zero n); [|apply Hk, ns_In; auto]. subst i.
    (* reference node: sum of all rows *)
    assert (Hbs : bs <> []) by (intro E; unfold endpoints in Hi; rewrite E in Hi; exact Hi).
    assert (T : kcl_sum bs (flow x) (zero n) + sumF (kcl_sum bs (flow x)) ns = 0).
    { apply (kcl_total (flow x) (zero n :: ns)).
      - constructor; [apply ns_not_zero|apply ns_NoDup].
      - intros l Hl. leq l (zero n); [left; auto|right; apply ns_In; auto]. }
    rewrite (sumF_zero_in KOK _ ns Hk) in T. rewrite <- T. ring.
  - (* element laws *)
    intros b Hb. unfold law. destruct (eY (el b)) as [y|] eqn:EY.
    + unfold flow_of. rewrite ivs_noY, EY. simpl. rewrite (eY_finY _ _ EY). reflexivity.
    + assert (Hv : In (bid b) vss).
      { apply (Permutation_in _ (Permutation_sym vss_perm)). apply in_map, filter_In. split; [exact Hb|].
        rewrite ivs_noY, EY. reflexivity. }
      rewrite <- mna_row_is_source_voltage by assumption. rewrite Rbot by assumption. apply branch_V_In, Hb.
Qed.

End Mna.

Arguments sgn {K}. Arguments solves {K}. Arguments row_top {K}. Arguments row_bot {K}. Arguments endpoints {K}.
