(* Theory/DrawingExamples.v — concrete drawings used by the Examples of Properties/C13.v (grid unit 3.0 = 300 hundredths) *)
From Coq Require Import List Bool ZArith NArith String.
From CC Require Import Theory.Field Model.Network Model.Circuit Model.Drawing Theory.DrawingThm.
Import ListNotations.
Local Open Scope Z_scope.

Definition gp (x y : Z) : point := (300 * x, 300 * y).
Definition sym (c : N) (name : string) (rev : bool) (a b : point) (id : string) : symbol :=
  {| s_class := c; s_name := lbl name; s_reverse := rev; s_start := a; s_end := b; s_node_id := lbl id |}.
Definition wire (a b : point) : symbol := sym c_Line "" false a b "".
Definition res (n : string) (a b : point) : symbol := sym c_Resistor n false a b "".
Definition vsrc (n : string) (rev : bool) (a b : point) : symbol := sym c_VoltageSource n rev a b "".
Definition gnd (n : string) (a : point) : symbol := sym c_Ground n false a a n.
Definition labn (n : string) (a : point) : symbol := sym c_LabelNode n false a a n.

(* a wire ring with a stub: V1 - R1 - ring of four wires - stub wire - R2 - wire back, ground on the source's start *)
Definition ex_ring : drawing :=
  [vsrc "V1" false (gp 0 0) (gp 0 1); res "R1" (gp 0 1) (gp 1 1);
   wire (gp 1 1) (gp 2 1); wire (gp 2 1) (gp 2 2); wire (gp 2 2) (gp 1 2); wire (gp 1 2) (gp 1 1);
   wire (gp 2 2) (gp 3 2); res "R2" (gp 3 2) (gp 3 0); wire (gp 3 0) (gp 0 0); gnd "0" (gp 0 0)].
(* the iteration orders observed on the live Python objects for this drawing *)
Definition ex_ring_oa : list point := [gp 3 0; gp 0 0; gp 3 2; gp 0 1; gp 1 1; gp 1 2; gp 2 2; gp 2 1].
Definition ex_ring_ou : list point := [gp 3 0; gp 3 2; gp 0 1].
(* another admissible pair of orders *)
Definition ex_ring_oa' : list point := rev ex_ring_oa.
Definition ex_ring_ou' : list point := rev (unique_nodes ex_ring ex_ring_oa').

(* numeric labels '4' and '5' collide with the automatic numbering (3 labels -> numbering starts at 4) *)
Definition ex_nums : drawing :=
  [vsrc "V1" true (gp 0 0) (gp 0 1); res "R1" (gp 0 1) (gp 1 1); res "R2" (gp 1 1) (gp 2 1); res "R3" (gp 2 1) (gp 3 1);
   res "R4" (gp 3 1) (gp 3 0); wire (gp 3 0) (gp 0 0); gnd "0" (gp 0 0); labn "4" (gp 1 1); labn "5" (gp 2 1)].
Definition ex_nums_oa : list point := all_nodes ex_nums.
Definition ex_nums_ou : list point := unique_nodes ex_nums ex_nums_oa.

(* the ring drawing with its stub wire (2,2)-(3,2) split at the fresh point (2.5, 2) *)
Definition ex_ring_pre : drawing := firstn 6 ex_ring.
Definition ex_ring_post : drawing := skipn 7 ex_ring.
Definition ex_stub : symbol := wire (gp 2 2) (gp 3 2).
Definition ex_mid : point := (750, 600).
Definition ex_split : drawing := subdivided ex_ring_pre ex_stub ex_ring_post ex_mid.
Definition ex_split_oa : list point := all_nodes ex_split.
Definition ex_split_ou : list point := unique_nodes ex_split ex_split_oa.

(* the ring drawing turned by 90 degrees *)
Definition ex_rot : drawing := map_drawing rot90 ex_ring.
Definition ex_rot_oa : list point := all_nodes ex_rot.
Definition ex_rot_ou : list point := unique_nodes ex_rot ex_rot_oa.

(* two different label texts on one wire-connected class: the LAST inserted symbol wins, so the insertion order matters *)
Definition ex_two_base : drawing :=
  [vsrc "V1" false (gp 0 0) (gp 0 1); res "R1" (gp 0 1) (gp 1 1); wire (gp 1 1) (gp 2 1); res "R2" (gp 2 1) (gp 2 0);
   wire (gp 2 0) (gp 0 0)].
Definition ex_two_ab : drawing := ex_two_base ++ [labn "A" (gp 1 1); labn "B" (gp 2 1)].
Definition ex_two_ba : drawing := ex_two_base ++ [labn "B" (gp 2 1); labn "A" (gp 1 1)].
