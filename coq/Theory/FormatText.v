(* Theory/FormatText.v — a parser for the rendered text and the proof that it reads back exactly the
   number that Model/Format.v [float_text] was asked to show. *)
From Coq Require Import List Bool ZArith NArith QArith Qabs Qpower PosExtra Lia Psatz.
From CC Require Import Model.Network Theory.Labels Model.Format Theory.FormatThm.
Import ListNotations.
Open Scope Z_scope.

(* ---------- the parser ---------- *)
Definition isdigit (c : N) : bool := (48 <=? c)%N && (c <=? 57)%N.
Definition dval (c : N) : Z := Z.of_N c - 48.

(* maximal run of decimal digits: value, number of digits, rest *)
Fixpoint pdigits (acc cnt : Z) (s : label) : Z * Z * label :=
  match s with
  | c :: r => if isdigit c then pdigits (acc * 10 + dval c) (cnt + 1) r else (acc, cnt, s)
  | [] => (acc, cnt, s)
  end.

(* optional 'e' ['-'] digits+ *)
Definition parse_exp (s : label) : Z * label :=
  match s with
  | c :: r =>
      if (c =? 101)%N then
        let '(neg, r1) := match r with
                          | c2 :: r2 => if (c2 =? 45)%N then (true, r2) else (false, r)
                          | [] => (false, r)
                          end in
        let '(v, cnt, r') := pdigits 0 0 r1 in
        if cnt =? 0 then (0, s) else ((if neg then - v else v), r')
      else (0, s)
  | [] => (0, s)
  end.

(* key of the table entry carrying a given label *)
Fixpoint rlookup (t : table) (l : label) : option Z :=
  match t with [] => None | (k, l') :: r => if label_eqb l' l then Some k else rlookup r l end.

(* the remainder must be [prefix label] ++ unit; the unit is known to the reader *)
Definition parse_suffix (up : bool) (t : table) (un s : label) : option Z :=
  let n := (length s - length un)%nat in
  if label_eqb (skipn n s) un then
    match firstn n s with
    | [] => Some 0
    | lab => if up then rlookup t lab else None
    end
  else None.

Record parsed := { p_inf : bool; p_neg : bool; p_int : Z; p_frac : Z; p_nfrac : Z; p_eext : Z; p_epre : Z }.

(* optional '.' digits *)
Definition parse_frac (s : label) : Z * Z * label :=
  match s with
  | c :: r => if (c =? 46)%N then pdigits 0 0 r else (0, 0, s)
  | [] => (0, 0, s)
  end.

Definition parse (up : bool) (t : table) (un s : label) : option parsed :=
  if label_eqb s [INF] then Some {| p_inf := true; p_neg := false; p_int := 0; p_frac := 0; p_nfrac := 0; p_eext := 0; p_epre := 0 |}
  else if label_eqb s [45%N; INF] then Some {| p_inf := true; p_neg := true; p_int := 0; p_frac := 0; p_nfrac := 0; p_eext := 0; p_epre := 0 |}
  else
    let '(neg, s1) := match s with
                      | c :: r => if (c =? 45)%N then (true, r) else (false, s)
                      | [] => (false, s)
                      end in
    let '(ip, ci, s2) := pdigits 0 0 s1 in
    if ci =? 0 then None
    else
      let '(fv, cf, s3) := parse_frac s2 in
      let '(ee, s4) := parse_exp s3 in
      match parse_suffix up t un s4 with
      | Some pe => Some {| p_inf := false; p_neg := neg; p_int := ip; p_frac := fv; p_nfrac := cf; p_eext := ee; p_epre := pe |}
      | None => None
      end.

(* what a parsed finite text denotes: sign * (int + frac / 10^nfrac) * 10^(e-extension + prefix exponent) *)
Definition shown_mantissa_scaled (r : parsed) : Z := p_int r * 10 ^ p_nfrac r + p_frac r.  (* |shown mantissa| * 10^nfrac *)
Definition shown_exponent (r : parsed) : Z := p_eext r + p_epre r.
Definition pvalue (r : parsed) : Q :=
  ((if p_neg r then -1 else 1) * shown_mantissa_scaled r # 1) * Qpow10 (shown_exponent r - p_nfrac r).

(* ---------- side conditions on the table and the unit ---------- *)
(* Python dict keys are distinct by construction; labels must be distinct and non-empty for the text to be
   readable; between the smallest and the largest key no multiple of three other than 0 may be missing,
   otherwise exp_prefix/exp_extension both return '' and the exponent is dropped from the text. *)
Definition table_ok (t : table) : Prop :=
  t <> [] /\ NoDup (map snd t) /\ (forall k l, In (k, l) t -> l <> []) /\
  (forall j, lmin (tkeys t) <= j <= lmax (tkeys t) -> j mod 3 = 0 -> j <> 0 -> In j (tkeys t)).

(* what follows the number must not look like part of it *)
Definition clean (s : label) : bool :=
  match s with
  | [] => true
  | c :: r => negb (isdigit c) && negb (c =? 46)%N &&
              (negb (c =? 101)%N || match r with [] => true | c2 :: _ => negb (isdigit c2) && negb (c2 =? 45)%N end)
  end.
Definition suffix_clean (up : bool) (t : table) (un : label) : Prop :=
  clean un = true /\ (up = true -> forall k l, In (k, l) t -> clean (l ++ un) = true).

(* ---------- digits ---------- *)
Definition dlv (acc : Z) (l : label) : Z := fold_left (fun a c => a * 10 + dval c) l acc.

Lemma pdigits_app l : forall acc cnt rest, forallb isdigit l = true ->
  match rest with [] => True | c :: _ => isdigit c = false end ->
  pdigits acc cnt (l ++ rest) = (dlv acc l, cnt + Z.of_nat (length l), rest).
Proof.
  induction l as [|c l IH]; intros acc cnt rest HL HR.
  - simpl. replace (cnt + 0) with cnt by lia. destruct rest as [|c r]; [reflexivity|]. simpl. rewrite HR. reflexivity.
  - simpl in HL. apply andb_true_iff in HL. destruct HL as [Hc HL].
    cbn [app pdigits]. rewrite Hc. rewrite IH by assumption. cbn [dlv fold_left length].
    f_equal. f_equal. lia.
Qed.

Lemma dlv_app acc l1 l2 : dlv acc (l1 ++ l2) = dlv (dlv acc l1) l2.
Proof. unfold dlv. apply fold_left_app. Qed.

Lemma digit_char r : 0 <= r < 10 -> isdigit (Z.to_N (48 + r)) = true /\ dval (Z.to_N (48 + r)) = r.
Proof.
  intros H. unfold isdigit, dval. split.
  - apply andb_true_iff. split; apply N.leb_le; lia.
  - rewrite Z2N.id by lia. lia.
Qed.

Lemma digs_spec f : forall n, 0 <= n < 2 ^ Z.of_nat (S f) ->
  forallb isdigit (digs (S f) n) = true /\ dlv 0 (digs (S f) n) = n /\
  Z.of_nat (length (digs (S f) n)) = ndig_aux (S f) n /\ digs (S f) n <> [].
Proof.
  induction f as [|f IH]; intros n H.
  - change (2 ^ Z.of_nat 1) with 2 in H. cbn [digs ndig_aux].
    destruct (n <? 10) eqn:E; [|apply Z.ltb_ge in E; lia].
    rewrite Z.mod_small by lia. destruct (digit_char n ltac:(lia)) as [D1 D2].
    cbn [app forallb dlv fold_left length]. rewrite D1, D2. repeat split; try reflexivity; try lia. intros C; inversion C.
  - remember (S f) as g. cbn [digs ndig_aux]. destruct (n <? 10) eqn:E.
    + apply Z.ltb_lt in E. rewrite Z.mod_small by lia. destruct (digit_char n ltac:(lia)) as [D1 D2].
      cbn [app forallb dlv fold_left length]. rewrite D1, D2. repeat split; try reflexivity; try lia. intros C; inversion C.
    + apply Z.ltb_ge in E.
      assert (P2 : 2 ^ Z.of_nat (S g) = 2 * 2 ^ Z.of_nat g).
      { rewrite Nat2Z.inj_succ, Z.pow_succ_r by lia. reflexivity. }
      pose proof (Z.div_mod n 10 ltac:(lia)) as DM. pose proof (Z.mod_pos_bound n 10 ltac:(lia)) as MB.
      assert (Q : 0 <= n / 10 < 2 ^ Z.of_nat g) by lia.
      subst g. destruct (IH (n / 10) Q) as [I1 [I2 [I3 I4]]].
      destruct (digit_char (n mod 10) MB) as [D1 D2].
      rewrite forallb_app, I1. cbn [forallb]. rewrite D1. rewrite dlv_app, I2.
      cbn [dlv fold_left]. rewrite D2. rewrite app_length, Nat2Z.inj_add, I3. cbn [length].
      repeat split; try reflexivity; try lia.
      intros C. apply app_eq_nil in C. destruct C as [_ C]. discriminate.
Qed.

Lemma digits_spec n : 0 <= n ->
  forallb isdigit (digits n) = true /\ dlv 0 (digits n) = n /\
  Z.of_nat (length (digits n)) = ndigits n /\ digits n <> [].
Proof.
  intros H. unfold digits, ndigits. apply digs_spec.
  pose proof (Z.log2_nonneg n) as L. rewrite Nat2Z.inj_succ, Z2Nat.id by lia.
  destruct (Z.eq_dec n 0) as [->|NZ]; [simpl; lia|].
  pose proof (Z.log2_spec n ltac:(lia)). lia.
Qed.

Lemma ndigits_le n w : 0 <= n < 10 ^ w -> 1 <= w -> ndigits n <= w.
Proof.
  intros [N0 NW] W. destruct (Z.eq_dec n 0) as [->|NZ]; [change (ndigits 0) with 1; lia|].
  destruct (ndigits_spec n ltac:(lia)) as [K [KL KU]].
  destruct (Z_le_gt_dec (ndigits n) w) as [C|C]; [exact C|].
  pose proof (p10_le w (ndigits n - 1) ltac:(lia)). lia.
Qed.

Lemma dlv_zeros k : dlv 0 (repeat 48%N k) = 0.
Proof. induction k as [|k IH]; [reflexivity|]. cbn [repeat dlv fold_left]. exact IH. Qed.

Lemma forallb_repeat {A} (f : A -> bool) a k : f a = true -> forallb f (repeat a k) = true.
Proof. intros H. induction k as [|k IH]; [reflexivity|]. simpl. rewrite H, IH. reflexivity. Qed.

Lemma pad0_spec w n : 0 <= n < 10 ^ w -> 1 <= w ->
  forallb isdigit (pad0 w (digits n)) = true /\ dlv 0 (pad0 w (digits n)) = n /\
  Z.of_nat (length (pad0 w (digits n))) = w.
Proof.
  intros H W. destruct (digits_spec n ltac:(lia)) as [D1 [D2 [D3 D4]]].
  pose proof (ndigits_le n w H W) as LE. unfold pad0.
  rewrite forallb_app, D1, forallb_repeat by reflexivity.
  rewrite dlv_app, dlv_zeros, D2. rewrite app_length, repeat_length, Nat2Z.inj_add, Z2Nat.id by lia.
  repeat split; lia.
Qed.

(* ---------- powers of ten in Q ---------- *)
Lemma Qpow10_nonneg j : 0 <= j -> Qpow10 j = inject_Z (10 ^ j).
Proof. intros H. unfold Qpow10. destruct (j <? 0) eqn:E; [apply Z.ltb_lt in E; lia|reflexivity]. Qed.

Lemma Qpow10_add a b : (Qpow10 (a + b) == Qpow10 a * Qpow10 b)%Q.
Proof. rewrite !Qpow10_Qpower. apply Qpower_plus. discriminate. Qed.

Lemma Qpow10_shift A j b : 0 <= j -> (inject_Z (A * 10 ^ j) * Qpow10 (b - j) == inject_Z A * Qpow10 b)%Q.
Proof.
  intros J. replace b with ((b - j) + j) at 2 by lia. rewrite Qpow10_add, (Qpow10_nonneg j J).
  rewrite inject_Z_mult. ring.
Qed.

(* ---------- Float3 ---------- *)
Lemma exponent3_spec e p :
  0 <= p + (e - exponent3 e p) - 1 <= 2 /\ exponent3 e p mod 3 = 0.
Proof.
  unfold exponent3. pose proof (Z.div_mod (p + e - 1) 3 ltac:(lia)) as DM.
  pose proof (Z.mod_pos_bound (p + e - 1) 3 ltac:(lia)) as MB. split; [lia|].
  rewrite Z.mul_comm. apply Z.mod_mul. lia.
Qed.

Lemma zstr_signed v : zstr v = (if v <? 0 then [45%N] else []) ++ digits (Z.abs v).
Proof.
  unfold zstr. destruct (v <? 0) eqn:E.
  - apply Z.ltb_lt in E. rewrite Z.abs_neq by lia. reflexivity.
  - apply Z.ltb_ge in E. rewrite Z.abs_eq by lia. reflexivity.
Qed.

Lemma quot_signed num den : 0 < den -> den <= Z.abs num ->
  Z.abs (Z.quot num den) = Z.abs num / den /\ (Z.quot num den <? 0) = (num <? 0) /\ 1 <= Z.abs num / den.
Proof.
  intros D H.
  assert (Q1 : 1 <= Z.abs num / den).
  { pose proof (Z.div_mod (Z.abs num) den ltac:(lia)). pose proof (Z.mod_pos_bound (Z.abs num) den D). nia. }
  destruct (Z_lt_le_dec num 0) as [N|N].
  - assert (EQ : Z.quot num den = - (Z.abs num / den)).
    { rewrite <- (Z.quot_div_nonneg (Z.abs num) den) by lia. rewrite <- Z.quot_opp_l by lia. f_equal. lia. }
    rewrite EQ. set (q := Z.abs num / den) in *. split; [lia|]. split; [|exact Q1].
    destruct (Z.ltb_spec (- q) 0), (Z.ltb_spec num 0); try reflexivity; lia.
  - assert (EQ : Z.quot num den = Z.abs num / den).
    { rewrite <- (Z.quot_div_nonneg (Z.abs num) den) by lia. f_equal. lia. }
    rewrite EQ. set (q := Z.abs num / den) in *. split; [lia|]. split; [|exact Q1].
    destruct (Z.ltb_spec q 0), (Z.ltb_spec num 0); try reflexivity; lia.
Qed.

Lemma ndigits_range n lo : 0 <= lo -> 10 ^ lo <= n < 10 ^ (lo + 1) -> ndigits n = lo + 1.
Proof. intros L H. apply ndigits_unique; [lia|]. replace (lo + 1 - 1) with lo by lia. exact H. Qed.

(* ---------- the digits of the shown mantissa ---------- *)
Lemma number_text_shape m e p : 1 <= p -> 10 ^ (p - 1) <= Z.abs m <= 10 ^ p ->
  exists ip fv nf,
    number_text m e p = (if m <? 0 then [45%N] else []) ++ digits ip ++
                        (if nf =? 0 then [] else 46%N :: pad0 nf (digits fv)) /\
    1 <= ip /\ 0 <= nf /\ 0 <= fv < 10 ^ nf /\
    (inject_Z (ip * 10 ^ nf + fv) * Qpow10 (exponent3 e p - nf) == inject_Z (Z.abs m) * Qpow10 e)%Q /\
    10 ^ nf <= ip * 10 ^ nf + fv <= 1000 * 10 ^ nf.
Proof.
  intros P [ML MU]. destruct (exponent3_spec e p) as [[K0 K2] _].
  pose proof (p10_pos (p - 1) ltac:(lia)) as Pp1. pose proof (p10_pos p ltac:(lia)) as Pp.
  assert (Ep : 10 ^ p = 10 * 10 ^ (p - 1)).
  { replace p with ((p - 1) + 1) at 1 by lia. apply p10_S. lia. }
  unfold number_text, m3num, m3den. set (e3 := exponent3 e p) in *. set (k := e - e3) in *.
  assert (Hk : k = e - e3) by reflexivity. clearbody k. cbv zeta. destruct (k >=? 0) eqn:EK.
  - (* integer mantissa3 *)
    assert (K : 0 <= k) by (apply Z.geb_le in EK; lia).
    pose proof (p10_pos k K) as Pk.
    set (an := Z.abs (m * 10 ^ k)).
    assert (AN : an = Z.abs m * 10 ^ k) by (unfold an; rewrite Z.abs_mul; f_equal; lia).
    assert (L1 : 10 ^ (p - 1 + k) <= an) by (rewrite p10_add by lia; nia).
    assert (U1 : an <= 10 ^ (p + k)) by (rewrite p10_add by lia; nia).
    assert (U3 : 10 ^ (p + k) <= 1000) by (change 1000 with (10 ^ 3); apply p10_le; lia).
    assert (A1 : 1 <= an) by (pose proof (p10_ge1 (p - 1 + k) ltac:(lia)); lia).
    destruct (an <? 1) eqn:E1; [apply Z.ltb_lt in E1; lia|].
    rewrite Z.div_1_r, Z.quot_1_r.
    assert (ND : p <= ndigits an).
    { destruct (ndigits_spec an A1) as [N1 [N2 N3]].
      destruct (Z_le_gt_dec p (ndigits an)) as [C|C]; [exact C|].
      pose proof (p10_le (ndigits an) (p - 1 + k) ltac:(lia)). lia. }
    rewrite Z.max_r by lia. simpl (0 =? 0). rewrite app_nil_r.
    exists an, 0, 0. simpl (0 =? 0). rewrite app_nil_r. change (10 ^ 0) with 1.
    split.
    { rewrite zstr_signed. fold an. f_equal.
      destruct (Z.ltb_spec (m * 10 ^ k) 0), (Z.ltb_spec m 0); try reflexivity; nia. }
    split; [lia|]. split; [lia|]. split; [lia|]. split; [|lia].
    replace (an * 1 + 0) with (Z.abs m * 10 ^ k) by lia. replace (e3 - 0) with (e - k) by lia.
    apply Qpow10_shift. exact K.
  - (* mantissa3 = m / 10^K, K = -k in 1 .. p-1 *)
    assert (K : k < 0) by (destruct (Z.geb_spec k 0); [discriminate|lia]).
    set (KK := - k) in *. assert (HKK : KK = - k) by reflexivity. clearbody KK.
    assert (K1 : 1 <= KK <= p - 1) by lia.
    pose proof (p10_pos KK ltac:(lia)) as PK. set (den := 10 ^ KK) in *.
    assert (DL : den <= 10 ^ (p - 1)) by (apply p10_le; lia).
    assert (EPK : 10 ^ p = 10 ^ (p - KK) * den) by (unfold den; rewrite <- p10_add by lia; f_equal; lia).
    assert (EPK1 : 10 ^ (p - 1) = 10 ^ (p - 1 - KK) * den) by (unfold den; rewrite <- p10_add by lia; f_equal; lia).
    pose proof (p10_pos (p - KK) ltac:(lia)) as PpK. pose proof (p10_pos (p - 1 - KK) ltac:(lia)) as PpK1.
    assert (U3 : 10 ^ (p - KK) <= 1000) by (change 1000 with (10 ^ 3); apply p10_le; lia).
    assert (EpK : 10 ^ (p - KK) = 10 * 10 ^ (p - 1 - KK)).
    { replace (p - KK) with ((p - 1 - KK) + 1) by lia. apply p10_S. lia. }
    destruct (Z.abs m <? den) eqn:E1; [apply Z.ltb_lt in E1; lia|].
    destruct (quot_signed m den PK ltac:(lia)) as [QA [QS Q1]].
    pose proof (Z.div_mod (Z.abs m) den ltac:(lia)) as DM.
    pose proof (Z.mod_pos_bound (Z.abs m) den PK) as MB.
    set (ip := Z.abs m / den) in *. set (fr := Z.abs m mod den) in *.
    rewrite zstr_signed, QS, QA.
    destruct (Z.eq_dec (Z.abs m) (10 ^ p)) as [TOP|NTOP].
    + (* |m| = 10^p: one digit more before the point *)
      assert (IP : ip = 10 ^ (p - KK)) by (unfold ip; rewrite TOP, EPK; apply Z.div_mul; lia).
      assert (FR : fr = 0) by nia.
      rewrite IP, ndigits_p10 by lia. rewrite FR, Z.mul_0_l.
      replace (rhe 0 den) with 0 by (symmetry; apply (rhe_exact 0 den PK)).
      replace (Z.max (p - (p - KK + 1)) 0) with (KK - 1) by lia.
      exists (10 ^ (p - KK)), 0, (KK - 1).
      pose proof (p10_pos (KK - 1) ltac:(lia)) as PK1.
      assert (EK1 : den = 10 * 10 ^ (KK - 1)).
      { unfold den. replace KK with ((KK - 1) + 1) at 1 by lia. apply p10_S. lia. }
      split; [rewrite <- app_assoc; reflexivity|].
      split; [lia|]. split; [lia|]. split; [lia|]. split; [|nia].
      replace (10 ^ (p - KK) * 10 ^ (KK - 1) + 0) with (10 ^ (p - 1)).
      2:{ rewrite Z.add_0_r, <- p10_add by lia. f_equal. lia. }
      replace (e3 - (KK - 1)) with (e + 1) by lia.
      rewrite TOP. replace (10 ^ p) with (10 ^ (p - 1) * 10 ^ 1) by (change (10 ^ 1) with 10; lia).
      replace e with ((e + 1) - 1) at 2 by lia.
      symmetry. apply Qpow10_shift. lia.
    + assert (ND : ndigits ip = p - KK).
      { replace (p - KK) with ((p - 1 - KK) + 1) by lia. apply ndigits_range; [lia|].
        replace (p - 1 - KK + 1) with (p - KK) by lia. nia. }
      rewrite ND. replace (Z.max (p - (p - KK)) 0) with KK by lia.
      fold den. rewrite (rhe_exact fr den PK).
      exists ip, fr, KK. fold den.
      split; [rewrite <- app_assoc; reflexivity|].
      split; [lia|]. split; [lia|]. split; [lia|]. split; [|nia].
      replace (ip * den + fr) with (Z.abs m) by lia. replace (e3 - KK) with e by lia. reflexivity.
Qed.

(* ---------- tables ---------- *)
Lemma fold_max_spec a r : (In (fold_right Z.max a r) (a :: r)) /\ (forall k, In k (a :: r) -> k <= fold_right Z.max a r).
Proof.
  induction r as [|b r [I1 I2]]; simpl.
  - split; [auto|]. intros k [->|[]]. lia.
  - split.
    + destruct (Z.max_spec b (fold_right Z.max a r)) as [[_ ->]|[_ ->]]; [|auto].
      simpl in I1. destruct I1 as [I1|I1]; auto.
    + intros k [->|[->|H]].
      * specialize (I2 k (or_introl eq_refl)). lia.
      * lia.
      * specialize (I2 k (or_intror H)). lia.
Qed.
Lemma fold_min_spec a r : (In (fold_right Z.min a r) (a :: r)) /\ (forall k, In k (a :: r) -> fold_right Z.min a r <= k).
Proof.
  induction r as [|b r [I1 I2]]; simpl.
  - split; [auto|]. intros k [->|[]]. lia.
  - split.
    + destruct (Z.min_spec b (fold_right Z.min a r)) as [[_ ->]|[_ ->]]; [auto|].
      simpl in I1. destruct I1 as [I1|I1]; auto.
    + intros k [->|[->|H]].
      * specialize (I2 k (or_introl eq_refl)). lia.
      * lia.
      * specialize (I2 k (or_intror H)). lia.
Qed.
Lemma lmax_spec l : l <> [] -> In (lmax l) l /\ (forall k, In k l -> k <= lmax l).
Proof. destruct l as [|a r]; [congruence|]. intros _. apply fold_max_spec. Qed.
Lemma lmin_spec l : l <> [] -> In (lmin l) l /\ (forall k, In k l -> lmin l <= k).
Proof. destruct l as [|a r]; [congruence|]. intros _. apply fold_min_spec. Qed.

Lemma tlookup_some t k l : tlookup t k = Some l -> In (k, l) t.
Proof.
  induction t as [|[k' l'] t IH]; simpl; [discriminate|].
  destruct (Z.eqb_spec k' k) as [->|NE]; [intros [= ->]; auto|auto].
Qed.
Lemma tlookup_none t k : tlookup t k = None -> ~ In k (tkeys t).
Proof.
  induction t as [|[k' l'] t IH]; simpl; [tauto|].
  destruct (Z.eqb_spec k' k) as [->|NE]; [discriminate|]. intros H [C|C]; [congruence|]. exact (IH H C).
Qed.
Lemma tlookup_in t k : In k (tkeys t) -> exists l, tlookup t k = Some l.
Proof.
  intros H. destruct (tlookup t k) as [l|] eqn:E; [eauto|]. exfalso. exact (tlookup_none t k E H).
Qed.
Lemma rlookup_tlookup t k l : NoDup (map snd t) -> tlookup t k = Some l -> rlookup t l = Some k.
Proof.
  induction t as [|[k' l'] t IH]; simpl; [discriminate|]. intros ND H.
  inversion ND as [|? ? NI ND']; subst.
  destruct (Z.eqb_spec k' k) as [->|NE].
  - injection H as ->. rewrite label_eqb_refl. reflexivity.
  - destruct (label_eqb_spec l' l) as [->|NL].
    + exfalso. apply NI. apply tlookup_some in H. change l with (snd (k, l)). apply in_map. exact H.
    + apply IH; assumption.
Qed.

Lemma exp_parts up t e3 : (up = true -> table_ok t) -> e3 mod 3 = 0 ->
  exists pe, rebase_exp up t e3 + pe = e3 /\
    ((exp_prefix up t e3 = [] /\ pe = 0) \/
     (up = true /\ exp_prefix up t e3 <> [] /\ rlookup t (exp_prefix up t e3) = Some pe /\
      In (pe, exp_prefix up t e3) t)).
Proof.
  intros OK M3. unfold rebase_exp, exp_prefix. destruct up; simpl negb; cbv iota.
  2:{ exists 0. split; [lia|]. left. split; reflexivity. }
  destruct (OK eq_refl) as [NE [ND [LNE GAP]]].
  assert (KNE : tkeys t <> []) by (destruct t; [congruence|discriminate]).
  destruct (lmax_spec _ KNE) as [MXI MXU]. destruct (lmin_spec _ KNE) as [MNI MNL].
  set (mx := lmax (tkeys t)) in *. set (mn := lmin (tkeys t)) in *.
  assert (GET : forall k, In k (tkeys t) ->
            tget t k <> [] /\ rlookup t (tget t k) = Some k /\ In (k, tget t k) t).
  { intros k H. destruct (tlookup_in t k H) as [l E]. unfold tget. rewrite E.
    pose proof (tlookup_some t k l E) as I. split; [exact (LNE k l I)|].
    split; [apply rlookup_tlookup; assumption|exact I]. }
  unfold tmem. destruct (tlookup t e3) as [l|] eqn:E.
  - (* e3 is a key *)
    pose proof (tlookup_some t e3 l E) as I.
    assert (IK : In e3 (tkeys t)) by (change e3 with (fst (e3, l)); apply in_map; exact I).
    pose proof (MXU e3 IK). pose proof (MNL e3 IK).
    destruct (e3 >? mx) eqn:E1; [apply Z.gtb_lt in E1; lia|].
    destruct (e3 <? mn) eqn:E2; [apply Z.ltb_lt in E2; lia|].
    exists e3. split; [lia|]. right. destruct (GET e3 IK) as [G1 [G2 G3]]. auto.
  - destruct (e3 >? mx) eqn:E1.
    + exists mx. split; [lia|]. right. destruct (GET mx MXI) as [G1 [G2 G3]]. auto.
    + destruct (e3 <? mn) eqn:E2.
      * exists mn. split; [lia|]. right. destruct (GET mn MNI) as [G1 [G2 G3]]. auto.
      * exists 0. apply Z.ltb_ge in E2. assert (E1' : e3 <= mx) by (destruct (Z.gtb_spec e3 mx); [discriminate|lia]).
        pose proof (tlookup_none t e3 E) as NI.
        assert (e3 = 0). { destruct (Z.eq_dec e3 0) as [Z|NZ]; [exact Z|]. exfalso. apply NI. apply GAP; [lia|exact M3|exact NZ]. }
        split; [lia|]. left. unfold tget. rewrite E. split; reflexivity.
Qed.

(* ---------- reading the pieces back ---------- *)
Definition nodigit (s : label) : Prop := match s with [] => True | c :: _ => isdigit c = false end.

Lemma clean_nodigit s : clean s = true -> nodigit s.
Proof.
  destruct s as [|c r]; simpl; [trivial|]. intros H.
  apply andb_true_iff in H. destruct H as [H _]. apply andb_true_iff in H. destruct H as [H _].
  destruct (isdigit c); [discriminate|reflexivity].
Qed.
Lemma clean_no46 s : clean s = true -> match s with [] => True | c :: _ => (c =? 46)%N = false end.
Proof.
  destruct s as [|c r]; simpl; [trivial|]. intros H.
  apply andb_true_iff in H. destruct H as [H _]. apply andb_true_iff in H. destruct H as [_ H].
  destruct (c =? 46)%N; [discriminate|reflexivity].
Qed.

Lemma digit_not c : isdigit c = true -> (c =? 45)%N = false /\ (c =? 8734)%N = false.
Proof.
  unfold isdigit. intros H. apply andb_true_iff in H. destruct H as [H1 H2].
  apply N.leb_le in H1. apply N.leb_le in H2. split; apply N.eqb_neq; lia.
Qed.

Lemma digits_head n : 0 <= n -> exists d ds, digits n = d :: ds /\ isdigit d = true.
Proof.
  intros H. destruct (digits_spec n H) as [D1 [_ [_ D4]]].
  destruct (digits n) as [|d ds]; [congruence|]. exists d, ds. split; [reflexivity|].
  simpl in D1. apply andb_true_iff in D1. tauto.
Qed.

Lemma parse_exp_plain s : clean s = true -> parse_exp s = (0, s).
Proof.
  destruct s as [|c r]; [reflexivity|]. intros H. unfold parse_exp. simpl in H.
  destruct (c =? 101)%N eqn:E; [|reflexivity].
  apply andb_true_iff in H. destruct H as [_ H]. simpl in H.
  destruct r as [|c2 r2]; [reflexivity|].
  apply andb_true_iff in H. destruct H as [H1 H2].
  destruct (c2 =? 45)%N; [discriminate|]. cbn [pdigits].
  destruct (isdigit c2); [discriminate|]. reflexivity.
Qed.

Lemma parse_exp_ext r s : nodigit s -> r <> 0 -> parse_exp (101%N :: zstr r ++ s) = (r, s).
Proof.
  intros ND NZ. unfold parse_exp. change (101 =? 101)%N with true. cbv iota.
  unfold zstr. destruct (r <? 0) eqn:E.
  - apply Z.ltb_lt in E. cbn [app]. change (45 =? 45)%N with true. cbv iota.
    destruct (digits_spec (- r) ltac:(lia)) as [D1 [D2 [D3 D4]]].
    rewrite (pdigits_app _ 0 0 s D1 ND). rewrite D2.
    destruct (0 + Z.of_nat (length (digits (- r))) =? 0) eqn:E0.
    + apply Z.eqb_eq in E0. destruct (digits (- r)); [congruence|simpl in E0; lia].
    + f_equal. lia.
  - apply Z.ltb_ge in E. destruct (digits_head r E) as [d [ds [DE DD]]].
    destruct (digits_spec r E) as [D1 [D2 [D3 D4]]].
    rewrite DE in *. cbn [app]. destruct (digit_not d DD) as [N45 _]. rewrite N45.
    change (d :: ds ++ s) with ((d :: ds) ++ s).
    rewrite (pdigits_app _ 0 0 s D1 ND). rewrite D2.
    destruct (0 + Z.of_nat (length (d :: ds)) =? 0) eqn:E0.
    + apply Z.eqb_eq in E0. simpl in E0. lia.
    + reflexivity.
Qed.

Lemma parse_suffix_ok up t un pre pe :
  ((pre = [] /\ pe = 0) \/ (up = true /\ pre <> [] /\ rlookup t pre = Some pe)) ->
  parse_suffix up t un (pre ++ un) = Some pe.
Proof.
  intros H. unfold parse_suffix.
  assert (L : (length (pre ++ un) - length un)%nat = length pre) by (rewrite app_length; lia).
  rewrite L. rewrite skipn_app, skipn_all, Nat.sub_diag. simpl skipn. rewrite label_eqb_refl.
  rewrite firstn_app, firstn_all, Nat.sub_diag. simpl firstn. rewrite app_nil_r.
  destruct H as [[-> ->]|[-> [NE R]]]; [reflexivity|].
  destruct pre as [|c r]; [congruence|exact R].
Qed.

Lemma parse_shape up t un (neg : bool) ip fv nf r pre pe :
  1 <= ip -> 0 <= nf -> 0 <= fv < 10 ^ nf -> clean (pre ++ un) = true ->
  parse_suffix up t un (pre ++ un) = Some pe ->
  parse up t un ((if neg then [45%N] else []) ++ digits ip ++
                 (if nf =? 0 then [] else 46%N :: pad0 nf (digits fv)) ++
                 (if r =? 0 then [] else 101%N :: zstr r) ++ pre ++ un)
  = Some {| p_inf := false; p_neg := neg; p_int := ip; p_frac := fv; p_nfrac := nf; p_eext := r; p_epre := pe |}.
Proof.
  intros IP NF FV CL PS.
  set (s := pre ++ un) in *.
  pose proof (clean_nodigit s CL) as NDs. pose proof (clean_no46 s CL) as N46s.
  (* the exponent part and what follows *)
  set (ext := (if r =? 0 then [] else 101%N :: zstr r) ++ s).
  assert (PE : parse_exp ext = (r, s)).
  { unfold ext. destruct (Z.eqb_spec r 0) as [->|NZ]; [apply parse_exp_plain; exact CL|].
    cbn [app]. apply parse_exp_ext; assumption. }
  assert (NDe : nodigit ext).
  { unfold ext. destruct (r =? 0); [exact NDs|]. reflexivity. }
  assert (N46e : match ext with [] => True | c :: _ => (c =? 46)%N = false end).
  { unfold ext. destruct (r =? 0); [exact N46s|]. reflexivity. }
  (* the fraction part *)
  set (fr := (if nf =? 0 then [] else 46%N :: pad0 nf (digits fv)) ++ ext).
  assert (NDf : nodigit fr).
  { unfold fr. destruct (nf =? 0); [exact NDe|]. reflexivity. }
  assert (PF : parse_frac fr = (fv, nf, ext)).
  { unfold parse_frac, fr. destruct (Z.eqb_spec nf 0) as [->|NZ].
    - change (10 ^ 0) with 1 in FV. assert (fv = 0) by lia. subst fv. cbn [app].
      destruct ext as [|c r0]; [reflexivity|]. rewrite N46e. reflexivity.
    - cbn [app]. change (46 =? 46)%N with true. cbv iota.
      destruct (pad0_spec nf fv FV ltac:(lia)) as [P1 [P2 P3]].
      rewrite (pdigits_app _ 0 0 ext P1 NDe). rewrite P2, P3. reflexivity. }
  destruct (digits_head ip ltac:(lia)) as [d [ds [DE DD]]].
  destruct (digits_spec ip ltac:(lia)) as [D1 [D2 [D3 D4]]].
  destruct (digit_not d DD) as [N45 NINF].
  assert (PI : pdigits 0 0 (digits ip ++ fr) = (ip, Z.of_nat (length (digits ip)), fr)).
  { rewrite (pdigits_app _ 0 0 fr D1 NDf). rewrite D2. reflexivity. }
  assert (LEN : (Z.of_nat (length (digits ip)) =? 0) = false).
  { rewrite DE. simpl length. apply Z.eqb_neq. lia. }
  replace ((if neg then [45%N] else []) ++ digits ip ++
           (if nf =? 0 then [] else 46%N :: pad0 nf (digits fv)) ++
           (if r =? 0 then [] else 101%N :: zstr r) ++ pre ++ un)
    with ((if neg then [45%N] else []) ++ digits ip ++ fr).
  2:{ unfold fr, ext, s. reflexivity. }
  unfold parse. destruct neg.
  - cbn [app]. rewrite DE. cbn [app].
    assert (T1 : label_eqb (45%N :: d :: ds ++ fr) [INF] = false) by reflexivity.
    assert (T2 : label_eqb (45%N :: d :: ds ++ fr) [45%N; INF] = false).
    { cbn [label_eqb]. unfold INF. rewrite NINF. reflexivity. }
    rewrite T1, T2. change (45 =? 45)%N with true. cbv iota.
    change (d :: ds ++ fr) with ((d :: ds) ++ fr). rewrite <- DE, PI, LEN, PF, PE, PS. reflexivity.
  - cbn [app]. rewrite DE. cbn [app].
    assert (T1 : label_eqb (d :: ds ++ fr) [INF] = false).
    { cbn [label_eqb]. unfold INF. rewrite NINF. reflexivity. }
    assert (T2 : label_eqb (d :: ds ++ fr) [45%N; INF] = false).
    { cbn [label_eqb]. rewrite N45. reflexivity. }
    rewrite T1, T2, N45.
    change (d :: ds ++ fr) with ((d :: ds) ++ fr). rewrite <- DE, PI, LEN, PF, PE, PS. reflexivity.
Qed.

(* ---------- the rendered text reads back exactly ---------- *)
Theorem float_text_exact m e p up t un :
  1 <= p -> 10 ^ (p - 1) <= Z.abs m <= 10 ^ p -> e <= max_exp up t ->
  (up = true -> table_ok t) -> suffix_clean up t un ->
  exists r, parse up t un (float_text m e p up t un) = Some r /\
    p_inf r = false /\ p_neg r = (m <? 0) /\
    (pvalue r == inject_Z m * Qpow10 e)%Q /\
    shown_exponent r mod 3 = 0 /\
    10 ^ p_nfrac r <= shown_mantissa_scaled r <= 1000 * 10 ^ p_nfrac r.
Proof.
  intros P M EM OK [CU CL].
  unfold float_text. destruct (e >? max_exp up t) eqn:EI; [apply Z.gtb_lt in EI; lia|].
  destruct (number_text_shape m e p P M) as [ip [fv [nf [SH [IP [NF [FV [QV BD]]]]]]]].
  destruct (exponent3_spec e p) as [_ M3]. set (e3 := exponent3 e p) in *.
  destruct (exp_parts up t e3 OK M3) as [pe [SUM PRE]].
  set (pre := exp_prefix up t e3) in *. set (rb := rebase_exp up t e3) in *.
  assert (CLN : clean (pre ++ un) = true).
  { destruct PRE as [[-> _]|[UP [_ [_ I]]]]; [exact CU|]. exact (CL UP pe pre I). }
  assert (PS : parse_suffix up t un (pre ++ un) = Some pe).
  { apply parse_suffix_ok. destruct PRE as [[E1 E2]|[UP [NE [R _]]]]; [left; auto|right; auto]. }
  pose proof (parse_shape up t un (m <? 0) ip fv nf rb pre pe IP NF FV CLN PS) as PAR.
  eexists. split.
  - rewrite SH. unfold exp_extension. fold rb. cbv zeta. rewrite <- !app_assoc. exact PAR.
  - cbn [p_inf p_neg]. split; [reflexivity|]. split; [reflexivity|].
    unfold pvalue, shown_exponent, shown_mantissa_scaled.
    cbn [p_neg p_int p_frac p_nfrac p_eext p_epre].
    split; [|split; [rewrite SUM; exact M3|exact BD]].
    rewrite SUM. set (MM := ip * 10 ^ nf + fv) in *.
    assert (SG : m = (if m <? 0 then -1 else 1) * Z.abs m).
    { destruct (Z.ltb_spec m 0); lia. }
    rewrite SG at 2. set (sg := if m <? 0 then -1 else 1).
    change (sg * MM # 1)%Q with (inject_Z (sg * MM)). rewrite !inject_Z_mult.
    rewrite <- !Qmult_assoc. rewrite QV. reflexivity.
Qed.

(* saturation *)
Lemma float_text_inf m e p up t un : max_exp up t < e ->
  float_text m e p up t un = if m >=? 0 then [INF] else [45%N; INF].
Proof. intros H. unfold float_text. destruct (e >? max_exp up t) eqn:E; [reflexivity|].
  destruct (Z.gtb_spec e (max_exp up t)); [discriminate|lia]. Qed.

(* ---------- end to end: value -> text -> value ---------- *)
Theorem sci_text_accurate x p up t un :
  ~ (x == 0)%Q -> 1 <= p -> ~ (2 <= p /\ carry_region_Q x p) -> exponent x p <= max_exp up t ->
  (up = true -> table_ok t) -> suffix_clean up t un ->
  exists r, parse up t un (sci_text x p up t un) = Some r /\
    p_inf r = false /\ (p_neg r = true <-> (x < 0)%Q) /\
    (Qabs (pvalue r - x) <= Qpow10 (exponent x p) / 2)%Q /\
    shown_exponent r mod 3 = 0 /\
    10 ^ p_nfrac r <= shown_mantissa_scaled r <= 1000 * 10 ^ p_nfrac r.
Proof.
  intros X P ND EM OK CL. unfold sci_text.
  pose proof (mantissa_range x p X P ND) as MR.
  destruct (float_text_exact (mantissa x p) (exponent x p) p up t un P MR EM OK CL)
    as [r [PAR [I [NG [PV [E3 BD]]]]]].
  exists r. split; [exact PAR|]. split; [exact I|].
  destruct (mantissa_sign x p X P ND) as [S1 S2].
  split; [|split; [|split; [exact E3|exact BD]]].
  - rewrite NG. split; intros H.
    + apply Z.ltb_lt in H. destruct (Qlt_le_dec x 0) as [C|C]; [exact C|]. exfalso.
      assert (0 < x)%Q. { destruct (Qle_lt_or_eq _ _ C) as [C'|C']; [exact C'|]. exfalso. apply X. symmetry. exact C'. }
      specialize (S1 H0). lia.
    + apply Z.ltb_lt. exact (S2 H).
  - rewrite PV. apply exponent_mantissa_accurate.
Qed.

(* ---------- ScientificComplex, Cartesian ---------- *)
Definition Qneg (x : Q) : bool := Qnum x <? 0.
Lemma Qneg_spec x : Qneg x = true <-> (x < 0)%Q.
Proof. unfold Qneg, Qlt. destruct x as [n d]. simpl. rewrite Z.ltb_lt. lia. Qed.

Theorem complex_text_signs (re im : Q) p up t un (compact : bool) :
  let TR := sci_text (Qabs re) p up t un in
  let TI := sci_text (Qabs im) p up t un in
  let rsg := if Qneg re then (if compact then [45%N] else [45%N; 32%N]) else [] in
  let isg := if Qneg im then (if compact then [45%N] else [32%N; 45%N; 32%N])
            else (if compact then [43%N] else [32%N; 43%N; 32%N]) in
  complex_text re im p up t un compact =
    if is_zero (Qabs im) p (min_exp up t) then rsg ++ TR
    else if is_zero (Qabs re) p (min_exp up t) then (if Qneg im then isg ++ LJ :: TI else LJ :: TI)
    else rsg ++ TR ++ isg ++ LJ :: TI.
Proof.
  cbv zeta. unfold complex_text, real_sign, imag_sign, Qneg.
  assert (G : forall z, (z >=? 0) = negb (z <? 0)).
  { intros z. destruct (Z.geb_spec z 0), (Z.ltb_spec z 0); try reflexivity; lia. }
  rewrite !G. destruct (Qnum re <? 0), (Qnum im <? 0); reflexivity.
Qed.
