(* Theory/LoadersGenThm.v — the definitions regenerated from Network/loaders.py, dump_load.py, Circuit/dump_load.py
   (Gen/LoadersGen.v, written by tools/gen_loaders.py in the vocabulary of Model/LoadersPrims.v) are the hand-written model
   Model/Loaders.v.  Statements: Properties/C17c.v, C19c.v. *)
From Coq Require Import List Bool NArith ZArith Arith Lia Permutation.
From CC Require Import Theory.Field Theory.Complex Theory.Labels Model.Network Gen.Tables Model.Circuit Model.Loaders Theory.LoadersThm
  Model.LoadersPrims Gen.LoadersGen.
Import ListNotations.

(* [covers h g]: wherever the hand model [h] makes a claim about the Python code (any answer but EOther = "outside the
   modelled domain"), the regenerated definition [g] gives the same answer *)
Definition covers {X} (h g : res X) : Prop := h <> Err EOther -> g = h.
Definition rmap {X Y} (f : X -> Y) (r : res X) : res Y := match r with Ok x => Ok (f x) | Err e => Err e end.

Lemma covers_refl {X} (h : res X) : covers h h.
Proof. intros _. reflexivity. Qed.
Lemma covers_ok {X} (h g : res X) x : covers h g -> h = Ok x -> g = Ok x.
Proof. intros H E. rewrite <- E. apply H. rewrite E. discriminate. Qed.
Lemma covers_err {X} (h g : res X) e : covers h g -> h = Err e -> e <> EOther -> g = Err e.
Proof. intros H E N. rewrite <- E. apply H. rewrite E. congruence. Qed.

(* the string literals of the sources are the constants of the hand model *)
Ltac lk_norm :=
  change lk_real with s_real in *; change lk_imag with s_imag in *; change lk_abs with s_abs in *;
  change lk_phase with s_phase in *; change lk_phase_deg with s_phase_deg in *; change lk_N1 with s_N1 in *;
  change lk_N2 with s_N2 in *; change lk_id with s_id in *; change lk_name with s_name in *; change lk_type with s_type in *;
  change lk_value with s_value in *; change lk_nodes with s_nodes in *; change lk_components with s_components in *.

Local Arguments call_translator : simpl never.
Local Arguments construct : simpl never.
Local Arguments validate : simpl never.
Local Arguments find_lentry : simpl never.
Local Arguments find_cfactory : simpl never.
Local Arguments as_label : simpl never.
Local Arguments tfind : simpl never.
Local Arguments tfind_fmt : simpl never.

Section Thm.
Variable R : fops.
Variable leb : R -> R -> bool.
Variable pi : R.
Variable cis : R -> R * R.
Notation C := (Cx R).
Notation jval := (jval R).
Notation jdict := (dict (Loaders.jval R)).

(* ================= Network/loaders.py ================= *)
(* symbolic execution: case analysis on whatever the two sides inspect *)
Ltac dm := match goal with
  | |- context [match ?x with _ => _ end] => is_var x; destruct x
  | |- context [if ?b then _ else _] => is_var b; destruct b
  | |- context [match dget ?d ?k with _ => _ end] => destruct (dget d k)
  | |- context [match ?x with _ => _ end] =>
      lazymatch x with context [match _ with _ => _ end] => fail | _ => destruct x end
  | |- context [if ?x then _ else _] =>
      lazymatch x with context [match _ with _ => _ end] => fail | _ => destruct x end
  end.
Ltac crush := repeat (cbn; dm); cbn; intros; try reflexivity; try congruence.

Theorem gen_to_complex_covers (deg : bool) (z : jval) :
  covers (rmap (fun c => JCplx c) (to_complex R pi cis deg z)) (g_to_complex R pi cis z deg).
Proof.
  autounfold with gen_loaders. unfold to_complex, covers. lk_norm.
  unfold cartesian_of, polar_of, py_getitem, py_complex, py_mul, py_div_int, np_cos, np_sin, np_real_fun, np_pi, as_num, as_real.
  crush.
Qed.

(* dictionaries written in different ways: reads through deletions / assignments, deletion after assignment, a filter on
   a list of keys as deletions *)
Lemma ddel_dset_neq {A} (d : dict A) (k k' : label) (v : A) : label_eqb k k' = false -> ddel (dset d k v) k' = dset (ddel d k') k v.
Proof.
  intros N. induction d as [|[a x] r IH]; cbn.
  - rewrite N. reflexivity.
  - destruct (label_eqb_spec a k) as [->|Hak]; cbn.
    + rewrite N. cbn. rewrite label_eqb_refl. reflexivity.
    + destruct (label_eqb a k') eqn:E; cbn; [exact IH|]. destruct (label_eqb_spec a k); [contradiction|]. f_equal. exact IH.
Qed.
Lemma dict_without_nil (d : jdict) : dict_without R d [] = d.
Proof. unfold dict_without. induction d as [|a r IH]; cbn; [reflexivity|]. f_equal. exact IH. Qed.
Lemma dict_without_cons (d : jdict) (k : label) (ks : list label) : dict_without R d (k :: ks) = dict_without R (ddel d k) ks.
Proof.
  unfold dict_without, ddel. induction d as [|[a x] r IH]; [reflexivity|].
  cbn [filter fst]. unfold lmem at 1. cbn [existsb]. fold (lmem a ks).
  destruct (label_eqb a k) eqn:E; cbn [orb negb].
  - exact IH.
  - cbn [filter fst]. destruct (lmem a ks); cbn [negb]; [exact IH | f_equal; exact IH].
Qed.
Lemma ddel_comm {A} (d : dict A) (k k' : label) : ddel (ddel d k) k' = ddel (ddel d k') k.
Proof.
  unfold ddel. induction d as [|[a x] r IH]; cbn; [reflexivity|].
  destruct (label_eqb a k) eqn:E1, (label_eqb a k') eqn:E2; cbn; rewrite ?E1, ?E2; cbn; try exact IH. f_equal. exact IH.
Qed.
Ltac dict_norm :=
  repeat first [ rewrite dict_without_cons | rewrite dict_without_nil | rewrite dget_ddel | rewrite dget_dset
               | rewrite ddel_dset_neq by reflexivity ];
  cbn [label_eqb N.eqb Pos.eqb andb].

Ltac crushd := repeat (cbn; dict_norm; dm); cbn; dict_norm; intros; try reflexivity; try congruence.

Theorem gen_entry_to_branch_eq (e : jval) :
  g_load_network__entry_to_branch R pi cis e = entry_to_branch_st R pi cis true e.
Proof.
  autounfold with gen_loaders.
  unfold entry_to_branch_st, entry_to_branch_local, sbind, spop, sset, sget, slift, sread, bindS.
  lk_norm. unfold py_dict, py_pop, py_getitem, py_setitem, py_items, py_table_item, lookup_translator, py_kwargs, Branch_ctor.
  destruct e as [| b | q | s | c | l | d]; try reflexivity.
  crushd.
Qed.

Lemma gen_entries_eq (l : list jval) :
  map_st (g_load_network__entry_to_branch R pi cis) l = entries_st R pi cis true l.
Proof.
  induction l as [|e r IH]; [reflexivity|].
  cbn [map_st entries_st]. rewrite gen_entry_to_branch_eq, IH. reflexivity.
Qed.

Theorem gen_load_network_eq (d : jval) : g_load_network R pi cis d = load_network_st R pi cis d.
Proof.
  unfold g_load_network, load_network_st, load_network_gen, map_st_jv, Network_ctor.
  destruct d; try reflexivity.
  rewrite gen_entries_eq. destruct (entries_st R pi cis true l) as [[bs|e] l']; cbn.
  - destruct (validate _) as [n|e]; [reflexivity|]. destruct e; reflexivity.
  - destruct e; reflexivity.
Qed.

(* ================= dump_load.py ================= *)
Ltac lcases := repeat match goal with
  | |- context [label_eqb ?x ?y] => is_var x; destruct (label_eqb_spec x y); subst
  | |- context [label_eqb ?y ?x] => is_var x; destruct (label_eqb_spec y x); subst
  end.

Lemma same_keys_keys_are {A} (d : dict A) (k1 k2 : label) : k1 <> k2 -> same_keys (dkeys d) [k1; k2] = keys_are d k1 k2.
Proof.
  intros N. destruct d as [|[a va] [|[b vb] [|[c vc] r]]]; try reflexivity.
  cbn. unfold same_keys, lcount. cbn.
  destruct (label_eqb_spec a k1), (label_eqb_spec a k2), (label_eqb_spec b k1), (label_eqb_spec b k2); subst;
    rewrite ?label_eqb_refl; try congruence; cbn;
    repeat match goal with |- context [label_eqb ?x ?y] => destruct (label_eqb_spec x y); subst end; cbn; congruence.
Qed.

Lemma s_real_imag : s_real <> s_imag. Proof. discriminate. Qed.
Lemma s_abs_phase : s_abs <> s_phase. Proof. discriminate. Qed.
Lemma s_abs_phase_deg : s_abs <> s_phase_deg. Proof. discriminate. Qed.

(* the post-state of undictify_values_st is its result *)
Lemma undictify_values_st_result (d x d' : jdict) : undictify_values_st R leb pi cis d = (Ok x, d') -> x = d'.
Proof.
  revert x d'. induction d as [|[k v] r IH]; cbn; intros x d' H.
  - inversion H. reflexivity.
  - destruct (undict1 R leb pi cis v) as [v'|e]; [|discriminate].
    destruct (undictify_values_st R leb pi cis r) as [[y|e] r'] eqn:E; inversion H. f_equal. apply IH. reflexivity.
Qed.

(* a loop body that rewrites the item under the loop key like [undict1] *)
Definition undict1_body (body : label -> jval -> res unit * jval) : Prop :=
  forall k v, body k v = match undict1 R leb pi cis v with Ok v' => (Ok tt, v') | Err e => (Err e, v) end.
Lemma for_items_undict1 body (d : jdict) : undict1_body body ->
  for_items R body d = match undictify_values_st R leb pi cis d with (Ok _, d') => (Ok tt, d') | (Err e, d') => (Err e, d') end.
Proof.
  intros Hb. induction d as [|[k v] r IH]; [reflexivity|].
  cbn [for_items undictify_values_st]. rewrite Hb. destruct (undict1 R leb pi cis v) as [v'|e]; [|reflexivity].
  rewrite IH. destruct (undictify_values_st R leb pi cis r) as [[y|e] r']; reflexivity.
Qed.

Theorem gen_undictify_complex_values_eq (x : jval) :
  g_undictify_complex_values R leb pi cis x
  = match x with
    | JDict d => let '(r, d') := undictify_values_st R leb pi cis d in (rmap (fun y => JDict y) r, JDict d')
    | _ => (Err EAttribute, x)
    end.
Proof.
  unfold g_undictify_complex_values.
  match goal with |- context [for_items_jv R ?b] => set (body := b) end.
  autounfold with gen_loaders in body.      (* helpers of the loop body (key test, polar form), whatever their names *)
  assert (Hb : undict1_body body).
  { intros k v. subst body. cbn beta. lk_norm. unfold undict1, polar_value.
    destruct v as [| b | q | s | c | l | d]; try reflexivity.
    unfold py_keys, is_dict. cbn [bind].
    rewrite !same_keys_keys_are by discriminate.
    destruct d as [|[ka va] [|[kb vb] [|[kc vc] r]]]; try reflexivity.
    unfold keys_are.
    lcases; cbn; try reflexivity;
      unfold seqS, bindS, py_complex, py_lt_int, py_mul, np_cos, np_sin, np_deg2rad, np_real_fun, ltb0, as_num, as_real, scale;
      crush. }
  unfold for_items_jv. destruct x as [| b | q | s | c | l | d]; try reflexivity.
  rewrite (for_items_undict1 body d Hb).
  destruct (undictify_values_st R leb pi cis d) as [[y|e] d'] eqn:E; cbn; [|reflexivity].
  apply undictify_values_st_result in E. subst. reflexivity.
Qed.

Lemma mapR_Forall_ok {A B} (f : A -> res B) (g : A -> B) (l : list A) :
  Forall (fun a => f a = Ok (g a)) l -> mapR f l = Ok (map g l).
Proof. induction 1 as [|a r Ha _ IH]; [reflexivity|]. cbn. rewrite Ha, IH. reflexivity. Qed.
Lemma mapR_Forall_ext {A B} (f g : A -> res B) (l : list A) : Forall (fun a => f a = g a) l -> mapR f l = mapR g l.
Proof. induction 1 as [|a r Ha _ IH]; [reflexivity|]. cbn. rewrite Ha, IH. reflexivity. Qed.

(* dictify_complex_values (no counterpart in Model/Loaders.v): the complex values among the VALUES of the dictionary are
   replaced in place by {real, imag}; nested containers are left alone; the dictionary given is the one returned *)
Definition dictify1 (v : jval) : jval :=
  match v with JCplx z => JDict [(s_real, JNum (fst z)); (s_imag, JNum (snd z))] | _ => v end.
Definition dictify_values (d : jdict) : jdict := map (fun kv => (fst kv, dictify1 (snd kv))) d.
Theorem gen_dictify_complex_values_eq (x : jval) :
  g_dictify_complex_values R x
  = match x with
    | JDict d => (Ok (JDict (dictify_values d)), JDict (dictify_values d))
    | _ => (Err EAttribute, x)
    end.
Proof.
  unfold g_dictify_complex_values, for_items_jv. lk_norm.
  destruct x as [| b | q | s | c | l | d]; try reflexivity.
  match goal with |- context [for_items R ?b] => set (body := b) end.
  assert (H : for_items R body d = (Ok tt, dictify_values d)).
  { induction d as [|[k v] r IH]; [reflexivity|]. cbn [for_items]. rewrite IH. subst body. destruct v; reflexivity. }
  rewrite H. reflexivity.
Qed.
Lemma dictify1_scalar (v : jval) : is_dict R v = false -> is_list R v = false -> dictify1 v = dictify_all R v.
Proof. destruct v; cbn; congruence. Qed.

Lemma gen_dictify_convert_eq (t : jval) : g_dictify_all_complex_values__convert R t = Ok (dictify_all R t).
Proof.
  induction t as [| b | q | s | z | l IH | l IH] using (jval_ind' R); try reflexivity.
  - cbn [g_dictify_all_complex_values__convert dictify_all].
    rewrite (mapR_Forall_ok _ (dictify_all R)); [reflexivity|].
    eapply Forall_impl; [|exact IH]. cbn. intros a Ha. rewrite Ha. reflexivity.
  - cbn [g_dictify_all_complex_values__convert dictify_all].
    rewrite (mapR_Forall_ok _ (fun kv : label * jval => let '(k, v) := kv in (k, dictify_all R v))); [reflexivity|].
    eapply Forall_impl; [|exact IH]. intros [k v] Ha. cbn in *. rewrite Ha. reflexivity.
Qed.
Theorem gen_dictify_all_eq (t : jval) : g_dictify_all_complex_values R t = Ok (dictify_all R t).
Proof. unfold g_dictify_all_complex_values. rewrite gen_dictify_convert_eq. reflexivity. Qed.

Lemma gen_undictify_one (v : jval) :
  bind (st_fst (g_undictify_complex_values R leb pi cis (JDict [(lk_value, v)]))) (fun x => py_getitem R x lk_value)
  = undict1 R leb pi cis v.
Proof.
  rewrite gen_undictify_complex_values_eq. cbn [undictify_values_st].
  destruct (undict1 R leb pi cis v) as [v'|e]; reflexivity.
Qed.
Lemma gen_undictify_convert_eq (t : jval) : g_undictify_all_complex_values__convert R leb pi cis t = undict_conv R leb pi cis t.
Proof.
  induction t as [| b | q | s | z | l IH | l IH] using (jval_ind' R); try reflexivity.
  - cbn [g_undictify_all_complex_values__convert undict_conv].
    rewrite (mapR_Forall_ext _ (undict_conv R leb pi cis)).
    + destruct (mapR _ l); reflexivity.
    + eapply Forall_impl; [|exact IH]. cbn. intros a Ha. rewrite Ha. destruct (undict_conv R leb pi cis a); reflexivity.
  - cbn [g_undictify_all_complex_values__convert undict_conv].
    rewrite (mapR_Forall_ext _ (fun kv : label * jval => let '(k, v) := kv in bind (undict_conv R leb pi cis v) (fun v' => Ok (k, v')))).
    + destruct (mapR _ l) as [l'|e]; [|reflexivity]. cbn [bind].
      rewrite <- gen_undictify_one. destruct (st_fst _) as [a|e]; [|reflexivity]. cbn [bind].
      destruct (py_getitem R a lk_value); reflexivity.
    + eapply Forall_impl; [|exact IH]. intros [k v] Ha. cbn in *. rewrite Ha. reflexivity.
Qed.
Theorem gen_undictify_all_eq (t : jval) : g_undictify_all_complex_values R leb pi cis t = undictify_all R leb pi cis t.
Proof.
  unfold g_undictify_all_complex_values, undictify_all, py_items. destruct t; try reflexivity. cbn [bind].
  rewrite (mapR_Forall_ext _ (fun kv : label * jval => let '(k, v) := kv in bind (undict_conv R leb pi cis v) (fun v' => Ok (k, v')))).
  - destruct (mapR _ l) as [l'|e]; [|reflexivity]. cbn [bind].
    rewrite gen_undictify_complex_values_eq. unfold undictify_values, st_fst.
    destruct (undictify_values_st R leb pi cis l') as [[y|e] d']; reflexivity.
  - apply Forall_forall. intros [k v] _. rewrite gen_undictify_convert_eq. reflexivity.
Qed.

(* ---- the text layer: format tables, serialize / deserialize / dump / load ---- *)
Lemma gen_format_tables : g_serializers = expected_formats /\ g_deserializers = expected_formats.
Proof. split; reflexivity. Qed.
(* an unknown format is refused before the data are looked at; a known one runs the processor, then the codec *)
Theorem gen_serialize_spec {T} (dumps : textfmt -> jval -> res T) (data : jval) (f : label) (proc : jval -> res jval) :
  g_serialize R dumps data f proc
  = match tfind_fmt f expected_formats with None => Err EValue | Some c => bind (proc data) (dumps c) end.
Proof. unfold g_serialize. change g_serializers with expected_formats. destruct (tfind_fmt f expected_formats); reflexivity. Qed.
Theorem gen_deserialize_spec {T X} (loads : textfmt -> T -> res jval) (text : T) (f : label) (proc : jval -> res X) :
  g_deserialize R loads text f proc
  = match tfind_fmt f expected_formats with None => Err EValue | Some c => bind (loads c text) proc end.
Proof. unfold g_deserialize. change g_deserializers with expected_formats. destruct (tfind_fmt f expected_formats); reflexivity. Qed.
Theorem gen_unknown_format {T X} (dumps : textfmt -> jval -> res T) (loads : textfmt -> T -> res jval)
  (data : jval) (text : T) (f : label) (proc : jval -> res jval) (pre : jval -> res X) :
  tfind_fmt f expected_formats = None ->
  g_serialize R dumps data f proc = Err EValue /\ g_deserialize R loads text f pre = Err EValue.
Proof. intros H. rewrite gen_serialize_spec, gen_deserialize_spec, H. split; reflexivity. Qed.
(* with a text layer that reads back what it wrote, deserialize o serialize (default processors) = undictify_all o dictify_all *)
Theorem gen_serialize_roundtrip {T} (dumps : textfmt -> jval -> res T) (loads : textfmt -> T -> res jval) (x : jval) (f : label) (t : T) :
  (forall c d t, dumps c d = Ok t -> loads c t = Ok d) ->
  g_serialize R dumps x f (g_serialize_default_dict_processor R) = Ok t ->
  g_deserialize R loads t f (g_deserialize_default_dict_preprocessor R leb pi cis) = undictify_all R leb pi cis (dictify_all R x).
Proof.
  intros Hrt. rewrite gen_serialize_spec, gen_deserialize_spec.
  unfold g_serialize_default_dict_processor, g_deserialize_default_dict_preprocessor.
  destruct (tfind_fmt f expected_formats) as [c|]; [|discriminate].
  rewrite gen_dictify_all_eq. cbn [bind]. intros H. rewrite (Hrt _ _ _ H). cbn [bind]. apply gen_undictify_all_eq.
Qed.
(* dump writes, under the name given, what dump_fcn makes of the data for the suffix; load hands the text read and the suffix on *)
Theorem gen_dump_load {T X} (suffix_of : label -> label) (file : label) (data : jval) (dump_fcn : jval -> label -> res T)
  (de : T -> label -> res X) (w : label * T) :
  g_dump R suffix_of file data dump_fcn = Ok w ->
  fst w = file /\ dump_fcn data (suffix_of file) = Ok (snd w)
  /\ g_load suffix_of (fun n => if label_eqb n (fst w) then Ok (snd w) else Err EOther) file de = de (snd w) (suffix_of file).
Proof.
  unfold g_dump, g_load. destruct (dump_fcn data (suffix_of file)) as [t|e]; cbn; [|discriminate].
  intros H. inversion H. cbn. rewrite label_eqb_refl. auto.
Qed.

(* ================= Circuit/dump_load.py ================= *)
(* the table lookup may sit in a helper of its own (`try: return TABLE[x] except KeyError: raise E` = try_res .. (Err E)) or
   in generate_component itself (reraise): both are unfolded; helpers are in the hint database gen_loaders *)
Theorem gen_generate_component_eq (d : jdict) :
  g_generate_component R leb (JDict d) = generate_component_st R leb (JDict d).
Proof.
  autounfold with gen_loaders.
  unfold generate_component_st, generate_component_local, sbind, spop, sread, slift, bindS, tryS, reraise, try_res.
  lk_norm. unfold py_copy, py_getitem, py_pop, py_table_item, lookup_component_factory, find_cfactory, py_kwargs, typeerror_to_incorrect.
  crushd.
Qed.
Theorem gen_generate_component_no_mutation (x : jval) : snd (g_generate_component R leb x) = x.
Proof.
  autounfold with gen_loaders. unfold bindS, tryS, reraise, try_res.
  unfold py_copy, py_getitem, py_pop, py_table_item, find_cfactory, py_kwargs.
  crush.
Qed.
Theorem gen_generate_component_covers (x : jval) :
  covers (generate_component R leb x) (st_fst (g_generate_component R leb x)).
Proof.
  destruct x; try (intros H; exfalso; apply H; reflexivity).
  unfold generate_component, st_fst. rewrite gen_generate_component_eq. apply covers_refl.
Qed.

Lemma covers_bind {X Y} (h g : res X) (k : X -> res Y) : covers h g -> covers (bind h k) (bind g k).
Proof.
  intros H N. destruct h as [x|e].
  - rewrite (covers_ok _ _ _ H eq_refl). reflexivity.
  - cbn in *. rewrite (covers_err _ _ e H eq_refl); [reflexivity|congruence].
Qed.
Lemma covers_mapR {A B} (f g : A -> res B) (l : list A) : (forall a, covers (f a) (g a)) -> covers (mapR f l) (mapR g l).
Proof.
  intros H. induction l as [|a r IH]; [apply covers_refl|].
  cbn [mapR]. intros N. destruct (f a) as [b|e] eqn:Ea.
  - rewrite (covers_ok _ _ _ (H a) Ea).
    destruct (mapR f r) as [bs|e] eqn:Er.
    + rewrite (covers_ok _ _ _ IH eq_refl). reflexivity.
    + rewrite (covers_err _ _ e IH eq_refl); [reflexivity|congruence].
  - rewrite (covers_err _ _ e (H a) Ea); [reflexivity|congruence].
Qed.
Theorem gen_undictify_circuit_covers (x : jval) : covers (undictify_circuit R leb x) (g_undictify_circuit R leb x).
Proof.
  unfold undictify_circuit, g_undictify_circuit, py_getitem. lk_norm.
  destruct x as [| b | q | s | c | l | d]; try (intros H; exfalso; apply H; reflexivity).
  destruct (dget d s_components) as [v|]; [|apply covers_refl]. cbn [bind].
  destruct v as [| b | q | s | c | es | d']; try (intros H; exfalso; apply H; reflexivity).
  cbn [py_iter bind]. unfold Circuit_ctor.
  apply (covers_bind (mapR (generate_component R leb) es)).
  intros N. rewrite <- (covers_mapR _ _ es gen_generate_component_covers N).
  apply mapR_Forall_ext, Forall_forall. intros a _. destruct (st_fst _); reflexivity.
Qed.
Theorem gen_dictify_circuit_eq (c : list (lcomp R) * label) :
  g_dictify_circuit R c = Ok (JDict [(s_components, JList (map (asdict_lcomp R) (fst c)))]).
Proof. reflexivity. Qed.
Lemma gen_circuit_entry_points : g_circuit_entry_points = expected_circuit_entry_points.
Proof. reflexivity. Qed.

(* translate_to_complex: one key after the other, kwargs[key] converted in place (the position of the key is kept) *)
Theorem gen_translate_to_complex_step (k : label) (keys : list label) (kw : jdict) :
  g_translate_to_complex R pi cis [] kw = Ok (JDict kw)
  /\ g_translate_to_complex R pi cis (k :: keys) kw
     = match dget kw k with
       | None => Err EKeyError
       | Some v => bind (g_to_complex R pi cis v false) (fun c => g_translate_to_complex R pi cis keys (dset kw k c))
       end.
Proof.
  split; [reflexivity|]. unfold g_translate_to_complex. cbn [for_each py_getitem].
  destruct (dget kw k) as [v|]; [|reflexivity]. cbn [bind].
  destruct (g_to_complex R pi cis v false) as [c|e]; reflexivity.
Qed.

(* translate_to_complex against the row reading of gen_tables.py.  For `lambda **kwargs: elm.f( **translate_to_complex(keys=[..],
   **kwargs))` gen_tables.py writes the row  conv = [(k, k, popped, converted) for k in keys], rest = true  ("behaves like pop +
   pass").  With distinct keys (a Python dict; a literal list without repetition) the constructor sees the same keyword set. *)
Lemma perm_cons_filter (k : label) (l : list label) : NoDup l -> In k l ->
  Permutation l (k :: filter (fun x => negb (label_eqb x k)) l).
Proof.
  induction l as [|a r IH]; intros ND Hin; [contradiction|]. inversion ND as [|? ? Hna ND']; subst. cbn [filter].
  destruct (label_eqb_spec a k) as [->|Hak]; cbn [negb].
  - assert (E : filter (fun x => negb (label_eqb x k)) r = r).
    { clear -Hna. induction r as [|b r IHr]; [reflexivity|]. cbn [filter].
      destruct (label_eqb_spec b k) as [->|_]; [exfalso; apply Hna; left; reflexivity|]. cbn [negb]. f_equal. apply IHr.
      intros H. apply Hna. right. exact H. }
    rewrite E. reflexivity.
  - destruct Hin as [->|Hin]; [contradiction|]. rewrite perm_swap. apply perm_skip. apply IH; assumption.
Qed.
Lemma dget_None_rev (acc : jdict) (k : label) : ~ In k (dkeys acc) -> dget (rev acc) k = None.
Proof. intros H. apply dget_None. unfold dkeys. rewrite map_rev. intros H'. apply H. apply in_rev. exact H'. Qed.

Lemma translate_row_gen (ctor : label) (keys : list label) : forall (kwg kwh acc : jdict),
  NoDup keys -> NoDup (dkeys kwh) -> (forall k, In k keys -> ~ In k (dkeys acc)) -> deq R kwg (rev acc ++ kwh) ->
  covers (bind (apply_conv R pi cis (map (fun k => (k, k, true, true)) keys) kwh acc)
               (fun ck => call_element_ctor R ctor (fst ck ++ snd ck)))
         (bind (g_translate_to_complex R pi cis keys kwg) (fun kw' => bind (py_kwargs R kw') (call_element_ctor R ctor))).
Proof.
  induction keys as [|k r IH]; intros kwg kwh acc NDk NDh Hacc D.
  - cbn. rewrite (element_ctor_deq R ctor _ _ D). apply covers_refl.
  - destruct (gen_translate_to_complex_step k r kwg) as [_ ->]. cbn [map apply_conv].
    assert (Hk : dget kwg k = dget kwh k).
    { rewrite (proj2 D k), dget_app, (dget_None_rev acc k (Hacc k (or_introl eq_refl))). reflexivity. }
    rewrite Hk. destruct (dget kwh k) as [v|] eqn:Ev; [|apply covers_refl].
    pose proof (gen_to_complex_covers false v) as Hc.
    destruct (to_complex R pi cis false v) as [c|e] eqn:Ec; cbn [bind].
    + rewrite (covers_ok _ _ _ Hc eq_refl). cbn [bind].
      inversion NDk as [|? ? Hnk NDr]; subst.
      apply IH.
      * exact NDr.
      * apply NoDup_ddel. exact NDh.
      * intros q Hq [Hq'|Hq']; [subst q; contradiction|]. exact (Hacc q (or_intror Hq) Hq').
      * split.
        -- rewrite dkeys_dset_cases.
           assert (Hin : In k (dkeys kwh)) by (apply dget_In; rewrite Ev; discriminate).
           assert (Hm : lmem k (dkeys kwg) = true).
           { apply lmem_spec. apply (Permutation_in k (Permutation_sym (proj1 D))). unfold dkeys. rewrite map_app. apply in_or_app. right. exact Hin. }
           rewrite Hm. eapply Permutation_trans; [exact (proj1 D)|].
           unfold dkeys. cbn [rev]. rewrite !map_app. cbn [map fst]. rewrite <- app_assoc. apply Permutation_app; [reflexivity|].
           cbn [app]. fold (dkeys kwh). fold (dkeys (ddel kwh k)). rewrite dkeys_ddel_filter. apply perm_cons_filter; assumption.
        -- intros q. rewrite dget_dset. cbn [rev]. rewrite !dget_app. cbn [dget].
           rewrite (proj2 D q), dget_app, dget_ddel.
           destruct (label_eqb_spec k q) as [->|Hkq].
           ++ rewrite (dget_None_rev acc q (Hacc q (or_introl eq_refl))). reflexivity.
           ++ destruct (dget (rev acc) q); reflexivity.
    + intros N. cbn in N. rewrite (covers_err _ _ e Hc eq_refl); [reflexivity|congruence].
Qed.
Theorem gen_translate_to_complex_row (t ctor : label) (keys : list label) (kw : jdict) : NoDup keys -> NoDup (dkeys kw) ->
  covers (call_translator R pi cis {| l_type := t; l_ctor := ctor; l_conv := map (fun k => (k, k, true, true)) keys; l_rest := true |} kw)
         (bind (g_translate_to_complex R pi cis keys kw) (fun kw' => bind (py_kwargs R kw') (call_element_ctor R ctor))).
Proof.
  intros NDk NDh. unfold call_translator. cbn [l_conv l_ctor l_rest].
  apply (translate_row_gen ctor keys kw kw [] NDk NDh); [intros k _ H; exact H|].
  split; [reflexivity|reflexivity].
Qed.

(* ================= the C17 / C19 statements, about the regenerated definitions ================= *)
Notation gload d := (fst (g_load_network R pi cis d)).
Notation gentry e := (fst (g_load_network__entry_to_branch R pi cis e)).
Notation ggen d := (fst (g_generate_component R leb d)).

Lemma gload_eq d : gload d = load_network R pi cis d.
Proof. rewrite gen_load_network_eq. reflexivity. Qed.

Theorem t_cartesian (deg : bool) (d : jdict) (a b : R) :
  dget d s_real = Some (JNum a) -> dget d s_imag = Some (JNum b) -> g_to_complex R pi cis (JDict d) deg = Ok (JCplx ((a, b) : C)).
Proof. intros Ha Hb. apply (covers_ok _ _ _ (gen_to_complex_covers deg (JDict d))).
  rewrite (to_complex_cartesian R pi cis deg d a b Ha Hb). reflexivity. Qed.
Theorem t_polar (d : jdict) (r ph c s : R) :
  (dget d s_real = None \/ dget d s_imag = None) ->
  dget d s_abs = Some (JNum r) -> dget d s_phase = Some (JNum ph) -> cis ph = (c, s) ->
  g_to_complex R pi cis (JDict d) false = Ok (JCplx ((fmul R r c, fmul R r s) : C)).
Proof. intros Hn Ha Hp Hc. apply (covers_ok _ _ _ (gen_to_complex_covers false (JDict d))).
  rewrite (to_complex_polar R pi cis d r ph c s Hn Ha Hp Hc). reflexivity. Qed.
Theorem t_polar_degree (d : jdict) (r ph c s : R) :
  (dget d s_real = None \/ dget d s_imag = None) ->
  dget d s_abs = Some (JNum r) -> dget d s_phase = Some (JNum ph) -> cis (fdiv R (fmul R ph pi) (ofZ R 180)) = (c, s) ->
  g_to_complex R pi cis (JDict d) true = Ok (JCplx ((fmul R r c, fmul R r s) : C)).
Proof. intros Hn Ha Hp Hc. apply (covers_ok _ _ _ (gen_to_complex_covers true (JDict d))).
  rewrite (to_complex_polar_degree R pi cis d r ph c s Hn Ha Hp Hc). reflexivity. Qed.
Theorem t_notations_agree (r ph : R) :
  let z : C := (fmul R r (fst (cis ph)), fmul R r (snd (cis ph))) in
  g_to_complex R pi cis (JDict [(s_abs, JNum r); (s_phase, JNum ph)]) false = Ok (JCplx z)
  /\ g_to_complex R pi cis (JDict [(s_real, JNum (fst z)); (s_imag, JNum (snd z))]) false = Ok (JCplx z).
Proof. cbv zeta. destruct (notations_agree R pi cis r ph) as [H1 H2]. cbv zeta in H1, H2. split.
  - apply (covers_ok _ _ _ (gen_to_complex_covers false _)). rewrite H1. reflexivity.
  - apply (covers_ok _ _ _ (gen_to_complex_covers false _)). rewrite H2. reflexivity. Qed.
Theorem t_notations_agree_degree (r ph : R) :
  let th := fdiv R (fmul R ph pi) (ofZ R 180) in
  let z : C := (fmul R r (fst (cis th)), fmul R r (snd (cis th))) in
  g_to_complex R pi cis (JDict [(s_abs, JNum r); (s_phase, JNum ph)]) true = Ok (JCplx z)
  /\ g_to_complex R pi cis (JDict [(s_real, JNum (fst z)); (s_imag, JNum (snd z))]) true = Ok (JCplx z).
Proof. cbv zeta. destruct (notations_agree_degree R pi cis r ph) as [H1 H2]. cbv zeta in H1, H2. split.
  - apply (covers_ok _ _ _ (gen_to_complex_covers true _)). rewrite H1. reflexivity.
  - apply (covers_ok _ _ _ (gen_to_complex_covers true _)). rewrite H2. reflexivity. Qed.
(* C19: what is not a complex notation is a FileFormatError: not a dictionary; no {real, imag} pair and no phase *)
Theorem t_wrong_notation (deg : bool) (z : jval) :
  match z with
  | JDict d => (dget d s_real = None \/ dget d s_imag = None) /\ dget d s_phase = None
  | _ => True
  end -> g_to_complex R pi cis z deg = Err EFileFormat.
Proof.
  intros H. apply (covers_err _ _ EFileFormat (gen_to_complex_covers deg z)); [|discriminate].
  destruct z as [| b | q | s | c | l | d]; try reflexivity. destruct H as [Hn Hp].
  unfold to_complex, cartesian_of, polar_of. rewrite Hp.
  destruct Hn as [-> | ->]; [reflexivity|]. destruct (dget d s_real); reflexivity.
Qed.

Theorem t_each_kind_description (es : list (espec R)) : (forall e, In e es -> espec_ok R e) ->
  gload (JList (map (entry_doc R) es)) = validate {| branches := map (entry_branch R cis) es; zero := s_zero |}.
Proof. intros H. rewrite gload_eq. apply each_kind_description, H. Qed.
Theorem t_each_kind_description_any_order (es : list (espec R * jdict)) :
  (forall p, In p es -> espec_ok R (fst p) /\ Permutation (snd p) (entry_dict R (fst p))) ->
  gload (JList (map (fun p => JDict (snd p)) es))
  = validate {| branches := map (fun p => entry_branch R cis (fst p)) es; zero := s_zero |}.
Proof. intros H. rewrite gload_eq. apply each_kind_description_any_order, H. Qed.
Theorem t_no_mutation (d : jval) : snd (g_load_network R pi cis d) = d.
Proof. rewrite gen_load_network_eq. apply load_network_no_mutation. Qed.
Theorem t_entry_no_mutation (e : jval) : snd (g_load_network__entry_to_branch R pi cis e) = e.
Proof. rewrite gen_entry_to_branch_eq. apply entry_copy_unchanged. Qed.
Theorem t_twice (d : jval) : gload (snd (g_load_network R pi cis d)) = gload d.
Proof. rewrite t_no_mutation. reflexivity. Qed.
Theorem t_nested (t : jval) : nocollb R t = true ->
  bind (g_dictify_all_complex_values__convert R t) (g_undictify_all_complex_values__convert R leb pi cis) = Ok t.
Proof. intros H. rewrite gen_dictify_convert_eq. cbn [bind]. rewrite gen_undictify_convert_eq. apply undict_dictify, H. Qed.
Theorem t_nested_document (l : jdict) : forallb (fun kv => nocollb R (snd kv)) l = true ->
  bind (g_dictify_all_complex_values R (JDict l)) (g_undictify_all_complex_values R leb pi cis) = Ok (JDict l).
Proof. intros H. rewrite gen_dictify_all_eq. cbn [bind]. rewrite gen_undictify_all_eq. apply undictify_all_dictify_all, H. Qed.
Theorem t_dictify_no_complex (t : jval) : exists t', g_dictify_all_complex_values R t = Ok t' /\ has_cplx R t' = false.
Proof. exists (dictify_all R t). split; [apply gen_dictify_all_eq|apply dictify_no_complex]. Qed.
Theorem t_undictify_values_no_mutation_of_others (x : jval) :
  match g_undictify_complex_values R leb pi cis x with (Ok y, x') => y = x' | (Err _, _) => True end.
Proof.
  rewrite gen_undictify_complex_values_eq. destruct x; try exact I.
  destruct (undictify_values_st R leb pi cis l) as [[y|e] d'] eqn:E; cbn; [|exact I].
  apply undictify_values_st_result in E. subst. reflexivity.
Qed.

Theorem t_convert (t : jval) :
  g_dictify_all_complex_values__convert R t = Ok (dictify_all R t)
  /\ g_undictify_all_complex_values__convert R leb pi cis t = undict_conv R leb pi cis t.
Proof. split; [apply gen_dictify_convert_eq|apply gen_undictify_convert_eq]. Qed.
Theorem t_no_mutation_others (deg : bool) (d : jval) :
  snd (g_to_complex_st R pi cis d deg) = d /\ snd (g_dictify_all_complex_values_st R d) = d
  /\ snd (g_undictify_all_complex_values_st R leb pi cis d) = d /\ snd (g_undictify_circuit_st R leb d) = d.
Proof. repeat split. Qed.

(* ---- C19 ---- *)
Lemma gentries_fst (l : list jval) : fst (map_st (g_load_network__entry_to_branch R pi cis) l) = fst (entries_st R pi cis true l).
Proof. rewrite gen_entries_eq. reflexivity. Qed.
Theorem t_position (pre post : list jval) (e : jval) bs x :
  fst (map_st (g_load_network__entry_to_branch R pi cis) pre) = Ok bs -> gentry e = Err x ->
  gload (JList (pre ++ e :: post)) = keyerror_to_fileexists (Err x).
Proof. rewrite gentries_fst, gen_entry_to_branch_eq, gload_eq. apply load_network_first_error. Qed.
Theorem t_unknown_kind (pre post : list jval) (d : jdict) (t : label) bs :
  fst (map_st (g_load_network__entry_to_branch R pi cis) pre) = Ok bs ->
  dget d s_N1 <> None -> dget d s_N2 <> None -> dget d s_id <> None -> dget d s_type = Some (JStr t) -> find_lentry t = None ->
  gload (JList (pre ++ JDict d :: post)) = Err EFileExists.
Proof. rewrite gentries_fst, gload_eq. apply load_network_unknown_type. Qed.
Theorem t_missing_field (pre post : list jval) (d : jdict) bs :
  fst (map_st (g_load_network__entry_to_branch R pi cis) pre) = Ok bs ->
  dget d s_N1 = None \/ dget d s_N2 = None \/ dget d s_id = None \/ dget d s_type = None ->
  gload (JList (pre ++ JDict d :: post)) = Err EFileExists.
Proof. rewrite gentries_fst, gload_eq. apply load_network_missing_header. Qed.
Theorem t_missing_value (e : espec R) (key : label) : espec_ok R e -> In key (required_keys R (e_kind R e)) ->
  gentry (entry_without R e key) = Err (if lmem key (k_cplx R (e_kind R e)) then EKeyError else ETypeError).
Proof. rewrite gen_entry_to_branch_eq. apply entry_missing_value. Qed.
Theorem t_stored_loaded (l : list jval) (n : network C) : gload (JList l) = Ok n ->
  mapR (fun e => gentry e) l = Ok (branches n) /\ zero n = s_zero.
Proof.
  rewrite gload_eq. intros H. destruct (load_network_stored R pi cis l n H) as [H1 H2]. split; [|exact H2].
  rewrite <- H1. apply mapR_Forall_ext, Forall_forall. intros a _. rewrite gen_entry_to_branch_eq. reflexivity.
Qed.

Lemma ggen_eq (d : jdict) : ggen (JDict d) = generate_component R leb (JDict d).
Proof. rewrite gen_generate_component_eq. reflexivity. Qed.
Theorem t_component_call (d vd : jdict) (idv nv : jval) (t f : label) :
  dget d s_id = Some idv -> dget d s_value = Some (JDict vd) -> dget d s_type = Some (JStr t) -> dget d s_nodes = Some nv ->
  tfind t circuit_loader_table = Some f ->
  ggen (JDict d) = typeerror_to_incorrect (construct R leb f ((s_id, idv) :: (s_nodes, nv) :: vd)).
Proof. rewrite ggen_eq. apply generate_component_call. Qed.
Theorem t_component_missing_id (d : jdict) : dget d s_id = None -> ggen (JDict d) = Err EUnidentified.
Proof. rewrite ggen_eq. apply generate_missing_id. Qed.
Theorem t_component_missing_value (d : jdict) : dget d s_id <> None -> dget d s_value = None -> ggen (JDict d) = Err EIncorrectInfo.
Proof. rewrite ggen_eq. apply generate_missing_value. Qed.
Theorem t_component_missing_type (d : jdict) :
  dget d s_id <> None -> dget d s_value <> None -> dget d s_type = None -> ggen (JDict d) = Err EIncorrectInfo.
Proof. rewrite ggen_eq. apply generate_missing_type. Qed.
Theorem t_component_missing_nodes (d : jdict) :
  dget d s_id <> None -> dget d s_value <> None -> dget d s_type <> None -> dget d s_nodes = None -> ggen (JDict d) = Err EIncorrectInfo.
Proof. rewrite ggen_eq. apply generate_missing_nodes. Qed.
Theorem t_component_unknown_kind (d : jdict) (t : label) :
  dget d s_id <> None -> dget d s_value <> None -> dget d s_nodes <> None ->
  dget d s_type = Some (JStr t) -> tfind t circuit_loader_table = None -> ggen (JDict d) = Err EUnknownComponent.
Proof. rewrite ggen_eq. apply generate_unknown_type. Qed.
Theorem t_component_sign (d vd : jdict) (idv nv : jval) (t f : label) (c : ctor) (p : label) (cmp : lcomp R) (x : R) :
  dget d s_id = Some idv -> dget d s_value = Some (JDict vd) -> dget d s_type = Some (JStr t) -> dget d s_nodes = Some nv ->
  tfind t circuit_loader_table = Some f -> find_ctor_fun f = Some c -> In p (c_guards c) ->
  ggen (JDict d) = Ok cmp -> ltb0 R leb x = true ->
  ggen (JDict (dset d s_value (JDict (dset vd p (JNum x))))) = Err EValue.
Proof. rewrite !ggen_eq. apply loaded_negative. Qed.
Lemma gen_components_mapR (es : list jval) :
  mapR (fun e => bind (st_fst (g_generate_component R leb e)) (fun x => Ok x)) es = mapR (fun e => ggen e) es.
Proof. apply mapR_Forall_ext, Forall_forall. intros a _. unfold st_fst. destruct (fst _); reflexivity. Qed.
Theorem t_component_position (d : jdict) (pre post : list jval) (e : jval) cs x :
  dget d s_components = Some (JList (pre ++ e :: post)) -> mapR (fun e => ggen e) pre = Ok cs -> ggen e = Err x ->
  g_undictify_circuit R leb (JDict d) = Err x.
Proof.
  intros Hd Hpre He. unfold g_undictify_circuit, py_getitem. lk_norm. rewrite Hd. cbn [bind py_iter].
  rewrite gen_components_mapR, (mapR_app_err _ pre e post cs x Hpre He). reflexivity.
Qed.
Theorem t_stored_circuit (d : jdict) (cs : list (lcomp R)) (g : label) : g_undictify_circuit R leb (JDict d) = Ok (cs, g) ->
  exists es, dget d s_components = Some (JList es) /\ mapR (fun e => ggen e) es = Ok cs.
Proof.
  unfold g_undictify_circuit, py_getitem. lk_norm. destruct (dget d s_components) as [v|]; [|discriminate]. cbn [bind].
  destruct v as [| b | q | s | c | es | d']; try discriminate. cbn [py_iter bind]. rewrite gen_components_mapR.
  destruct (mapR (fun e => ggen e) es) as [cs'|e] eqn:E; [|discriminate]. cbn [bind]. unfold Circuit_ctor.
  destruct (mapR (to_comp R) cs') as [ccs|e]; [|discriminate]. cbn [bind].
  destruct (ground_node R ccs) as [g'|e]; [|discriminate]. cbn [bind]. intros H. inversion H. subst. exists es. auto.
Qed.
(* undictify_complex_values: a negative magnitude is a ValueError and the dictionary given is left as it was up to there *)
Theorem t_negative_abs (k : label) (r p : R) (deg : bool) : ltb0 R leb r = true ->
  let x := JDict [(k, JDict [(s_abs, JNum r); (if deg then s_phase_deg else s_phase, JNum p)])] in
  g_undictify_complex_values R leb pi cis x = (Err EValue, x).
Proof.
  intros H x. subst x. rewrite gen_undictify_complex_values_eq. cbn [undictify_values_st].
  destruct deg; cbn; unfold polar_value; cbn [as_real]; rewrite H; reflexivity.
Qed.
End Thm.

(* the equality of to_complex cannot be strengthened to all inputs: a complex phase and no 'abs' — the code (and the
   regenerated function) raise FileFormatError, the hand model answers "outside the domain" *)
From Coq Require Import QArith Qcanon.
Definition to_complex_full : Prop := forall (R : fops) (pi : R) (cis : R -> R * R) (deg : bool) (z : jval R),
  g_to_complex R pi cis z deg = rmap (fun c => JCplx c) (to_complex R pi cis deg z).
Theorem to_complex_full_refuted : ~ to_complex_full.
Proof.
  intros H. specialize (H Qcops (qc 3 1) (fun _ => (1%Qc, 0%Qc)) false (JDict [(s_phase, JCplx (R := Qcops) (cq 1 1 1 1))])).
  vm_compute in H. discriminate H.
Qed.
