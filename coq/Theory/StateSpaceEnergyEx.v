(* Theory/StateSpaceEnergyEx.v — a concrete network over Coq's real numbers for the examples of Properties/C11d.v:
   the series RC circuit  Vs -- R1 = 2 -- C1 = 1/2  (time constant 1), its state-space model  x' = - x + u,  and the exact
   unforced response  x(t) = exp (- t).
   Real arithmetic does not compute, so the model's two matrix inversions are discharged by certificates
   ([inverse_of_right_inverse]: a right inverse of a square matrix IS what the checked Gauss-Jordan [inverse] returns)
   and the boolean tests [Reqb a b] on numerals by [lra]. *)
From Coq Require Import Reals List Bool ZArith NArith Lra Lia.
From Coq Require String.
From Coquelicot Require Import Coquelicot.
From CC Require Import Theory.Field Theory.Complex Theory.Labels Model.Network Model.StateSpace Model.Circuit Theory.Spec
  Theory.Api Theory.Gauss Theory.Matrix Theory.StateSpaceThm Theory.StateSpaceLyap Theory.StateSpaceEnergy.
Import ListNotations.

(* ---------------- certificates instead of running the elimination ---------------- *)
Section Cert.
Variable K : fops.
Hypothesis KOK : fops_ok K.

Lemma inverse_of_right_inverse (m : nat) (A X : list (list K)) :
  wfm m m A -> wfm m m X -> mat_mul m A X = @ident K m -> inverse A = Some X.
Proof. intros WA WX AX. pose proof WA as [LA RA]. pose proof WX as [LX RX].
  assert (KX : forall y, length y = m -> mat_vec X y = map (fun _ => f0 K) X -> y = map (fun _ => f0 K) y).
  { intros y Ly Hy. rewrite <- (mat_vec_ident K KOK m y Ly) at 1. rewrite <- AX.
    rewrite (mat_vec_mul K KOK m m m A X y WA WX), Hy, (mat_vec_zero K KOK).
    apply (vec_ext K); [rewrite !map_length; lia|].
    intros k _. rewrite !(nth_map_zero K). reflexivity. }
  destruct (inverse_complete K KOK m X LX RX KX) as [Y HY].
  destruct (inverse_spec K KOK m X Y WX HY) as [WY XY].
  assert (E : A = Y).
  { rewrite <- (mul_ident_r K KOK m m A WA), <- XY.
    rewrite <- (mul_assoc K KOK m m m m A X Y WA WX WY), AX. apply (mul_ident_l K KOK m m Y WY). }
  assert (XA : mat_mul m X A = @ident K m) by (rewrite E; exact XY).
  assert (KA : forall y, length y = m -> mat_vec A y = map (fun _ => f0 K) A -> y = map (fun _ => f0 K) y).
  { intros y Ly Hy. rewrite <- (mat_vec_ident K KOK m y Ly) at 1. rewrite <- XA.
    rewrite (mat_vec_mul K KOK m m m X A y WX WA), Hy, (mat_vec_zero K KOK).
    apply (vec_ext K); [rewrite !map_length; lia|].
    intros k _. rewrite !(nth_map_zero K). reflexivity. }
  destruct (inverse_complete K KOK m A LA RA KA) as [X' HX'].
  destruct (inverse_spec K KOK m A X' WA HX') as [WX' AX'].
  rewrite HX'. f_equal.
  rewrite <- (mul_ident_l K KOK m m X' WX'), <- XA.
  rewrite (mul_assoc K KOK m m m m X A X' WX WA WX'), AX'. apply (mul_ident_r K KOK m m X WX). Qed.

(* [state_space_matrices] from the results of its four fallible steps *)
Lemma ssm_from_certificates (n : network K) (cvals lvals : list (label * K)) (Delta QLm X1 X2 : list (list K)) :
  element_incidence_matrix K n (ckeys K cvals) = Ok Delta ->
  QL K n lvals = Ok QLm ->
  inverse (mna_matrix n) = Some X1 ->
  inverse (mat_mul (ss_nst K cvals lvals)
             (mat_mul (ss_dim K n) (transpose (ss_nst K cvals lvals) (DQ_of K n Delta QLm)) X1) (DQ_of K n Delta QLm)) = Some X2 ->
  state_space_matrices K n cvals lvals =
  Ok (let nst := ss_nst K cvals lvals in let dim := ss_dim K n in let nS := ss_nS K n lvals in
      let DQ := DQ_of K n Delta QLm in
      let transformed := mat_mul dim (transpose nst DQ) X1 in
      let A := mat_mul nst (invLambda K cvals lvals) X2 in
      let C := mat_mul nst (transpose dim transformed) X2 in
      let B := mat_mul nS (mat_mul dim (mat_opp K (invLambda K cvals lvals)) (transpose nst C)) (QS K n lvals) in
      let D := mat_mul nS (mat_sub K X1 (mat_mul dim (transpose dim transformed) (transpose nst C))) (QS K n lvals) in
      {| ss_A := A; ss_B := B; ss_C := C; ss_D := D |}).
Proof. intros E1 E2 E3 E4. unfold state_space_matrices. rewrite E1. cbn [bind]. rewrite E2. cbn [bind].
  cbv zeta. rewrite E3, E4. reflexivity. Qed.

Lemma ssm_ext (A A' B B' C C' D D' : list (list K)) : A = A' -> B = B' -> C = C' -> D = D' ->
  {| ss_A := A; ss_B := B; ss_C := C; ss_D := D |} = {| ss_A := A'; ss_B := B'; ss_C := C'; ss_D := D' |}.
Proof. intros -> -> -> ->. reflexivity. Qed.
End Cert.

(* ---------------- evaluation over R: everything but the real operations, then the tests on numerals ---------------- *)
Local Open Scope R_scope.
Ltac rcbv := cbv -[Rplus Rmult Rminus Ropp Rdiv Rinv Reqb IZR exp].
Ltac rtests := repeat match goal with |- context [Reqb ?a ?b] =>
   first [ rewrite (Reqb_true a b) by lra | rewrite (Reqb_false a b) by lra ] end.
Ltac list_eq := repeat match goal with
   | |- cons _ _ = cons _ _ => apply (f_equal2 cons)
   | |- nil = nil => reflexivity
   end.
Ltac reval := rcbv; rtests; rcbv.

Import String.
Local Open Scope string_scope.
Definition rc_net : network Rfops :=
  {| zero := lbl "0";
     branches := [ Build_branch (lbl "1") (lbl "0") (voltage_source (lbl "Vs") (1 : Rfops) (0 : Rfops));
                   Build_branch (lbl "1") (lbl "2") (resistor (lbl "R1") (2 : Rfops));
                   Build_branch (lbl "2") (lbl "0") (admittance (lbl "C1") (0 : Rfops)) ] |}.
Definition rc_c : list (label * Rfops) := [(lbl "C1", / 2)].
Definition rc_l : list (label * Rfops) := [].
Definition rc_m : ssm Rfops :=
  @Build_ssm Rfops [[- 1]] [[1]] [[0]; [1]; [/ 2]] [[1]; [0]; [- / 2]].

Lemma rc_rlc : rlc_dc Rfops rc_net rc_c rc_l.
Proof. apply rlc_dcb_ok. reval. reflexivity. Qed.

Lemma rc_nst : ss_nst Rfops rc_c rc_l = 1%nat.
Proof. reflexivity. Qed.

Lemma rc_W : Wd Rfops rc_c rc_l = [/ 2].
Proof. reflexivity. Qed.

Lemma rc_Wpos : forall k, (k < ss_nst Rfops rc_c rc_l)%nat -> 0 < nth k (Wd Rfops rc_c rc_l) 0.
Proof. intros k Hk. rewrite rc_nst in Hk. destruct k as [|k]; [|lia]. rewrite rc_W. simpl. lra. Qed.

Lemma rc_lam_nz : forall k, (k < ss_nst Rfops rc_c rc_l)%nat -> nth k (lam Rfops rc_c rc_l) 0 <> 0.
Proof. exact (Wpos_lam_nz rc_c rc_l rc_Wpos). Qed.

Lemma rc_Ypos : forall b, In b (branches rc_net) -> resb Rfops rc_c b = true -> 0 <= finY b.
Proof. intros b Hb _. simpl in Hb.
  repeat (destruct Hb as [<-|Hb]; [reval; lra|]). destruct Hb. Qed.

Definition rc_P : list (list Rfops) := [[1 / 2; - (1 / 2); 1]; [- (1 / 2); 1 / 2; 0]; [1; 0; 0]].
Definition rc_X1 : list (list Rfops) := [[0; 0; 1]; [0; 2; 1]; [1; 1; 0]].
Definition rc_Delta : list (list Rfops) := [[0; 1; 0]].
Definition rc_QL : list (list Rfops) := [[]; []; []].
Definition rc_S : list (list Rfops) := [[2]].
Definition rc_X2 : list (list Rfops) := [[/ 2]].
Ltac rsolve := first [lra | field; lra | field].
Ltac wfm_list := split; [reflexivity|]; let r := fresh "r" in let Hr := fresh "Hr" in
  intros r Hr; simpl in Hr; repeat (destruct Hr as [<-|Hr]; [reflexivity|]); destruct Hr.

Lemma rc_ssm : state_space_matrices Rfops rc_net rc_c rc_l = Ok rc_m.
Proof.
  assert (EM : mna_matrix rc_net = rc_P) by (unfold rc_P; reval; list_eq; rsolve).
  assert (E3 : inverse (mna_matrix rc_net) = Some rc_X1).
  { rewrite EM. apply (inverse_of_right_inverse Rfops Rfops_ok 3); [unfold rc_P; wfm_list|unfold rc_X1; wfm_list|].
    unfold rc_P, rc_X1. rcbv. list_eq; rsolve. }
  assert (E1 : element_incidence_matrix Rfops rc_net (ckeys Rfops rc_c) = Ok rc_Delta)
    by (unfold rc_Delta; reval; do 2 f_equal; list_eq; rsolve).
  assert (E2 : QL Rfops rc_net rc_l = Ok rc_QL) by (unfold rc_QL; reval; reflexivity).
  assert (ES : mat_mul (ss_nst Rfops rc_c rc_l)
                 (mat_mul (ss_dim Rfops rc_net) (transpose (ss_nst Rfops rc_c rc_l) (DQ_of Rfops rc_net rc_Delta rc_QL)) rc_X1)
                 (DQ_of Rfops rc_net rc_Delta rc_QL) = rc_S)
    by (unfold rc_Delta, rc_QL, rc_X1, rc_S; reval; list_eq; rsolve).
  assert (E4 : inverse (mat_mul (ss_nst Rfops rc_c rc_l)
                 (mat_mul (ss_dim Rfops rc_net) (transpose (ss_nst Rfops rc_c rc_l) (DQ_of Rfops rc_net rc_Delta rc_QL)) rc_X1)
                 (DQ_of Rfops rc_net rc_Delta rc_QL)) = Some rc_X2).
  { rewrite ES. apply (inverse_of_right_inverse Rfops Rfops_ok 1); [unfold rc_S; wfm_list|unfold rc_X2; wfm_list|].
    unfold rc_S, rc_X2. rcbv. list_eq; rsolve. }
  rewrite (ssm_from_certificates Rfops rc_net rc_c rc_l rc_Delta rc_QL rc_X1 rc_X2 E1 E2 E3 E4).
  f_equal. unfold rc_m, rc_Delta, rc_QL, rc_X1, rc_X2. cbv zeta. apply ssm_ext; reval; list_eq; rsolve. Qed.

(* the exact unforced response x(t) = exp (- t) *)
Definition rc_x (t : R) : list R := [exp (- t)].

Lemma rc_x_len (t : R) : List.length (rc_x t) = ss_nst Rfops rc_c rc_l.
Proof. reflexivity. Qed.

Lemma rc_x_der (k : nat) (t : R) : (k < ss_nst Rfops rc_c rc_l)%nat ->
  is_derive (fun s => nth k (rc_x s) 0) t
    (nth k (ss_xdot Rfops rc_m (rc_x t) (zero_row Rfops (ss_nS Rfops rc_net rc_l))) 0).
Proof. intros Hk. rewrite rc_nst in Hk. destruct k as [|k]; [|lia].
  replace (nth 0 (ss_xdot Rfops rc_m (rc_x t) (zero_row Rfops (ss_nS Rfops rc_net rc_l))) 0) with (- exp (- t))
    by (reval; rsolve).
  change (is_derive (fun s => exp (- s)) t (- exp (- t))).
  auto_derive; [exact I|ring]. Qed.

Lemma rc_x_cont (k : nat) (t : R) : continuity_pt (fun s => nth k (rc_x s) 0) t.
Proof. destruct k as [|k].
  - change (continuity_pt (Ranalysis1.comp exp (opp_fct Ranalysis1.id)) t). apply continuity_pt_comp.
    + apply continuity_pt_opp. apply derivable_continuous_pt, derivable_pt_id.
    + apply derivable_continuous_pt, derivable_pt_exp.
  - apply continuity_pt_const. intros a b. destruct k; reflexivity. Qed.

(* constant input u = 1 (the source switched on): equilibrium xs = 1, exact response x(t) = 1 - exp (- t) *)
Definition rc_u : list R := [1].
Definition rc_xs : list R := [1].
Definition rc_xu (t : R) : list R := [1 - exp (- t)].

Lemma rc_xs_eq (k : nat) : (k < ss_nst Rfops rc_c rc_l)%nat -> nth k (ss_xdot Rfops rc_m rc_xs rc_u) 0 = 0.
Proof. intros Hk. rewrite rc_nst in Hk. destruct k as [|k]; [|lia]. rcbv. lra. Qed.

Lemma rc_xu_der (k : nat) (t : R) : (k < ss_nst Rfops rc_c rc_l)%nat ->
  is_derive (fun s => nth k (rc_xu s) 0) t (nth k (ss_xdot Rfops rc_m (rc_xu t) rc_u) 0).
Proof. intros Hk. rewrite rc_nst in Hk. destruct k as [|k]; [|lia].
  replace (nth 0 (ss_xdot Rfops rc_m (rc_xu t) rc_u) 0) with (exp (- t)) by (rcbv; lra).
  change (is_derive (fun s => 1 - exp (- s)) t (exp (- t))).
  auto_derive; [exact I|ring]. Qed.

Lemma rc_xu_cont (k : nat) (t : R) : continuity_pt (fun s => nth k (rc_xu s) 0) t.
Proof. destruct k as [|k].
  - change (continuity_pt (minus_fct (fun _ => 1) (Ranalysis1.comp exp (opp_fct Ranalysis1.id))) t).
    apply continuity_pt_minus; [apply continuity_pt_const; intros a b; reflexivity|].
    apply continuity_pt_comp.
    + apply continuity_pt_opp. apply derivable_continuous_pt, derivable_pt_id.
    + apply derivable_continuous_pt, derivable_pt_exp.
  - apply continuity_pt_const. intros a b. destruct k; reflexivity. Qed.
