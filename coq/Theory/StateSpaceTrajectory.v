(* Theory/StateSpaceTrajectory.v — C12 along EXACT trajectories over Coq's real numbers: the algebraic statement
   [StateSpaceThm.ss_laws] (for every pair (x, u): outputs C x + D u obey Kirchhoff, Ohm, i_C = C (A x + B u)_k,
   v_L = L (A x + B u)_k) becomes the DIFFERENTIAL element laws once (x, u) is a trajectory with x' = A x + B u.

   A. generic in the field K (algebra only):
      [ss_rest]       x = 0, u = 0  ->  every reported potential, voltage and current is 0;
      [ss_dc_solver]  A x + B u = 0 ->  the reported quantities are what the library's nodal solver returns for the DC
                      network [pnet 0 u] (capacitors = admittance 0 C, inductors = impedance 0 L, sources at u);
                      capacitor currents and inductor voltages are 0.
   B. over R (Coquelicot [is_derive]): a trajectory is a pair  x u : R -> list R  with lengths nst / nS on [t0, t1] and
      every x_k differentiable on (t0, t1) with derivative (A x(t) + B u(t))_k; NO regularity of u is assumed.
      [traj_capacitor] d/dt (reported v_C) = reported i_C / C,     [traj_inductor] d/dt (reported i_L) = reported v_L / L,
      [traj_system]    time-dependent potentials phi t and branch currents j t: all reports, Kirchhoff, sources, Ohm at
                       every instant of [t0, t1] and the two differential laws on (t0, t1),
      [traj_rest], [traj_stationary] (a trajectory that stands still sits at an equilibrium A xs + B u = 0),
      [traj_equilibrium] (an equilibrium is a trajectory), [traj_dc] (the reports at a stationary trajectory are the DC
      analysis of the network).
   Uses the classical real numbers exactly as Theory/StateSpaceEnergy.v does. *)
From Coq Require Import Reals List Bool Arith Lia Lra Field Ring.
From Coquelicot Require Import Coquelicot.
From CC Require Import Theory.Field Theory.Complex Theory.Labels Model.Network Model.StateSpace Theory.Spec Theory.Mna
  Theory.MnaComplete Theory.Api Theory.Gauss Theory.Matrix Theory.StateSpaceThm Theory.StateSpacePhasor
  Theory.StateSpaceEnergy.
Import ListNotations.

(* ================= A. algebra, generic in the field ================= *)
Local Open Scope nat_scope.
Section Algebra.
Variable K : fops.
Hypothesis KOK : fops_ok K.
Add Field Ktraj : (Kth K KOK).
Notation "0" := (f0 K).
Infix "*" := (fmul K).

Variable n : network K.
Variables cvals lvals : list (label * K).
Notation bs := (branches n).
Notation ns := (node_index n).
Notation ck := (ckeys K cvals).
Notation lk := (lkeys K lvals).
Notation nst := (ss_nst K cvals lvals).
Notation nS := (ss_nS K n lvals).
Hypothesis lam_nz : forall k, k < nst -> nth k (lam K cvals lvals) 0 <> 0.
Hypothesis RD : rlc_dc K n cvals lvals.
Variable m : ssm K.
Hypothesis Hm : state_space_matrices K n cvals lvals = Ok m.

(* the capacitances and inductances are non-zero *)
Lemma cap_index (b : branch K) : lmem (bid b) ck = true -> lindex ck (bid b) < ss_nC K cvals /\ lindex ck (bid b) < nst.
Proof. intros Ec. apply lmem_spec in Ec. pose proof (lindex_lt ck _ Ec) as Hk. rewrite len_ck in Hk.
  unfold ss_nst. split; lia. Qed.

Lemma ind_index (b : branch K) : lmem (bid b) lk = true ->
  lindex lk (bid b) < ss_nL K lvals /\ ss_nC K cvals + lindex lk (bid b) < nst.
Proof. intros El. apply lmem_spec in El. pose proof (lindex_lt lk _ El) as Hk. rewrite len_lk in Hk.
  unfold ss_nst. split; lia. Qed.

Lemma cap_value_nz (b : branch K) : lmem (bid b) ck = true -> vlookup K cvals (bid b) <> 0.
Proof. intros Ec. destruct (cap_index b Ec) as [Hk Hk']. apply lmem_spec in Ec.
  unfold ckeys in Ec |- *. rewrite (vlookup_nth K cvals (bid b) Ec).
  pose proof (lam_nz _ Hk') as Hn. rewrite (lam_cap K cvals lvals _ Hk) in Hn.
  intros E. apply Hn. unfold ckeys. rewrite E. ring. Qed.

Lemma ind_value_nz (b : branch K) : lmem (bid b) lk = true -> vlookup K lvals (bid b) <> 0.
Proof. intros El. destruct (ind_index b El) as [Hk Hk']. apply lmem_spec in El.
  unfold lkeys in El |- *. rewrite (vlookup_nth K lvals (bid b) El).
  pose proof (lam_nz _ Hk') as Hn. unfold lam in Hn.
  rewrite app_nth2 in Hn by (rewrite map_length; unfold ss_nC; lia). rewrite map_length in Hn.
  replace (ss_nC K cvals + lindex (lkeys K lvals) (bid b) - length cvals)%nat with (lindex (lkeys K lvals) (bid b)) in Hn
    by (unfold ss_nC; lia).
  rewrite (nth_map_lt (@snd label K) lvals _ ([], 0) 0 Hk) in Hn. exact Hn. Qed.

(* ---------------- rest ---------------- *)
Lemma all_zero_vec (x : list K) : (forall k, nth k x 0 = 0) -> x = map (fun _ => 0) x.
Proof. intros H. apply (nth_ext _ _ 0 0); [rewrite map_length; reflexivity|].
  intros k _. rewrite (nth_map_zero K). apply H. Qed.

Lemma out_zero (rc rd : res (list K)) (x u : list K) (a : K) :
  (forall k, nth k x 0 = 0) -> (forall k, nth k u 0 = 0) -> out K rc rd x u = Ok a -> a = 0.
Proof. intros Hx Hu. unfold out. destruct rc as [c|e]; [|discriminate]. destruct rd as [d|e]; [|discriminate].
  simpl. rewrite (all_zero_vec x Hx), (all_zero_vec u Hu), !(dot_zero_r K KOK). intros E. injection E as <-. ring. Qed.

Theorem ss_rest (x u : list K) : length x = nst -> length u = nS ->
  (forall k, nth k x 0 = 0) -> (forall k, nth k u 0 = 0) ->
     (forall node, node = zero n \/ In node ns -> out_potential K n cvals lvals m node x u = Ok 0)
  /\ (forall b, In b bs -> out_voltage K n cvals lvals m (bid b) x u = Ok 0
                           /\ out_current K n cvals lvals m (bid b) x u = Ok 0).
Proof. intros Lx Lu Hx Hu.
  destruct (ss_laws K KOK n cvals lvals lam_nz RD m Hm x u Lx Lu) as [phi [j [P1 [P2 _]]]]. split.
  - intros node H. pose proof (P1 node H) as E. rewrite E. f_equal. exact (out_zero _ _ x u _ Hx Hu E).
  - intros b Hb. destruct (P2 b Hb) as [E1 E2]. split.
    + rewrite E1. f_equal. exact (out_zero _ _ x u _ Hx Hu E1).
    + rewrite E2. f_equal. exact (out_zero _ _ x u _ Hx Hu E2). Qed.

(* ---------------- equilibrium = DC analysis ---------------- *)
Notation dcnet u := (pnet K n cvals lvals 0 u).
Notation dcbranch u := (pbranch K n cvals lvals 0 u).

Theorem ss_dc_solver (x u : list K) : length x = nst -> length u = nS ->
  (forall k, k < nst -> nth k (ss_xdot K m x u) 0 = 0) ->
  forall sol : solution K, solve_network (dcnet u) = Ok sol ->
     (forall node, In node (node_labels n) -> out_potential K n cvals lvals m node x u = get_potential sol node)
  /\ (forall b, In b bs ->
        out_voltage K n cvals lvals m (bid b) x u = get_voltage sol (bid b)
        /\ out_current K n cvals lvals m (bid b) x u = Ok (flow_of (dcnet u) (s_x sol) (dcbranch u b)))
  /\ (forall b, In b bs -> lmem (bid b) ck = true -> out_current K n cvals lvals m (bid b) x u = Ok 0)
  /\ (forall b, In b bs -> lmem (bid b) lk = true -> out_voltage K n cvals lvals m (bid b) x u = Ok 0).
Proof. intros Lx Lu H0 sol E.
  assert (Hs : forall k, k < nst -> nth k (ss_xdot K m x u) 0 = 0 * nth k x 0) by (intros k Hk; rewrite (H0 k Hk); ring).
  destruct (ss_phasor_solver K KOK n cvals lvals 0 u lam_nz RD m Hm x Lx Lu Hs sol E) as [S1 S2].
  split; [intros node Hn; apply S1; rewrite pnet_node_labels; exact Hn|].
  split; [|split].
  - intros b Hb. split; [exact (S2 b Hb)|].
    pose proof (rd_wf K n cvals lvals RD) as WF.
    assert (NL : forall b', In b' (branches (dcnet u)) -> node1 b' <> node2 b').
    { intros b' Hb'. simpl in Hb'. apply in_map_iff in Hb'. destruct Hb' as [b0 [<- Hb0]].
      rewrite pb_node1, pb_node2. exact (noloop K n WF b0 Hb0). }
    destruct (solve_network_sound K KOK (dcnet u) NL sol E) as [_ [WFp S]].
    pose proof (solved_wellposed K KOK (dcnet u) WFp sol E) as WP.
    pose proof (mna_sound K KOK (dcnet u) WFp (s_x sol) S) as C'.
    exact (proj2 (proj2 (ss_phasor_unique K KOK n cvals lvals 0 u lam_nz RD m Hm x Lx Lu Hs WP _ _ C') b Hb)).
  - intros b Hb Ec.
    destruct (ss_dc_gain K KOK n cvals lvals lam_nz RD m Hm x u Lx Lu H0) as [phi [j [_ [P2 [_ [_ [P5 _]]]]]]].
    rewrite (proj2 (P2 b Hb)), (P5 b Hb Ec). reflexivity.
  - intros b Hb El.
    destruct (ss_dc_gain K KOK n cvals lvals lam_nz RD m Hm x u Lx Lu H0) as [phi [j [_ [P2 [_ [_ [_ [P6 _]]]]]]]].
    rewrite (proj1 (P2 b Hb)), (P6 b Hb El). reflexivity. Qed.

(* what the DC network is: a capacitor becomes the admittance 0 * C with no source current (an open circuit), an
   inductor the impedance 0 * L with no source voltage (a short circuit), the ideal sources carry the inputs u *)
Lemma dc_branch_cap (u : list K) (b : branch K) : lmem (bid b) ck = true ->
  dcbranch u b = Build_branch (node1 b) (node2 b) (YI (bid b) (ekind (el b)) (0 * vlookup K cvals (bid b)) 0)
  /\ is_open_circuit (el (dcbranch u b)) = true.
Proof. intros Ec. unfold pbranch. rewrite Ec. split; [reflexivity|].
  unfold is_open_circuit. simpl.
  replace (0 * vlookup K cvals (bid b)) with 0 by ring. rewrite !(feqb_refl KOK). reflexivity. Qed.

Lemma dc_branch_ind (u : list K) (b : branch K) : lmem (bid b) ck = false -> lmem (bid b) lk = true ->
  dcbranch u b = Build_branch (node1 b) (node2 b) (ZV (bid b) (ekind (el b)) (0 * vlookup K lvals (bid b)) 0)
  /\ is_short_circuit (el (dcbranch u b)) = true.
Proof. intros Ec El. unfold pbranch. rewrite Ec, El. split; [reflexivity|].
  unfold is_short_circuit. simpl.
  replace (0 * vlookup K lvals (bid b)) with 0 by ring. rewrite !(feqb_refl KOK). reflexivity. Qed.

Theorem dc_branch_def (u : list K) (b : branch K) :
     (lmem (bid b) ck = true ->
        dcbranch u b = Build_branch (node1 b) (node2 b) (YI (bid b) (ekind (el b)) (0 * vlookup K cvals (bid b)) 0)
        /\ is_open_circuit (el (dcbranch u b)) = true)
  /\ (lmem (bid b) ck = false -> lmem (bid b) lk = true ->
        dcbranch u b = Build_branch (node1 b) (node2 b) (ZV (bid b) (ekind (el b)) (0 * vlookup K lvals (bid b)) 0)
        /\ is_short_circuit (el (dcbranch u b)) = true).
Proof. exact (conj (dc_branch_cap u b) (dc_branch_ind u b)). Qed.

End Algebra.

(* ================= B. trajectories over the real numbers ================= *)
Local Open Scope R_scope.

(* the number a report carries ([Err] never occurs under the hypotheses below: every theorem states the [Ok] form) *)
Notation bvR := (@bvolt Rfops).
Definition rval (r : res R) : R := match r with Ok a => a | Err _ => 0 end.

Section Reports.
Variable n : network Rfops.
Variables cvals lvals : list (label * Rfops).
Variable m : ssm Rfops.
Variables x u : R -> list R.
(* TransientSolution.get_potential / get_voltage / get_current as functions of time *)
Definition rep_potential (node : label) (t : R) : R := rval (out_potential Rfops n cvals lvals m node (x t) (u t)).
Definition rep_voltage (id : label) (t : R) : R := rval (out_voltage Rfops n cvals lvals m id (x t) (u t)).
Definition rep_current (id : label) (t : R) : R := rval (out_current Rfops n cvals lvals m id (x t) (u t)).
Lemma rep_def (id : label) (t : R) :
     rep_potential id t = match out_potential Rfops n cvals lvals m id (x t) (u t) with Ok a => a | Err _ => 0 end
  /\ rep_voltage id t = match out_voltage Rfops n cvals lvals m id (x t) (u t) with Ok a => a | Err _ => 0 end
  /\ rep_current id t = match out_current Rfops n cvals lvals m id (x t) (u t) with Ok a => a | Err _ => 0 end.
Proof. repeat split. Qed.
End Reports.

Lemma is_derive_on_interval (f g : R -> R) (t0 t1 t l : R) : t0 < t < t1 ->
  (forall s, t0 < s < t1 -> f s = g s) -> is_derive f t l -> is_derive g t l.
Proof. intros Ht E D. apply (is_derive_ext_loc f g t l); [|exact D].
  apply (locally_interval (fun s => f s = g s) t t0 t1); simpl; [lra|lra|].
  intros y H1 H2. apply E. simpl in H1, H2. lra. Qed.

Lemma R_quot (c d i : R) : c <> 0 -> i = c * d -> d = i / c.
Proof. intros H ->. field. exact H. Qed.

Section Trajectory.
Variable n : network Rfops.
Variables cvals lvals : list (label * Rfops).
Notation bs := (branches n).
Notation ns := (node_index n).
Notation ck := (ckeys Rfops cvals).
Notation lk := (lkeys Rfops lvals).
Notation nst := (ss_nst Rfops cvals lvals).
Notation nC := (ss_nC Rfops cvals).
Notation nS := (ss_nS Rfops n lvals).
Notation srcs := (sources Rfops n lvals).
Hypothesis lam_nz : forall k, (k < nst)%nat -> nth k (lam Rfops cvals lvals) 0 <> 0.
Hypothesis RD : rlc_dc Rfops n cvals lvals.
Variable m : ssm Rfops.
Hypothesis Hm : state_space_matrices Rfops n cvals lvals = Ok m.

Variables x u : R -> list R.
Variables t0 t1 : R.
Hypothesis Hlx : forall t, t0 <= t <= t1 -> length (x t) = nst.
Hypothesis Hlu : forall t, t0 <= t <= t1 -> length (u t) = nS.
Hypothesis Hder : forall k t, (k < nst)%nat -> t0 < t < t1 ->
  is_derive (fun s => nth k (x s) 0) t (nth k (ss_xdot Rfops m (x t) (u t)) 0).

Notation xd t := (ss_xdot Rfops m (x t) (u t)).
Notation repP := (rep_potential n cvals lvals m x u).
Notation repV := (rep_voltage n cvals lvals m x u).
Notation repI := (rep_current n cvals lvals m x u).
(* the potentials and branch currents behind the reports at time t *)
Definition phi_t (t : R) : label -> R := phi_of n (ss_z Rfops m (x t) (u t)).
Definition j_t (t : R) : branch Rfops -> R := jout Rfops n cvals m (x t) (u t).

Lemma rep_potential_ok node t : node = zero n \/ In node ns ->
  out_potential Rfops n cvals lvals m node (x t) (u t) = Ok (repP node t) /\ repP node t = phi_t t node.
Proof. intros H. unfold rep_potential.
  rewrite (out_potential_ok Rfops Rfops_ok n cvals lvals lam_nz m Hm (x t) (u t) node H). split; reflexivity. Qed.

Lemma rep_voltage_ok b t : In b bs ->
  out_voltage Rfops n cvals lvals m (bid b) (x t) (u t) = Ok (repV (bid b) t) /\ repV (bid b) t = bvR (phi_t t) b.
Proof. intros Hb. unfold rep_voltage.
  rewrite (out_voltage_ok Rfops Rfops_ok n cvals lvals lam_nz RD m Hm (x t) (u t) b Hb). split; reflexivity. Qed.

Lemma rep_current_ok b t : t0 <= t <= t1 -> In b bs ->
  out_current Rfops n cvals lvals m (bid b) (x t) (u t) = Ok (repI (bid b) t) /\ repI (bid b) t = j_t t b.
Proof. intros Ht Hb. unfold rep_current.
  rewrite (out_current_ok Rfops Rfops_ok n cvals lvals lam_nz RD m Hm (x t) (u t) (Hlx t Ht) (Hlu t Ht) b Hb).
  split; reflexivity. Qed.

(* ---------------- (2) Kirchhoff, sources and Ohm at every instant ---------------- *)
Theorem traj_kirchhoff t : t0 <= t <= t1 ->
     (forall node, node = zero n \/ In node ns ->
        out_potential Rfops n cvals lvals m node (x t) (u t) = Ok (phi_t t node))
  /\ (forall b, In b bs -> out_voltage Rfops n cvals lvals m (bid b) (x t) (u t) = Ok (bvR (phi_t t) b)
                           /\ out_current Rfops n cvals lvals m (bid b) (x t) (u t) = Ok (j_t t b))
  /\ phi_t t (zero n) = 0
  /\ (forall node, kcl_sum bs (j_t t) node = 0)
  /\ (forall b, In b bs -> lmem (bid b) ck = true ->
        bvR (phi_t t) b = nth (lindex ck (bid b)) (x t) 0
        /\ j_t t b = vlookup Rfops cvals (bid b) * nth (lindex ck (bid b)) (xd t) 0)
  /\ (forall b, In b bs -> lmem (bid b) lk = true ->
        j_t t b = nth (nC + lindex lk (bid b)) (x t) 0
        /\ bvR (phi_t t) b = vlookup Rfops lvals (bid b) * nth (nC + lindex lk (bid b)) (xd t) 0)
  /\ (forall b, In b bs -> is_ideal_voltage_source (el b) = true -> lmem (bid b) lk = false ->
        bvR (phi_t t) b = nth (lindex srcs (bid b)) (u t) 0)
  /\ (forall b, In b bs -> is_current_source (el b) = true -> j_t t b = nth (lindex srcs (bid b)) (u t) 0)
  /\ (forall b, In b bs -> lmem (bid b) ck = false -> is_ideal_voltage_source (el b) = false ->
        is_current_source (el b) = false -> j_t t b = finY b * bvR (phi_t t) b).
Proof. intros Ht. pose proof (Hlx t Ht) as Lx. pose proof (Hlu t Ht) as Lu. unfold phi_t, j_t.
  split; [exact (out_potential_ok Rfops Rfops_ok n cvals lvals lam_nz m Hm (x t) (u t))|].
  split; [intros b Hb; split;
          [exact (out_voltage_ok Rfops Rfops_ok n cvals lvals lam_nz RD m Hm (x t) (u t) b Hb)
          |exact (out_current_ok Rfops Rfops_ok n cvals lvals lam_nz RD m Hm (x t) (u t) Lx Lu b Hb)]|].
  split; [apply (phi_zero Rfops n)|].
  split; [exact (kcl_all Rfops Rfops_ok n cvals lvals lam_nz RD m Hm (x t) (u t) Lx Lu)|].
  split; [exact (cap_law Rfops Rfops_ok n cvals lvals lam_nz RD m Hm (x t) (u t) Lx Lu)|].
  split; [exact (ind_law Rfops Rfops_ok n cvals lvals lam_nz RD m Hm (x t) (u t) Lx Lu)|].
  split; [exact (vs_law Rfops Rfops_ok n cvals lvals lam_nz RD m Hm (x t) (u t) Lx Lu)|].
  split; [exact (cs_law Rfops Rfops_ok n cvals lvals RD m (x t) (u t))
         |exact (ohm_law Rfops n cvals lvals RD m (x t) (u t))]. Qed.

Theorem traj_kirchhoff_ex : exists (phi : R -> label -> R) (j : R -> branch Rfops -> R), forall t, t0 <= t <= t1 ->
     (forall node, node = zero n \/ In node ns -> out_potential Rfops n cvals lvals m node (x t) (u t) = Ok (phi t node))
  /\ (forall b, In b bs -> out_voltage Rfops n cvals lvals m (bid b) (x t) (u t) = Ok (bvR (phi t) b)
                           /\ out_current Rfops n cvals lvals m (bid b) (x t) (u t) = Ok (j t b))
  /\ phi t (zero n) = 0
  /\ (forall node, kcl_sum bs (j t) node = 0)
  /\ (forall b, In b bs -> lmem (bid b) ck = true ->
        bvR (phi t) b = nth (lindex ck (bid b)) (x t) 0
        /\ j t b = vlookup Rfops cvals (bid b) * nth (lindex ck (bid b)) (xd t) 0)
  /\ (forall b, In b bs -> lmem (bid b) lk = true ->
        j t b = nth (nC + lindex lk (bid b)) (x t) 0
        /\ bvR (phi t) b = vlookup Rfops lvals (bid b) * nth (nC + lindex lk (bid b)) (xd t) 0)
  /\ (forall b, In b bs -> is_ideal_voltage_source (el b) = true -> lmem (bid b) lk = false ->
        bvR (phi t) b = nth (lindex srcs (bid b)) (u t) 0)
  /\ (forall b, In b bs -> is_current_source (el b) = true -> j t b = nth (lindex srcs (bid b)) (u t) 0)
  /\ (forall b, In b bs -> lmem (bid b) ck = false -> is_ideal_voltage_source (el b) = false ->
        is_current_source (el b) = false -> j t b = finY b * bvR (phi t) b).
Proof. exists phi_t, j_t. exact traj_kirchhoff. Qed.

(* ---------------- (1) the differential element laws ---------------- *)
(* potentials-level form: d/dt (phi(node1) - phi(node2)) = j / C *)
Lemma cap_derive b t : In b bs -> lmem (bid b) ck = true -> t0 < t < t1 ->
  is_derive (fun s => bvR (phi_t s) b) t (nth (lindex ck (bid b)) (xd t) 0).
Proof. intros Hb Ec Ht.
  destruct (cap_index Rfops cvals lvals b Ec) as [_ Hk].
  apply (is_derive_on_interval (fun s => nth (lindex ck (bid b)) (x s) 0) _ t0 t1 t _ Ht); [|exact (Hder _ t Hk Ht)].
  intros s Hs. assert (Hs' : t0 <= s <= t1) by lra. symmetry.
  exact (proj1 (cap_law Rfops Rfops_ok n cvals lvals lam_nz RD m Hm (x s) (u s) (Hlx s Hs') (Hlu s Hs') b Hb Ec)). Qed.

Lemma ind_derive b t : In b bs -> lmem (bid b) lk = true -> t0 < t < t1 ->
  is_derive (fun s => j_t s b) t (nth (nC + lindex lk (bid b)) (xd t) 0).
Proof. intros Hb El Ht.
  destruct (ind_index Rfops cvals lvals b El) as [_ Hk].
  apply (is_derive_on_interval (fun s => nth (nC + lindex lk (bid b)) (x s) 0) _ t0 t1 t _ Ht); [|exact (Hder _ t Hk Ht)].
  intros s Hs. assert (Hs' : t0 <= s <= t1) by lra. symmetry.
  exact (proj1 (ind_law Rfops Rfops_ok n cvals lvals lam_nz RD m Hm (x s) (u s) (Hlx s Hs') (Hlu s Hs') b Hb El)). Qed.

Theorem traj_capacitor b t : In b bs -> lmem (bid b) ck = true -> t0 < t < t1 ->
     out_voltage Rfops n cvals lvals m (bid b) (x t) (u t) = Ok (repV (bid b) t)
  /\ out_current Rfops n cvals lvals m (bid b) (x t) (u t) = Ok (repI (bid b) t)
  /\ repV (bid b) t = nth (lindex ck (bid b)) (x t) 0
  /\ is_derive (repV (bid b)) t (repI (bid b) t / vlookup Rfops cvals (bid b))
  /\ repI (bid b) t = vlookup Rfops cvals (bid b) * Derive (repV (bid b)) t.
Proof. intros Hb Ec Ht. assert (Ht' : t0 <= t <= t1) by lra.
  destruct (rep_voltage_ok b t Hb) as [V1 V2]. destruct (rep_current_ok b t Ht' Hb) as [I1 I2].
  destruct (cap_law Rfops Rfops_ok n cvals lvals lam_nz RD m Hm (x t) (u t) (Hlx t Ht') (Hlu t Ht') b Hb Ec) as [L1 L2].
  pose proof (cap_value_nz Rfops Rfops_ok cvals lvals lam_nz b Ec) as Cnz. simpl in Cnz.
  assert (D : is_derive (repV (bid b)) t (nth (lindex ck (bid b)) (xd t) 0)).
  { apply (is_derive_ext (fun s => bvR (phi_t s) b)); [|exact (cap_derive b t Hb Ec Ht)].
    intros s. symmetry. exact (proj2 (rep_voltage_ok b s Hb)). }
  assert (EI : repI (bid b) t = vlookup Rfops cvals (bid b) * nth (lindex ck (bid b)) (xd t) 0)
    by (rewrite I2; exact L2).
  split; [exact V1|]. split; [exact I1|]. split; [rewrite V2; exact L1|]. split.
  - replace (repI (bid b) t / vlookup Rfops cvals (bid b)) with (nth (lindex ck (bid b)) (xd t) 0); [exact D|].
    exact (R_quot _ _ _ Cnz EI).
  - rewrite (is_derive_unique _ _ _ D). exact EI. Qed.

Theorem traj_inductor b t : In b bs -> lmem (bid b) lk = true -> t0 < t < t1 ->
     out_voltage Rfops n cvals lvals m (bid b) (x t) (u t) = Ok (repV (bid b) t)
  /\ out_current Rfops n cvals lvals m (bid b) (x t) (u t) = Ok (repI (bid b) t)
  /\ repI (bid b) t = nth (nC + lindex lk (bid b)) (x t) 0
  /\ is_derive (repI (bid b)) t (repV (bid b) t / vlookup Rfops lvals (bid b))
  /\ repV (bid b) t = vlookup Rfops lvals (bid b) * Derive (repI (bid b)) t.
Proof. intros Hb El Ht. assert (Ht' : t0 <= t <= t1) by lra.
  destruct (rep_voltage_ok b t Hb) as [V1 V2]. destruct (rep_current_ok b t Ht' Hb) as [I1 I2].
  destruct (ind_law Rfops Rfops_ok n cvals lvals lam_nz RD m Hm (x t) (u t) (Hlx t Ht') (Hlu t Ht') b Hb El) as [L1 L2].
  pose proof (ind_value_nz Rfops cvals lvals lam_nz b El) as Lnz. simpl in Lnz.
  assert (D : is_derive (repI (bid b)) t (nth (nC + lindex lk (bid b)) (xd t) 0)).
  { apply (is_derive_on_interval (fun s => j_t s b) _ t0 t1 t _ Ht); [|exact (ind_derive b t Hb El Ht)].
    intros s Hs. assert (Hs' : t0 <= s <= t1) by lra. symmetry. exact (proj2 (rep_current_ok b s Hs' Hb)). }
  assert (EV : repV (bid b) t = vlookup Rfops lvals (bid b) * nth (nC + lindex lk (bid b)) (xd t) 0)
    by (rewrite V2; exact L2).
  split; [exact V1|]. split; [exact I1|]. split; [rewrite I2; exact L1|]. split.
  - replace (repV (bid b) t / vlookup Rfops lvals (bid b)) with (nth (nC + lindex lk (bid b)) (xd t) 0); [exact D|].
    exact (R_quot _ _ _ Lnz EV).
  - rewrite (is_derive_unique _ _ _ D). exact EV. Qed.

(* the circuit's differential-algebraic system, all at once *)
Theorem traj_system : exists (phi : R -> label -> R) (j : R -> branch Rfops -> R),
     (forall t, t0 <= t <= t1 ->
          (forall node, node = zero n \/ In node ns ->
             out_potential Rfops n cvals lvals m node (x t) (u t) = Ok (phi t node))
       /\ (forall b, In b bs -> out_voltage Rfops n cvals lvals m (bid b) (x t) (u t) = Ok (bvR (phi t) b)
                                /\ out_current Rfops n cvals lvals m (bid b) (x t) (u t) = Ok (j t b))
       /\ phi t (zero n) = 0
       /\ (forall node, kcl_sum bs (j t) node = 0)
       /\ (forall b, In b bs -> is_ideal_voltage_source (el b) = true -> lmem (bid b) lk = false ->
             bvR (phi t) b = nth (lindex srcs (bid b)) (u t) 0)
       /\ (forall b, In b bs -> is_current_source (el b) = true -> j t b = nth (lindex srcs (bid b)) (u t) 0)
       /\ (forall b, In b bs -> lmem (bid b) ck = false -> is_ideal_voltage_source (el b) = false ->
             is_current_source (el b) = false -> j t b = finY b * bvR (phi t) b))
  /\ (forall b t, In b bs -> lmem (bid b) ck = true -> t0 < t < t1 ->
        is_derive (fun s => bvR (phi s) b) t (j t b / vlookup Rfops cvals (bid b))
        /\ j t b = vlookup Rfops cvals (bid b) * Derive (fun s => bvR (phi s) b) t)
  /\ (forall b t, In b bs -> lmem (bid b) lk = true -> t0 < t < t1 ->
        is_derive (fun s => j s b) t (bvR (phi t) b / vlookup Rfops lvals (bid b))
        /\ bvR (phi t) b = vlookup Rfops lvals (bid b) * Derive (fun s => j s b) t).
Proof. exists phi_t, j_t. split; [|split].
  - intros t Ht. destruct (traj_kirchhoff t Ht) as [P1 [P2 [P3 [P4 [_ [_ [P7 [P8 P9]]]]]]]].
    repeat (split; [assumption|]). assumption.
  - intros b t Hb Ec Ht. assert (Ht' : t0 <= t <= t1) by lra.
    destruct (cap_law Rfops Rfops_ok n cvals lvals lam_nz RD m Hm (x t) (u t) (Hlx t Ht') (Hlu t Ht') b Hb Ec) as [_ L2].
    pose proof (cap_value_nz Rfops Rfops_ok cvals lvals lam_nz b Ec) as Cnz. simpl in Cnz.
    pose proof (cap_derive b t Hb Ec Ht) as D. fold (j_t t b) in L2. split.
    + replace (j_t t b / vlookup Rfops cvals (bid b)) with (nth (lindex ck (bid b)) (xd t) 0); [exact D|].
      exact (R_quot _ _ _ Cnz L2).
    + rewrite (is_derive_unique (fun s : R => bvR (phi_t s) b) t _ D). exact L2.
  - intros b t Hb El Ht. assert (Ht' : t0 <= t <= t1) by lra.
    destruct (ind_law Rfops Rfops_ok n cvals lvals lam_nz RD m Hm (x t) (u t) (Hlx t Ht') (Hlu t Ht') b Hb El) as [_ L2].
    pose proof (ind_value_nz Rfops cvals lvals lam_nz b El) as Lnz. simpl in Lnz.
    pose proof (ind_derive b t Hb El Ht) as D. fold (phi_t t) in L2. split.
    + replace (bvR (phi_t t) b / vlookup Rfops lvals (bid b)) with (nth (nC + lindex lk (bid b)) (xd t) 0); [exact D|].
      exact (R_quot _ _ _ Lnz L2).
    + rewrite (is_derive_unique (fun s : R => j_t s b) t _ D). exact L2. Qed.

(* ---------------- (3) start from rest ---------------- *)
Theorem traj_rest t : t0 <= t <= t1 -> (forall k, nth k (x t) 0 = 0) -> (forall k, nth k (u t) 0 = 0) ->
     (forall node, node = zero n \/ In node ns ->
        out_potential Rfops n cvals lvals m node (x t) (u t) = Ok 0 /\ repP node t = 0)
  /\ (forall b, In b bs ->
        out_voltage Rfops n cvals lvals m (bid b) (x t) (u t) = Ok 0 /\ repV (bid b) t = 0
        /\ out_current Rfops n cvals lvals m (bid b) (x t) (u t) = Ok 0 /\ repI (bid b) t = 0).
Proof. intros Ht Hx Hu.
  destruct (ss_rest Rfops Rfops_ok n cvals lvals lam_nz RD m Hm (x t) (u t) (Hlx t Ht) (Hlu t Ht) Hx Hu) as [R1 R2].
  split.
  - intros node H. unfold rep_potential. rewrite (R1 node H). split; reflexivity.
  - intros b Hb. destruct (R2 b Hb) as [E1 E2]. unfold rep_voltage, rep_current. rewrite E1, E2.
    repeat split; reflexivity. Qed.

(* ---------------- (4) stationary trajectories, equilibria, DC analysis ---------------- *)
(* a trajectory that stands still on (t0, t1) sits at an equilibrium of the input it sees *)
Theorem traj_stationary (xs : list R) : (forall s, t0 < s < t1 -> x s = xs) ->
  forall k t, (k < nst)%nat -> t0 < t < t1 -> nth k (ss_xdot Rfops m xs (u t)) 0 = 0.
Proof. intros Hx k t Hk Ht. pose proof (Hder k t Hk Ht) as D. rewrite (Hx t Ht) in D.
  assert (D0 : is_derive (fun s => nth k (x s) 0) t 0).
  { apply (is_derive_on_interval (fun _ => nth k xs 0) _ t0 t1 t 0 Ht).
    - intros s Hs. rewrite (Hx s Hs). reflexivity.
    - apply (is_derive_const (K:=R_AbsRing) (V:=R_NormedModule)). }
  rewrite <- (is_derive_unique _ _ _ D). exact (is_derive_unique _ _ _ D0). Qed.

End Trajectory.

(* conversely an equilibrium is a trajectory *)
Theorem traj_equilibrium (cvals lvals : list (label * Rfops)) (m : ssm Rfops) (xs uc : list R) :
  (forall k, (k < ss_nst Rfops cvals lvals)%nat -> nth k (ss_xdot Rfops m xs uc) 0 = 0) ->
  forall k t, (k < ss_nst Rfops cvals lvals)%nat ->
  is_derive (fun s => nth k ((fun _ : R => xs) s) 0) t (nth k (ss_xdot Rfops m ((fun _ : R => xs) t) ((fun _ : R => uc) t)) 0).
Proof. intros H0 k t Hk. cbv beta. rewrite (H0 k Hk).
  apply (is_derive_const (K:=R_AbsRing) (V:=R_NormedModule)). Qed.

Section DC.
Variable n : network Rfops.
Variables cvals lvals : list (label * Rfops).
Notation bs := (branches n).
Notation ck := (ckeys Rfops cvals).
Notation lk := (lkeys Rfops lvals).
Notation nst := (ss_nst Rfops cvals lvals).
Notation nS := (ss_nS Rfops n lvals).
Hypothesis lam_nz : forall k, (k < nst)%nat -> nth k (lam Rfops cvals lvals) 0 <> 0.
Hypothesis RD : rlc_dc Rfops n cvals lvals.
Variable m : ssm Rfops.
Hypothesis Hm : state_space_matrices Rfops n cvals lvals = Ok m.
Variables x u : R -> list R.
Variables t0 t1 : R.
Hypothesis Hlx : forall t, t0 <= t <= t1 -> length (x t) = nst.
Hypothesis Hlu : forall t, t0 <= t <= t1 -> length (u t) = nS.
Hypothesis Hder : forall k t, (k < nst)%nat -> t0 < t < t1 ->
  is_derive (fun s => nth k (x s) 0) t (nth k (ss_xdot Rfops m (x t) (u t)) 0).
Variables xs uc : list R.
Hypothesis Hxs : forall s, t0 < s < t1 -> x s = xs.
Hypothesis Huc : forall s, t0 < s < t1 -> u s = uc.

(* the reports at a stationary trajectory under a constant input are the DC analysis of the network *)
Theorem traj_dc (sol : solution Rfops) : solve_network (pnet Rfops n cvals lvals 0 uc) = Ok sol ->
  forall t, t0 < t < t1 ->
     (forall k, (k < nst)%nat -> nth k (ss_xdot Rfops m xs uc) 0 = 0)
  /\ (forall node, In node (node_labels n) ->
        out_potential Rfops n cvals lvals m node (x t) (u t) = get_potential sol node)
  /\ (forall b, In b bs ->
        out_voltage Rfops n cvals lvals m (bid b) (x t) (u t) = get_voltage sol (bid b)
        /\ out_current Rfops n cvals lvals m (bid b) (x t) (u t)
           = Ok (flow_of (pnet Rfops n cvals lvals 0 uc) (s_x sol) (pbranch Rfops n cvals lvals 0 uc b)))
  /\ (forall b, In b bs -> lmem (bid b) ck = true -> out_current Rfops n cvals lvals m (bid b) (x t) (u t) = Ok 0)
  /\ (forall b, In b bs -> lmem (bid b) lk = true -> out_voltage Rfops n cvals lvals m (bid b) (x t) (u t) = Ok 0).
Proof. intros E t Ht. assert (Ht' : t0 <= t <= t1) by lra.
  assert (H0 : forall k, (k < nst)%nat -> nth k (ss_xdot Rfops m xs uc) 0 = 0).
  { intros k Hk. rewrite <- (Huc t Ht). exact (traj_stationary cvals lvals m x u t0 t1 Hder xs Hxs k t Hk Ht). }
  split; [exact H0|].
  pose proof (Hlx t Ht') as Lx. pose proof (Hlu t Ht') as Lu. rewrite (Hxs t Ht) in *. rewrite (Huc t Ht) in *.
  exact (ss_dc_solver Rfops Rfops_ok n cvals lvals lam_nz RD m Hm xs uc Lx Lu H0 sol E). Qed.

End DC.
