(* Theory/WellPosedCheck.v — a boolean certificate of well-posedness for concrete networks:
   the network is well formed, its MNA system is solved, and the computed inverse X of the MNA matrix A is
   checked to be a LEFT inverse (X*A = I), which makes the solution vector unique; by completeness of the
   MNA system (Theory/MnaComplete.v) the circuit equations then have exactly one solution. *)
From Coq Require Import List Bool NArith Arith Permutation Lia Field Ring.
From CC Require Import Theory.Field Theory.Labels Model.Network Theory.Spec Theory.Mna Theory.MnaComplete Theory.Api
  Theory.Simplify.
Import ListNotations.

Section WPC.
Variable K : fops.
Hypothesis KOK : fops_ok K.
Add Field Kfwpc : (Kth K KOK).
Notation "0" := (f0 K). Notation "1" := (f1 K).
Infix "+" := (fadd K). Infix "*" := (fmul K). Infix "-" := (fsub K). Notation "- x" := (fopp K x).
Infix "/" := (fdiv K).

Lemma dot_nil_l (v : list K) : dot (@nil K) v = 0.
Proof. reflexivity. Qed.

Lemma dot_cons (a b : K) (u v : list K) : dot (a :: u) (b :: v) = a * b + dot u v.
Proof. reflexivity. Qed.

Lemma dot_map_add {A} (f h : A -> K) (l : list A) (x : list K) :
  dot (map (fun j => f j + h j) l) x = dot (map f l) x + dot (map h l) x.
Proof. revert x. induction l as [|a l IH]; intros [|x0 x]; simpl; rewrite ?dot_nil_l, ?(dot_nil_r K); try ring.
  rewrite !dot_cons, IH. ring. Qed.

Lemma dot_map_scal {A} (c : K) (f : A -> K) (l : list A) (x : list K) :
  dot (map (fun j => c * f j) l) x = c * dot (map f l) x.
Proof. revert x. induction l as [|a l IH]; intros [|x0 x]; simpl; rewrite ?dot_nil_l, ?(dot_nil_r K); try ring.
  rewrite !dot_cons, IH. ring. Qed.

Lemma map_entry_seq (r : list K) : map (entry r) (seq 0 (length r)) = r.
Proof. induction r as [|a r IH]; simpl; [reflexivity|]. f_equal. rewrite <- seq_shift, map_map. exact IH. Qed.

(* (c^T A) x = c^T (A x) for a matrix whose rows all have length m *)
Lemma dot_lincomb (A : list (list K)) (m : nat) (x : list K) : Forall (fun r => length r = m) A ->
  forall c : list K, dot (map (fun j => dot c (col A j)) (seq 0 m)) x = dot c (map (fun r => dot r x) A).
Proof. induction A as [|r0 A IH]; intros HF c.
  - change (map (fun r => dot r x) []) with (@nil K). rewrite (dot_nil_r K).
    rewrite (map_ext (fun j => dot c (col [] j)) (fun _ => 0)) by (intros j; apply (dot_nil_r K)).
    apply (dot_map_zero KOK).
  - inversion HF as [|? ? Hr HF']; subst. destruct c as [|c0 c].
    + rewrite dot_nil_l. rewrite (map_ext (fun j => dot [] (col (r0 :: A) j)) (fun _ => 0)) by (intros j; apply dot_nil_l).
      apply (dot_map_zero KOK).
    + simpl. rewrite dot_cons.
      rewrite (map_ext (fun j => dot (c0 :: c) (entry r0 j :: col A j)) (fun j => c0 * entry r0 j + dot c (col A j)))
        by (intros j; apply dot_cons).
      rewrite dot_map_add, dot_map_scal, map_entry_seq, (IH HF'). reflexivity. Qed.

Lemma mat_vec_mul (X A : list (list K)) (m : nat) (x : list K) : Forall (fun r => length r = m) A ->
  mat_vec (mat_mul m X A) x = mat_vec X (mat_vec A x).
Proof. intros HF. unfold mat_vec, mat_mul. rewrite map_map. apply map_ext. intros r. apply dot_lincomb. exact HF. Qed.

Lemma dot_unit (m : nat) : forall (s k : nat) (x : list K), length x = m ->
  dot (map (fun j => if Nat.eqb j k then 1 else 0) (seq s m)) x
  = if Nat.leb s k && Nat.ltb k (s + m) then nth (k - s) x 0 else 0.
Proof. induction m as [|m IH]; intros s k x HL.
  - simpl. rewrite dot_nil_l. destruct (Nat.leb_spec s k), (Nat.ltb_spec k (s + 0)); simpl; try reflexivity. lia.
  - destruct x as [|x0 x]; [discriminate|]. injection HL as HL. simpl seq. simpl map. rewrite dot_cons, (IH (S s) k x HL).
    destruct (Nat.eqb_spec s k) as [E|E].
    + subst k. destruct (Nat.leb_spec (S s) s); [lia|]. simpl.
      destruct (Nat.leb_spec s s); [|lia]. destruct (Nat.ltb_spec s (s + S m)); [|lia]. simpl.
      replace (s - s)%nat with 0%nat by lia. simpl. ring.
    + destruct (Nat.leb_spec (S s) k), (Nat.ltb_spec k (S s + m)), (Nat.leb_spec s k), (Nat.ltb_spec k (s + S m));
        simpl; try lia; try ring.
      replace (k - s)%nat with (S (k - S s)) by lia. simpl. ring. Qed.

Lemma mat_vec_ident (m : nat) (x : list K) : length x = m -> mat_vec (ident m) x = x.
Proof. intros HL. unfold mat_vec, ident, unit_vec. rewrite map_map.
  rewrite (map_ext_in _ (entry x)).
  - subst m. apply map_entry_seq.
  - intros k Hk. apply in_seq in Hk. rewrite (dot_unit m 0 k x HL).
    destruct (Nat.leb_spec 0 k); [|lia]. destruct (Nat.ltb_spec k (0 + m)); [|lia]. simpl.
    rewrite Nat.sub_0_r. reflexivity. Qed.

Lemma mat_eqb_eq (A B : list (list K)) : mat_eqb A B = true -> A = B.
Proof. revert B. induction A as [|a A IH]; intros [|b B]; simpl; try discriminate; [reflexivity|].
  intros H. apply andb_true_iff in H. destruct H as [H1 H2]. apply (vec_eqb_eq K KOK) in H1. subst. f_equal. auto. Qed.

(* the computed inverse is also a left inverse *)
Definition left_inv_check (A : list (list K)) : bool :=
  match inverse A with
  | Some X => mat_eqb (mat_mul (length A) X A) (ident (length A))
  | None => false
  end.

Lemma left_inv_unique (A : list (list K)) : Forall (fun r => length r = length A) A -> left_inv_check A = true ->
  forall x x', length x = length A -> length x' = length A -> mat_vec A x = mat_vec A x' -> x = x'.
Proof. unfold left_inv_check. intros HF H x x' L L' E. destruct (inverse A) as [X|]; [|discriminate].
  apply mat_eqb_eq in H.
  rewrite <- (mat_vec_ident (length A) x L), <- (mat_vec_ident (length A) x' L'). rewrite <- H.
  rewrite !mat_vec_mul by exact HF. rewrite E. reflexivity. Qed.

Lemma mna_matrix_shape (n : network K) :
  length (mna_matrix n) = (length (node_index n) + length (vs_index n))%nat
  /\ Forall (fun r => length r = (length (node_index n) + length (vs_index n))%nat) (mna_matrix n).
Proof. unfold mna_matrix. split.
  - rewrite app_length, !map_length. reflexivity.
  - apply Forall_app. split; apply Forall_forall; intros r Hr; apply in_map_iff in Hr; destruct Hr as [i [<- _]];
      rewrite app_length, !map_length; reflexivity. Qed.

(* uniqueness of the solution vector gives well-posedness of the circuit equations *)
Theorem wp_of_unique (n : network K) : wf n -> (exists x, solves n x) ->
  (forall x x', solves n x -> solves n x' -> x = x') -> WellPosed n.
Proof. intros WF [x0 S0] Huniq. split.
  - exists (phi_of n x0), (flow_of n x0). apply (mna_sound K KOK n WF). exact S0.
  - intros phi1 j1 phi2 j2 S1 S2.
    pose proof (Huniq _ _ (mna_complete K KOK n WF _ _ S1) (mna_complete K KOK n WF _ _ S2)) as V.
    unfold vec in V. apply app_inj_len in V; [|rewrite !map_length; reflexivity]. destruct V as [Vp Vj].
    assert (Ap : forall l, In l (node_labels n) -> phi1 l = phi2 l).
    { intros l Hl. destruct (label_cases K n l Hl) as [->|Hi].
      - rewrite (proj1 S1), (proj1 S2). reflexivity.
      - exact (ext_in_map Vp l Hi). }
    split; [exact Ap|].
    intros b Hb. destruct (is_ideal_voltage_source (el b)) eqn:E.
    + pose proof (ext_in_map Vj (bid b) (ivs_in_vss K n b Hb E)) as Ej.
      rewrite !(jv_In K) in Ej by (exact (proj1 WF) || exact Hb). exact Ej.
    + destruct S1 as [_ [_ L1]]. destruct S2 as [_ [_ L2]]. specialize (L1 b Hb). specialize (L2 b Hb).
      unfold law in L1, L2. rewrite (ivs_noY K KOK) in E. destruct (eY (el b)) as [y|]; [|discriminate].
      rewrite L1, L2. unfold bvolt. destruct (endpoint_in_labels K n b Hb) as [M1 M2].
      rewrite (Ap _ M1), (Ap _ M2). reflexivity. Qed.

End WPC.

Definition wellposedb {K : fops} (n : network K) : bool := wfb n && solvedb n && left_inv_check K (mna_matrix n).

Theorem wellposedb_ok {K : fops} (KOK : fops_ok K) (n : network K) : wellposedb n = true -> wf n /\ WellPosed n.
Proof. unfold wellposedb. intros H. apply andb_true_iff in H. destruct H as [H H3]. apply andb_true_iff in H. destruct H as [H1 H2].
  destruct (solvedb_ok KOK n H1 H2) as [s [_ [WF [S _]]]]. split; [exact WF|].
  apply (wp_of_unique K KOK n WF); [exists (s_x s); exact S|].
  intros x x' [L E] [L' E']. destruct (mna_matrix_shape K n) as [LA FA].
  apply (left_inv_unique K KOK (mna_matrix n)); try congruence.
  rewrite LA. exact FA. Qed.
