(* Theory/Labels.v — facts about label equality, de-duplication, sorting and index lookup.
   Nothing here depends on *which* order [label_leb] is: only that sorting permutes. *)
From Coq Require Import List Bool NArith Arith Permutation Lia.
From CC Require Import Theory.Field Model.Network.
Import ListNotations.

Lemma label_eqb_spec (a b : label) : reflect (a = b) (label_eqb a b).
Proof.
  revert b. induction a as [|x a IH]; intros [|y b]; simpl; try (constructor; congruence).
  destruct (N.eqb_spec x y) as [E|E]; simpl.
  - destruct (IH b) as [E'|E']; constructor; congruence.
  - constructor; congruence.
Qed.

Lemma label_eqb_refl a : label_eqb a a = true.
Proof. destruct (label_eqb_spec a a); congruence. Qed.

Lemma label_eqb_sym a b : label_eqb a b = label_eqb b a.
Proof. destruct (label_eqb_spec a b), (label_eqb_spec b a); congruence. Qed.

Lemma label_eqb_neq a b : a <> b -> label_eqb a b = false.
Proof. destruct (label_eqb_spec a b); congruence. Qed.

Lemma lmem_spec x l : lmem x l = true <-> In x l.
Proof. unfold lmem. rewrite existsb_exists. split.
  - intros [y [H1 H2]]. destruct (label_eqb_spec x y); [subst; auto|discriminate].
  - intros H; exists x; split; auto. apply label_eqb_refl. Qed.

Lemma lmem_false x l : lmem x l = false <-> ~ In x l.
Proof. rewrite <- lmem_spec. destruct (lmem x l); split; congruence. Qed.

Lemma ldedup_In x l : In x (ldedup l) <-> In x l.
Proof. induction l as [|y l IH]; simpl; [tauto|].
  destruct (lmem y l) eqn:E.
  - rewrite IH. apply lmem_spec in E. split; [auto|]. intros [->|H]; auto.
  - simpl. rewrite IH. tauto. Qed.

Lemma ldedup_NoDup l : NoDup (ldedup l).
Proof. induction l as [|y l IH]; simpl; [constructor|].
  destruct (lmem y l) eqn:E; [assumption|]. constructor; [|assumption].
  rewrite ldedup_In. apply lmem_false. exact E. Qed.

Lemma ldedup_length_NoDup l : length (ldedup l) = length l <-> NoDup l.
Proof.
  assert (Hle : forall l, length (ldedup l) <= length l).
  { induction l0 as [|y l0 IH]; simpl; [lia|]. destruct (lmem y l0); simpl; lia. }
  induction l as [|y l IH]; simpl.
  - split; [constructor|reflexivity].
  - destruct (lmem y l) eqn:E.
    + split.
      * intros H. specialize (Hle l). lia.
      * intros H. inversion H as [|? ? Hn _]; subst. apply lmem_spec in E. contradiction.
    + simpl. split.
      * intros H. injection H as H. constructor; [apply lmem_false; exact E| apply IH; exact H].
      * intros H. inversion H; subst. f_equal. apply IH. assumption.
Qed.

Lemma linsert_perm x l : Permutation (linsert x l) (x :: l).
Proof. induction l as [|y l IH]; simpl; [reflexivity|].
  destruct (label_leb x y); [reflexivity|].
  rewrite IH. apply perm_swap. Qed.

Lemma lsort_perm l : Permutation (lsort l) l.
Proof. induction l as [|x l IH]; simpl; [constructor|].
  rewrite linsert_perm. constructor. exact IH. Qed.

Lemma lsort_In x l : In x (lsort l) <-> In x l.
Proof. split; apply Permutation_in; [apply lsort_perm | symmetry; apply lsort_perm]. Qed.

Lemma lsort_NoDup l : NoDup l -> NoDup (lsort l).
Proof. intros H. eapply Permutation_NoDup; [symmetry; apply lsort_perm| exact H]. Qed.

Lemma lsort_length l : length (lsort l) = length l.
Proof. apply Permutation_length, lsort_perm. Qed.

Lemma lindex_lt l x : In x l -> lindex l x < length l.
Proof. induction l as [|y l IH]; simpl; [tauto|]. intros H.
  destruct (label_eqb_spec y x); [lia|]. destruct H as [H|H]; [congruence|]. specialize (IH H). lia. Qed.

Lemma nth_lindex l x (d : label) : In x l -> nth (lindex l x) l d = x.
Proof. induction l as [|y l IH]; simpl; [tauto|]. intros H.
  destruct (label_eqb_spec y x); [assumption|]. destruct H as [H|H]; [congruence|]. apply IH, H. Qed.

Lemma filter_NoDup {A} (p : A -> bool) l : NoDup l -> NoDup (filter p l).
Proof. induction 1 as [|x l Hx H IH]; simpl; [constructor|].
  destruct (p x); [constructor; [rewrite filter_In; tauto|assumption]|assumption]. Qed.

Lemma NoDup_map_filter {A B} (f : A -> B) (p : A -> bool) l : NoDup (map f l) -> NoDup (map f (filter p l)).
Proof. induction l as [|x l IH]; simpl; intros H; [constructor|].
  inversion H as [|? ? Hx H']; subst. destruct (p x); simpl; [|auto].
  constructor; [|auto]. intros Hin. apply Hx. apply in_map_iff in Hin. destruct Hin as [y [E Hy]].
  apply filter_In in Hy. apply in_map_iff. exists y; tauto. Qed.

Lemma lindex_nth l k : NoDup l -> k < length l -> lindex l (nth k l []) = k.
Proof. revert k. induction l as [|a l IH]; intros k ND H; simpl in *; [lia|].
  inversion ND as [|? ? Ha ND']; subst. destruct k; [rewrite label_eqb_refl; reflexivity|].
  destruct (label_eqb_spec a (nth k l [])) as [e|e].
  - exfalso. apply Ha. rewrite e. apply nth_In. lia.
  - f_equal. apply IH; [assumption|lia]. Qed.
