(* Theory/Simplify.v — the network transformers of Model/Transformers.v are electrical identities.
   Flows are indexed by branch *identifier* here ([CircuitSpecId]) because contraction changes the node
   fields of the branch records but keeps identifiers and elements.  Generic in the field. *)
From Coq Require Import List Bool NArith Arith Permutation Lia Field Ring.
From CC Require Import Theory.Field Theory.Labels Model.Network Model.Transformers Theory.Spec Theory.Mna
  Theory.MnaComplete Theory.Api.
Import ListNotations.

(* order-preserving sub-list *)
Inductive subseq {A} : list A -> list A -> Prop :=
| subseq_nil : subseq [] []
| subseq_keep x l l' : subseq l l' -> subseq (x :: l) (x :: l')
| subseq_drop x l l' : subseq l l' -> subseq l (x :: l').

Lemma subseq_refl {A} (l : list A) : subseq l l.
Proof. induction l; constructor; assumption. Qed.

Lemma subseq_trans {A} (a b c : list A) : subseq a b -> subseq b c -> subseq a c.
Proof. intros H1 H2. revert a H1. induction H2 as [|x l l' H IH|x l l' H IH]; intros a H1.
  - exact H1.
  - inversion H1; subst; constructor; auto.
  - constructor. auto. Qed.

Lemma subseq_In {A} (l l' : list A) x : subseq l l' -> In x l -> In x l'.
Proof. induction 1; simpl; intuition. Qed.

Lemma subseq_NoDup {A} (l l' : list A) : subseq l l' -> NoDup l' -> NoDup l.
Proof. induction 1 as [|x l l' H IH|x l l' H IH]; intros ND.
  - constructor.
  - inversion ND; subst. constructor; [|auto]. intros Hx. eapply subseq_In in Hx; eauto.
  - inversion ND; subst. auto. Qed.

Lemma subseq_length {A} (l l' : list A) : subseq l l' -> length l <= length l'.
Proof. induction 1; simpl; lia. Qed.

Lemma subseq_map_filter {A B} (f g : A -> B) (p : A -> bool) (l : list A) :
  (forall x, f x = g x) -> subseq (map f (filter p l)) (map g l).
Proof. intros E. induction l as [|x l IH]; simpl; [constructor|].
  destruct (p x); simpl; [rewrite E|]; constructor; exact IH. Qed.

Lemma filter_len_le {A} (p : A -> bool) (l : list A) : length (filter p l) <= length l.
Proof. induction l as [|x l IH]; simpl; [lia|]. destruct (p x); simpl; lia. Qed.

Section Simplify.
Variable K : fops.
Hypothesis KOK : fops_ok K.
Add Field Kf16 : (Kth K KOK).
Notation "0" := (f0 K). Notation "1" := (f1 K).
Infix "+" := (fadd K). Infix "*" := (fmul K). Infix "-" := (fsub K). Notation "- x" := (fopp K x).
Infix "/" := (fdiv K).
Notation "x == y" := (feqb K x y) (at level 70).
Ltac feq x y := destruct (feqb_spec KOK x y).
Ltac leq a b := destruct (label_eqb_spec a b).
Ltac feqn x y E := destruct (feqb_spec KOK x y) as [E|E].
Ltac leqn a b E := destruct (label_eqb_spec a b) as [E|E].

(* ================= id-indexed flows ================= *)
Definition CircuitSpecId (n : network K) (phi : label -> K) (ji : label -> K) : Prop :=
  CircuitSpec n phi (fun b => ji (bid b)).

Definition NW (bs : list (branch K)) (z : label) : network K := {| branches := bs; zero := z |}.

Lemma NW_eta (n : network K) : n = NW (branches n) (zero n).
Proof. destruct n; reflexivity. Qed.

Lemma CircuitSpec_ext (n : network K) phi j j' : (forall b, In b (branches n) -> j b = j' b) ->
  CircuitSpec n phi j -> CircuitSpec n phi j'.
Proof. intros E [H0 [HK HL]]. split; [exact H0|]. split.
  - intros i. rewrite <- (HK i). unfold kcl_sum. apply sumF_ext_in. intros b Hb. rewrite E by assumption. reflexivity.
  - intros b Hb. specialize (HL b Hb). unfold law in *. rewrite <- E by assumption. exact HL. Qed.

Lemma bid_inj (bs : list (branch K)) b b' : NoDup (map bid bs) -> In b bs -> In b' bs -> bid b = bid b' -> b = b'.
Proof. intros ND Hb Hb' E. pose proof (get_branch_In K bs b ND Hb) as G. pose proof (get_branch_In K bs b' ND Hb') as G'.
  rewrite E in G. congruence. Qed.

Lemma jv_In (n : network K) j b : NoDup (branch_ids n) -> In b (branches n) -> jv n j (bid b) = j b.
Proof. intros ND Hb. unfold jv. rewrite (get_branch_In K) by assumption. reflexivity. Qed.

(* with pairwise distinct identifiers the two formulations are interchangeable *)
Lemma spec_to_id (n : network K) phi j : NoDup (branch_ids n) -> CircuitSpec n phi j -> CircuitSpecId n phi (jv n j).
Proof. intros ND. apply CircuitSpec_ext. intros b Hb. symmetry. apply jv_In; assumption. Qed.

Lemma id_to_spec (n : network K) phi ji : CircuitSpecId n phi ji -> CircuitSpec n phi (fun b => ji (bid b)).
Proof. exact (fun H => H). Qed.

Lemma CircuitSpecId_ext (n : network K) phi ji ji' : (forall b, In b (branches n) -> ji (bid b) = ji' (bid b)) ->
  CircuitSpecId n phi ji -> CircuitSpecId n phi ji'.
Proof. intros E. apply CircuitSpec_ext. exact E. Qed.

(* ================= node labels ================= *)
Lemma in_node_labels (n : network K) l :
  In l (node_labels n) <-> (branches n = [] /\ l = zero n) \/ (branches n <> [] /\ In l (endpoints n)).
Proof. destruct (branches n) eqn:E.
  - unfold node_labels. rewrite E. simpl. split.
    + intros [H|[]]. left. auto.
    + intros [[_ H]|[H _]]; [left; auto|congruence].
  - rewrite (node_labels_In K n l) by congruence. split.
    + intros H. right. split; [congruence|exact H].
    + intros [[H _]|[_ H]]; [congruence|exact H]. Qed.

Lemma endpoints_In (n : network K) l :
  In l (endpoints n) <-> exists b, In b (branches n) /\ (node1 b = l \/ node2 b = l).
Proof. unfold endpoints. rewrite in_app_iff, !in_map_iff. split.
  - intros [[b [E H]]|[b [E H]]]; exists b; auto.
  - intros [b [H [E|E]]]; [left|right]; exists b; auto. Qed.

(* potentials of the nodes of n' are determined as soon as those of the nodes of n are *)
Lemma nodes_agree (n' : network K) (phi1 phi2 : label -> K) :
  phi1 (zero n') = 0 -> phi2 (zero n') = 0 ->
  (forall b, In b (branches n') -> (phi1 (node1 b) = phi2 (node1 b)) /\ (phi1 (node2 b) = phi2 (node2 b))) ->
  forall l, In l (node_labels n') -> phi1 l = phi2 l.
Proof. intros Z1 Z2 H l Hl. apply in_node_labels in Hl. destruct Hl as [[_ ->]|[_ Hl]]; [congruence|].
  apply endpoints_In in Hl. destruct Hl as [b [Hb [<-|<-]]]; apply (H b Hb). Qed.

Lemma endpoint_in_labels (n : network K) b : In b (branches n) -> In (node1 b) (node_labels n) /\ In (node2 b) (node_labels n).
Proof. intros Hb. assert (NE : branches n <> []) by (intro E; rewrite E in Hb; exact Hb).
  split; apply in_node_labels; right; (split; [exact NE|]); apply endpoints_In; exists b; auto. Qed.

(* ================= validation ================= *)
Lemma mk_ok (bs : list (branch K)) z n' : mk bs z = Ok n' ->
  n' = NW bs z /\ NoDup (map bid bs) /\ (bs <> [] -> In z (map node1 bs ++ map node2 bs)).
Proof. unfold mk. intros H. apply validate_ok in H. exact H. Qed.

(* ================= element facts ================= *)
Lemma open_law (e : elem K) : is_open_circuit e = true -> eY e = Some 0 /\ opt0 (eI e) = 0.
Proof. unfold is_open_circuit. destruct e as [nm k z v|nm k y i]; simpl.
  - feq z 0; simpl; [intros H; discriminate|].
    intros H. apply andb_true_iff in H. destruct H as [_ H]. feq (1 / z) 0; [|discriminate].
    exfalso. eapply (inv_nz K KOK); eauto.
  - intros H. apply andb_true_iff in H. destruct H as [H1 H2]. feq i 0; [|discriminate]. feq y 0; [|discriminate].
    subst. auto. Qed.

Lemma short_law (e : elem K) : is_short_circuit e = true -> eY e = None /\ opt0 (eV e) = 0.
Proof. unfold is_short_circuit. destruct e as [nm k z v|nm k y i]; simpl.
  - intros H. apply andb_true_iff in H. destruct H as [H1 H2]. feq v 0; [|discriminate]. feq z 0; [|discriminate]. auto.
  - feq y 0; simpl; [intros H; discriminate|].
    intros H. apply andb_true_iff in H. destruct H as [_ H]. feq (1 / y) 0; [|discriminate].
    exfalso. eapply (inv_nz K KOK); eauto. Qed.

(* ================= generic KCL facts ================= *)
Lemma kcl_filter (p : branch K -> bool) (bs : list (branch K)) (j : branch K -> K) i :
  (forall b, In b bs -> p b = false -> j b = 0) -> kcl_sum (filter p bs) j i = kcl_sum bs j i.
Proof. intros H. unfold kcl_sum. rewrite (sumF_filter KOK). apply sumF_ext_in. intros b Hb.
  destruct (p b) eqn:E; [reflexivity|]. rewrite (H b Hb E).
  destruct (label_eqb (node1 b) i), (label_eqb (node2 b) i); ring. Qed.

Lemma kcl_ext (bs : list (branch K)) (j j' : branch K -> K) i :
  (forall b, In b bs -> j b = j' b) -> kcl_sum bs j i = kcl_sum bs j' i.
Proof. intros H. unfold kcl_sum. apply sumF_ext_in. intros b Hb. rewrite (H b Hb). reflexivity. Qed.

(* ================= 2. open circuits ================= *)
Definition not_open (b : branch K) : bool := negb (is_open_circuit (el b)).
Definition drop_open (n : network K) : network K := NW (filter not_open (branches n)) (zero n).
Definition open_ids (n : network K) : list label := map bid (filter (fun b => is_open_circuit (el b)) (branches n)).
(* a flow assignment of the reduced network, extended by 0 on the removed identifiers *)
Definition ext_open (n : network K) (ji : label -> K) (id : label) : K := if lmem id (open_ids n) then 0 else ji id.

Lemma remove_open_ok (n n' : network K) : remove_open_circuit_elements n = Ok n' -> n' = drop_open n.
Proof. unfold remove_open_circuit_elements. intros H. apply mk_ok in H. exact (proj1 H). Qed.

Lemma open_flow_zero (n : network K) phi ji b : CircuitSpecId n phi ji -> In b (branches n) ->
  is_open_circuit (el b) = true -> ji (bid b) = 0.
Proof. intros [_ [_ HL]] Hb Ho. specialize (HL b Hb). unfold law in HL. destruct (open_law _ Ho) as [EY EI].
  rewrite EY, EI in HL. rewrite HL. ring. Qed.

Theorem open_fwd (n : network K) phi ji : CircuitSpecId n phi ji -> CircuitSpecId (drop_open n) phi ji.
Proof. intros S. pose proof S as [H0 [HK HL]]. split; [exact H0|]. split.
  - intros i. simpl. rewrite kcl_filter; [apply HK|].
    intros b Hb Ho. apply (open_flow_zero n phi ji b S Hb). unfold not_open in Ho. apply negb_false_iff in Ho. exact Ho.
  - intros b Hb. simpl in Hb. apply filter_In in Hb. apply HL. tauto. Qed.

Lemma ext_open_open (n : network K) ji b : In b (branches n) -> is_open_circuit (el b) = true -> ext_open n ji (bid b) = 0.
Proof. intros Hb Ho. unfold ext_open.
  assert (H : In (bid b) (open_ids n)) by (apply in_map, filter_In; auto).
  apply lmem_spec in H. rewrite H. reflexivity. Qed.

Lemma ext_open_keep (n : network K) ji b : NoDup (branch_ids n) -> In b (branches n) -> is_open_circuit (el b) = false ->
  ext_open n ji (bid b) = ji (bid b).
Proof. intros ND Hb Ho. unfold ext_open.
  destruct (lmem (bid b) (open_ids n)) eqn:E; [|reflexivity].
  apply lmem_spec in E. unfold open_ids in E. apply in_map_iff in E. destruct E as [b' [E Hb']].
  apply filter_In in Hb'. destruct Hb' as [Hb' Ho'].
  assert (b' = b) by (apply (bid_inj (branches n)); assumption). subst. congruence. Qed.

Theorem open_bwd (n : network K) phi ji : NoDup (branch_ids n) ->
  CircuitSpecId (drop_open n) phi ji -> CircuitSpecId n phi (ext_open n ji).
Proof. intros ND [H0 [HK HL]]. split; [exact H0|]. split.
  - intros i. rewrite <- (HK i). simpl.
    rewrite <- (kcl_filter not_open (branches n) (fun b => ext_open n ji (bid b)) i).
    + apply kcl_ext. intros b Hb. apply filter_In in Hb. destruct Hb as [Hb Ho].
      apply ext_open_keep; [assumption|assumption|]. unfold not_open in Ho. apply negb_true_iff in Ho. exact Ho.
    + intros b Hb Ho. apply ext_open_open; [assumption|]. unfold not_open in Ho. apply negb_false_iff in Ho. exact Ho.
  - intros b Hb. destruct (is_open_circuit (el b)) eqn:Ho.
    + unfold law. destruct (open_law _ Ho) as [EY EI]. rewrite EY, EI. rewrite ext_open_open by assumption. ring.
    + assert (Hb' : In b (branches (drop_open n))) by (simpl; apply filter_In; unfold not_open; rewrite Ho; auto).
      specialize (HL b Hb'). unfold law in *. rewrite ext_open_keep by assumption. exact HL. Qed.

(* a solution of n already vanishes on the removed identifiers: the extension changes nothing *)
Lemma ext_open_same (n : network K) phi ji b : NoDup (branch_ids n) -> CircuitSpecId n phi ji -> In b (branches n) ->
  ext_open n ji (bid b) = ji (bid b).
Proof. intros ND S Hb. destruct (is_open_circuit (el b)) eqn:Ho.
  - rewrite ext_open_open by assumption. symmetry. eapply open_flow_zero; eauto.
  - apply ext_open_keep; assumption. Qed.

Lemma drop_open_NoDup (n : network K) : NoDup (branch_ids n) -> NoDup (branch_ids (drop_open n)).
Proof. unfold branch_ids. simpl. apply NoDup_map_filter. Qed.

Theorem open_wp_fwd (n : network K) : NoDup (branch_ids n) -> WellPosed n -> WellPosed (drop_open n).
Proof. intros ND [[phi [j S]] U]. split.
  - exists phi, (fun b => jv n j (bid b)). apply open_fwd. apply spec_to_id; assumption.
  - intros phi1 j1 phi2 j2 S1 S2. pose proof (drop_open_NoDup n ND) as ND'.
    pose proof (open_bwd n _ _ ND (spec_to_id _ _ _ ND' S1)) as T1.
    pose proof (open_bwd n _ _ ND (spec_to_id _ _ _ ND' S2)) as T2.
    destruct (U _ _ _ _ T1 T2) as [Ap Aj]. split.
    + apply (nodes_agree (drop_open n)); [exact (proj1 S1)|exact (proj1 S2)|].
      intros b Hb. simpl in Hb. apply filter_In in Hb. destruct Hb as [Hb _].
      destruct (endpoint_in_labels n b Hb) as [L1 L2]. split; apply Ap; assumption.
    + intros b Hb. pose proof Hb as Hb0. simpl in Hb. apply filter_In in Hb. destruct Hb as [Hb Ho].
      unfold not_open in Ho. apply negb_true_iff in Ho.
      specialize (Aj b Hb). simpl in Aj. rewrite !ext_open_keep in Aj by assumption.
      rewrite !jv_In in Aj by assumption. exact Aj. Qed.

(* the converse needs every node of n to keep a branch that is not an open circuit *)
Theorem open_wp_bwd (n : network K) : NoDup (branch_ids n) ->
  (forall l, In l (node_labels n) -> In l (node_labels (drop_open n))) ->
  WellPosed (drop_open n) -> WellPosed n.
Proof. intros ND Hn [[phi [j S]] U]. pose proof (drop_open_NoDup n ND) as ND'. split.
  - exists phi, (fun b => ext_open n (jv (drop_open n) j) (bid b)). apply open_bwd; [assumption|]. apply spec_to_id; assumption.
  - intros phi1 j1 phi2 j2 S1 S2.
    pose proof (spec_to_id _ _ _ ND S1) as I1. pose proof (spec_to_id _ _ _ ND S2) as I2.
    destruct (U _ _ _ _ (open_fwd n _ _ I1) (open_fwd n _ _ I2)) as [Ap Aj]. split.
    + intros l Hl. apply Ap, Hn, Hl.
    + intros b Hb. destruct (is_open_circuit (el b)) eqn:Ho.
      * pose proof (open_flow_zero n _ _ b I1 Hb Ho) as Z1. pose proof (open_flow_zero n _ _ b I2 Hb Ho) as Z2.
        rewrite jv_In in Z1, Z2 by assumption. congruence.
      * assert (Hb' : In b (branches (drop_open n))) by (simpl; apply filter_In; unfold not_open; rewrite Ho; auto).
        specialize (Aj b Hb'). simpl in Aj. rewrite !jv_In in Aj by assumption. exact Aj. Qed.

(* ================= 3. contraction of a short circuit ================= *)
Definition nonloop (b : branch K) : bool := negb (label_eqb (node1 b) (node2 b)).
Definition rename (s : label -> label) (b : branch K) : branch K := Build_branch (s (node1 b)) (s (node2 b)) (el b).
(* the node identification of one contraction step: [an] is absorbed into [rn] *)
Definition sub (an rn l : label) : label := if label_eqb l an then rn else l.

Lemma contract_rename an rn (bs : list (branch K)) : contract an rn bs = filter nonloop (map (rename (sub an rn)) bs).
Proof. unfold contract. rewrite map_map. f_equal. apply map_ext. intros [n1 n2 e]. unfold rename, sub. simpl.
  destruct (label_eqb n1 an); simpl; destruct (label_eqb n2 an); reflexivity. Qed.

Lemma rename_bid s (b : branch K) : bid (rename s b) = bid b.
Proof. reflexivity. Qed.

Lemma rename_id (b : branch K) : rename (fun l => l) b = b.
Proof. destruct b; reflexivity. Qed.

Lemma sub_same a l : sub a a l = l.
Proof. unfold sub. leq l a; congruence. Qed.

Lemma In_contract an rn (bs : list (branch K)) b' :
  In b' (contract an rn bs) <-> exists b, In b bs /\ b' = rename (sub an rn) b /\ nonloop b' = true.
Proof. rewrite contract_rename, filter_In, in_map_iff. split.
  - intros [[b [E Hb]] NL]. exists b. auto.
  - intros [b [Hb [E NL]]]. split; [exists b; auto|exact NL]. Qed.

Lemma sgn_loop i (b : branch K) : nonloop b = false -> sgn i b = 0.
Proof. unfold nonloop, sgn. intros H. apply negb_false_iff in H. leqn (node1 b) (node2 b) E; [|discriminate].
  rewrite E. destruct (label_eqb (node2 b) i); ring. Qed.

(* KCL of the contracted list as a sum over the original list *)
Lemma kcl_contract_sum an rn (bs : list (branch K)) (ji : label -> K) i :
  kcl_sum (contract an rn bs) (fun b => ji (bid b)) i
  = sumF (fun b => sgn i (rename (sub an rn) b) * ji (bid b)) bs.
Proof. rewrite contract_rename, (kcl_sum_sgn K KOK), (sumF_filter KOK), sumF_map. apply sumF_ext. intros b.
  destruct (nonloop (rename (sub an rn) b)) eqn:E; [reflexivity|]. rewrite (sgn_loop i _ E). ring. Qed.

Lemma ind_sub an rn l i : an <> rn ->
  (if label_eqb (sub an rn l) i then 1 else 0)
  = if label_eqb i rn then (if label_eqb l an then 1 else 0) + (if label_eqb l rn then 1 else 0)
    else if label_eqb i an then 0 else if label_eqb l i then 1 else 0.
Proof. intros NE. unfold sub. leq l an.
  - subst l. leq rn i.
    + subst i. rewrite label_eqb_refl. leq an rn; [congruence|ring].
    + leq i rn; [congruence|]. leq i an; [reflexivity|]. leq an i; [congruence|reflexivity].
  - leq i rn.
    + subst i. leq l rn; ring.
    + leq i an; [|reflexivity]. subst i. leq l an; [congruence|reflexivity]. Qed.

Lemma sgn_sub an rn (b : branch K) i : an <> rn ->
  sgn i (rename (sub an rn) b)
  = if label_eqb i rn then sgn an b + sgn rn b else if label_eqb i an then 0 else sgn i b.
Proof. intros NE. unfold sgn, rename. simpl. rewrite !ind_sub by assumption.
  destruct (label_eqb i rn); [ring|]. destruct (label_eqb i an); ring. Qed.

Theorem kcl_contract an rn (bs : list (branch K)) (ji : label -> K) i : an <> rn ->
  kcl_sum (contract an rn bs) (fun b => ji (bid b)) i
  = if label_eqb i rn then kcl_sum bs (fun b => ji (bid b)) an + kcl_sum bs (fun b => ji (bid b)) rn
    else if label_eqb i an then 0 else kcl_sum bs (fun b => ji (bid b)) i.
Proof. intros NE. rewrite kcl_contract_sum.
  rewrite (sumF_ext (fun b => sgn i (rename (sub an rn) b) * ji (bid b))
     (fun b => (if label_eqb i rn then sgn an b + sgn rn b else if label_eqb i an then 0 else sgn i b) * ji (bid b)))
    by (intros b; rewrite sgn_sub by assumption; reflexivity).
  rewrite !(kcl_sum_sgn K KOK). destruct (label_eqb i rn).
  - rewrite <- (sumF_add KOK). apply sumF_ext. intros b. ring.
  - destruct (label_eqb i an); [|reflexivity]. apply (sumF_zero_in KOK). intros b _. ring. Qed.

Lemma kcl_contract_same a (bs : list (branch K)) (ji : label -> K) i :
  kcl_sum (contract a a bs) (fun b => ji (bid b)) i = kcl_sum bs (fun b => ji (bid b)) i.
Proof. rewrite kcl_contract_sum, (kcl_sum_sgn K KOK). apply sumF_ext. intros b.
  unfold sgn, rename. simpl. rewrite !sub_same. reflexivity. Qed.

(* one contraction step is an identity for every assignment that gives both nodes the same potential *)
Theorem contract_fwd an rn (bs : list (branch K)) z phi ji : phi an = phi rn ->
  CircuitSpecId (NW bs z) phi ji -> CircuitSpecId (NW (contract an rn bs) z) phi ji.
Proof. intros E [H0 [HK HL]]. simpl in *.
  assert (Hs : forall l, phi (sub an rn l) = phi l) by (intros l; unfold sub; leq l an; congruence).
  split; [exact H0|]. split.
  - intros i. simpl. leq an rn.
    + subst rn. rewrite kcl_contract_same. apply HK.
    + rewrite kcl_contract by assumption. rewrite !HK. destruct (label_eqb i rn); [ring|]. destruct (label_eqb i an); reflexivity.
  - intros b' Hb'. simpl in Hb'. apply In_contract in Hb'. destruct Hb' as [b [Hb [-> _]]].
    specialize (HL b Hb). unfold law, bvolt in *. simpl. rewrite !Hs. exact HL. Qed.

Lemma sc_pair_cases z (sc : branch K) :
  (fst (sc_pair z sc) = node1 sc /\ snd (sc_pair z sc) = node2 sc /\ node1 sc <> z)
  \/ (fst (sc_pair z sc) = node2 sc /\ snd (sc_pair z sc) = node1 sc /\ node1 sc = z).
Proof. unfold sc_pair. leq (node1 sc) z; simpl; auto. Qed.

Lemma short_same_potential (bs : list (branch K)) z phi ji sc : CircuitSpecId (NW bs z) phi ji -> In sc bs ->
  eY (el sc) = None -> opt0 (eV (el sc)) = 0 -> phi (node1 sc) = phi (node2 sc).
Proof. intros [_ [_ HL]] Hsc EY EV. specialize (HL sc Hsc). unfold law, bvolt in HL. rewrite EY, EV in HL.
  replace (phi (node1 sc)) with (phi (node1 sc) - phi (node2 sc) + phi (node2 sc)) by ring. rewrite HL. ring. Qed.

Theorem contract_identity (bs : list (branch K)) z phi ji sc an rn : In sc bs ->
  eY (el sc) = None -> opt0 (eV (el sc)) = 0 ->
  (an = node1 sc /\ rn = node2 sc) \/ (an = node2 sc /\ rn = node1 sc) ->
  CircuitSpecId (NW bs z) phi ji -> CircuitSpecId (NW (contract an rn bs) z) phi ji.
Proof. intros Hsc EY EV Hp S. pose proof (short_same_potential bs z phi ji sc S Hsc EY EV) as E.
  apply contract_fwd; [|exact S]. destruct Hp as [[-> ->]|[-> ->]]; congruence. Qed.

Lemma find_target keep (bs : list (branch K)) sc : find (is_target keep) bs = Some sc ->
  In sc bs /\ is_short_circuit (el sc) = true /\ in_keep (el sc) keep = false.
Proof. intros H. apply find_some in H. destruct H as [H1 H2]. unfold is_target in H2.
  apply andb_true_iff in H2. destruct H2 as [H2 H3]. apply negb_true_iff in H3. auto. Qed.

Theorem rsc_loop_fwd fuel z keep phi ji : forall bs : list (branch K),
  CircuitSpecId (NW bs z) phi ji -> CircuitSpecId (NW (rsc_loop fuel z keep bs) z) phi ji.
Proof. induction fuel as [|f IH]; intros bs S; simpl; [exact S|].
  destruct (find (is_target keep) bs) as [sc|] eqn:F; [|exact S].
  destruct (find_target _ _ _ F) as [Hsc [Hs _]]. destruct (short_law _ Hs) as [EY EV].
  apply IH. apply (contract_identity bs z phi ji sc); try assumption.
  destruct (sc_pair_cases z sc) as [[-> [-> _]]|[-> [-> _]]]; auto. Qed.

Lemma remove_short_ok (n n' : network K) keep : remove_short_circuit_elements n keep = Ok n' ->
  n' = NW (rsc_loop (S (length (branches n))) (zero n) keep (branches n)) (zero n) /\ NoDup (branch_ids n')
  /\ (branches n' <> [] -> In (zero n') (endpoints n')).
Proof. unfold remove_short_circuit_elements. intros H. apply mk_ok in H. destruct H as [-> [H1 H2]]. auto. Qed.

Theorem short_identity (n n' : network K) keep phi ji : CircuitSpecId n phi ji ->
  remove_short_circuit_elements n keep = Ok n' -> CircuitSpecId n' phi ji.
Proof. intros S H. apply remove_short_ok in H. destruct H as [-> _]. apply rsc_loop_fwd.
  rewrite <- NW_eta. exact S. Qed.

(* termination: every step removes at least the contracted short circuit *)
Lemma contract_shorter an rn (bs : list (branch K)) sc : In sc bs ->
  (an = node1 sc /\ rn = node2 sc) \/ (an = node2 sc /\ rn = node1 sc) ->
  length (contract an rn bs) < length bs.
Proof. intros Hsc Hp. rewrite contract_rename.
  assert (L : nonloop (rename (sub an rn) sc) = false).
  { unfold nonloop, rename, sub. simpl. apply negb_false_iff.
    destruct Hp as [[-> ->]|[-> ->]].
    - rewrite label_eqb_refl. leq (node2 sc) (node1 sc); apply label_eqb_refl.
    - rewrite label_eqb_refl. leq (node1 sc) (node2 sc); apply label_eqb_refl. }
  clear Hp. induction bs as [|b bs IH]; [destruct Hsc|]. simpl. destruct Hsc as [->|Hsc].
  - rewrite L. pose proof (filter_len_le nonloop (map (rename (sub an rn)) bs)) as H. rewrite map_length in H. lia.
  - specialize (IH Hsc). destruct (nonloop (rename (sub an rn) b)); simpl; lia. Qed.

Theorem rsc_loop_no_target fuel z keep : forall bs : list (branch K), length bs < fuel ->
  forall b, In b (rsc_loop fuel z keep bs) -> is_target keep b = false.
Proof. induction fuel as [|f IH]; intros bs HL b Hb; [lia|]. simpl in Hb.
  destruct (find (is_target keep) bs) as [sc|] eqn:F.
  - destruct (find_target _ _ _ F) as [Hsc _]. apply (IH (contract (fst (sc_pair z sc)) (snd (sc_pair z sc)) bs)); [|exact Hb].
    assert (length (contract (fst (sc_pair z sc)) (snd (sc_pair z sc)) bs) < length bs); [|lia].
    apply (contract_shorter _ _ bs sc Hsc). destruct (sc_pair_cases z sc) as [[-> [-> _]]|[-> [-> _]]]; auto.
  - destruct (is_target keep b) eqn:E; [|reflexivity]. exfalso. eapply find_none in F; eauto. congruence. Qed.

Theorem remove_short_none_left (n n' : network K) keep : remove_short_circuit_elements n keep = Ok n' ->
  forall b, In b (branches n') -> is_target keep b = false.
Proof. intros H. apply remove_short_ok in H. destruct H as [-> _]. intros b Hb.
  apply (rsc_loop_no_target (S (length (branches n))) (zero n) keep (branches n)); [lia|exact Hb]. Qed.

(* ---------- the accumulated node identification; names-only characterisation ---------- *)
Fixpoint rsc_sigma (fuel : nat) (z : label) (keep : list (elem K)) (bs : list (branch K)) (l : label) : label :=
  match fuel with
  | O => l
  | S f => match find (is_target keep) bs with
           | None => l
           | Some sc => let p := sc_pair z sc in
                        rsc_sigma f z keep (contract (fst p) (snd p) bs) (sub (fst p) (snd p) l)
           end
  end.

Lemma rename_ext s s' (b : branch K) : (forall l, s l = s' l) -> rename s b = rename s' b.
Proof. intros E. unfold rename. rewrite !E. reflexivity. Qed.

Lemma filter_all {A} (p : A -> bool) (l : list A) : (forall x, In x l -> p x = true) -> filter p l = l.
Proof. induction l as [|x l IH]; simpl; intros H; [reflexivity|]. rewrite H by auto. f_equal. apply IH. auto. Qed.

Lemma filter_rename_filter s (l : list (branch K)) :
  filter nonloop (map (rename s) (filter nonloop l)) = filter nonloop (map (rename s) l).
Proof. induction l as [|x l IH]; simpl; [reflexivity|]. destruct (nonloop x) eqn:E; simpl.
  - rewrite IH. reflexivity.
  - assert (E' : nonloop (rename s x) = false).
    { unfold nonloop in *. apply negb_false_iff in E. apply negb_false_iff. simpl.
      leqn (node1 x) (node2 x) Ex; [|discriminate]. rewrite Ex. apply label_eqb_refl. }
    rewrite E'. exact IH. Qed.

Lemma contract_nonloop an rn (bs : list (branch K)) b : In b (contract an rn bs) -> nonloop b = true.
Proof. rewrite contract_rename, filter_In. tauto. Qed.

Theorem rsc_loop_sigma fuel z keep : forall bs : list (branch K), (forall b, In b bs -> nonloop b = true) ->
  rsc_loop fuel z keep bs = filter nonloop (map (rename (rsc_sigma fuel z keep bs)) bs).
Proof.
  assert (Base : forall (s : label -> label) (bs : list (branch K)), (forall l, s l = l) -> (forall b, In b bs -> nonloop b = true) ->
            bs = filter nonloop (map (rename s) bs)).
  { intros s bs Hs NL. rewrite (map_ext (rename s) (fun b => b)).
    - rewrite map_id. symmetry. apply filter_all. exact NL.
    - intros b. rewrite (rename_ext s (fun l => l)) by exact Hs. apply rename_id. }
  induction fuel as [|f IH]; intros bs NL.
  - apply Base; [reflexivity|exact NL].
  - simpl. destruct (find (is_target keep) bs) as [sc|] eqn:F; [|apply Base; [reflexivity|exact NL]].
    set (an := fst (sc_pair z sc)). set (rn := snd (sc_pair z sc)).
    rewrite IH by (apply contract_nonloop).
    rewrite contract_rename at 2. rewrite filter_rename_filter, map_map. reflexivity. Qed.

Lemma sub_zero z (sc : branch K) : sub (fst (sc_pair z sc)) (snd (sc_pair z sc)) z = z.
Proof. unfold sub. destruct (sc_pair_cases z sc) as [[-> [-> H]]|[-> [-> H]]].
  - leq z (node1 sc); congruence.
  - leq z (node2 sc); congruence. Qed.

Lemma rsc_sigma_zero fuel z keep : forall bs : list (branch K), rsc_sigma fuel z keep bs z = z.
Proof. induction fuel as [|f IH]; intros bs; simpl; [reflexivity|].
  destruct (find (is_target keep) bs) as [sc|]; [|reflexivity]. rewrite sub_zero. apply IH. Qed.

Lemma is_target_rename keep s (b : branch K) : is_target keep (rename s b) = is_target keep b.
Proof. reflexivity. Qed.

(* the identification only merges nodes that the non-exempt short circuits force to coincide: every
   node map that is constant along each of them is constant along sigma *)
Theorem rsc_sigma_generated fuel z keep (X : Type) (f : label -> X) : forall bs : list (branch K),
  (forall sc, In sc bs -> is_target keep sc = true -> f (node1 sc) = f (node2 sc)) ->
  forall l, f (rsc_sigma fuel z keep bs l) = f l.
Proof. induction fuel as [|fu IH]; intros bs H l; simpl; [reflexivity|].
  destruct (find (is_target keep) bs) as [sc|] eqn:F; [|reflexivity].
  pose proof (find_some _ _ F) as [Hsc Ht].
  set (an := fst (sc_pair z sc)). set (rn := snd (sc_pair z sc)).
  assert (E : f an = f rn).
  { specialize (H sc Hsc Ht). unfold an, rn. destruct (sc_pair_cases z sc) as [[-> [-> _]]|[-> [-> _]]]; congruence. }
  assert (Hs : forall m, f (sub an rn m) = f m) by (intros m; unfold sub; leq m an; congruence).
  rewrite IH; [apply Hs|].
  intros sc' Hsc' Ht'. apply In_contract in Hsc'. destruct Hsc' as [b [Hb [-> _]]]. simpl. rewrite !Hs.
  apply H; assumption. Qed.

Definition noloops (bs : list (branch K)) : Prop := forall b, In b bs -> node1 b <> node2 b.

Lemma noloops_nonloop (bs : list (branch K)) : noloops bs <-> (forall b, In b bs -> nonloop b = true).
Proof. unfold noloops, nonloop. split; intros H b Hb; specialize (H b Hb).
  - apply negb_true_iff. leq (node1 b) (node2 b); congruence.
  - apply negb_true_iff in H. leq (node1 b) (node2 b); congruence. Qed.

Theorem remove_short_names (n n' : network K) keep : noloops (branches n) ->
  remove_short_circuit_elements n keep = Ok n' ->
  exists sigma : label -> label,
    branches n' = filter nonloop (map (rename sigma) (branches n))
    /\ zero n' = zero n /\ sigma (zero n) = zero n
    /\ (forall (X : Type) (f : label -> X),
          (forall sc, In sc (branches n) -> is_target keep sc = true -> f (node1 sc) = f (node2 sc)) ->
          forall l, f (sigma l) = f l)
    /\ (forall sc, In sc (branches n) -> is_target keep sc = true -> sigma (node1 sc) = sigma (node2 sc))
    /\ (forall b, In b (branches n') -> is_target keep b = false).
Proof. intros NL H. pose proof (remove_short_none_left n n' keep H) as NT.
  apply remove_short_ok in H. destruct H as [-> _].
  exists (rsc_sigma (S (length (branches n))) (zero n) keep (branches n)).
  assert (E : branches (NW (rsc_loop (S (length (branches n))) (zero n) keep (branches n)) (zero n))
              = filter nonloop (map (rename (rsc_sigma (S (length (branches n))) (zero n) keep (branches n))) (branches n))).
  { apply rsc_loop_sigma. apply noloops_nonloop. exact NL. }
  split; [exact E|]. split; [reflexivity|]. split; [apply rsc_sigma_zero|]. split; [|split; [|exact NT]].
  - intros X f Hf. apply rsc_sigma_generated. exact Hf.
  - intros sc Hsc Ht. set (sg := rsc_sigma (S (length (branches n))) (zero n) keep (branches n)) in *.
    destruct (nonloop (rename sg sc)) eqn:L.
    + exfalso. assert (Hin : In (rename sg sc) (filter nonloop (map (rename sg) (branches n)))).
      { apply filter_In. split; [apply in_map; exact Hsc|exact L]. }
      rewrite <- E in Hin. specialize (NT _ Hin). rewrite is_target_rename in NT. congruence.
    + unfold nonloop in L. apply negb_false_iff in L. simpl in L.
      leq (sg (node1 sc)) (sg (node2 sc)); [assumption|discriminate]. Qed.

(* consequences of the shape  filter nonloop (map (rename sigma) bs) *)
Lemma renamed_ids_subseq sigma (bs : list (branch K)) :
  subseq (map bid (filter nonloop (map (rename sigma) bs))) (map bid bs).
Proof. induction bs as [|b bs IH]; simpl; [constructor|].
  destruct (nonloop (rename sigma b)); simpl; constructor; exact IH. Qed.

Lemma renamed_In sigma (bs : list (branch K)) b' : In b' (filter nonloop (map (rename sigma) bs)) ->
  exists b, In b bs /\ bid b' = bid b /\ el b' = el b /\ node1 b' = sigma (node1 b) /\ node2 b' = sigma (node2 b).
Proof. rewrite filter_In, in_map_iff. intros [[b [<- Hb]] _]. exists b. simpl. auto. Qed.

Theorem remove_short_wf (n n' : network K) keep : wf n -> remove_short_circuit_elements n keep = Ok n' -> wf n'.
Proof. intros [ND [_ NL]] H. destruct (remove_short_names n n' keep NL H) as [sg [E _]].
  apply remove_short_ok in H. destruct H as [_ [ND' Z']]. split; [exact ND'|]. split; [exact Z'|].
  intros b Hb. rewrite E in Hb. apply filter_In in Hb. destruct Hb as [_ Hb]. unfold nonloop in Hb.
  apply negb_true_iff in Hb. leq (node1 b) (node2 b); congruence. Qed.

Theorem remove_open_wf (n n' : network K) : wf n -> remove_open_circuit_elements n = Ok n' -> wf n'.
Proof. intros [ND [_ NL]] H. unfold remove_open_circuit_elements in H. apply mk_ok in H. destruct H as [-> [ND' Z']].
  split; [exact ND'|]. split; [exact Z'|]. intros b Hb. simpl in Hb. apply filter_In in Hb. apply NL. tauto. Qed.

(* ---------- model-level corollary: the solution vectors of both networks report the same values ---------- *)
Theorem identity_agree (n n' : network K) (x x' : list K) : wf n -> wf n' -> WellPosed n' ->
  (forall phi ji, CircuitSpecId n phi ji -> CircuitSpecId n' phi ji) ->
  solves n x -> solves n' x' ->
  (forall l, In l (node_labels n') -> phi_of n x l = phi_of n' x' l)
  /\ (forall b b', In b (branches n) -> In b' (branches n') -> bid b = bid b' -> flow_of n x b = flow_of n' x' b').
Proof. intros WF WF' [_ U] H S S'.
  pose proof (mna_sound K KOK n WF x S) as C. pose proof (mna_sound K KOK n' WF' x' S') as C'.
  pose proof (H _ _ (spec_to_id _ _ _ (proj1 WF) C)) as T.
  destruct (U _ _ _ _ T C') as [Ap Aj]. split; [exact Ap|].
  intros b b' Hb Hb' E. rewrite <- (Aj b' Hb'). simpl. rewrite <- E. symmetry. apply jv_In; [exact (proj1 WF)|exact Hb]. Qed.

Theorem short_solution_agree (n n' : network K) keep (x x' : list K) : wf n -> WellPosed n' ->
  remove_short_circuit_elements n keep = Ok n' -> solves n x -> solves n' x' ->
  (forall l, In l (node_labels n') -> phi_of n x l = phi_of n' x' l)
  /\ (forall b b', In b (branches n) -> In b' (branches n') -> bid b = bid b' -> flow_of n x b = flow_of n' x' b').
Proof. intros WF WP H. apply identity_agree; try assumption.
  - eapply remove_short_wf; eauto.
  - intros phi ji S. eapply short_identity; eauto. Qed.

Theorem open_solution_agree (n n' : network K) (x x' : list K) : wf n -> WellPosed n' ->
  remove_open_circuit_elements n = Ok n' -> solves n x -> solves n' x' ->
  (forall l, In l (node_labels n') -> phi_of n x l = phi_of n' x' l)
  /\ (forall b b', In b (branches n) -> In b' (branches n') -> bid b = bid b' -> flow_of n x b = flow_of n' x' b').
Proof. intros WF WP H. apply identity_agree; try assumption.
  - eapply remove_open_wf; eauto.
  - intros phi ji S. rewrite (remove_open_ok _ _ H). apply open_fwd. exact S. Qed.

(* ================= 5. switching the reference node ================= *)
Definition reground (g : label) (n : network K) : network K := NW (branches n) g.

Lemma switch_ground_ok (n n' : network K) g : switch_ground_node n g = Ok n' -> n' = reground g n.
Proof. unfold switch_ground_node. intros H. apply mk_ok in H. exact (proj1 H). Qed.

Lemma reground_spec g (n : network K) phi j : CircuitSpec n phi j -> CircuitSpec (reground g n) (fun l => phi l - phi g) j.
Proof. intros [H0 [HK HL]]. split; [simpl; ring|]. split; [exact HK|].
  intros b Hb. specialize (HL b Hb). unfold law, bvolt in *.
  replace (phi (node1 b) - phi g - (phi (node2 b) - phi g)) with (phi (node1 b) - phi (node2 b)) by ring. exact HL. Qed.

Theorem reground_identity g (n : network K) phi ji :
  CircuitSpecId n phi ji -> CircuitSpecId (reground g n) (fun l => phi l - phi g) ji.
Proof. apply reground_spec. Qed.

Theorem reground_wp g (n : network K) : (branches n <> [] -> In g (endpoints n)) -> WellPosed n -> WellPosed (reground g n).
Proof. intros Hg [[phi [j S]] U]. split.
  - exists (fun l => phi l - phi g), j. apply reground_spec. exact S.
  - intros phi1 j1 phi2 j2 S1 S2.
    pose proof (reground_spec (zero n) _ _ _ S1) as T1. pose proof (reground_spec (zero n) _ _ _ S2) as T2.
    unfold reground in T1, T2. simpl in T1, T2. rewrite <- NW_eta in T1, T2.
    destruct (U _ _ _ _ T1 T2) as [Ap Aj]. split; [|exact Aj].
    assert (G1 : phi1 g = 0) by exact (proj1 S1). assert (G2 : phi2 g = 0) by exact (proj1 S2).
    apply (nodes_agree (reground g n)); [exact G1|exact G2|].
    intros b Hb. simpl in Hb.
    assert (NE : branches n <> []) by (intro E; rewrite E in Hb; exact Hb).
    assert (Hgl : In g (node_labels n)) by (apply in_node_labels; right; auto).
    assert (Z : phi1 (zero n) = phi2 (zero n)).
    { specialize (Ap g Hgl). simpl in Ap. rewrite G1, G2 in Ap.
      replace (phi1 (zero n)) with (- (0 - phi1 (zero n))) by ring. rewrite Ap. ring. }
    destruct (endpoint_in_labels n b Hb) as [L1 L2].
    pose proof (Ap _ L1) as A1. pose proof (Ap _ L2) as A2. simpl in A1, A2. rewrite Z in A1, A2. split.
    + replace (phi1 (node1 b)) with (phi1 (node1 b) - phi2 (zero n) + phi2 (zero n)) by ring. rewrite A1. ring.
    + replace (phi1 (node2 b)) with (phi1 (node2 b) - phi2 (zero n) + phi2 (zero n)) by ring. rewrite A2. ring. Qed.

(* ================= 1. names only: remove_element, source stripping ================= *)
Lemma elem_eqb_refl (e : elem K) : elem_eqb e e = true.
Proof. destruct e; simpl; rewrite label_eqb_refl, N.eqb_refl, !(feqb_refl KOK); reflexivity. Qed.

Lemma elem_eqb_name (a b : elem K) : elem_eqb a b = true -> ename a = ename b.
Proof. destruct a as [n k z v|n k y i], b as [n' k' z' v'|n' k' y' i']; simpl; try discriminate; intros H;
  apply andb_true_iff in H; destruct H as [H _]; apply andb_true_iff in H; destruct H as [H _];
  apply andb_true_iff in H; destruct H as [Hn _]; leqn n n' E; congruence. Qed.

Lemma elem_eqb_eq (a b : elem K) : elem_eqb a b = true -> a = b.
Proof. destruct a as [n k z v|n k y i], b as [n' k' z' v'|n' k' y' i']; simpl; try discriminate; intros H;
  apply andb_true_iff in H; destruct H as [H H4]; apply andb_true_iff in H; destruct H as [H H3];
  apply andb_true_iff in H; destruct H as [Hn Hk]; apply N.eqb_eq in Hk.
  - leqn n n' E1; [|discriminate]. feqn z z' E2; [|discriminate]. feqn v v' E3; [|discriminate]. congruence.
  - leqn n n' E1; [|discriminate]. feqn y y' E2; [|discriminate]. feqn i i' E3; [|discriminate]. congruence. Qed.

Lemma branch_eqb_refl (b : branch K) : branch_eqb b b = true.
Proof. unfold branch_eqb. rewrite !label_eqb_refl, elem_eqb_refl. reflexivity. Qed.

Lemma branch_eqb_bid (a b : branch K) : branch_eqb a b = true -> bid a = bid b.
Proof. unfold branch_eqb. intros H. apply andb_true_iff in H. destruct H as [_ H]. apply elem_eqb_name. exact H. Qed.

Lemma get_branch_Some (l : list (branch K)) id b : get_branch l id = Some b -> In b l /\ bid b = id.
Proof. induction l as [|a l IH]; simpl; [discriminate|].
  destruct (get_branch l id) as [b'|] eqn:G.
  - intros H. injection H as ->. destruct (IH eq_refl). auto.
  - leq (bid a) id; [|discriminate]. intros H. injection H as ->. auto. Qed.

Definition other_id (id : label) (a : branch K) : bool := negb (label_eqb (bid a) id).

Lemma remove_first_filter (bs : list (branch K)) b : NoDup (map bid bs) -> In b bs ->
  remove_first b bs = filter (other_id (bid b)) bs.
Proof. induction bs as [|a r IH]; intros ND Hb; [destruct Hb|]. simpl. unfold other_id at 1.
  inversion ND as [|? ? Ha ND']; subst.
  destruct (branch_eqb a b) eqn:E.
  - apply branch_eqb_bid in E. rewrite E, label_eqb_refl. simpl. symmetry. apply filter_all.
    intros c Hc. unfold other_id. apply negb_true_iff. leqn (bid c) (bid b) Ec; [|reflexivity].
    exfalso. apply Ha. rewrite E, <- Ec. apply in_map. exact Hc.
  - destruct Hb as [->|Hb]; [rewrite branch_eqb_refl in E; discriminate|].
    leqn (bid a) (bid b) Eab.
    + exfalso. apply Ha. rewrite Eab. apply in_map. exact Hb.
    + simpl. f_equal. apply IH; assumption. Qed.

Theorem remove_element_names (n n' : network K) id : NoDup (branch_ids n) -> remove_element n id = Ok n' ->
  In id (branch_ids n) /\ branches n' = filter (other_id id) (branches n) /\ zero n' = zero n.
Proof. intros ND. unfold remove_element. destruct (get_branch (branches n) id) as [b|] eqn:G; [|discriminate].
  intros H. apply mk_ok in H. destruct H as [-> _]. simpl.
  apply get_branch_Some in G. destruct G as [Hb <-]. split; [apply in_map; exact Hb|]. split; [|reflexivity].
  apply remove_first_filter; assumption. Qed.

Theorem remove_element_unknown (n : network K) id : ~ In id (branch_ids n) -> remove_element n id = Err EKeyError.
Proof. intros H. unfold remove_element. rewrite (get_branch_None K) by exact H. reflexivity. Qed.

Lemma Forall2_map_r {A B} (R : A -> B -> Prop) (f : A -> B) (l : list A) : (forall x, R x (f x)) -> Forall2 R l (map f l).
Proof. intros H. induction l; simpl; constructor; auto. Qed.

(* what source stripping does to one branch: same nodes, same identifier; an exempt branch or a branch
   that is no source of the kind is left identical, otherwise the element keeps its immittance and loses its source *)
Definition strip_rel (sel : branch K -> bool) (mkel : branch K -> elem K) (b b' : branch K) : Prop :=
  node1 b' = node1 b /\ node2 b' = node2 b /\ bid b' = bid b
  /\ (if sel b then el b' = mkel b else b' = b).

Definition sel_v keep (b : branch K) : bool := negb (in_keep (el b) keep) && is_voltage_source (el b).
Definition sel_i keep (b : branch K) : bool := negb (in_keep (el b) keep) && is_current_source (el b).

Theorem short_circuitify_names (n n' : network K) keep : short_circuitify_voltage_sources n keep = Ok n' ->
  zero n' = zero n
  /\ Forall2 (strip_rel (sel_v keep) (fun b => impedance (bid b) (opt0 (eZ (el b))))) (branches n) (branches n').
Proof. unfold short_circuitify_voltage_sources. intros H. apply mk_ok in H. destruct H as [-> _]. split; [reflexivity|].
  simpl. apply Forall2_map_r. intros b. unfold strip_rel. fold (sel_v keep b). destruct (sel_v keep b); simpl; auto. Qed.

Theorem open_circuitify_names (n n' : network K) keep : open_circuitify_current_sources n keep = Ok n' ->
  zero n' = zero n
  /\ Forall2 (strip_rel (sel_i keep) (fun b => admittance (bid b) (opt0 (eY (el b))))) (branches n) (branches n').
Proof. unfold open_circuitify_current_sources. intros H. apply mk_ok in H. destruct H as [-> _]. split; [reflexivity|].
  simpl. apply Forall2_map_r. intros b. unfold strip_rel. fold (sel_i keep b). destruct (sel_i keep b); simpl; auto. Qed.

(* the stripped element has the same admittance and no source *)
Lemma zero_in_voltage_passive (e : elem K) nm : is_voltage_source e = true ->
  eY (impedance nm (opt0 (eZ e))) = eY e /\ is_active (impedance nm (opt0 (eZ e))) = false.
Proof. unfold is_voltage_source, is_active, is_voltage_source, is_current_source, impedance.
  destruct e as [n k z v|n k y i]; simpl.
  - intros _. feqn z 0 Ez; simpl; rewrite (feqb_refl KOK); simpl; [auto|]. split; [reflexivity|].
    feqn (0 / z) 0 E0; [reflexivity|]. exfalso. apply E0. field. assumption.
  - feqn y 0 Ey; simpl; [discriminate|]. intros _. pose proof (inv_nz K KOK y Ey) as Hi.
    feqn (1 / y) 0 Ei; [contradiction|]. simpl. rewrite (feqb_refl KOK). simpl. split.
    + f_equal. field. split; [assumption|apply (f1_neq_0 KOK)].
    + feqn (0 / (1 / y)) 0 E0; [reflexivity|]. exfalso. apply E0. field. split; [assumption|apply (f1_neq_0 KOK)]. Qed.

Lemma zero_in_current_passive (e : elem K) nm : is_current_source e = true ->
  eY (admittance nm (opt0 (eY e))) = eY e /\ is_active (admittance nm (opt0 (eY e))) = false.
Proof. unfold is_current_source, is_active, is_voltage_source, is_current_source, admittance.
  destruct e as [n k z v|n k y i]; simpl.
  - feqn z 0 Ez; simpl; [discriminate|]. intros _. rewrite (feqb_refl KOK). simpl. split; [reflexivity|].
    feqn (1 / z) 0 Ei; simpl; [reflexivity|]. feqn (0 / (1 / z)) 0 E0; [reflexivity|]. exfalso. apply E0. field.
    split; [assumption|apply (f1_neq_0 KOK)].
  - intros _. rewrite (feqb_refl KOK). simpl. split; [reflexivity|].
    feqn y 0 Ey; simpl; [reflexivity|]. feqn (0 / y) 0 E0; [reflexivity|]. exfalso. apply E0. field. assumption. Qed.

(* ================= 4. contraction preserves well-posedness ================= *)
Lemma sum_pick_id (bs : list (branch K)) (sc : branch K) (f : branch K -> K) : NoDup (map bid bs) -> In sc bs ->
  sumF (fun b => if label_eqb (bid b) (bid sc) then f b else 0) bs = f sc.
Proof. induction bs as [|a r IH]; intros ND Hsc; [destruct Hsc|]. simpl.
  inversion ND as [|? ? Ha ND']; subst. destruct Hsc as [->|Hsc].
  - rewrite label_eqb_refl. rewrite (sumF_zero_in KOK); [ring|].
    intros c Hc. leqn (bid c) (bid sc) Ec; [|reflexivity]. exfalso. apply Ha. rewrite <- Ec. apply in_map. exact Hc.
  - leqn (bid a) (bid sc) Ea.
    + exfalso. apply Ha. rewrite Ea. apply in_map. exact Hsc.
    + rewrite IH by assumption. ring. Qed.

Section ContractBack.
Variable bs : list (branch K).
Variable z : label.
Variable sc : branch K.
Variables an rn : label.
Hypothesis ND : NoDup (map bid bs).
Hypothesis NL : noloops bs.
Hypothesis Hsc : In sc bs.
Hypothesis EYsc : eY (el sc) = None.
Hypothesis Hp : (an = node1 sc /\ rn = node2 sc) \/ (an = node2 sc /\ rn = node1 sc).
Hypothesis Hz : an <> z.

Let s := sub an rn.
Let survives (b : branch K) : bool := nonloop (rename s b).

Lemma cb_an_rn : an <> rn.
Proof. pose proof (NL sc Hsc) as H. destruct Hp as [[-> ->]|[-> ->]]; congruence. Qed.

Lemma cb_sc_dropped : survives sc = false.
Proof. unfold survives, nonloop, rename, s, sub. simpl. apply negb_false_iff.
  destruct Hp as [[-> ->]|[-> ->]].
  - rewrite label_eqb_refl. leq (node2 sc) (node1 sc); apply label_eqb_refl.
  - rewrite label_eqb_refl. leq (node1 sc) (node2 sc); apply label_eqb_refl. Qed.

Lemma cb_sgn_sq : sgn an sc * sgn an sc = 1.
Proof. pose proof cb_an_rn as NE. unfold sgn. destruct Hp as [[E1 E2]|[E1 E2]]; rewrite <- E1, <- E2.
  - rewrite label_eqb_refl. leq rn an; [congruence|ring].
  - rewrite label_eqb_refl. leq rn an; [congruence|ring]. Qed.

Lemma cb_dropped_same (b : branch K) : survives b = false -> s (node1 b) = s (node2 b).
Proof. unfold survives, nonloop. intros H. apply negb_false_iff in H. simpl in H.
  leq (s (node1 b)) (s (node2 b)); [assumption|discriminate]. Qed.

(* flows of the original list read off flows [ji] of the contracted one *)
Definition lift0 (ji : label -> K) (id : label) : K :=
  match get_branch bs id with
  | None => 0
  | Some b => if survives b then ji id else match eY (el b) with Some _ => opt0 (eI (el b)) | None => 0 end
  end.
Definition liftX (ji : label -> K) : K := - (sgn an sc * kcl_sum bs (fun b => lift0 ji (bid b)) an).
Definition lift (ji : label -> K) (id : label) : K := if label_eqb id (bid sc) then liftX ji else lift0 ji id.

Lemma cb_not_sc (b : branch K) : In b bs -> b <> sc -> label_eqb (bid b) (bid sc) = false.
Proof. intros Hb Hne. leq (bid b) (bid sc); [|reflexivity]. exfalso. apply Hne. apply (bid_inj bs); assumption. Qed.

Lemma lift_survivor ji (b : branch K) : In b bs -> survives b = true -> lift ji (bid b) = ji (bid b).
Proof. intros Hb Hs. unfold lift. rewrite cb_not_sc; [|assumption|].
  - unfold lift0. rewrite (get_branch_In K) by assumption. rewrite Hs. reflexivity.
  - intros ->. rewrite cb_sc_dropped in Hs. discriminate. Qed.

Lemma lift_dropped ji (b : branch K) y : In b bs -> survives b = false -> eY (el b) = Some y ->
  lift ji (bid b) = opt0 (eI (el b)).
Proof. intros Hb Hs EY. unfold lift. rewrite cb_not_sc; [|assumption|].
  - unfold lift0. rewrite (get_branch_In K) by assumption. rewrite Hs, EY. reflexivity.
  - intros ->. congruence. Qed.

Lemma lift0_sc ji : lift0 ji (bid sc) = 0.
Proof. unfold lift0. rewrite (get_branch_In K) by assumption. rewrite cb_sc_dropped, EYsc. reflexivity. Qed.

Lemma lift_kcl_an ji : kcl_sum bs (fun b => lift ji (bid b)) an = 0.
Proof. rewrite (kcl_sum_sgn K KOK).
  rewrite (sumF_ext _ (fun b => sgn an b * lift0 ji (bid b)
                               + (if label_eqb (bid b) (bid sc) then sgn an b * (liftX ji - lift0 ji (bid b)) else 0))).
  2:{ intros b. unfold lift. destruct (label_eqb (bid b) (bid sc)); ring. }
  rewrite (sumF_add KOK), (sum_pick_id bs sc (fun b => sgn an b * (liftX ji - lift0 ji (bid b)))) by assumption.
  rewrite lift0_sc. unfold liftX. rewrite (kcl_sum_sgn K KOK).
  set (S := sumF (fun b => sgn an b * lift0 ji (bid b)) bs).
  replace (S + sgn an sc * (- (sgn an sc * S) - 0)) with (S - (sgn an sc * sgn an sc) * S) by ring.
  rewrite cb_sgn_sq. ring. Qed.

Theorem contract_bwd phi ji :
  (forall b, In b bs -> survives b = false -> eY (el b) = None -> opt0 (eV (el b)) = 0) ->
  CircuitSpecId (NW (contract an rn bs) z) phi ji ->
  CircuitSpecId (NW bs z) (fun l => phi (s l)) (lift ji).
Proof. intros Hdrop [H0 [HK HL]]. simpl in H0, HK, HL. pose proof cb_an_rn as NE.
  assert (Kc : forall i, kcl_sum (contract an rn bs) (fun b => lift ji (bid b)) i = 0).
  { intros i. rewrite <- (HK i). apply kcl_ext. intros b' Hb'. apply In_contract in Hb'.
    destruct Hb' as [b [Hb [-> Hs]]]. rewrite rename_bid. apply lift_survivor; assumption. }
  split; [|split].
  - simpl. unfold s, sub. leq z an; [congruence|exact H0].
  - intros i. simpl. pose proof (Kc i) as Ki. rewrite kcl_contract in Ki by assumption.
    leq i rn.
    + subst i. rewrite lift_kcl_an in Ki. rewrite <- Ki. ring.
    + leq i an; [subst i; apply lift_kcl_an|exact Ki].
  - intros b Hb. simpl in Hb. destruct (survives b) eqn:Hs.
    + assert (Hb' : In (rename s b) (contract an rn bs)).
      { apply In_contract. exists b. auto. }
      specialize (HL _ Hb'). unfold law, bvolt in *. simpl in HL. rewrite rename_bid in HL.
      rewrite lift_survivor by assumption. exact HL.
    + pose proof (cb_dropped_same b Hs) as E. unfold law, bvolt. rewrite E.
      destruct (eY (el b)) as [y|] eqn:EY.
      * rewrite (lift_dropped ji b y) by assumption. ring.
      * rewrite (Hdrop b Hb Hs EY). ring. Qed.

Theorem contract_wp : opt0 (eV (el sc)) = 0 -> WellPosed (NW bs z) -> WellPosed (NW (contract an rn bs) z).
Proof. intros EV [[phi [j S]] U].
  assert (ND' : NoDup (branch_ids (NW (contract an rn bs) z))).
  { unfold branch_ids. simpl. rewrite contract_rename. eapply subseq_NoDup; [apply renamed_ids_subseq|exact ND]. }
  pose proof (spec_to_id (NW bs z) phi j ND S) as I.
  pose proof (short_same_potential bs z phi _ sc I Hsc EYsc EV) as E.
  assert (Ear : phi an = phi rn) by (destruct Hp as [[-> ->]|[-> ->]]; congruence).
  assert (Hs : forall l, phi (s l) = phi l) by (intros l; unfold s, sub; leq l an; congruence).
  assert (Hdrop : forall b, In b bs -> survives b = false -> eY (el b) = None -> opt0 (eV (el b)) = 0).
  { intros b Hb Hd EY. destruct S as [_ [_ HL]]. specialize (HL b Hb). unfold law, bvolt in HL. rewrite EY in HL.
    rewrite <- HL. rewrite <- (Hs (node1 b)), <- (Hs (node2 b)), (cb_dropped_same b Hd). ring. }
  split.
  - exists phi, (fun b => jv (NW bs z) j (bid b)). apply contract_fwd; assumption.
  - intros phi1 j1 phi2 j2 S1 S2.
    pose proof (contract_bwd _ _ Hdrop (spec_to_id _ _ _ ND' S1)) as T1.
    pose proof (contract_bwd _ _ Hdrop (spec_to_id _ _ _ ND' S2)) as T2.
    destruct (U _ _ _ _ T1 T2) as [Ap Aj]. split.
    + apply (nodes_agree (NW (contract an rn bs) z)); [exact (proj1 S1)|exact (proj1 S2)|].
      intros b' Hb'. simpl in Hb'. apply In_contract in Hb'. destruct Hb' as [b [Hb [-> _]]]. simpl.
      destruct (endpoint_in_labels (NW bs z) b Hb) as [L1 L2]. split; [exact (Ap _ L1)|exact (Ap _ L2)].
    + intros b' Hb'. pose proof Hb' as Hin. simpl in Hb'. apply In_contract in Hb'. destruct Hb' as [b [Hb [Eb Hsv]]].
      specialize (Aj b Hb). simpl in Aj. rewrite !lift_survivor in Aj by (assumption || (subst b'; exact Hsv)).
      replace (bid b) with (bid b') in Aj by (subst b'; reflexivity).
      rewrite !jv_In in Aj by assumption. exact Aj. Qed.

End ContractBack.

Theorem rsc_loop_wp fuel z keep : forall bs : list (branch K), NoDup (map bid bs) -> noloops bs ->
  WellPosed (NW bs z) -> WellPosed (NW (rsc_loop fuel z keep bs) z).
Proof. induction fuel as [|f IH]; intros bs ND NL WP; simpl; [exact WP|].
  destruct (find (is_target keep) bs) as [sc|] eqn:F; [|exact WP].
  destruct (find_target _ _ _ F) as [Hsc [Hs _]]. destruct (short_law _ Hs) as [EY EV].
  set (an := fst (sc_pair z sc)). set (rn := snd (sc_pair z sc)).
  assert (Hp : (an = node1 sc /\ rn = node2 sc) \/ (an = node2 sc /\ rn = node1 sc)).
  { unfold an, rn. destruct (sc_pair_cases z sc) as [[-> [-> _]]|[-> [-> _]]]; auto. }
  assert (Hz : an <> z).
  { unfold an. pose proof (NL sc Hsc) as Hl. destruct (sc_pair_cases z sc) as [[-> [_ H]]|[-> [_ H]]]; congruence. }
  apply IH.
  - rewrite contract_rename. eapply subseq_NoDup; [apply renamed_ids_subseq|exact ND].
  - apply noloops_nonloop. apply contract_nonloop.
  - apply (contract_wp bs z sc an rn); assumption. Qed.

Theorem remove_short_wp (n n' : network K) keep : wf n -> WellPosed n ->
  remove_short_circuit_elements n keep = Ok n' -> WellPosed n'.
Proof. intros [ND [_ NL]] WP H. apply remove_short_ok in H. destruct H as [-> _].
  apply rsc_loop_wp; [exact ND|exact NL|]. rewrite <- NW_eta. exact WP. Qed.

(* ================= identifiers along the composed operations ================= *)
Lemma rsc_loop_ids_subseq fuel z keep : forall bs : list (branch K),
  subseq (map bid (rsc_loop fuel z keep bs)) (map bid bs).
Proof. induction fuel as [|f IH]; intros bs; simpl; [apply subseq_refl|].
  destruct (find (is_target keep) bs) as [sc|]; [|apply subseq_refl].
  eapply subseq_trans; [apply IH|]. rewrite contract_rename. apply renamed_ids_subseq. Qed.

Theorem remove_short_ids (n n' : network K) keep : remove_short_circuit_elements n keep = Ok n' ->
  subseq (branch_ids n') (branch_ids n) /\ zero n' = zero n.
Proof. intros H. apply remove_short_ok in H. destruct H as [-> _]. split; [|reflexivity]. apply rsc_loop_ids_subseq. Qed.

Theorem remove_open_ids (n n' : network K) : remove_open_circuit_elements n = Ok n' ->
  subseq (branch_ids n') (branch_ids n) /\ zero n' = zero n.
Proof. intros H. rewrite (remove_open_ok _ _ H). split; [|reflexivity]. unfold branch_ids. simpl.
  apply subseq_map_filter. reflexivity. Qed.

Theorem short_circuitify_ids (n n' : network K) keep : short_circuitify_voltage_sources n keep = Ok n' ->
  branch_ids n' = branch_ids n /\ zero n' = zero n.
Proof. unfold short_circuitify_voltage_sources. intros H. apply mk_ok in H. destruct H as [-> _]. split; [|reflexivity].
  unfold branch_ids. simpl. rewrite map_map. apply map_ext. intros b.
  destruct (negb (in_keep (el b) keep) && is_voltage_source (el b)); reflexivity. Qed.

Theorem open_circuitify_ids (n n' : network K) keep : open_circuitify_current_sources n keep = Ok n' ->
  branch_ids n' = branch_ids n /\ zero n' = zero n.
Proof. unfold open_circuitify_current_sources. intros H. apply mk_ok in H. destruct H as [-> _]. split; [|reflexivity].
  unfold branch_ids. simpl. rewrite map_map. apply map_ext. intros b.
  destruct (negb (in_keep (el b) keep) && is_current_source (el b)); reflexivity. Qed.

Theorem passive_network_ids (n n' : network K) keep : passive_network n keep = Ok n' ->
  subseq (branch_ids n') (branch_ids n) /\ zero n' = zero n.
Proof. unfold passive_network, remove_ideal_current_sources, remove_ideal_voltage_sources, bind.
  destruct (open_circuitify_current_sources n keep) as [n1|] eqn:E1; [|discriminate].
  destruct (remove_open_circuit_elements n1) as [n2|] eqn:E2; [|discriminate].
  destruct (short_circuitify_voltage_sources n2 keep) as [n3|] eqn:E3; [|discriminate].
  intros E4.
  destruct (open_circuitify_ids _ _ _ E1) as [I1 Z1]. destruct (remove_open_ids _ _ E2) as [I2 Z2].
  destruct (short_circuitify_ids _ _ _ E3) as [I3 Z3]. destruct (remove_short_ids _ _ _ E4) as [I4 Z4].
  split; [|congruence]. rewrite <- I1. eapply subseq_trans; [|exact I2]. rewrite <- I3. exact I4. Qed.

(* an exempt element is selected by none of the operations *)
Theorem keep_exempt keep (b : branch K) : in_keep (el b) keep = true ->
  is_target keep b = false /\ sel_v keep b = false /\ sel_i keep b = false.
Proof. intros H. unfold is_target, sel_v, sel_i. rewrite H. simpl. rewrite andb_false_r. auto. Qed.

Theorem in_keep_spec keep (e : elem K) : in_keep e keep = true <-> In e keep.
Proof. unfold in_keep. rewrite existsb_exists. split.
  - intros [e' [H1 H2]]. apply elem_eqb_eq in H2. subst. exact H1.
  - intros H. exists e. split; [exact H|apply elem_eqb_refl]. Qed.

(* ================= what the API reports before and after ================= *)
Lemma label_cases (n : network K) l : In l (node_labels n) -> l = zero n \/ In l (node_index n).
Proof. intros H. leq l (zero n); [auto|right]. apply (ns_In K n). split; [assumption|].
  apply in_node_labels in H. destruct H as [[_ H]|[_ H]]; [contradiction|exact H]. Qed.

Lemma zero_in_labels (n : network K) : (branches n <> [] -> In (zero n) (endpoints n)) -> In (zero n) (node_labels n).
Proof. intros H. apply in_node_labels.
  assert (D : branches n = [] \/ branches n <> []) by (destruct (branches n); [left; reflexivity|right; discriminate]).
  destruct D as [D|D]; [left; auto|right; split; [exact D|apply H, D]]. Qed.

Theorem api_agree (n n' : network K) (x x' : list K) : wf n -> wf n' ->
  (forall l, In l (node_labels n') -> phi_of n x l = phi_of n' x' l) ->
  (forall b b', In b (branches n) -> In b' (branches n') -> bid b = bid b' -> flow_of n x b = flow_of n' x' b') ->
  (forall l, In l (node_labels n') -> In l (node_labels n)) ->
  (forall b', In b' (branches n') -> exists b, In b (branches n) /\ bid b = bid b' /\ el b = el b'
                                              /\ bvolt (phi_of n x) b = bvolt (phi_of n x) b') ->
  (forall l, In l (node_labels n') ->
     get_potential {| s_net := n; s_x := x |} l = get_potential {| s_net := n'; s_x := x' |} l)
  /\ (forall b', In b' (branches n') ->
        get_voltage {| s_net := n; s_x := x |} (bid b') = get_voltage {| s_net := n'; s_x := x' |} (bid b')
        /\ get_current {| s_net := n; s_x := x |} (bid b') = get_current {| s_net := n'; s_x := x' |} (bid b')
        /\ get_power {| s_net := n; s_x := x |} (bid b') = get_power {| s_net := n'; s_x := x' |} (bid b')).
Proof. intros WF WF' Hphi Hflow Hnodes Hbr. split.
  - intros l Hl. rewrite (api_potential K n x l) by (apply label_cases, Hnodes, Hl).
    rewrite (api_potential K n' x' l) by (apply label_cases, Hl). rewrite Hphi by assumption. reflexivity.
  - intros b' Hb'. destruct (Hbr b' Hb') as [b [Hb [Eid [Eel Ev]]]].
    assert (V : get_voltage {| s_net := n; s_x := x |} (bid b') = get_voltage {| s_net := n'; s_x := x' |} (bid b')).
    { rewrite <- Eid at 1. rewrite (api_voltage K n WF x b Hb), (api_voltage K n' WF' x' b' Hb'). rewrite Ev.
      destruct (endpoint_in_labels n' b' Hb') as [L1 L2]. unfold bvolt. rewrite (Hphi _ L1), (Hphi _ L2). reflexivity. }
    assert (C : get_current {| s_net := n; s_x := x |} (bid b') = get_current {| s_net := n'; s_x := x' |} (bid b')).
    { rewrite <- Eid at 1. rewrite (api_current K KOK n WF x b Hb), (api_current K KOK n' WF' x' b' Hb').
      unfold reported. rewrite Eel, (Hflow b b' Hb Hb' Eid). reflexivity. }
    split; [exact V|]. split; [exact C|]. unfold get_power. rewrite V, C. reflexivity. Qed.

Lemma solve_network_solves (n : network K) s : noloops (branches n) -> solve_network n = Ok s ->
  s = {| s_net := n; s_x := s_x s |} /\ wf n /\ solves n (s_x s).
Proof. intros NL H. destruct (solve_network_sound K KOK n NL s H) as [E [WF S]]. split; [|auto].
  destruct s as [sn sx]. simpl in *. congruence. Qed.

Theorem short_api_agree (n n' : network K) keep s s' : noloops (branches n) -> WellPosed n' ->
  remove_short_circuit_elements n keep = Ok n' -> solve_network n = Ok s -> solve_network n' = Ok s' ->
  (forall l, In l (node_labels n') -> get_potential s l = get_potential s' l)
  /\ (forall b', In b' (branches n') ->
        get_voltage s (bid b') = get_voltage s' (bid b') /\ get_current s (bid b') = get_current s' (bid b')
        /\ get_power s (bid b') = get_power s' (bid b')).
Proof. intros NL WP H Hs Hs'. destruct (solve_network_solves n s NL Hs) as [Es [WF S]].
  pose proof (remove_short_wf n n' keep WF H) as WF'.
  destruct (solve_network_solves n' s' (proj2 (proj2 WF')) Hs') as [Es' [_ S']].
  rewrite Es, Es'. set (x := s_x s) in *. set (x' := s_x s') in *.
  destruct (short_solution_agree n n' keep x x' WF WP H S S') as [Ap Aj].
  destruct (remove_short_names n n' keep NL H) as [sg [E [_ [_ [G _]]]]].
  pose proof (mna_sound K KOK n WF x S) as C.
  assert (Sh : forall sc, In sc (branches n) -> is_target keep sc = true ->
                          phi_of n x (node1 sc) = phi_of n x (node2 sc)).
  { intros sc Hsc Ht. unfold is_target in Ht. apply andb_true_iff in Ht. destruct Ht as [Ht _].
    destruct (short_law _ Ht) as [EY EV].
    apply (short_same_potential (branches n) (zero n) (phi_of n x) (jv n (flow_of n x)) sc); try assumption.
    rewrite <- NW_eta. apply spec_to_id; [exact (proj1 WF)|exact C]. }
  apply api_agree; try assumption.
  - intros l Hl. apply in_node_labels in Hl. destruct Hl as [[_ ->]|[_ Hl]].
    + replace (zero n') with (zero n) by (apply remove_short_ok in H; destruct H as [-> _]; reflexivity).
      apply zero_in_labels. exact (proj1 (proj2 WF)).
    + apply endpoints_In in Hl. destruct Hl as [b' [Hb' Hl]]. rewrite E in Hb'.
      apply renamed_In in Hb'. destruct Hb' as [b [Hb [_ [_ [N1 N2]]]]].
      destruct (endpoint_in_labels n b Hb) as [L1 L2]. apply lmem_spec in L1, L2.
      pose proof (G bool (fun m => lmem m (node_labels n))) as Gb. simpl in Gb.
      assert (Hc : forall sc, In sc (branches n) -> is_target keep sc = true ->
                              lmem (node1 sc) (node_labels n) = lmem (node2 sc) (node_labels n)).
      { intros sc Hsc _. destruct (endpoint_in_labels n sc Hsc) as [M1 M2]. apply lmem_spec in M1, M2. congruence. }
      specialize (Gb Hc). apply lmem_spec.
      destruct Hl as [<-|<-]; [rewrite N1|rewrite N2]; rewrite Gb; assumption.
  - intros b' Hb'. rewrite E in Hb'. apply renamed_In in Hb'. destruct Hb' as [b [Hb [Eid [Eel [N1 N2]]]]].
    exists b. split; [exact Hb|]. split; [auto|]. split; [auto|].
    unfold bvolt. rewrite N1, N2. rewrite !(G K (phi_of n x) Sh). reflexivity. Qed.

Theorem open_api_agree (n n' : network K) s s' : noloops (branches n) -> WellPosed n' ->
  remove_open_circuit_elements n = Ok n' -> solve_network n = Ok s -> solve_network n' = Ok s' ->
  (forall l, In l (node_labels n') -> get_potential s l = get_potential s' l)
  /\ (forall b', In b' (branches n') ->
        get_voltage s (bid b') = get_voltage s' (bid b') /\ get_current s (bid b') = get_current s' (bid b')
        /\ get_power s (bid b') = get_power s' (bid b')).
Proof. intros NL WP H Hs Hs'. destruct (solve_network_solves n s NL Hs) as [Es [WF S]].
  pose proof (remove_open_wf n n' WF H) as WF'.
  destruct (solve_network_solves n' s' (proj2 (proj2 WF')) Hs') as [Es' [_ S']].
  rewrite Es, Es'. set (x := s_x s) in *. set (x' := s_x s') in *.
  destruct (open_solution_agree n n' x x' WF WP H S S') as [Ap Aj].
  pose proof (remove_open_ok _ _ H) as E.
  apply api_agree; try assumption.
  - intros l Hl. apply in_node_labels in Hl. destruct Hl as [[_ ->]|[_ Hl]].
    + rewrite E. simpl. apply zero_in_labels. exact (proj1 (proj2 WF)).
    + apply endpoints_In in Hl. destruct Hl as [b' [Hb' Hl]]. rewrite E in Hb'. simpl in Hb'. apply filter_In in Hb'.
      destruct (endpoint_in_labels n b' (proj1 Hb')) as [L1 L2]. destruct Hl as [<-|<-]; assumption.
  - intros b' Hb'. rewrite E in Hb'. simpl in Hb'. apply filter_In in Hb'. exists b'. tauto. Qed.

(* exempt branches stay identical, position by position, under source stripping *)
Theorem short_circuitify_keep (n n' : network K) keep : short_circuitify_voltage_sources n keep = Ok n' ->
  Forall2 (fun b b' => in_keep (el b) keep = true \/ is_voltage_source (el b) = false -> b' = b) (branches n) (branches n').
Proof. unfold short_circuitify_voltage_sources. intros H. apply mk_ok in H. destruct H as [-> _]. simpl.
  apply Forall2_map_r. intros b [Hk|Hk]; rewrite Hk; simpl; [reflexivity|rewrite andb_false_r; reflexivity]. Qed.

Theorem open_circuitify_keep (n n' : network K) keep : open_circuitify_current_sources n keep = Ok n' ->
  Forall2 (fun b b' => in_keep (el b) keep = true \/ is_current_source (el b) = false -> b' = b) (branches n) (branches n').
Proof. unfold open_circuitify_current_sources. intros H. apply mk_ok in H. destruct H as [-> _]. simpl.
  apply Forall2_map_r. intros b [Hk|Hk]; rewrite Hk; simpl; [reflexivity|rewrite andb_false_r; reflexivity]. Qed.

(* the short circuit contracted in a step of the loop is never an exempt one *)
Theorem rsc_selected_not_exempt keep (bs : list (branch K)) sc : find (is_target keep) bs = Some sc ->
  In sc bs /\ is_short_circuit (el sc) = true /\ in_keep (el sc) keep = false.
Proof. apply find_target. Qed.

Theorem switch_ground_names (n n' : network K) g : switch_ground_node n g = Ok n' -> branches n' = branches n /\ zero n' = g.
Proof. intros H. rewrite (switch_ground_ok _ _ _ H). auto. Qed.

Theorem remove_open_names (n n' : network K) : remove_open_circuit_elements n = Ok n' ->
  branches n' = filter not_open (branches n) /\ zero n' = zero n.
Proof. intros H. rewrite (remove_open_ok _ _ H). auto. Qed.

Theorem switch_ground_identity (n n' : network K) g phi ji : switch_ground_node n g = Ok n' ->
  CircuitSpecId n phi ji -> CircuitSpecId n' (fun l => phi l - phi g) ji.
Proof. intros H. rewrite (switch_ground_ok _ _ _ H). apply reground_identity. Qed.

Theorem switch_ground_wp (n n' : network K) g : switch_ground_node n g = Ok n' -> WellPosed n -> WellPosed n'.
Proof. intros H. pose proof H as H2. unfold switch_ground_node in H2. apply mk_ok in H2. destruct H2 as [_ [_ Hz]].
  rewrite (switch_ground_ok _ _ _ H). apply reground_wp. exact Hz. Qed.

End Simplify.

Arguments CircuitSpecId {K}. Arguments NW {K}. Arguments drop_open {K}. Arguments ext_open {K}. Arguments open_ids {K}.
Arguments not_open {K}. Arguments nonloop {K}. Arguments rename {K}. Arguments reground {K}. Arguments noloops {K}.
Arguments other_id {K}. Arguments strip_rel {K}. Arguments sel_v {K}. Arguments sel_i {K}.
Arguments lift {K}. Arguments lift0 {K}. Arguments liftX {K}. Arguments rsc_sigma {K}.
