(* Theory/StateSpacePhasor.v — C10, transfer function against the phasor network.
   [pnet s u] is the network the library itself analyses at the complex frequency s (transformers.py: capacitor ->
   admittance s C, inductor -> impedance s L, resistive branches unchanged) with the ideal sources carrying the
   amplitudes u (indexed by [sources]).  If s x = A x + B u, the model's outputs for (x, u) solve the circuit equations
   (Theory/Spec.v: CircuitSpec) of [pnet s u]; hence, when that network is well-posed, they ARE its phasor solution.
   Generic in the field (K = Cx R, s = j w for the frequency response; s = 0 for the DC gain). *)
From Coq Require Import List Bool NArith Arith Lia Field Ring Permutation.
From CC Require Import Theory.Field Theory.Labels Model.Network Model.StateSpace Theory.Spec Theory.Mna
  Theory.MnaComplete Theory.Api Theory.Gauss Theory.Matrix Theory.StateSpaceThm.
Import ListNotations.

Section Phasor.
Variable K : fops.
Hypothesis KOK : fops_ok K.
Add Field Kph : (Kth K KOK).
Notation "0" := (f0 K). Notation "1" := (f1 K).
Infix "+" := (fadd K). Infix "*" := (fmul K). Infix "-" := (fsub K). Notation "- x" := (fopp K x).
Infix "/" := (fdiv K).
Notation "x == y" := (feqb K x y) (at level 70).
Ltac feq x y := destruct (feqb_spec KOK x y).
Ltac leq a b := destruct (label_eqb_spec a b).

Variable n : network K.
Variables cvals lvals : list (label * K).
Notation bs := (branches n).
Notation ns := (node_index n).
Notation ck := (ckeys K cvals).
Notation lk := (lkeys K lvals).
Notation nst := (ss_nst K cvals lvals).
Notation nS := (ss_nS K n lvals).
Notation srcs := (sources K n lvals).

Variable s : K.
Variable u : list K.

Definition pbranch (b : branch K) : branch K :=
  let id := bid b in
  if lmem id ck then Build_branch (node1 b) (node2 b) (YI id (ekind (el b)) (s * vlookup K cvals id) 0)
  else if lmem id lk then Build_branch (node1 b) (node2 b) (ZV id (ekind (el b)) (s * vlookup K lvals id) 0)
  else if is_ideal_voltage_source (el b) then
    Build_branch (node1 b) (node2 b) (ZV id (ekind (el b)) 0 (nth (lindex srcs id) u 0))
  else if is_current_source (el b) then
    Build_branch (node1 b) (node2 b) (YI id (ekind (el b)) 0 (nth (lindex srcs id) u 0))
  else b.
Definition pnet : network K := {| branches := map pbranch bs; zero := zero n |}.

Lemma pb_node1 b : node1 (pbranch b) = node1 b.
Proof. unfold pbranch. destruct (lmem (bid b) ck), (lmem (bid b) lk), (is_ideal_voltage_source (el b)),
  (is_current_source (el b)); reflexivity. Qed.
Lemma pb_node2 b : node2 (pbranch b) = node2 b.
Proof. unfold pbranch. destruct (lmem (bid b) ck), (lmem (bid b) lk), (is_ideal_voltage_source (el b)),
  (is_current_source (el b)); reflexivity. Qed.
Lemma pb_bid b : bid (pbranch b) = bid b.
Proof. unfold pbranch. destruct (lmem (bid b) ck), (lmem (bid b) lk), (is_ideal_voltage_source (el b)),
  (is_current_source (el b)); reflexivity. Qed.

Lemma pnet_node_labels : node_labels pnet = node_labels n.
Proof. unfold node_labels, pnet. simpl. destruct bs as [|b0 l] eqn:E; [reflexivity|].
  rewrite <- E. rewrite !map_map.
  rewrite (map_ext (fun b => node1 (pbranch b)) (@node1 K) pb_node1).
  rewrite (map_ext (fun b => node2 (pbranch b)) (@node2 K) pb_node2).
  rewrite E. reflexivity. Qed.

Lemma node_ends (n0 : network K) b : In b (branches n0) -> In (node1 b) (node_labels n0) /\ In (node2 b) (node_labels n0).
Proof. intros Hb. unfold node_labels. destruct (branches n0) as [|b0 l] eqn:E; [destruct Hb|].
  split; apply lsort_In, ldedup_In, in_or_app; [left|right]; apply in_map; exact Hb. Qed.

Hypothesis lam_nz : forall k, k < nst -> nth k (lam K cvals lvals) 0 <> 0.
Hypothesis RD : rlc_dc K n cvals lvals.
Variable m : ssm K.
Hypothesis Hm : state_space_matrices K n cvals lvals = Ok m.
Variable x : list K.
Hypothesis Lx : length x = nst.
Hypothesis Lu : length u = nS.
Hypothesis Hs : forall k, k < nst -> nth k (ss_xdot K m x u) 0 = s * nth k x 0.

Theorem ss_phasor_spec : exists (phi : label -> K) (j : branch K -> K),
     CircuitSpec pnet phi j
  /\ (forall node, In node (node_labels pnet) -> out_potential K n cvals lvals m node x u = Ok (phi node))
  /\ (forall b, In b bs -> out_voltage K n cvals lvals m (bid b) x u = Ok (bvolt phi (pbranch b))
                           /\ out_current K n cvals lvals m (bid b) x u = Ok (j (pbranch b))).
Proof.
  destruct (ss_phasor K KOK n cvals lvals lam_nz RD m Hm x u Lx Lu s Hs)
    as [phi [j [P1 [P2 [P3 [P4 [P5 [P6 [P7 [P8 P9]]]]]]]]]].
  pose proof (rd_wf K n cvals lvals RD) as WF.
  set (j' := fun b' : branch K => match get_branch bs (bid b') with Some b => j b | None => 0 end).
  assert (Ej : forall b, In b bs -> j' (pbranch b) = j b).
  { intros b Hb. unfold j'. rewrite pb_bid, (get_branch_In K bs b (ids_nodup K n WF) Hb). reflexivity. }
  assert (Ev : forall b, bvolt phi (pbranch b) = bvolt phi b)
    by (intros b; unfold bvolt; rewrite pb_node1, pb_node2; reflexivity).
  exists phi, j'. split; [|split].
  - split; [exact P3|]. split.
    + intros node. simpl. transitivity (kcl_sum bs j node); [|apply P4]. unfold kcl_sum. rewrite sumF_map.
      apply sumF_ext_in. intros b Hb. rewrite pb_node1, pb_node2, (Ej b Hb). reflexivity.
    + intros b' Hb'. simpl in Hb'. apply in_map_iff in Hb'. destruct Hb' as [b [<- Hb]].
      unfold law. rewrite (Ej b Hb), (Ev b). unfold pbranch.
      destruct (lmem (bid b) ck) eqn:Ec.
      * simpl. rewrite (P5 b Hb Ec). ring.
      * destruct (lmem (bid b) lk) eqn:El.
        -- simpl. pose proof (P6 b Hb El) as E6. feq (s * vlookup K lvals (bid b)) 0; simpl.
           ++ rewrite E6, e. ring.
           ++ rewrite E6. field.
              split; intros Hz; match goal with Hn : s * vlookup K lvals (bid b) <> 0 |- _ => apply Hn end;
                rewrite Hz; ring.
        -- destruct (is_ideal_voltage_source (el b)) eqn:Hiv.
           ++ simpl. rewrite (feqb_refl KOK). simpl. exact (P7 b Hb Hiv El).
           ++ destruct (is_current_source (el b)) eqn:Hcs.
              ** simpl. rewrite (P8 b Hb Hcs). ring.
              ** pose proof (P9 b Hb Ec Hiv Hcs) as E9. rewrite (ivs_noY K KOK) in Hiv.
                 destruct (eY (el b)) as [y|] eqn:EY; [|discriminate].
                 rewrite E9, (not_cs_I0 K KOK _ Hcs). unfold finY. rewrite EY. ring.
  - intros node Hn. apply P1. rewrite pnet_node_labels in Hn.
    leq node (zero n); [left; assumption|right].
    unfold node_index. apply filter_In. split; [apply lsort_In; exact Hn|].
    leq node (zero n); [contradiction|reflexivity].
  - intros b Hb. rewrite (Ev b), (Ej b Hb). exact (P2 b Hb). Qed.

(* when the phasor network is well-posed its solution is unique: the model's outputs are THE phasor response *)
Theorem ss_phasor_unique : WellPosed pnet ->
  forall (phi' : label -> K) (j'' : branch K -> K), CircuitSpec pnet phi' j'' ->
     (forall node, In node (node_labels pnet) -> out_potential K n cvals lvals m node x u = Ok (phi' node))
  /\ (forall b, In b bs -> out_voltage K n cvals lvals m (bid b) x u = Ok (bvolt phi' (pbranch b))
                           /\ out_current K n cvals lvals m (bid b) x u = Ok (j'' (pbranch b))).
Proof. intros [_ WU] phi' j'' C'. destruct ss_phasor_spec as [phi [j [C [Q1 Q2]]]].
  destruct (WU phi j phi' j'' C C') as [A1 A2]. split.
  - intros node Hn. rewrite <- (A1 node Hn). exact (Q1 node Hn).
  - intros b Hb. destruct (Q2 b Hb) as [V I].
    assert (Hpb : In (pbranch b) (branches pnet)) by (simpl; apply in_map; exact Hb).
    rewrite <- (A2 _ Hpb). split; [|exact I]. rewrite V. f_equal. unfold bvolt.
    destruct (node_ends pnet (pbranch b) Hpb) as [H1 H2].
    rewrite (A1 _ H1), (A1 _ H2). reflexivity. Qed.

(* ... and they are what the library's own solver returns for that network *)
Theorem ss_phasor_solver (sol : solution K) : solve_network pnet = Ok sol ->
     (forall node, In node (node_labels pnet) -> out_potential K n cvals lvals m node x u = get_potential sol node)
  /\ (forall b, In b bs -> out_voltage K n cvals lvals m (bid b) x u = get_voltage sol (bid b)).
Proof. intros E. pose proof (rd_wf K n cvals lvals RD) as WF.
  assert (NL : forall b, In b (branches pnet) -> node1 b <> node2 b).
  { intros b' Hb'. simpl in Hb'. apply in_map_iff in Hb'. destruct Hb' as [b [<- Hb]].
    rewrite pb_node1, pb_node2. exact (noloop K n WF b Hb). }
  destruct (solve_network_sound K KOK pnet NL sol E) as [En [WFp S]].
  pose proof (solved_wellposed K KOK pnet WFp sol E) as WP.
  pose proof (mna_sound K KOK pnet WFp (s_x sol) S) as C'.
  destruct (ss_phasor_unique WP _ _ C') as [Q1 Q2].
  destruct sol as [sn sx]. simpl in En, Q1, Q2, S, C'. subst sn. split.
  - intros node Hn. rewrite (Q1 node Hn). symmetry. apply (api_potential K pnet sx node).
    leq node (zero pnet); [left; assumption|right].
    unfold node_index. apply filter_In. split; [apply lsort_In; exact Hn|].
    leq node (zero pnet); [contradiction|reflexivity].
  - intros b Hb. rewrite (proj1 (Q2 b Hb)). symmetry. rewrite <- (pb_bid b).
    apply (api_voltage K pnet WFp sx (pbranch b)). simpl. apply in_map. exact Hb. Qed.

End Phasor.
