(* Theory/MatrixGenThm.v — the node_analysis.py part of Gen/MatrixGen.v (regenerated from the Python source by
   tools/gen_matrix.py on every run) is equal to the hand-written model: Model/Network.v (admittances, MNA matrix and
   right-hand side) and Model/Port.v (open_circuit_impedance, element_impedance).
   Loops that fill an array are handled through one semantic lemma ([writes_ent]): the entry (i, j) of the filled array is
   the common value of the enabled writes that hit (i, j) — whatever the shape of the iteration space. *)
From Coq Require Import String.
From Coq Require Import List Bool NArith Arith Lia Permutation.
From CC Require Import Theory.Field Theory.Labels Model.Network Model.Transformers Model.NetworkPrims Model.StateSpace
  Model.Port Model.MatrixPrims Gen.NetworkGen Gen.MatrixGen Theory.Spec Theory.Mna Theory.Api Theory.Matrix
  Theory.NetworkGenThm.
Import ListNotations.

(* ====================== generic list facts ====================== *)
Lemma set_nth_length {A} (l : list A) i v : length (set_nth l i v) = length l.
Proof. revert i. induction l as [|x l IH]; intros [|i]; simpl; auto. Qed.

Lemma nth_set_nth {A} (l : list A) i v k d :
  nth k (set_nth l i v) d = if Nat.eqb k i && Nat.ltb i (length l) then v else nth k l d.
Proof. revert i k. induction l as [|x l IH]; intros i k; simpl.
  - rewrite andb_false_r. destruct i; reflexivity.
  - destruct i as [|i], k as [|k]; simpl; try reflexivity. rewrite IH. reflexivity. Qed.

Lemma set_nth_over {A} (l : list A) i v : length l <= i -> set_nth l i v = l.
Proof. revert i. induction l as [|x l IH]; intros [|i] H; simpl in *; try reflexivity; [lia|]. rewrite IH by lia. reflexivity. Qed.

Lemma set_nth_In {A} (l : list A) i v x : In x (set_nth l i v) -> x = v \/ In x l.
Proof. revert i. induction l as [|y l IH]; intros [|i]; simpl; intros H; auto.
  - destruct H; auto.
  - destruct H as [H|H]; auto. destruct (IH _ H); auto. Qed.

Lemma fold_left_map {A B S} (f : S -> B -> S) (g : A -> B) l s :
  fold_left f (map g l) s = fold_left (fun s x => f s (g x)) l s.
Proof. revert s. induction l as [|a l IH]; intros s; simpl; auto. Qed.

Lemma fold_left_flat_map {A B S} (f : S -> B -> S) (g : A -> list B) l s :
  fold_left f (flat_map g l) s = fold_left (fun s x => fold_left f (g x) s) l s.
Proof. revert s. induction l as [|a l IH]; intros s; simpl; auto. rewrite fold_left_app. apply IH. Qed.

Lemma fold_left_ext_in {A S} (f g : S -> A -> S) l s : (forall s x, In x l -> f s x = g s x) ->
  fold_left f l s = fold_left g l s.
Proof. revert s. induction l as [|a l IH]; intros s H; simpl; auto. rewrite H by (left; reflexivity).
  apply IH. intros; apply H; right; assumption. Qed.

(* a loop whose body never raises on the iterated items is the pure fold *)
Lemma for_res_pure {S A} (l : list A) (body : S -> A -> res S) (pb : S -> A -> S) s :
  (forall s x, In x l -> body s x = Ok (pb s x)) -> for_res l body s = Ok (fold_left pb l s).
Proof. revert s. induction l as [|a l IH]; intros s H; simpl; [reflexivity|].
  rewrite H by (left; reflexivity). simpl. apply IH. intros; apply H; right; assumption. Qed.

Lemma for_res_ext_in {S A} (l : list A) (f g : S -> A -> res S) s :
  (forall s x, In x l -> f s x = g s x) -> for_res l f s = for_res l g s.
Proof. revert s. induction l as [|a l IH]; intros s H; simpl; [reflexivity|].
  rewrite H by (left; reflexivity). destruct (g s a); simpl; [|reflexivity]. apply IH. intros; apply H; right; assumption. Qed.

Lemma for_res_app {S A} (l1 l2 : list A) (f : S -> A -> res S) s :
  for_res (l1 ++ l2) f s = bind (for_res l1 f s) (fun s' => for_res l2 f s').
Proof. revert s. induction l1 as [|a l1 IH]; intros s; simpl; [reflexivity|].
  destruct (f s a); simpl; [apply IH|reflexivity]. Qed.

Lemma for_res_map {S A B} (g : A -> B) (l : list A) (f : S -> B -> res S) s :
  for_res (map g l) f s = for_res l (fun s x => f s (g x)) s.
Proof. revert s. induction l as [|a l IH]; intros s; simpl; [reflexivity|]. destruct (f s (g a)); simpl; [apply IH|reflexivity]. Qed.

(* nested loops are the loop over the product *)
Lemma for_res_nested {S A B} (la : list A) (lb : list B) (body : S -> A -> B -> res S) s :
  for_res la (fun s a => bind (for_res lb (fun s b => body s a b) s) (fun s' => Ok s')) s
  = for_res (list_prod la lb) (fun s p => body s (fst p) (snd p)) s.
Proof. revert s. induction la as [|a la IH]; intros s; simpl; [reflexivity|].
  rewrite for_res_app, for_res_map. simpl.
  destruct (for_res lb (fun s0 b => body s0 a b) s); simpl; [apply IH|reflexivity]. Qed.

Lemma for_res_nested_pair {S A1 A2 B} (la : list (A1 * A2)) (lb : list B) (f : S -> A1 * A2 -> res S)
  (body : A1 -> A2 -> S -> B -> res S) s :
  (forall s a1 a2, f s (a1, a2) = bind (for_res lb (body a1 a2) s) (fun s' => Ok s')) ->
  for_res la f s = for_res (list_prod la lb) (fun s p => body (fst (fst p)) (snd (fst p)) s (snd p)) s.
Proof. intros H. rewrite <- (for_res_nested la lb (fun s a b => body (fst a) (snd a) s b)).
  apply for_res_ext_in. intros s0 [a1 a2] _. apply H. Qed.

Lemma fold_left_nested {S A B} (la : list A) (lb : list B) (body : S -> A -> B -> S) s :
  fold_left (fun s a => fold_left (fun s b => body s a b) lb s) la s
  = fold_left (fun s p => body s (fst p) (snd p)) (list_prod la lb) s.
Proof. revert s. induction la as [|a la IH]; intros s; simpl; [reflexivity|].
  rewrite fold_left_app, fold_left_map. simpl. apply IH. Qed.

Lemma map_res_pure {A B} (f : A -> res B) (g : A -> B) l :
  (forall x, In x l -> f x = Ok (g x)) -> map_res f l = Ok (map g l).
Proof. induction l as [|a l IH]; intros H; simpl; [reflexivity|].
  rewrite H by (left; reflexivity). simpl. rewrite IH by (intros; apply H; right; assumption). reflexivity. Qed.

Lemma filter_res_pure {A} (p : A -> res bool) (q : A -> bool) l :
  (forall x, In x l -> p x = Ok (q x)) -> filter_res p l = Ok (filter q l).
Proof. induction l as [|a l IH]; intros H; simpl; [reflexivity|].
  rewrite H by (left; reflexivity). simpl. rewrite IH by (intros; apply H; right; assumption). reflexivity. Qed.

Lemma filter_all_true {A} (p : A -> bool) l : (forall x, In x l -> p x = true) -> filter p l = l.
Proof. induction l as [|a l IH]; intros H; simpl; [reflexivity|]. rewrite H by (left; reflexivity).
  rewrite IH by (intros; apply H; right; assumption). reflexivity. Qed.

Lemma map_seq_nth {A B} (g : A -> B) (l : list A) d : map (fun j => g (nth j l d)) (seq 0 (length l)) = map g l.
Proof. rewrite <- (map_map (fun j => nth j l d) g). f_equal.
  apply (nth_ext _ _ d d); [rewrite map_length, seq_length; reflexivity|].
  intros k Hk. rewrite map_length, seq_length in Hk.
  rewrite (nth_indep _ d (nth 0 l d)) by (rewrite map_length, seq_length; exact Hk).
  rewrite (map_nth (fun j => nth j l d)), seq_nth by exact Hk. reflexivity. Qed.

Lemma map_const_len {A B C} (c : C) (l : list A) (l' : list B) : length l = length l' ->
  map (fun _ => c) l = map (fun _ => c) l'.
Proof. revert l'. induction l as [|a l IH]; intros [|b l'] H; simpl in *; try discriminate; [reflexivity|].
  f_equal. apply IH. lia. Qed.

Lemma combine_map_fst_seq {A} (l : list A) : map fst (combine l (seq 0 (length l))) = l.
Proof. generalize 0. induction l as [|a l IH]; intros k; simpl; [reflexivity|]. rewrite IH. reflexivity. Qed.

Lemma in_list_prod {A B} (a : A) (b : B) l l' : In (a, b) (list_prod l l') <-> In a l /\ In b l'.
Proof. apply in_prod_iff. Qed.

(* sort_by_key only permutes *)
Lemma insert_by_key_perm {A} (key : A -> label) x l : Permutation (insert_by_key key x l) (x :: l).
Proof. induction l as [|y l IH]; simpl; [apply Permutation_refl|].
  destruct (label_leb (key x) (key y)); [apply Permutation_refl|].
  eapply perm_trans; [apply perm_skip, IH|apply perm_swap]. Qed.
Lemma sort_by_key_perm {A} (key : A -> label) l : Permutation (sort_by_key key l) l.
Proof. induction l as [|x l IH]; simpl; [apply Permutation_refl|].
  eapply perm_trans; [apply insert_by_key_perm|apply perm_skip, IH]. Qed.

Lemma filter_perm {A} (p : A -> bool) l l' : Permutation l l' -> Permutation (filter p l) (filter p l').
Proof. induction 1; simpl.
  - apply Permutation_refl.
  - destruct (p x); [apply perm_skip|]; assumption.
  - destruct (p x), (p y); try apply Permutation_refl. apply perm_swap.
  - eapply perm_trans; eassumption. Qed.

Lemma bind_ret {A} (r : res A) : bind r (fun t => Ok t) = r.
Proof. destruct r; reflexivity. Qed.

Lemma map_res_ext {A B} (f g : A -> res B) l : (forall x, f x = g x) -> map_res f l = map_res g l.
Proof. intros H. induction l as [|a l IH]; simpl; [reflexivity|]. rewrite H, IH. reflexivity. Qed.

(* the sub-list a raising filter keeps *)
Lemma filter_res_sub {A B} (g : A -> B) (q : A -> res bool) l l' :
  filter_res q l = Ok l' -> incl l' l /\ (NoDup (map g l) -> NoDup (map g l')).
Proof. revert l'. induction l as [|a l IH]; simpl; intros l' H.
  - injection H as <-. split; [apply incl_refl|auto].
  - destruct (q a) as [c|e]; simpl in H; [|discriminate]. destruct (filter_res q l) as [xs|e]; simpl in H; [|discriminate].
    injection H as <-. destruct (IH xs eq_refl) as [I N]. split.
    + destruct c; [apply incl_cons; [left; reflexivity|apply incl_tl, I]|apply incl_tl, I].
    + intros ND. inversion ND as [|? ? Ha ND']; subst. destruct c; [|apply N, ND']. simpl. constructor; [|apply N, ND'].
      intros Hin. apply Ha. apply in_map_iff in Hin. destruct Hin as [x [E Hx]]. apply in_map_iff. exists x. split; [exact E|apply I, Hx]. Qed.

(* dict lookups (the last entry of a key wins) *)
Lemma dict_get_absent {V} (d : list (label * V)) k : ~ In k (map fst d) -> dict_get d k = None.
Proof. induction d as [|[k' v] d IH]; simpl; [reflexivity|]. intros H. rewrite IH by tauto.
  destruct (label_eqb_spec k' k); [tauto|reflexivity]. Qed.
Lemma dict_item_in {V} (d : list (label * V)) k v : NoDup (map fst d) -> In (k, v) d -> dict_item d k = Ok v.
Proof. unfold dict_item. induction d as [|[k' v'] d IH]; simpl; intros ND H; [destruct H|].
  inversion ND as [|? ? Hn ND']; subst. destruct H as [H|H].
  - injection H as -> ->. rewrite (dict_get_absent d k Hn), label_eqb_refl. reflexivity.
  - specialize (IH ND' H). destruct (dict_get d k); [exact IH|discriminate]. Qed.
Lemma dict_item_absent {V} (d : list (label * V)) k : ~ In k (map fst d) -> dict_item d k = Err EKeyError.
Proof. intros H. unfold dict_item. rewrite (dict_get_absent d k H). reflexivity. Qed.
Lemma dict_item_enum (l : list label) k : NoDup l -> In k l -> dict_item (combine l (seq 0%nat (length l))) k = Ok (lindex l k).
Proof. intros NDl H. unfold dict_item.
  assert (G : forall s, dict_get (combine l (seq s (length l))) k = Some (s + lindex l k)%nat).
  { induction l as [|a l IH]; intros s; [destruct H|]. simpl. inversion NDl as [|? ? Hn NDl']; subst.
    destruct (label_eqb_spec a k) as [->|Ne].
    - rewrite dict_get_absent; [f_equal; lia|]. intros Hin. apply Hn.
      clear -Hin. revert Hin. generalize (S s). induction l as [|x l IH]; intros s0 Hin; simpl in *; [destruct Hin|].
      destruct Hin as [->|Hin]; [left; reflexivity|right; apply (IH _ Hin)].
    - destruct H as [H|H]; [congruence|]. rewrite (IH NDl' H (S s)). f_equal. lia. }
  rewrite (G 0%nat). reflexivity. Qed.

(* d[k] = v for a key that is not yet there: appended *)
Lemma dict_set_fresh {V} (d : list (label * V)) k v : ~ In k (map fst d) -> dict_set d k v = d ++ [(k, v)].
Proof. induction d as [|[k' v'] d IH]; simpl; intros H; [reflexivity|].
  destruct (label_eqb_spec k' k) as [E|E]; [tauto|]. rewrite IH by tauto. reflexivity. Qed.

(* a dict comprehension over distinct keys stores its items in order *)
Lemma dict_of_items_distinct {V} (l : list (label * V)) : NoDup (map fst l) -> dict_of_items l = l.
Proof. unfold dict_of_items. intros ND.
  assert (G : forall acc, (forall k, In k (map fst acc) -> ~ In k (map fst l)) ->
              fold_left (fun d kv => dict_set d (fst kv) (snd kv)) l acc = acc ++ l).
  { induction l as [|[k v] l IH]; intros acc Hd; simpl; [rewrite app_nil_r; reflexivity|].
    inversion ND as [|? ? Hk ND']; subst.
    rewrite dict_set_fresh by (intros H; apply (Hd k H); left; reflexivity).
    rewrite IH; [rewrite <- app_assoc; reflexivity|exact ND'|].
    intros k0 H0. rewrite map_app in H0. apply in_app_or in H0. destruct H0 as [H0|[<-|[]]]; [|exact Hk].
    intros H1. apply (Hd k0 H0). right. exact H1. }
  apply (G []). intros k []. Qed.

(* {k: d[k] for k in d if c(k)} — filter and lookup interleaved — keeps the items of d whose key passes *)
Lemma filter_comp_generic {V} (c' : label -> res bool) (f : label -> res (label * V)) (d : list (label * V)) (c : label -> res bool) :
  (forall k, c' k = c k) -> (forall k, f k = bind (dict_item d k) (fun v => Ok (k, v))) -> NoDup (map fst d) ->
  comp_res c' f (map fst d) = filter_res (fun kv => c (fst kv)) d.
Proof. intros Hc Hf ND.
  assert (G : forall l, incl l d -> comp_res c' f (map fst l) = filter_res (fun kv => c (fst kv)) l).
  { induction l as [|[k v] l IH]; intros I; simpl; [reflexivity|]. rewrite Hc.
    destruct (c k) as [t|e]; simpl; [|reflexivity]. rewrite IH by (intros x Hx; apply I; right; exact Hx).
    destruct t; [|destruct (filter_res _ l); reflexivity].
    rewrite Hf, (dict_item_in d k v ND (I _ (or_introl eq_refl))). simpl. reflexivity. }
  apply G, incl_refl. Qed.

(* acc = {}; for k in d: if c(k): acc[k] = d[k]   — the same items *)
Lemma filter_loop_generic {V} (body : list (label * V) -> label -> res (list (label * V))) (d : list (label * V)) (c : label -> res bool) :
  (forall acc k, body acc k = bind (c k) (fun t => if t then bind (dict_item d k) (fun v => Ok (dict_set acc k v)) else Ok acc)) ->
  NoDup (map fst d) -> for_res (map fst d) body [] = filter_res (fun kv => c (fst kv)) d.
Proof. intros Hb ND.
  assert (G : forall l acc, incl l d -> NoDup (map fst l) -> (forall k, In k (map fst acc) -> ~ In k (map fst l)) ->
              for_res (map fst l) body acc = bind (filter_res (fun kv => c (fst kv)) l) (fun xs => Ok (acc ++ xs))).
  { induction l as [|[k v] l IH]; intros acc I NDl Hd; simpl; [rewrite app_nil_r; reflexivity|]. rewrite Hb.
    inversion NDl as [|? ? Hk NDl']; subst.
    destruct (c k) as [t|e]; simpl; [|reflexivity]. destruct t.
    - rewrite (dict_item_in d k v ND (I _ (or_introl eq_refl))). simpl.
      rewrite dict_set_fresh by (intros H; apply (Hd k H); left; reflexivity).
      rewrite IH; [|intros x Hx; apply I; right; exact Hx|exact NDl'|].
      + destruct (filter_res _ l); simpl; [rewrite <- app_assoc; reflexivity|reflexivity].
      + intros k0 H0. rewrite map_app in H0. apply in_app_or in H0. destruct H0 as [H0|[<-|[]]]; [|exact Hk].
        intros H1. apply (Hd k0 H0). right. exact H1.
    - cbn [bind]. rewrite IH; [|intros x Hx; apply I; right; exact Hx|exact NDl'|].
      + destruct (filter_res _ l); reflexivity.
      + intros k0 H0 H1. apply (Hd k0 H0). right. exact H1. }
  rewrite (G d [] (incl_refl d) ND) by (intros k []). destruct (filter_res _ d); reflexivity. Qed.

(* len(set(l)) == len(l) exactly when the items of l are distinct *)
Lemma nodup_length_le (l : list nat) : length (nodup Nat.eq_dec l) <= length l.
Proof. induction l as [|a l IH]; simpl; [lia|]. destruct (in_dec Nat.eq_dec a l); simpl; lia. Qed.
Lemma natset_len_distinct (l : list nat) : Nat.eqb (natset_len (natset_of_list l)) (length l) = true <-> NoDup l.
Proof. unfold natset_len, natset_of_list. rewrite Nat.eqb_eq. split.
  - induction l as [|a l IH]; simpl; intros H; [constructor|]. destruct (in_dec Nat.eq_dec a l) as [Hin|Hn].
    + pose proof (nodup_length_le l). lia.
    + simpl in H. constructor; [exact Hn|apply IH; lia].
  - intros H. rewrite nodup_fixed_point by exact H. reflexivity. Qed.

Lemma mapping_item_in (m : mapping) k : In k m -> mapping_item m k = Ok (lindex m k).
Proof. intros H. unfold mapping_item. replace (lmem k m) with true; [reflexivity|]. symmetry. apply lmem_spec, H. Qed.

(* the probe-name loop *)
Lemma while_in_append_eq fuel s ids : while_in_append_fuel fuel s [underscore] ids = probe_loop fuel s ids.
Proof. revert s. induction fuel as [|f IH]; intros s; simpl; [reflexivity|]. rewrite IH. reflexivity. Qed.

Section MatrixGen.
Variable K : fops.
Hypothesis KOK : fops_ok K.
Add Field Kmg : (Kth K KOK).
Notation "0" := (f0 K). Notation "1" := (f1 K).
Infix "+" := (fadd K). Infix "*" := (fmul K). Infix "-" := (fsub K). Notation "- x" := (fopp K x).
Ltac leq a b := destruct (label_eqb_spec a b).

(* ====================== sums ====================== *)
Lemma fold_fadd_acc (l : list K) a : fold_left (fadd K) l a = a + sumF (fun x => x) l.
Proof. revert a. induction l as [|x l IH]; intros a; simpl; [ring|]. rewrite IH. ring. Qed.
Lemma py_sum_map {A} (f : A -> K) l : py_sum (map f l) = sumF f l.
Proof. unfold py_sum. rewrite fold_fadd_acc, sumF_map. change (sumF (fun x => f x) l) with (sumF f l). ring. Qed.

(* ====================== arrays: shape and entries under writes ====================== *)
Definition wfa (r c : nat) (M : arr2 K) : Prop := a_cols M = c /\ wfm r c (a_rows M).
Definition ent2 (M : arr2 K) (i j : nat) : K := ent (a_rows M) i j.

Lemma arr_ext r c (M : arr2 K) (rows : list (list K)) : wfa r c M -> wfm r c rows ->
  (forall i j, i < r -> j < c -> ent2 M i j = ent rows i j) -> M = {| a_cols := c; a_rows := rows |}.
Proof. intros [HC WM] WR H. destruct M as [mc mr]; simpl in *. subst mc. f_equal. apply (mat_ext K r c); assumption. Qed.

Lemma wfa_zeros r c : wfa r c (np_zeros2 r c).
Proof. split; [reflexivity|]. split; simpl.
  - rewrite map_length, seq_length. reflexivity.
  - intros row H. apply in_map_iff in H. destruct H as [k [<- _]]. apply zero_row_length. Qed.

Lemma ent2_zeros r c i j : ent2 (np_zeros2 r c) i j = 0.
Proof. unfold ent2, ent, np_zeros2; simpl. destruct (Nat.lt_ge_cases i r) as [H|H].
  - rewrite (nth_map_lt (fun _ => zero_row K c) (seq 0 r) i 0%nat []) by (rewrite seq_length; exact H).
    apply nth_zero_row.
  - rewrite nth_overflow by (rewrite map_length, seq_length; exact H). apply entry_nil. Qed.

Lemma wfa_set r c M i j v : wfa r c M -> wfa r c (arr_set M i j v).
Proof. intros [HC [HL HR]]. split; [exact HC|]. split; simpl.
  - rewrite set_nth_length. exact HL.
  - intros row H. destruct (Nat.lt_ge_cases i (length (a_rows M))) as [Hi|Hi].
    + apply set_nth_In in H. destruct H as [->|H]; [|apply HR, H]. rewrite set_nth_length. apply HR, nth_In, Hi.
    + rewrite set_nth_over in H by exact Hi. apply HR, H. Qed.

Lemma ent2_set M i j v i' j' : i' < length (a_rows M) -> j' < length (nth i' (a_rows M) []) ->
  ent2 (arr_set M i j v) i' j' = if Nat.eqb i i' && Nat.eqb j j' then v else ent2 M i' j'.
Proof. intros Hi Hj. unfold ent2, ent, entry, arr_set; simpl. rewrite nth_set_nth.
  destruct (Nat.eqb_spec i' i) as [->|Ne]; simpl.
  - rewrite Nat.eqb_refl. simpl. replace (i <? length (a_rows M)) with true by (symmetry; apply Nat.ltb_lt; exact Hi).
    rewrite nth_set_nth. destruct (Nat.eqb_spec j' j) as [->|Nj]; simpl.
    + rewrite Nat.eqb_refl. replace (j <? length (nth i (a_rows M) [])) with true by (symmetry; apply Nat.ltb_lt; exact Hj).
      reflexivity.
    + destruct (Nat.eqb_spec j j'); [congruence|reflexivity].
  - destruct (Nat.eqb_spec i i'); [congruence|reflexivity]. Qed.

(* a guarded write (enabled, row, column, value) *)
Definition write := (bool * nat * nat * K)%type.
Definition do_write (M : arr2 K) (w : write) : arr2 K :=
  let '(en, i, j, v) := w in if en then arr_set M i j v else M.
Definition hits (i j : nat) (w : write) : bool := let '(en, i', j', _) := w in en && Nat.eqb i' i && Nat.eqb j' j.

Lemma writes_wfa r c ws M : wfa r c M -> wfa r c (fold_left do_write ws M).
Proof. revert M. induction ws as [|w ws IH]; intros M W; simpl; [exact W|]. apply IH.
  destruct w as [[[en i] j] v]; simpl. destruct en; [apply wfa_set|]; exact W. Qed.

(* the entry (i, j) after a sequence of writes: the common value of the writes that hit it *)
Lemma writes_ent r c ws M i j t : wfa r c M -> i < r -> j < c ->
  (forall w, In w ws -> hits i j w = true -> snd w = t) ->
  ent2 (fold_left do_write ws M) i j = if existsb (hits i j) ws then t else ent2 M i j.
Proof. intros W Hi Hj. induction ws as [|w ws IH] using rev_ind; intros H; simpl; [reflexivity|].
  rewrite fold_left_app, existsb_app. simpl. rewrite orb_false_r.
  assert (IH' := IH (fun w' Hw => H w' (in_or_app _ _ _ (or_introl Hw)))).
  pose proof (writes_wfa r c ws M W) as [_ [WL WR]].
  assert (Hw := H w (in_or_app ws [w] w (or_intror (in_eq w [])))).
  destruct w as [[[en i'] j'] v]; simpl in *. destruct en; simpl in *.
  - rewrite ent2_set; [|rewrite WL; exact Hi|rewrite (wfm_row K r c _ i (conj WL WR) Hi); exact Hj].
    destruct (Nat.eqb i' i && Nat.eqb j' j) eqn:E.
    + rewrite orb_true_r. apply Hw. reflexivity.
    + rewrite orb_false_r. exact IH'.
  - rewrite orb_false_r. exact IH'. Qed.

Lemma wfm_map_map {A B} (f : A -> B -> K) (R : list A) (C : list B) :
  wfm (length R) (length C) (map (fun a => map (f a) C) R).
Proof. split; [apply map_length|]. intros row H. apply in_map_iff in H. destruct H as [a [<- _]]. apply map_length. Qed.

Lemma ent_map_map {A B} (f : A -> B -> K) (R : list A) (C : list B) i j dA dB : i < length R -> j < length C ->
  ent (map (fun a => map (f a) C) R) i j = f (nth i R dA) (nth j C dB).
Proof. intros Hi Hj. unfold ent, entry. rewrite (nth_map_lt (fun a => map (f a) C) R i dA []) by exact Hi.
  apply nth_map_lt. exact Hj. Qed.

(* filling a zero array: every entry is the common value of the writes that hit it, 0 when none does *)
Lemma fill_entries r c (ws : list write) (target : list (list K)) : wfm r c target ->
  (forall i j, i < r -> j < c ->
     (forall w, In w ws -> hits i j w = true -> snd w = ent target i j) /\
     ((exists w, In w ws /\ hits i j w = true) \/ ent target i j = 0)) ->
  fold_left do_write ws (np_zeros2 r c) = {| a_cols := c; a_rows := target |}.
Proof. intros WT H. apply (arr_ext r c); [apply writes_wfa, wfa_zeros|exact WT|].
  intros i j Hi Hj. destruct (H i j Hi Hj) as [H1 H2].
  rewrite (writes_ent r c ws _ i j (ent target i j) (wfa_zeros r c) Hi Hj H1).
  destruct (existsb (hits i j) ws) eqn:E; [reflexivity|]. rewrite ent2_zeros.
  destruct H2 as [[w [Hw Hh]]|H2]; [|symmetry; exact H2].
  exfalso. assert (existsb (hits i j) ws = true) by (apply existsb_exists; exists w; split; assumption). congruence. Qed.

(* for a, b in product(R, C): M[R.index(a), C.index(b)] = f(a, b) *)
Lemma fill_prod (R C : list label) (f : label -> label -> K) : NoDup R -> NoDup C ->
  fold_left do_write (map (fun p => (true, lindex R (fst p), lindex C (snd p), f (fst p) (snd p))) (list_prod R C))
    (np_zeros2 (length R) (length C))
  = {| a_cols := length C; a_rows := map (fun a => map (f a) C) R |}.
Proof. intros NR NC. apply fill_entries; [apply wfm_map_map|]. intros i j Hi Hj.
  rewrite (ent_map_map f R C i j [] []) by assumption. split.
  - intros w Hw Hh. apply in_map_iff in Hw. destruct Hw as [[a b] [<- Hab]]. apply in_prod_iff in Hab. destruct Hab as [Ha Hb].
    simpl in *. apply andb_true_iff in Hh. destruct Hh as [Hh1 Hh2]. apply Nat.eqb_eq in Hh1, Hh2. subst i j.
    rewrite !nth_lindex by assumption. reflexivity.
  - left. exists (true, lindex R (nth i R []), lindex C (nth j C []), f (nth i R []) (nth j C [])). split.
    + apply in_map_iff. exists (nth i R [], nth j C []). split; [reflexivity|]. apply in_prod_iff. split; apply nth_In; assumption.
    + simpl. rewrite !lindex_nth by assumption. rewrite !Nat.eqb_refl. reflexivity. Qed.

(* itertools.combinations(l, 2) *)
Lemma combinations2_In {A} (l : list A) a b : In (a, b) (combinations2 l) -> In a l /\ In b l.
Proof. induction l as [|x r IH]; simpl; [tauto|]. intros H. apply in_app_or in H. destruct H as [H|H].
  - apply in_map_iff in H. destruct H as [y [E Hy]]. injection E as <- <-. tauto.
  - destruct (IH H). tauto. Qed.
Lemma combinations2_neq {A} (l : list A) a b : NoDup l -> In (a, b) (combinations2 l) -> a <> b.
Proof. induction l as [|x r IH]; simpl; [tauto|]. intros ND H. inversion ND as [|? ? Hx ND']; subst.
  apply in_app_or in H. destruct H as [H|H].
  - apply in_map_iff in H. destruct H as [y [E Hy]]. injection E as <- <-. intros <-. tauto.
  - apply IH; assumption. Qed.
Lemma combinations2_nth {A} (l : list A) d : forall i j, i < j -> j < length l -> In (nth i l d, nth j l d) (combinations2 l).
Proof. induction l as [|x r IH]; intros i j Hij Hj; simpl in Hj; [lia|]. destruct j as [|j]; [lia|].
  simpl. apply in_or_app. destruct i as [|i].
  - left. apply in_map. apply nth_In. lia.
  - right. apply IH; lia. Qed.

(* for a in R: M[a, a] = d(a);  for a, b in combinations(R, 2): M[a, b] = M[b, a] = o(a, b) *)
Lemma fill_diag_combos (R : list label) (f1 : arr2 K -> label -> arr2 K) (f2 : arr2 K -> label * label -> arr2 K)
  (d : label -> K) (o f : label -> label -> K) : NoDup R ->
  (forall M a, f1 M a = arr_set M (lindex R a) (lindex R a) (d a)) ->
  (forall M a b, f2 M (a, b) = arr_set (arr_set M (lindex R a) (lindex R b) (o a b)) (lindex R b) (lindex R a) (o a b)) ->
  (forall a, f a a = d a) -> (forall a b, a <> b -> f a b = o a b /\ f b a = o a b) ->
  fold_left f2 (combinations2 R) (fold_left f1 R (np_zeros2 (length R) (length R)))
  = {| a_cols := length R; a_rows := map (fun a => map (f a) R) R |}.
Proof. intros ND H1 H2 Hd Ho.
  rewrite (fold_left_ext_in f1 (fun M a => do_write M (true, lindex R a, lindex R a, d a))) by (intros; apply H1).
  rewrite <- (fold_left_map do_write (fun a => (true, lindex R a, lindex R a, d a))).
  rewrite (fold_left_ext_in f2 (fun M p => fold_left do_write
             [(true, lindex R (fst p), lindex R (snd p), o (fst p) (snd p)); (true, lindex R (snd p), lindex R (fst p), o (fst p) (snd p))] M))
    by (intros M [a b] _; apply H2).
  rewrite <- (fold_left_flat_map do_write), <- fold_left_app.
  apply fill_entries; [apply wfm_map_map|]. intros i j Hi Hj. rewrite (ent_map_map f R R i j [] []) by assumption. split.
  - intros w Hw Hh. apply in_app_or in Hw. destruct Hw as [Hw|Hw].
    + apply in_map_iff in Hw. destruct Hw as [a [<- Ha]]. simpl in *. apply andb_true_iff in Hh. destruct Hh as [E1 E2].
      apply Nat.eqb_eq in E1, E2. subst i j. rewrite !nth_lindex by assumption. symmetry. apply Hd.
    + apply in_flat_map in Hw. destruct Hw as [[a b] [Hab Hw]]. destruct (combinations2_In R a b Hab) as [Ha Hb].
      pose proof (combinations2_neq R a b ND Hab) as Ne. destruct (Ho a b Ne) as [O1 O2].
      destruct Hw as [<-|[<-|[]]]; simpl in *; apply andb_true_iff in Hh; destruct Hh as [E1 E2];
        apply Nat.eqb_eq in E1, E2; subst i j; rewrite !nth_lindex by assumption; symmetry; assumption.
  - left. destruct (Nat.lt_trichotomy i j) as [Lt|[->|Gt]].
    + exists (true, lindex R (nth i R []), lindex R (nth j R []), o (nth i R []) (nth j R [])). split.
      * apply in_or_app. right. apply in_flat_map. exists (nth i R [], nth j R []). split; [apply combinations2_nth; assumption|left; reflexivity].
      * simpl. rewrite !lindex_nth by assumption. rewrite !Nat.eqb_refl. reflexivity.
    + exists (true, lindex R (nth j R []), lindex R (nth j R []), d (nth j R [])). split.
      * apply in_or_app. left. apply in_map_iff. exists (nth j R []). split; [reflexivity|apply nth_In; assumption].
      * simpl. rewrite !lindex_nth by assumption. rewrite !Nat.eqb_refl. reflexivity.
    + exists (true, lindex R (nth i R []), lindex R (nth j R []), o (nth j R []) (nth i R [])). split.
      * apply in_or_app. right. apply in_flat_map. exists (nth j R [], nth i R []). split; [apply combinations2_nth; assumption|right; left; reflexivity].
      * simpl. rewrite !lindex_nth by assumption. rewrite !Nat.eqb_refl. reflexivity. Qed.

(* ====================== label_mapping.py: class LabelMapping and filter ====================== *)
(* The translated members of the class (module py_label_mapping_m, over the dict of the object) are the primitives mapping_* /
   fmapping_* that the other modules use for them, on the dict [lm_dict m] of a mapper-built LabelMapping with key list m. *)
Section LabelMappingClass.
Variable m : mapping.

Lemma lm_dict_keys : map fst (lm_dict m) = m.
Proof. apply combine_map_fst_seq. Qed.
Lemma lm_dict_values : map snd (lm_dict m) = seq 0 (length m).
Proof. unfold lm_dict. generalize 0%nat. induction m as [|a l IH]; intros k; simpl; [reflexivity|]. rewrite IH. reflexivity. Qed.
Lemma lm_dict_length : length (lm_dict m) = length m.
Proof. unfold lm_dict. rewrite combine_length, seq_length. lia. Qed.
(* the dict {k: v for v, k in enumerate(m)} *)
Lemma lm_dict_enumerate : lm_dict m = map (fun vk => (snd vk, fst vk)) (enumerate m).
Proof. unfold lm_dict, enumerate. generalize 0%nat. induction m as [|a l IH]; intros k; simpl; [reflexivity|]. rewrite IH. reflexivity. Qed.

Theorem LabelMapping_keys_eq : py_label_mapping_m.LabelMapping_keys K (lm_dict m) = mapping_keys m.
Proof. unfold py_label_mapping_m.LabelMapping_keys, dict_keys. apply lm_dict_keys. Qed.
Theorem LabelMapping_iter_eq : py_label_mapping_m.LabelMapping___iter__ K (lm_dict m) = mapping_keys m.
Proof. unfold py_label_mapping_m.LabelMapping___iter__, dict_keys. apply lm_dict_keys. Qed.
Theorem LabelMapping_values_eq : py_label_mapping_m.LabelMapping_values K (lm_dict m) = mapping_values m.
Proof. unfold py_label_mapping_m.LabelMapping_values, dict_values. apply lm_dict_values. Qed.
Theorem LabelMapping_N_eq : py_label_mapping_m.LabelMapping_N K (lm_dict m) = mapping_N m.
Proof. unfold py_label_mapping_m.LabelMapping_N. apply lm_dict_length. Qed.

Hypothesis NDm : NoDup m.

Theorem LabelMapping_getitem_eq k : py_label_mapping_m.LabelMapping___getitem__ K (lm_dict m) k = mapping_item m k.
Proof. unfold py_label_mapping_m.LabelMapping___getitem__, mapping_item. destruct (lmem k m) eqn:E.
  - apply dict_item_enum; [exact NDm|apply lmem_spec, E].
  - apply dict_item_absent. rewrite lm_dict_keys. intros H. apply lmem_spec in H. congruence. Qed.
Theorem LabelMapping_getitem_key k : In k m ->
  py_label_mapping_m.LabelMapping___getitem__ K (lm_dict m) k = Ok (mapping_index m k).
Proof. intros H. rewrite LabelMapping_getitem_eq. apply mapping_item_in, H. Qed.
(* m(a, b, ...) = (m[a], m[b], ...) *)
Theorem LabelMapping_call_eq ks : py_label_mapping_m.LabelMapping___call__ K (lm_dict m) ks = map_res (mapping_item m) ks.
Proof. unfold py_label_mapping_m.LabelMapping___call__. apply map_res_ext. intros k. rewrite ?bind_ret. apply LabelMapping_getitem_eq. Qed.
End LabelMappingClass.

(* LabelMapping(d) raises DistinctValues exactly when two keys share a value *)
Theorem LabelMapping_new_eq (d : fmapping) : NoDup (map snd d) -> py_label_mapping_m.LabelMapping__new K d = Ok d.
Proof. intros H. unfold py_label_mapping_m.LabelMapping__new, py_label_mapping_m.LabelMapping___post_init__, dict_values.
  rewrite <- (map_length snd d). rewrite (proj2 (natset_len_distinct (map snd d)) H). reflexivity. Qed.
Theorem LabelMapping_new_raises (d : fmapping) : ~ NoDup (map snd d) -> py_label_mapping_m.LabelMapping__new K d = Err EOther.
Proof. intros H. unfold py_label_mapping_m.LabelMapping__new, py_label_mapping_m.LabelMapping___post_init__, dict_values.
  rewrite <- (map_length snd d). destruct (Nat.eqb _ _) eqn:E; [|reflexivity]. apply natset_len_distinct in E. tauto. Qed.

(* the members of a filtered mapping *)
Theorem fmapping_members (d : fmapping) k :
  py_label_mapping_m.LabelMapping_keys K d = fmapping_keys d /\ py_label_mapping_m.LabelMapping___getitem__ K d k = fmapping_item d k.
Proof. split; reflexivity. Qed.

(* label_mapping.filter: the sub-dict, every key keeping its index (two shapes: a dict comprehension, or a loop filling a dict) *)
Theorem label_mapping_filter_eq (m : mapping) (p : label -> res bool) : NoDup m ->
  py_label_mapping_m.label_mapping_filter K (lm_dict m) p = mapping_filter_res m p.
Proof. intros NDm. assert (NDk : NoDup (map fst (lm_dict m))) by (rewrite lm_dict_keys; exact NDm).
  unfold py_label_mapping_m.label_mapping_filter, mapping_filter_res. cbv zeta. fold (lm_dict m).
  change (py_label_mapping_m.LabelMapping_keys K (lm_dict m)) with (map fst (lm_dict m)).
  match goal with |- bind ?X _ = _ => assert (E : X = filter_res (fun kv => p (fst kv)) (lm_dict m)) end.
  { first [ apply filter_comp_generic; [intros k; apply bind_ret|intros k; reflexivity|exact NDk]
          | apply filter_loop_generic; [|exact NDk]; intros acc k; unfold py_label_mapping_m.LabelMapping___getitem__;
            destruct (p k) as [[|]|e]; simpl; try reflexivity; destruct (dict_item (lm_dict m) k); reflexivity ]. }
  rewrite E. destruct (filter_res _ _) as [d'|e] eqn:F; simpl; [|reflexivity].
  rewrite ?dict_of_items_distinct by (apply (proj2 (filter_res_sub fst _ _ _ F)), NDk).
  apply LabelMapping_new_eq. apply (proj2 (filter_res_sub snd _ _ _ F)). rewrite lm_dict_values. apply seq_NoDup. Qed.

(* a filter function that cannot raise *)
Theorem mapping_filter_pure (m : mapping) (p : label -> bool) : mapping_filter_res m (fun k => Ok (p k)) = Ok (mapping_filter m p).
Proof. unfold mapping_filter_res, mapping_filter. apply filter_res_pure. intros; reflexivity. Qed.

(* ====================== network.py: the list-valued methods ====================== *)
Lemma branches_connected_to_perm (n : network K) i :
  Permutation (py_network_m.Network_branches_connected_to K n i) (filter (connected i) (branches n)).
Proof. unfold py_network_m.Network_branches_connected_to. cbv zeta. eapply perm_trans; [apply sort_by_key_perm|].
  erewrite filter_ext; [apply Permutation_refl|]. intros b. reflexivity. Qed.

Lemma set2_eqb_between i j (b : branch K) : set2_eqb (node1 b) (node2 b) i j = between i j b.
Proof. unfold set2_eqb, between, lmem. simpl. rewrite !orb_false_r, !andb_true_r. apply andb_assoc. Qed.

Lemma branches_between_eq (n : network K) i j :
  py_network_m.Network_branches_between K n i j = filter (between i j) (branches n).
Proof. unfold py_network_m.Network_branches_between. cbv zeta. apply filter_ext. intros b. apply set2_eqb_between. Qed.

Definition other_end (i : label) (b : branch K) : label := if negb (label_eqb (node1 b) i) then node1 b else node2 b.
Lemma nodes_connected_to_eq (n : network K) i :
  py_network_m.Network_nodes_connected_to K n i
  = set_of_list (map (other_end i) (py_network_m.Network_branches_connected_to K n i)).
Proof. reflexivity. Qed.

(* ====================== node_analysis.py: admittances ====================== *)
Lemma sum_finY (l l' : list (branch K)) : Permutation l l' ->
  py_sum (map (fun b => opt0 (py_elements.get_Y K (el b))) (filter (fun b => num (py_elements.get_Y K (el b))) l))
  = sumF finY (filter has_finY l').
Proof. intros P. rewrite py_sum_map.
  rewrite (sumF_ext (fun b => opt0 (py_elements.get_Y K (el b))) finY) by (intros b; rewrite get_Y_eq; reflexivity).
  rewrite (filter_ext (fun b => num (py_elements.get_Y K (el b))) has_finY) by (intros b; rewrite get_Y_eq; reflexivity).
  apply (sumF_perm KOK), filter_perm, P. Qed.

Lemma admittance_connected_to_eq (n : network K) i :
  py_node_analysis.admittance_connected_to K n i = admittance_connected_to (branches n) i.
Proof. unfold py_node_analysis.admittance_connected_to, admittance_connected_to. apply sum_finY, branches_connected_to_perm. Qed.

Lemma admittance_between_eq (n : network K) i j :
  py_node_analysis.admittance_between K n i j = admittance_between (branches n) i j.
Proof. unfold py_node_analysis.admittance_between, admittance_between. rewrite branches_between_eq.
  apply sum_finY, Permutation_refl. Qed.

Lemma connected_nodes_perm (n : network K) i :
  Permutation (py_node_analysis.connected_nodes K n i) (map (other_end i) (filter (connected i) (branches n))).
Proof. unfold py_node_analysis.connected_nodes. apply Permutation_map, branches_connected_to_perm. Qed.

(* ====================== node_analysis.py: the blocks of the MNA matrix ====================== *)
Lemma node_labels_NoDup' (n : network K) : NoDup (node_labels n).
Proof. unfold node_labels. destruct (branches n); [repeat constructor; intros []|]. apply lsort_NoDup, ldedup_NoDup. Qed.
Lemma node_index_NoDup (n : network K) : NoDup (node_index n).
Proof. unfold node_index. apply filter_NoDup, lsort_NoDup, node_labels_NoDup'. Qed.
Lemma vs_index_NoDup (n : network K) : NoDup (branch_ids n) -> NoDup (vs_index n).
Proof. intros H. unfold vs_index. apply lsort_NoDup, NoDup_map_filter, H. Qed.
Lemma cs_index_NoDup (n : network K) : NoDup (branch_ids n) -> NoDup (cs_index n).
Proof. intros H. unfold cs_index. apply lsort_NoDup, NoDup_map_filter, H. Qed.

Lemma Yent_gen (n : network K) i j :
  (if label_eqb i j then py_node_analysis.admittance_connected_to K n i
   else - py_node_analysis.admittance_between K n i j) = Yent n i j.
Proof. unfold Yent, y_branches. rewrite admittance_connected_to_eq, admittance_between_eq. reflexivity. Qed.

Lemma between_sym i j (b : branch K) : between i j b = between j i b.
Proof. unfold between.
  destruct (label_eqb (node1 b) i), (label_eqb (node1 b) j), (label_eqb (node2 b) i), (label_eqb (node2 b) j),
    (label_eqb i (node1 b)), (label_eqb i (node2 b)), (label_eqb j (node1 b)), (label_eqb j (node2 b)); reflexivity. Qed.
Lemma admittance_between_sym (bs : list (branch K)) i j : admittance_between bs i j = admittance_between bs j i.
Proof. unfold admittance_between. rewrite (filter_ext (between i j) (between j i)) by (intros b; apply between_sym). reflexivity. Qed.

(* two shapes of the assembly loop are accepted: one loop over product(nodes, nodes) with the diagonal / off-diagonal
   rule, or a diagonal loop followed by a loop over combinations(nodes, 2) filling both symmetric entries *)
Theorem node_admittance_matrix_eq (n : network K) :
  py_node_analysis.node_admittance_matrix K n (py_label_mapping.default_node_mapper K)
  = {| a_cols := length (node_index n); a_rows := map (fun i => map (Yent n i) (node_index n)) (node_index n) |}.
Proof. unfold py_node_analysis.node_admittance_matrix.
  cbv zeta. rewrite (proj1 (default_mappers_eq K n)). unfold mapping_N, mapping_keys, mapping_index.
  first
  [ rewrite <- (fill_prod (node_index n) (node_index n) (Yent n) (node_index_NoDup n) (node_index_NoDup n));
    rewrite fold_left_map; apply fold_left_ext_in; intros M [a b] _; simpl; rewrite Yent_gen; reflexivity
  | apply (fill_diag_combos (node_index n) _ _ (fun a => admittance_connected_to (branches n) a)
             (fun a b => - admittance_between (branches n) a b) (Yent n) (node_index_NoDup n));
    [ intros M a; rewrite admittance_connected_to_eq; reflexivity
    | intros M a b; rewrite admittance_between_eq; reflexivity
    | intros a; unfold Yent, y_branches; rewrite label_eqb_refl; reflexivity
    | intros a b Hab; unfold Yent, y_branches; rewrite (label_eqb_neq a b Hab), (label_eqb_neq b a (not_eq_sym Hab)),
        (admittance_between_sym (branches n) b a); split; reflexivity ] ]. Qed.

(* the general form: earlier writes to (i, j) do not matter once a later one hits it *)
Lemma fill_entries_gen r c (ws : list write) (target : list (list K)) : wfm r c target ->
  (forall i j, i < r -> j < c ->
     (exists l1 l2, ws = l1 ++ l2 /\ (forall w, In w l2 -> hits i j w = true -> snd w = ent target i j) /\
                    (exists w, In w l2 /\ hits i j w = true)) \/
     ((forall w, In w ws -> hits i j w = false) /\ ent target i j = 0)) ->
  fold_left do_write ws (np_zeros2 r c) = {| a_cols := c; a_rows := target |}.
Proof. intros WT H. apply (arr_ext r c); [apply writes_wfa, wfa_zeros|exact WT|].
  intros i j Hi Hj. destruct (H i j Hi Hj) as [[l1 [l2 [-> [H1 [w [Hw Hh]]]]]]|[H1 H2]].
  - rewrite fold_left_app.
    rewrite (writes_ent r c l2 _ i j (ent target i j) (writes_wfa r c l1 _ (wfa_zeros r c)) Hi Hj H1).
    replace (existsb (hits i j) l2) with true; [reflexivity|].
    symmetry. apply existsb_exists. exists w. split; assumption.
  - rewrite (writes_ent r c ws _ i j 0 (wfa_zeros r c) Hi Hj).
    + rewrite ent2_zeros, H2. destruct (existsb _ _); reflexivity.
    + intros w Hw Hh. rewrite (H1 w Hw) in Hh. discriminate. Qed.

Lemma get_branch_Some (l : list (branch K)) id : In id (map bid l) -> exists b, get_branch l id = Some b /\ In b l /\ bid b = id.
Proof. induction l as [|a l IH]; simpl; [tauto|]. intros H.
  destruct (get_branch l id) as [b'|] eqn:G.
  - destruct (in_dec (list_eq_dec N.eq_dec) id (map bid l)) as [Hin|Hn].
    + destruct (IH Hin) as [b [Hb [Hb1 Hb2]]]. exists b. split; [exact Hb|]. split; [right; exact Hb1|exact Hb2].
    + rewrite (get_branch_None K l id Hn) in G. discriminate.
  - destruct H as [H|H].
    + exists a. rewrite <- H, label_eqb_refl. split; [reflexivity|]. split; [left; reflexivity|reflexivity].
    + destruct (IH H) as [b [Hb _]]. discriminate. Qed.

Lemma vs_index_branch (n : network K) v : In v (vs_index n) -> exists b, get_branch (branches n) v = Some b /\ In b (branches n).
Proof. intros H. unfold vs_index in H. apply lsort_In, in_map_iff in H. destruct H as [b [<- Hb]].
  apply filter_In in Hb. destruct (get_branch_Some (branches n) (bid b)) as [b' [G [Hb' _]]]; [apply in_map, Hb|].
  exists b'. split; assumption. Qed.

Lemma cs_index_branch (n : network K) c : NoDup (branch_ids n) -> In c (cs_index n) ->
  exists b, get_branch (branches n) c = Some b /\ In b (branches n) /\ is_current_source (el b) = true.
Proof. intros ND H. unfold cs_index in H. apply lsort_In, in_map_iff in H. destruct H as [b [<- Hb]].
  apply filter_In in Hb. destruct Hb as [Hb Hc]. exists b. split; [apply get_branch_In; assumption|]. split; assumption. Qed.

Lemma endpoint_in_ns (n : network K) b : In b (branches n) ->
  (node1 b <> zero n -> In (node1 b) (node_index n)) /\ (node2 b <> zero n -> In (node2 b) (node_index n)).
Proof. intros Hb. unfold node_index, node_labels. destruct (branches n) as [|b0 l] eqn:E; [destruct Hb|]. rewrite <- E in *.
  split; intros Hz; apply filter_In; (split; [|apply negb_true_iff, label_eqb_neq; exact Hz]);
  apply lsort_In, lsort_In, ldedup_In, in_or_app; [left|right]; apply in_map; exact Hb. Qed.

Lemma getitem_Some (n : network K) id b : get_branch (branches n) id = Some b -> py_network.Network___getitem__ K n id = Ok b.
Proof. intros H. rewrite getitem_eq, H. reflexivity. Qed.

Lemma hstack_map {A} (f g : A -> list K) l : hstack K (map f l) (map g l) = map (fun x => f x ++ g x) l.
Proof. unfold hstack. induction l as [|a l IH]; simpl; [reflexivity|]. rewrite IH. reflexivity. Qed.

Lemma zero_row_as_map {A} (l : list A) : zero_row K (length l) = map (fun _ => 0) l.
Proof. unfold zero_row. apply map_const_len. apply seq_length. Qed.

(* the voltage-source incidence block B[node, vs] *)
Theorem voltage_source_incidence_matrix_eq (n : network K) : NoDup (branch_ids n) ->
  py_node_analysis.voltage_source_incidence_matrix K n (py_label_mapping.default_node_mapper K)
    (py_label_mapping.alphabetic_voltage_source_mapper K)
  = Ok {| a_cols := length (vs_index n); a_rows := map (fun i => map (Bent n i) (vs_index n)) (node_index n) |}.
Proof. intros ND. unfold py_node_analysis.voltage_source_incidence_matrix. cbv zeta.
  rewrite (proj1 (default_mappers_eq K n)), alphabetic_voltage_source_mapper_eq.
  unfold mapping_N, mapping_keys, mapping_index. rewrite ?for_res_nested.
  rewrite (for_res_pure _ _ (fun M p => do_write M (true, lindex (node_index n) (fst p), lindex (vs_index n) (snd p), Bent n (fst p) (snd p)))).
  - cbv beta iota delta [bind]. f_equal.
    rewrite <- (fold_left_map do_write (fun p => (true, lindex (node_index n) (fst p), lindex (vs_index n) (snd p), Bent n (fst p) (snd p)))).
    apply fill_prod; [apply node_index_NoDup|apply vs_index_NoDup, ND].
  - intros M [i v] Hin. apply in_prod_iff in Hin. destruct Hin as [_ Hv]. cbn [fst snd].
    destruct (vs_index_branch n v Hv) as [b [G _]]. rewrite !(getitem_Some n v b G). simpl.
    unfold Bent, dir_of. rewrite G. destruct (label_eqb (node1 b) i); [reflexivity|].
    destruct (label_eqb (node2 b) i); reflexivity. Qed.

(* np.vstack((np.hstack((Y, B)), np.hstack((B.T, Z)))) *)
Lemma transpose_map_map (f : label -> label -> K) (R C : list label) :
  transpose (length C) (map (fun i => map (f i) C) R) = map (fun v => map (fun i => f i v) R) C.
Proof. unfold transpose. rewrite <- (map_seq_nth (fun v => map (fun i => f i v) R) C []).
  apply map_ext_in. intros k Hk. apply in_seq in Hk. unfold col. rewrite map_map. apply map_ext. intros i.
  unfold entry. apply nth_map_lt. lia. Qed.

Theorem nodal_analysis_coefficient_matrix_eq (n : network K) : NoDup (branch_ids n) ->
  py_node_analysis.nodal_analysis_coefficient_matrix K n (py_label_mapping.default_node_mapper K)
    (py_label_mapping.alphabetic_voltage_source_mapper K)
  = Ok {| a_cols := length (node_index n) + length (vs_index n); a_rows := mna_matrix n |}.
Proof. intros ND. unfold py_node_analysis.nodal_analysis_coefficient_matrix. cbv zeta.
  rewrite node_admittance_matrix_eq, (voltage_source_incidence_matrix_eq n ND). simpl.
  unfold np_vstack2, np_hstack2, np_T, np_zeros2, np_shape1; simpl. f_equal. unfold mna_matrix. f_equal.
  rewrite transpose_map_map.
  rewrite (map_const_len (zero_row K (length (vs_index n))) (seq 0 (length (vs_index n))) (vs_index n)) by apply seq_length.
  rewrite !hstack_map. rewrite zero_row_as_map. reflexivity. Qed.

(* ---------- the current-source incidence matrix Q[node, cs] ---------- *)
Section SourceIncidence.
Variable n : network K.
Hypothesis ND : NoDup (branch_ids n).
Notation ns := (node_index n).
Notation csl := (cs_index n).
Notation z := (zero n).

(* the (guarded) writes of one loop iteration, in program order: -1 at node1, then +1 at node2 *)
Definition cs_writes (c : label) : list write :=
  match get_branch (branches n) c with
  | Some b => [ (negb (label_eqb z (node1 b)), lindex ns (node1 b), lindex csl c, - (1));
                (negb (label_eqb z (node2 b)), lindex ns (node2 b), lindex csl c, 1) ]
  | None => []
  end.

Lemma ns_not_z x : In x ns -> x <> z.
Proof. unfold node_index. intros H. apply filter_In in H. destruct H as [_ H]. apply negb_true_iff in H.
  intros ->. rewrite label_eqb_refl in H. discriminate. Qed.

Lemma enabled_in_ns x : negb (label_eqb z x) = true -> (x <> z -> In x ns) -> In x ns.
Proof. intros E H. apply H. intros ->. rewrite label_eqb_refl in E. discriminate. Qed.

Lemma hit_node x i : negb (label_eqb z x) = true -> (x <> z -> In x ns) -> lindex ns x = i -> x = nth i ns [].
Proof. intros E H <-. symmetry. apply nth_lindex, (enabled_in_ns x E H). Qed.

Lemma cs_writes_col c i j w : In c csl -> In w (cs_writes c) -> hits i j w = true -> c = nth j csl [].
Proof. intros Hc Hw Hh. unfold cs_writes in Hw. destruct (get_branch (branches n) c) as [b|]; [|destruct Hw].
  assert (lindex csl c = j).
  { destruct Hw as [<-|[<-|[]]]; simpl in Hh; apply andb_true_iff in Hh; destruct Hh as [_ Hh]; apply Nat.eqb_eq, Hh. }
  subst j. symmetry. apply nth_lindex, Hc. Qed.

Lemma source_incidence_fill :
  fold_left do_write (flat_map cs_writes csl) (np_zeros2 (length ns) (length csl))
  = {| a_cols := length csl; a_rows := map (fun i => map (Qent n i) csl) ns |}.
Proof. pose proof (node_index_NoDup n) as NDn. pose proof (cs_index_NoDup n ND) as NDc.
  apply fill_entries_gen; [apply wfm_map_map|]. intros i j Hi Hj.
  rewrite (ent_map_map (Qent n) ns csl i j [] []) by assumption.
  set (node := nth i ns []). set (c0 := nth j csl []).
  assert (Hnode : In node ns) by (apply nth_In; exact Hi).
  assert (Hc0 : In c0 csl) by (apply nth_In; exact Hj).
  destruct (cs_index_branch n c0 ND Hc0) as [b0 [G0 [Hb0 _]]].
  destruct (endpoint_in_ns n b0 Hb0) as [E1 E2].
  destruct (in_split _ _ Hc0) as [pre [post Hsplit]].
  assert (Hpost : ~ In c0 post).
  { rewrite Hsplit in NDc. apply NoDup_remove_2 in NDc. intros H. apply NDc, in_or_app. right. exact H. }
  assert (Hother : forall w, In w (flat_map cs_writes post) -> hits i j w = true -> False).
  { intros w Hw Hh. apply in_flat_map in Hw. destruct Hw as [c [Hc Hw]]. apply Hpost.
    assert (In c csl) by (rewrite Hsplit; apply in_or_app; right; right; exact Hc).
    pose proof (cs_writes_col c i j w H Hw Hh) as Ec. fold c0 in Ec. subst c. exact Hc. }
  assert (Hw0 : cs_writes c0 = [ (negb (label_eqb z (node1 b0)), lindex ns (node1 b0), lindex csl c0, - (1));
                                  (negb (label_eqb z (node2 b0)), lindex ns (node2 b0), lindex csl c0, 1) ]).
  { unfold cs_writes. rewrite G0. reflexivity. }
  assert (Hflat : flat_map cs_writes csl = flat_map cs_writes pre ++ cs_writes c0 ++ flat_map cs_writes post).
  { rewrite Hsplit at 1. rewrite flat_map_app. reflexivity. }
  assert (Hj0 : lindex csl c0 = j) by (apply lindex_nth; assumption).
  assert (Hi0 : lindex ns node = i) by (apply lindex_nth; assumption).
  assert (Hen : forall x, x = node -> negb (label_eqb z x) = true).
  { intros x ->. apply negb_true_iff, label_eqb_neq. intros H. apply (ns_not_z node Hnode). symmetry. exact H. }
  unfold Qent. rewrite G0.
  destruct (label_eqb_spec (node2 b0) node) as [N2|N2].
  - left. exists (flat_map cs_writes pre ++ [(negb (label_eqb z (node1 b0)), lindex ns (node1 b0), lindex csl c0, - (1))]),
      ((negb (label_eqb z (node2 b0)), lindex ns (node2 b0), lindex csl c0, 1) :: flat_map cs_writes post).
    split; [rewrite Hflat, Hw0, <- app_assoc; reflexivity|]. split.
    + intros w [<-|Hw] Hh; [reflexivity|]. destruct (Hother w Hw Hh).
    + eexists. split; [left; reflexivity|]. simpl. rewrite (Hen _ N2), N2, Hi0, Hj0, !Nat.eqb_refl. reflexivity.
  - destruct (label_eqb_spec (node1 b0) node) as [N1|N1].
    + left. exists (flat_map cs_writes pre), (cs_writes c0 ++ flat_map cs_writes post).
      split; [exact Hflat|]. split.
      * intros w Hw Hh. apply in_app_or in Hw. destruct Hw as [Hw|Hw]; [|destruct (Hother w Hw Hh)].
        rewrite Hw0 in Hw. destruct Hw as [<-|[<-|[]]]; [reflexivity|]. exfalso. simpl in Hh.
        apply andb_true_iff in Hh. destruct Hh as [Hh _]. apply andb_true_iff in Hh. destruct Hh as [He Hh].
        apply Nat.eqb_eq in Hh. apply N2. apply (hit_node _ i He E2 Hh).
      * eexists. split; [apply in_or_app; left; rewrite Hw0; left; reflexivity|].
        simpl. rewrite (Hen _ N1), N1, Hi0, Hj0, !Nat.eqb_refl. reflexivity.
    + right. split; [|reflexivity]. intros w Hw. destruct (hits i j w) eqn:Hh; [exfalso|reflexivity].
      apply in_flat_map in Hw. destruct Hw as [c [Hc Hw]]. pose proof (cs_writes_col c i j w Hc Hw Hh) as Ec. fold c0 in Ec. subst c.
      rewrite Hw0 in Hw. destruct Hw as [<-|[<-|[]]]; simpl in Hh;
      apply andb_true_iff in Hh; destruct Hh as [Hh _]; apply andb_true_iff in Hh; destruct Hh as [He Hh]; apply Nat.eqb_eq in Hh.
      * apply N1. apply (hit_node _ i He E1 Hh).
      * apply N2. apply (hit_node _ i He E2 Hh). Qed.

Theorem source_incidence_matrix_eq_ :
  py_node_analysis.source_incidence_matrix K n (py_label_mapping.default_node_mapper K)
    (py_label_mapping.alphabetic_current_source_mapper K)
  = Ok {| a_cols := length csl; a_rows := map (fun i => map (Qent n i) csl) ns |}.
Proof. unfold py_node_analysis.source_incidence_matrix. cbv zeta.
  rewrite (proj1 (default_mappers_eq K n)), alphabetic_current_source_mapper_eq.
  unfold mapping_N, mapping_keys, mapping_index.
  rewrite (for_res_pure _ _ (fun M c => fold_left do_write (cs_writes c) M)).
  - cbv beta iota delta [bind]. f_equal. rewrite <- fold_left_flat_map. apply source_incidence_fill.
  - intros M c Hc. destruct (cs_index_branch n c ND Hc) as [b [G [Hb _]]].
    destruct (endpoint_in_ns n b Hb) as [E1 E2].
    rewrite !(getitem_Some n c b G). unfold cs_writes. rewrite G.
    cbv beta iota zeta delta [for_res]. cbv beta iota zeta delta [bind fold_left do_write].
    destruct (negb (label_eqb z (node1 b))) eqn:C1; destruct (negb (label_eqb z (node2 b))) eqn:C2;
      try rewrite (mapping_item_in ns (node1 b)) by (apply (enabled_in_ns _ C1 E1));
      try rewrite (mapping_item_in ns (node2 b)) by (apply (enabled_in_ns _ C2 E2));
      cbv beta iota zeta delta [bind]; reflexivity. Qed.
End SourceIncidence.

(* ---------- the right-hand side ---------- *)
Lemma dot_map_map {A} (f g : A -> K) l : dot (map f l) (map g l) = sumF (fun x => f x * g x) l.
Proof. unfold dot. induction l as [|a l IH]; simpl; [reflexivity|]. rewrite IH. reflexivity. Qed.

Theorem current_source_vector_eq (n : network K) : NoDup (branch_ids n) ->
  py_node_analysis.current_source_vector K n (py_label_mapping.alphabetic_current_source_mapper K)
  = Ok (map (branch_I n) (cs_index n)).
Proof. intros ND. unfold py_node_analysis.current_source_vector. cbv zeta.
  rewrite alphabetic_current_source_mapper_eq. unfold mapping_filter_res.
  rewrite (filter_res_pure _ (fun _ => true)).
  - cbv beta iota delta [bind]. rewrite (filter_all_true (fun _ => true)) by reflexivity.
    unfold fmapping_keys. rewrite combine_map_fst_seq. apply map_res_pure.
    intros c Hc. destruct (cs_index_branch n c ND Hc) as [b [G _]]. rewrite (getitem_Some n c b G).
    cbv beta iota delta [bind]. unfold branch_I. rewrite G, get_I_eq. reflexivity.
  - intros [c k] Hin. apply in_combine_l in Hin. simpl.
    destruct (cs_index_branch n c ND Hin) as [b [G [_ Hcs]]]. rewrite (getitem_Some n c b G).
    cbv beta iota delta [bind]. rewrite is_current_source_eq, Hcs. reflexivity. Qed.

Theorem current_source_incidence_vector_eq (n : network K) : NoDup (branch_ids n) ->
  py_node_analysis.current_source_incidence_vector K n (py_label_mapping.default_node_mapper K)
    (py_label_mapping.alphabetic_current_source_mapper K)
  = Ok (map (fun i => sumF (fun cs => Qent n i cs * branch_I n cs) (cs_index n)) (node_index n)).
Proof. intros ND. unfold py_node_analysis.current_source_incidence_vector. cbv zeta.
  rewrite (source_incidence_matrix_eq_ n ND), (current_source_vector_eq n ND). cbv beta iota delta [bind].
  f_equal. unfold np_matvec, mat_vec; simpl. rewrite map_map. apply map_ext. intros i. apply dot_map_map. Qed.

Theorem nodal_analysis_constants_vector_eq (n : network K) : NoDup (branch_ids n) ->
  py_node_analysis.nodal_analysis_constants_vector K n (py_label_mapping.default_node_mapper K)
    (py_label_mapping.alphabetic_current_source_mapper K) (py_label_mapping.alphabetic_voltage_source_mapper K)
  = Ok (mna_rhs n).
Proof. intros ND. unfold py_node_analysis.nodal_analysis_constants_vector. cbv zeta.
  rewrite (current_source_incidence_vector_eq n ND), alphabetic_voltage_source_mapper_eq. cbv beta iota delta [bind].
  unfold mapping_keys. rewrite (map_res_pure _ (branch_V n)); [reflexivity|].
  intros v Hv. destruct (vs_index_branch n v Hv) as [b [G _]]. rewrite (getitem_Some n v b G).
  cbv beta iota delta [bind]. unfold branch_V. rewrite G, get_V_eq. reflexivity. Qed.

(* ====================== node_analysis.py: the port functions ====================== *)
Lemma existsb_id_map {A} (f : A -> bool) l : existsb (fun c => c) (map f l) = existsb f l.
Proof. induction l as [|a l IH]; simpl; [reflexivity|]. rewrite IH. reflexivity. Qed.

Lemma existsb_ext' {A} (f g : A -> bool) l : (forall a, f a = g a) -> existsb f l = existsb g l.
Proof. intros H. induction l as [|a l IH]; simpl; [reflexivity|]. rewrite H, IH. reflexivity. Qed.

Lemma mk_NoDup (bs : list (branch K)) zl np : mk bs zl = Ok np -> NoDup (branch_ids np).
Proof. unfold mk. intros H. apply validate_ok in H. destruct H as [-> [H _]]. exact H. Qed.

Theorem open_circuit_impedance_eq (n : network K) n1 n2 :
  py_node_analysis.open_circuit_impedance K n n1 n2 (py_label_mapping.default_node_mapper K)
  = open_circuit_impedance n n1 n2.
Proof. unfold py_node_analysis.open_circuit_impedance, open_circuit_impedance.
  unfold py_node_analysis.nodal_analysis_coefficient_matrix__default_source_mapper,
    py_node_analysis.nodal_analysis_constants_vector__default_current_source_mapper,
    py_node_analysis.nodal_analysis_constants_vector__default_voltage_source_mapper.
  destruct (label_eqb n1 n2); [reflexivity|].
  rewrite existsb_id_map, branches_between_eq.
  rewrite (existsb_ext' (fun b => py_elements.is_ideal_voltage_source K (el b)) (fun b => is_ideal_voltage_source (el b)))
    by (intros b; apply is_ideal_voltage_source_eq).
  fold (ideal_source_between n n1 n2). destruct (ideal_source_between n n1 n2); [reflexivity|].
  unfold deactivate. rewrite short_circuitify_voltage_sources_eq.
  change (py_transformers.short_circuitify_voltage_sources__default_keep K) with (@nil (elem K)).
  destruct (short_circuitify_voltage_sources n []) as [m1|e]; simpl; [|reflexivity].
  rewrite open_circuitify_current_sources_eq.
  change (py_transformers.open_circuitify_current_sources__default_keep K) with (@nil (elem K)).
  destruct (open_circuitify_current_sources m1 []) as [m|e]; simpl; [|reflexivity].
  rewrite Network_new_eq, branch_ids_eq, current_source_eq. unfold attach_probe, probe_branch, probe_id.
  unfold while_in_append. rewrite (while_in_append_eq _ _ (branch_ids m)).
  change (py_elements.current_source__default_Y K) with 0.
  change [112%N; 114%N; 111%N; 98%N; 101%N] with probe_base.
  destruct (mk _ n2) as [np|e] eqn:V; simpl; [|reflexivity].
  pose proof (mk_NoDup _ _ _ V) as ND.
  rewrite (nodal_analysis_coefficient_matrix_eq np ND), (nodal_analysis_constants_vector_eq np ND). simpl.
  rewrite (proj1 (default_mappers_eq K np)). unfold port_solve, mapping_item.
  destruct (lmem n1 (node_index np)); simpl; [|reflexivity].
  unfold bvec_item, np_any_axis1; simpl.
  destruct (nth (lindex (node_index np) n1) (map row_connected (mna_matrix np)) false); simpl; [|reflexivity].
  unfold np_linalg_solve, np_ix, vec_mask; simpl.
  destruct (solve _ _); reflexivity. Qed.

Theorem element_impedance_eq (n : network K) id :
  py_node_analysis.element_impedance K n id (py_label_mapping.default_node_mapper K) = element_impedance n id.
Proof. unfold py_node_analysis.element_impedance, element_impedance. rewrite remove_element_eq.
  destruct (remove_element n id) as [m|e]; simpl; [|reflexivity].
  rewrite getitem_eq. destruct (get_branch (branches n) id) as [b|]; simpl; [|reflexivity].
  apply open_circuit_impedance_eq. Qed.

(* the default values of the mapper parameters *)
Lemma node_analysis_defaults :
  py_node_analysis.node_admittance_matrix__default_node_index_mapper K = py_label_mapping.default_node_mapper K /\
  py_node_analysis.voltage_source_incidence_matrix__default_node_mapper K = py_label_mapping.default_node_mapper K /\
  py_node_analysis.voltage_source_incidence_matrix__default_source_mapper K = py_label_mapping.alphabetic_voltage_source_mapper K /\
  py_node_analysis.nodal_analysis_coefficient_matrix__default_node_mapper K = py_label_mapping.default_node_mapper K /\
  py_node_analysis.nodal_analysis_coefficient_matrix__default_source_mapper K = py_label_mapping.alphabetic_voltage_source_mapper K /\
  py_node_analysis.source_incidence_matrix__default_node_mapper K = py_label_mapping.default_node_mapper K /\
  py_node_analysis.source_incidence_matrix__default_source_mapper K = py_label_mapping.alphabetic_current_source_mapper K /\
  py_node_analysis.current_source_vector__default_source_mapper K = py_label_mapping.alphabetic_current_source_mapper K /\
  py_node_analysis.current_source_incidence_vector__default_node_mapper K = py_label_mapping.default_node_mapper K /\
  py_node_analysis.current_source_incidence_vector__default_source_mapper K = py_label_mapping.alphabetic_current_source_mapper K /\
  py_node_analysis.nodal_analysis_constants_vector__default_node_mapper K = py_label_mapping.default_node_mapper K /\
  py_node_analysis.nodal_analysis_constants_vector__default_current_source_mapper K = py_label_mapping.alphabetic_current_source_mapper K /\
  py_node_analysis.nodal_analysis_constants_vector__default_voltage_source_mapper K = py_label_mapping.alphabetic_voltage_source_mapper K /\
  py_node_analysis.open_circuit_impedance__default_node_index_mapper K = py_label_mapping.default_node_mapper K /\
  py_node_analysis.element_impedance__default_node_index_mapper K = py_label_mapping.default_node_mapper K.
Proof. repeat split; reflexivity. Qed.

End MatrixGen.

(* the two halves together: what the bias-point solver solves *)
Lemma solver_system_eq (K : fops) (KOK : fops_ok K) (n n' : network K) : validate n = Ok n' ->
  bind (py_node_analysis.nodal_analysis_coefficient_matrix K n' (py_label_mapping.default_node_mapper K)
          (py_label_mapping.alphabetic_voltage_source_mapper K)) (fun A =>
  bind (py_node_analysis.nodal_analysis_constants_vector K n' (py_label_mapping.default_node_mapper K)
          (py_label_mapping.alphabetic_current_source_mapper K) (py_label_mapping.alphabetic_voltage_source_mapper K)) (fun b =>
  match np_linalg_solve A b with Some x => Ok {| s_net := n'; s_x := x |} | None => Err ESingular end))
  = solve_network n.
Proof. intros V. destruct (validate_ok K n n' V) as [-> [ND _]].
  rewrite (nodal_analysis_coefficient_matrix_eq K KOK n ND), (nodal_analysis_constants_vector_eq K n ND).
  unfold solve_network, assemble_check. rewrite V. reflexivity. Qed.

Lemma constructed_nodup (K : fops) (bs : list (branch K)) (z : label) (n : network K) :
  py_network.Network__new K bs z = Ok n -> NoDup (branch_ids n).
Proof. rewrite Network_new_eq. apply mk_NoDup. Qed.

Arguments wfa {K}. Arguments ent2 {K}. Arguments do_write {K}. Arguments hits {K}.
