(* Theory/MultiFreq.v — the multi-frequency analyses of Circuit/solution.py (TimeDomainSolution, FrequencyDomainSolution):
   1. the analysed frequency list  frequency_components(circuit, w_max)  (Model/Circuit.v): sorted, duplicate-free, and
      exactly the union of what each component contributes; what each component contributes; the list merges bit-equal
      values only (two sources closer than the frequency resolution stay two entries — a recorded finding);
   2. the time functions  sum_k |X_k| cos(w_k t + arg X_k)  in algebraic form ( (c_k, s_k) = (cos w_k t, sin w_k t) are
      arbitrary reals ): linear in the phasors, Kirchhoff's current law at every instant, superposition;
   3. the spectral lines: one-sided = the peak phasors of the single-frequency analysis; the mirrored two-sided spectrum
      reconstructs the same time function. *)
From Coq Require Import List Bool NArith ZArith Arith String Lia Field Ring Sorted Permutation.
From CC Require Import Theory.Field Theory.Complex Theory.Labels Model.Network Theory.Spec Theory.Tellegen Theory.Ordered
  Theory.Linearity Model.Circuit Theory.CircuitThm.
Import ListNotations.

(* [leb] is a total order on the carrier (equality = Leibniz equality, which [feqb] decides by [fops_ok]) ... *)
Record leb_ok (R : fops) (leb : R -> R -> bool) : Prop := {
  leb_total : forall x y : R, leb x y = true \/ leb y x = true;
  leb_trans : forall x y z : R, leb x y = true -> leb y z = true -> leb x z = true;
  leb_antisym : forall x y : R, leb x y = true -> leb y x = true -> x = y
}.
(* ... compatible with the field operations (needed only where products are compared: floor, mirrored spectrum) *)
Record oleb_ok (R : fops) (leb : R -> R -> bool) : Prop := {
  oleb_order : leb_ok R leb;
  leb_add : forall x y z : R, leb x y = true -> leb (fadd R x z) (fadd R y z) = true;
  leb_mul : forall x y z : R, leb (f0 R) z = true -> leb x y = true -> leb (fmul R x z) (fmul R y z) = true
}.

Lemma bind_res_ok {A B} (r : res A) (f : A -> res B) b : bind r f = Ok b -> exists a, r = Ok a /\ f a = Ok b.
Proof. destruct r as [a|e]; simpl; [eauto|discriminate]. Qed.

(* ====================================================================================================== *)
(* 1. the frequency list                                                                                   *)
(* ====================================================================================================== *)
Section FreqList.
Variable R : fops.
Hypothesis ROK : fops_ok R.
Variable leb : R -> R -> bool.
Hypothesis LOK : leb_ok R leb.
Variable ofZ : Z -> R.
Variable flr : R -> Z.
Add Field Rf9 : (Kth R ROK).
Notation "0" := (f0 R). Notation "1" := (f1 R).
Infix "+" := (fadd R). Infix "*" := (fmul R). Infix "-" := (fsub R). Notation "- x" := (fopp R x).
Infix "/" := (fdiv R).
Ltac feq x y := destruct (feqb_spec ROK x y).
Notation comp := (comp R).
Notation rinsert := (rinsert R leb).
Notation rsort_dedup := (rsort_dedup R leb).
Notation comp_frequencies := (comp_frequencies R ofZ flr).
Notation frequency_components := (frequency_components R leb ofZ flr).

(* strictly below *)
Definition ltR (x y : R) : Prop := leb x y = true /\ x <> y.
(* strictly increasing: every entry strictly below every later one *)
Definition increasing (l : list R) : Prop := StronglySorted ltR l.

Lemma leb_refl x : leb x x = true.
Proof. destruct (leb_total R leb LOK x x); assumption. Qed.

Lemma ltR_trans x y z : ltR x y -> ltR y z -> ltR x z.
Proof. intros [L1 N1] [L2 N2]. split; [exact (leb_trans R leb LOK x y z L1 L2)|].
  intros ->. apply N1. apply (leb_antisym R leb LOK); assumption. Qed.

Lemma ltR_irrefl x : ~ ltR x x.
Proof. intros [_ N]. apply N. reflexivity. Qed.

Lemma increasing_NoDup l : increasing l -> NoDup l.
Proof. induction 1 as [|a l S IH F]; constructor; [|exact IH].
  intros Hin. rewrite Forall_forall in F. exact (ltR_irrefl a (F a Hin)). Qed.

Lemma increasing_sorted l : increasing l -> Sorted (fun x y => leb x y = true) l.
Proof. intros S. apply StronglySorted_Sorted.
  induction S as [|a l S IH F]; constructor; [exact IH|].
  revert F. apply Forall_impl. intros b [Hb _]. exact Hb. Qed.

Lemma rinsert_In x l w : In w (rinsert x l) <-> w = x \/ In w l.
Proof. induction l as [|y r IH]; simpl.
  - split; [intros [E|[]]; left; symmetry; exact E|intros [E|[]]; left; symmetry; exact E].
  - feq x y.
    + subst y. simpl. split; [intros H; right; exact H|]. intros [E|H]; [left; symmetry; exact E|exact H].
    + destruct (leb x y) eqn:L; simpl.
      * split; [intros [E|H]; [left; symmetry; exact E|right; exact H]|intros [E|H]; [left; symmetry; exact E|right; exact H]].
      * rewrite IH. split; [intros [H|[H|H]]; auto|intros [H|[H|H]]; auto]. Qed.

Lemma rinsert_increasing x l : increasing l -> increasing (rinsert x l).
Proof. induction l as [|y r IH]; intros S; simpl.
  - constructor; constructor.
  - apply StronglySorted_inv in S. destruct S as [Sr Fy].
    feq x y.
    + constructor; assumption.
    + destruct (leb x y) eqn:L.
      * constructor; [constructor; assumption|]. constructor; [split; assumption|].
        rewrite Forall_forall in Fy |- *. intros z Hz. apply (ltR_trans x y z); [split; assumption|exact (Fy z Hz)].
      * constructor; [exact (IH Sr)|]. rewrite Forall_forall in Fy |- *. intros z Hz. apply rinsert_In in Hz.
        destruct Hz as [->|Hz]; [|exact (Fy z Hz)]. split.
        -- destruct (leb_total R leb LOK x y) as [T|T]; [rewrite T in L; discriminate|exact T].
        -- intros E. apply n. symmetry. exact E. Qed.

Lemma rsort_dedup_In l w : In w (rsort_dedup l) <-> In w l.
Proof. unfold Circuit.rsort_dedup. induction l as [|x l IH]; simpl; [reflexivity|]. rewrite rinsert_In, IH.
  split; intros [H|H]; auto. Qed.

Lemma rsort_dedup_increasing l : increasing (rsort_dedup l).
Proof. unfold Circuit.rsort_dedup. induction l as [|x l IH]; simpl; [constructor|]. apply rinsert_increasing. exact IH. Qed.

(* an increasing list is determined by its members *)
Lemma increasing_unique l l' : increasing l -> increasing l' -> (forall w, In w l <-> In w l') -> l = l'.
Proof. intros S. revert l'. induction S as [|a l S IH F]; intros l' S' E.
  - destruct l' as [|b l']; [reflexivity|]. exfalso. apply (proj2 (E b)). left. reflexivity.
  - destruct S' as [|b l' S' F']; [exfalso; apply (proj1 (E a)); left; reflexivity|].
    rewrite Forall_forall in F, F'.
    assert (Eab : a = b).
    { destruct (proj1 (E a) (or_introl eq_refl)) as [Hb|Hb]; [symmetry; exact Hb|].
      destruct (proj2 (E b) (or_introl eq_refl)) as [Ha|Ha]; [exact Ha|].
      exfalso. exact (ltR_irrefl a (ltR_trans a b a (F b Ha) (F' a Hb))). }
    subst b. f_equal. apply IH; [exact S'|]. intros w. split; intros Hw.
    + destruct (proj1 (E w) (or_intror Hw)) as [Hb|Hb]; [|exact Hb]. subst w. exfalso. exact (ltR_irrefl a (F a Hw)).
    + destruct (proj2 (E w) (or_intror Hw)) as [Hb|Hb]; [|exact Hb]. subst w. exfalso. exact (ltR_irrefl a (F' a Hw)). Qed.

Theorem freq_list cs wmax l : frequency_components cs wmax = Ok l ->
  increasing l
  /\ (forall w, In w l <-> exists c ws, In c cs /\ comp_frequencies c wmax = Ok ws /\ In w ws).
Proof. unfold Circuit.frequency_components. intros H. apply bind_res_ok in H. destruct H as [ls [M H]].
  injection H as <-. split; [apply rsort_dedup_increasing|]. intros w. rewrite rsort_dedup_In, in_concat.
  apply mapM_ok in M. split.
  - intros [ws [Hws Hw]]. destruct (Forall2_In_r _ _ _ ws M Hws) as [c [Hc Hcw]]. exists c, ws. auto.
  - intros [c [ws [Hc [Hcw Hw]]]]. destruct (Forall2_In_l _ _ _ c M Hc) as [ws' [Hws' Hcw']].
    rewrite Hcw in Hcw'. injection Hcw' as <-. exists ws. auto. Qed.

(* the list is the only increasing enumeration of that set *)
Corollary freq_list_unique cs wmax l l' : frequency_components cs wmax = Ok l -> increasing l' ->
  (forall w, In w l' <-> exists c ws, In c cs /\ comp_frequencies c wmax = Ok ws /\ In w ws) -> l' = l.
Proof. intros H S' E. destruct (freq_list cs wmax l H) as [S E']. apply increasing_unique; [exact S'|exact S|].
  intros w. rewrite E, E'. reflexivity. Qed.

(* it fails exactly when some component's own list fails (a periodic source with w = 0) *)
Lemma freq_list_total cs wmax : (forall c, In c cs -> exists ws, comp_frequencies c wmax = Ok ws) ->
  exists l, frequency_components cs wmax = Ok l.
Proof. intros H. destruct (mapM_total (fun c => comp_frequencies c wmax) cs H) as [ls [M _]].
  unfold Circuit.frequency_components. rewrite M. simpl. eauto. Qed.

(* ---- what a component contributes ---- *)
Definition has_w (c : comp) (w : R) : Prop := vlook R (cvals c) (lbl "w") = Some w.
Definition no_w (c : comp) : Prop := vlook R (cvals c) (lbl "w") = None.

Lemma cf_none c wmax : no_w c -> comp_frequencies c wmax = Ok [].
Proof. unfold no_w, Circuit.comp_frequencies. intros ->. reflexivity. Qed.

Lemma cf_single c wmax w : has_w c w -> is_periodic R c = false -> comp_frequencies c wmax = Ok [w].
Proof. unfold has_w, Circuit.comp_frequencies. intros -> ->. reflexivity. Qed.

Lemma cf_periodic_zero c wmax : has_w c 0 -> is_periodic R c = true -> comp_frequencies c wmax = Err EZeroDivision.
Proof. unfold has_w, Circuit.comp_frequencies. intros -> ->. rewrite (feqb_refl ROK). reflexivity. Qed.

Definition harmonics (w0 : R) (nmax : Z) : list R :=
  map (fun k => w0 * ofZ (Z.of_nat k)) (seq O (Z.to_nat (nmax + 1))).

Lemma harmonics_In w0 nmax w : In w (harmonics w0 nmax) <-> exists k : Z, (0 <= k <= nmax)%Z /\ w = w0 * ofZ k.
Proof. unfold harmonics. rewrite in_map_iff. split.
  - intros [k [E Hk]]. apply in_seq in Hk. exists (Z.of_nat k). split; [lia|symmetry; exact E].
  - intros [k [Hk E]]. exists (Z.to_nat k). rewrite Z2Nat.id by lia. split; [symmetry; exact E|].
    apply in_seq. lia. Qed.

Lemma cf_periodic c wmax w0 : has_w c w0 -> is_periodic R c = true -> w0 <> 0 ->
  comp_frequencies c wmax = Ok (harmonics w0 (flr (wmax / w0))).
Proof. unfold has_w, Circuit.comp_frequencies. intros -> -> N. feq w0 0; [contradiction|]. reflexivity. Qed.

(* ---- with an ordered field and the floor function: the harmonics  k*w0 <= wmax,  k = 0 included ---- *)
Hypothesis OOK : oleb_ok R leb.
Definition flr_ok : Prop := forall (x : R) (k : Z), (k <= flr x)%Z <-> leb (ofZ k) x = true.

Lemma leb_0_1 : leb 0 1 = true.
Proof. destruct (leb_total R leb LOK 0 1) as [T|T]; [exact T|].
  pose proof (leb_add R leb OOK 1 0 (- (1)) T) as H.
  replace (1 + - (1)) with 0 in H by ring. replace (0 + - (1)) with (- (1)) in H by ring.
  pose proof (leb_mul R leb OOK 0 (- (1)) (- (1)) H H) as H2.
  replace (0 * - (1)) with 0 in H2 by ring. replace (- (1) * - (1)) with 1 in H2 by ring. exact H2. Qed.

Lemma pos_nz w : leb w 0 = false -> w <> 0.
Proof. intros H E. subst w. rewrite leb_refl in H. discriminate. Qed.

Lemma pos_leb w : leb w 0 = false -> leb 0 w = true.
Proof. intros H. destruct (leb_total R leb LOK 0 w) as [T|T]; [exact T|congruence]. Qed.

Lemma inv_pos w : leb w 0 = false -> leb 0 (1 / w) = true.
Proof. intros P. pose proof (pos_nz w P) as N. pose proof (pos_leb w P) as L.
  destruct (leb_total R leb LOK 0 (1 / w)) as [T|T]; [exact T|].
  pose proof (leb_mul R leb OOK (1 / w) 0 w L T) as H.
  replace (1 / w * w) with 1 in H by (field; exact N). replace (0 * w) with 0 in H by ring.
  exfalso. apply (f1_neq_0 ROK). apply (leb_antisym R leb LOK); [exact H|exact leb_0_1]. Qed.

Lemma leb_div a b w : leb w 0 = false -> (leb a (b / w) = true <-> leb (w * a) b = true).
Proof. intros P. pose proof (pos_nz w P) as N. split; intros H.
  - pose proof (leb_mul R leb OOK a (b / w) w (pos_leb w P) H) as H2.
    replace (a * w) with (w * a) in H2 by ring. replace (b / w * w) with b in H2 by (field; exact N). exact H2.
  - pose proof (leb_mul R leb OOK (w * a) b (1 / w) (inv_pos w P) H) as H2.
    replace (w * a * (1 / w)) with a in H2 by (field; exact N).
    replace (b * (1 / w)) with (b / w) in H2 by (field; exact N). exact H2. Qed.

Lemma cf_periodic_floor c wmax w0 : flr_ok -> has_w c w0 -> is_periodic R c = true -> leb w0 0 = false ->
  exists ws, comp_frequencies c wmax = Ok ws
    /\ forall w, In w ws <-> exists k : Z, (0 <= k)%Z /\ w = w0 * ofZ k /\ leb w wmax = true.
Proof. intros FL Hw Hp P. exists (harmonics w0 (flr (wmax / w0))). split; [exact (cf_periodic c wmax w0 Hw Hp (pos_nz w0 P))|].
  intros w. rewrite harmonics_In. split.
  - intros [k [[H0 Hk] E]]. exists k. split; [exact H0|]. split; [exact E|]. subst w.
    apply (leb_div (ofZ k) wmax w0 P). apply FL. exact Hk.
  - intros [k [H0 [E L]]]. exists k. split; [|exact E]. split; [exact H0|]. subst w. apply FL.
    apply (leb_div (ofZ k) wmax w0 P). exact L. Qed.

End FreqList.

Arguments ltR {R}. Arguments increasing {R}. Arguments has_w {R}. Arguments no_w {R}. Arguments harmonics {R}.
Arguments flr_ok {R}.

(* ====================================================================================================== *)
(* 2. time functions                                                                                       *)
(* ====================================================================================================== *)
Section TimeFn.
Variable R : fops.
Hypothesis ROK : fops_ok R.
Add Field Rf10 : (Kth R ROK).
Notation C := (Cx R).
Notation "0" := (f0 R). Notation "1" := (f1 R).
Infix "+" := (fadd R). Infix "*" := (fmul R). Infix "-" := (fsub R). Notation "- x" := (fopp R x).
Infix "/" := (fdiv R).

(* one harmonic at one instant: Re (X * (c + j s)) with (c, s) = (cos w t, sin w t) *)
Definition tf_term (cs : R * R) (X : C) : R := re X * fst cs - im X * snd cs.
(* TimeDomainSolution.get_*:  sum_k |X_k| cos(w_k t + arg X_k)  at one instant *)
Definition tf (cst : list (R * R)) (X : list C) : R := sumF (fun p => tf_term (fst p) (snd p)) (combine cst X).

(* |X| cos(wt + arg X) = |X| (cos wt cos arg X - sin wt sin arg X) *)
Lemma tf_polar (r ca sa c s : R) (X : C) : X = (r * ca, r * sa) -> r * (c * ca - s * sa) = re X * c - im X * s.
Proof. intros ->. unfold re, im. cbn [fst snd]. ring. Qed.

Lemma tf_term_re_mul (c s : R) (X : C) : tf_term (c, s) X = re (fmul C X (c, s)).
Proof. unfold tf_term, re, im. destruct X as [a b]. reflexivity. Qed.

Lemma tf_term_add cs (X Y : C) : tf_term cs (fadd C X Y) = tf_term cs X + tf_term cs Y.
Proof. unfold tf_term, re, im. destruct X, Y. cbn. ring. Qed.
Lemma tf_term_scal cs (a : R) (X : C) : tf_term cs (fmul C (a, 0) X) = a * tf_term cs X.
Proof. unfold tf_term, re, im. destruct X. cbn. ring. Qed.
Lemma tf_term_0 cs : tf_term cs (f0 C) = 0.
Proof. unfold tf_term, re, im. cbn. ring. Qed.

(* real and imaginary part of a complex finite sum *)
Lemma re_sumF {A} (f : A -> C) l : re (sumF (K:=C) f l) = sumF (K:=R) (fun x => re (f x)) l.
Proof. induction l as [|x l IH]; [reflexivity|]. cbn [sumF]. rewrite <- IH. reflexivity. Qed.
Lemma im_sumF {A} (f : A -> C) l : im (sumF (K:=C) f l) = sumF (K:=R) (fun x => im (f x)) l.
Proof. induction l as [|x l IH]; [reflexivity|]. cbn [sumF]. rewrite <- IH. reflexivity. Qed.
Lemma tf_term_sumF {A} cs (f : A -> C) l : tf_term cs (sumF (K:=C) f l) = sumF (K:=R) (fun x => tf_term cs (f x)) l.
Proof. induction l as [|x l IH]; [apply tf_term_0|]. cbn [sumF]. rewrite tf_term_add, IH. reflexivity. Qed.

(* position-wise sum of two phasor lists *)
Definition ladd (X Y : list C) : list C := map (fun p => fadd C (fst p) (snd p)) (combine X Y).
Definition lscal (a : R) (X : list C) : list C := map (fun x => fmul C (a, 0) x) X.

Lemma tf_add cst X Y : List.length X = List.length Y -> tf cst (ladd X Y) = tf cst X + tf cst Y.
Proof. unfold tf, ladd. revert X Y. induction cst as [|c cst IH]; intros [|x X] [|y Y] HL;
    cbn [combine map sumF fst snd List.length] in HL |- *; try discriminate; try ring.
  injection HL as HL. rewrite (IH X Y HL), tf_term_add. ring. Qed.

Lemma tf_scal cst a X : tf cst (lscal a X) = a * tf cst X.
Proof. unfold tf, lscal. revert X. induction cst as [|c cst IH]; intros [|x X]; cbn [combine map sumF fst snd]; try ring.
  rewrite (IH X), tf_term_scal. ring. Qed.

Lemma combine_map_r {A B B'} (f : B -> B') (l : list A) (l' : list B) :
  combine l (map f l') = map (fun p => (fst p, f (snd p))) (combine l l').
Proof. revert l'. induction l as [|a l IH]; intros [|b l']; simpl; [reflexivity..|]. rewrite IH. reflexivity. Qed.

(* the time function of a family of phasors indexed by the analysed frequencies [ks] *)
Lemma tf_map {H} cst (X : H -> C) (ks : list H) :
  tf cst (map X ks) = sumF (fun p => tf_term (fst p) (X (snd p))) (combine cst ks).
Proof. unfold tf. rewrite combine_map_r, sumF_map. reflexivity. Qed.

(* superposition: phasors that are, frequency by frequency, the sum over the sources [srcs] of the single-source phasors *)
Theorem tf_superpose {H S} cst (ks : list H) (srcs : list S) (X : H -> C) (Xs : S -> H -> C) :
  (forall k, In k ks -> X k = sumF (K:=C) (fun s => Xs s k) srcs) ->
  tf cst (map X ks) = sumF (fun s => tf cst (map (Xs s) ks)) srcs.
Proof. intros E. rewrite tf_map.
  rewrite (sumF_ext (fun s => tf cst (map (Xs s) ks)) (fun s => sumF (fun p => tf_term (fst p) (Xs s (snd p))) (combine cst ks))).
  2:{ intros s. apply tf_map. }
  rewrite (sumF_swap ROK). apply sumF_ext_in. intros [c k] Hp. cbn [fst snd].
  rewrite (E k (in_combine_r _ _ _ _ Hp)). apply tf_term_sumF. Qed.

(* the same for phasor lists: position k of X is the sum of the positions k of the lists Xs s *)
Lemma tf_nth cst (X : list C) :
  tf cst X = sumF (fun k => tf_term (nth k cst (0, 0)) (nth k X (f0 C))) (seq O (Nat.min (List.length cst) (List.length X))).
Proof. unfold tf. revert X. induction cst as [|c cst IH]; intros [|x X]; try reflexivity.
  cbn [combine List.length Nat.min seq sumF fst snd nth]. rewrite (IH X). f_equal.
  rewrite <- seq_shift, sumF_map. reflexivity. Qed.

Theorem tf_superpose_lists {S} cst (srcs : list S) (X : list C) (Xs : S -> list C) :
  (forall s, In s srcs -> List.length (Xs s) = List.length X) ->
  (forall k, (k < List.length X)%nat -> nth k X (f0 C) = sumF (K:=C) (fun s => nth k (Xs s) (f0 C)) srcs) ->
  tf cst X = sumF (fun s => tf cst (Xs s)) srcs.
Proof. intros HL E. rewrite tf_nth.
  rewrite (sumF_ext_in (fun s => tf cst (Xs s))
     (fun s => sumF (fun k => tf_term (nth k cst (0, 0)) (nth k (Xs s) (f0 C))) (seq O (Nat.min (List.length cst) (List.length X))))).
  2:{ intros s Hs. rewrite tf_nth, (HL s Hs). reflexivity. }
  rewrite (sumF_swap ROK). apply sumF_ext_in. intros k Hk. apply in_seq in Hk.
  rewrite E by lia. apply tf_term_sumF. Qed.

(* ---- Kirchhoff's current law at every instant ---- *)
(* on any directed multigraph (edges [A], endpoints n1 n2): real part / imaginary part of a complex KCL sum *)
Lemma gkcl_re {A} (n1 n2 : A -> label) (es : list A) (j : A -> C) node :
  re (gkcl n1 n2 es j node) = gkcl n1 n2 es (fun e => re (j e)) node.
Proof. unfold gkcl. rewrite re_sumF. apply sumF_ext. intros e.
  destruct (label_eqb (n1 e) node), (label_eqb (n2 e) node); reflexivity. Qed.
Lemma gkcl_im {A} (n1 n2 : A -> label) (es : list A) (j : A -> C) node :
  im (gkcl n1 n2 es j node) = gkcl n1 n2 es (fun e => im (j e)) node.
Proof. unfold gkcl. rewrite im_sumF. apply sumF_ext. intros e.
  destruct (label_eqb (n1 e) node), (label_eqb (n2 e) node); reflexivity. Qed.

Lemma gkcl_tf_term {A} (n1 n2 : A -> label) (es : list A) (j : A -> C) cs node :
  gkcl n1 n2 es (fun e => tf_term cs (j e)) node = tf_term cs (gkcl n1 n2 es j node).
Proof. unfold tf_term at 2. rewrite gkcl_re, gkcl_im. unfold gkcl, tf_term.
  rewrite <- !(sumF_scal_r ROK), <- (sumF_sub ROK). apply sumF_ext. intros e.
  destruct (label_eqb (n1 e) node), (label_eqb (n2 e) node); ring. Qed.

Lemma gkcl_ext {A} {F : fops} (n1 n2 : A -> label) (es : list A) (j j' : A -> F) node :
  (forall e, j e = j' e) -> gkcl n1 n2 es j node = gkcl n1 n2 es j' node.
Proof. intros E. unfold gkcl. apply sumF_ext. intros e. rewrite (E e). reflexivity. Qed.

Theorem tf_kcl {A H} (n1 n2 : A -> label) (es : list A) (ks : list H) (J : H -> A -> C) cst :
  (forall k, In k ks -> forall node, gkcl n1 n2 es (J k) node = f0 C) ->
  forall node, gkcl n1 n2 es (fun e => tf cst (map (fun k => J k e) ks)) node = 0.
Proof. intros HK node.
  rewrite (gkcl_ext n1 n2 es _ (fun e => sumF (fun p => tf_term (fst p) (J (snd p) e)) (combine cst ks)) node).
  2:{ intros e. apply (tf_map cst (fun k => J k e) ks). }
  rewrite (gkcl_sumF A n1 n2 R ROK es (fun p e => tf_term (fst p) (J (snd p) e)) (combine cst ks) node).
  apply (sumF_zero_in ROK). intros [c k] Hp. cbn [fst snd]. rewrite gkcl_tf_term.
  rewrite (HK k (in_combine_r _ _ _ _ Hp) node). apply tf_term_0. Qed.

(* network branches: [kcl_sum] of Theory/Spec.v is [gkcl] on the branch records *)
Lemma kcl_sum_gkcl {K : fops} (bs : list (branch K)) (j : branch K -> K) node :
  kcl_sum bs j node = gkcl (@node1 K) (@node2 K) bs j node.
Proof. reflexivity. Qed.

Theorem tf_kcl_branches {H} (bs : list (branch C)) (ks : list H) (J : H -> label -> C) cst :
  (forall k, In k ks -> forall node, kcl_sum bs (fun b => J k (bid b)) node = f0 C) ->
  forall node, gkcl (@node1 C) (@node2 C) bs (fun b => tf cst (map (fun k => J k (bid b)) ks)) node = 0.
Proof. intros HK. apply (tf_kcl (@node1 C) (@node2 C) bs ks (fun k b => J k (bid b)) cst). exact HK. Qed.

End TimeFn.

Arguments tf_term {R}. Arguments tf {R}. Arguments ladd {R}. Arguments lscal {R}.

(* ====================================================================================================== *)
(* 2b / 3. the circuit level: KCL and superposition of the time functions; spectral lines                  *)
(* ====================================================================================================== *)
Section Spectrum.
Variable R : fops.
Hypothesis ROK : fops_ok R.
Variable leb : R -> R -> bool.
Variable rnd : R -> Z.
Variable ofZ : Z -> R.
Variable flr : R -> Z.
Variable sqrt2 : R.
Add Field Rf11 : (Kth R ROK).
Notation C := (Cx R).
Notation "0" := (f0 R). Notation "1" := (f1 R).
Infix "+" := (fadd R). Infix "*" := (fmul R). Infix "-" := (fsub R). Notation "- x" := (fopp R x).
Infix "/" := (fdiv R).
Notation comp := (comp R).
Notation PhasorSpec := (PhasorSpec R leb rnd ofZ).
Notation complex_solution := (complex_solution R leb rnd ofZ).
Notation frequency_components := (frequency_components R leb ofZ flr).
Notation "'let*' x ':=' p 'in' q" := (bind p (fun x => q)) (at level 200, x pattern, p at level 100, q at level 200).

Lemma tf_map_add {H} cst (X Y : H -> C) (ks : list H) :
  tf cst (map (fun k => fadd C (X k) (Y k)) ks) = tf cst (map X ks) + tf cst (map Y ks).
Proof. rewrite !(tf_map R). rewrite <- (sumF_add ROK). apply sumF_ext. intros p. apply (tf_term_add R ROK). Qed.

(* KCL of the time functions over the components of the circuit: at each analysed frequency the phasor equations hold
   (PhasorSpec, Theory/CircuitThm.v — e.g. by C02_solution), the component list is the same at every frequency *)
Theorem tf_kcl_circuit {H} (cs : list comp) (wres : R) (ks : list H) (wk : H -> R) (Phi J : H -> label -> C) cst :
  (forall k, In k ks -> PhasorSpec cs (wk k) wres (Phi k) (J k)) ->
  forall node, gkcl (fun c => nd R c 0) (fun c => nd R c 1) (nonground R cs)
                    (fun c => tf cst (map (fun k => J k (cid c)) ks)) node = 0.
Proof. intros HP. apply (tf_kcl R ROK (fun c => nd R c 0) (fun c => nd R c 1) (nonground R cs) ks (fun k c => J k (cid c)) cst).
  intros k Hk node. destruct (HP k Hk) as (_ & KC & _). exact (KC node). Qed.

(* an ideal periodic voltage source (R = 0) reproduces the partial sum of its own harmonic data: at the frequency of its
   n-th harmonic (n = round(w/w0), |w/w0 - n| <= wres/w0) the voltage across it is the phasor a_n (cos p_n + j sin p_n), so
   its time function over the retained harmonics [ks] is  sum_n a_n cos(w_n t + p_n)  — the truncated Fourier series of the
   waveform (that (a_n, p_n) are the Fourier coefficients of the waveform is C08) *)
Theorem periodic_own_waveform (cs : list comp) (c : comp) (w0 wres : R) (ks : list Z) (wk : Z -> R)
  (Phi J : Z -> label -> C) (harm : Z -> R * (R * R)) cst :
  In c cs -> ck c = KPerV -> hasv R c "w" w0 -> hasv R c "R" 0 ->
  (forall n, In n ks -> PhasorSpec cs (wk n) wres (Phi n) (J n)
                        /\ rnd (wk n / w0) = n /\ ~ far R leb (wk n / w0) (ofZ n) (wres / w0)
                        /\ hlook R (charm c) n = Some (harm n)) ->
  tf cst (map (fun n => cvolt R (Phi n) c) ks)
  = sumF (fun p => fst (harm (snd p)) * (fst (fst p) * fst (snd (harm (snd p))) - snd (fst p) * snd (snd (harm (snd p)))))
         (combine cst ks).
Proof. intros Hc Hk Hw Hr HP. rewrite (tf_map R). apply sumF_ext_in. intros [[co si] n] Hp. cbn [fst snd].
  destruct (HP n (in_combine_r _ _ _ _ Hp)) as ((_ & _ & L) & Hn & Hfar & Hh).
  assert (G : ck c <> KGround) by (rewrite Hk; discriminate).
  specialize (L c Hc G). unfold comp_law in L. rewrite Hk in L. destruct L as (w0' & Hw' & _ & L).
  pose proof (hasv_fun R c "w" w0' w0 Hw' Hw) as E. subst w0'. cbv zeta in L. rewrite Hn in L.
  destruct (L Hfar) as (a & cc & sn & r & Hh' & Hr' & [V0 _]).
  pose proof (hasv_fun R c "R" r 0 Hr' Hr) as E. subst r. rewrite Hh in Hh'. injection Hh' as Hh'. rewrite (V0 eq_refl), Hh'.
  unfold tf_term, re, im. cbn. ring. Qed.

(* superposition from the per-frequency source split of Theory/Linearity.v *)
Hypothesis Rreal : forall x y : R, x * x + y * y = 0 -> x = 0 /\ y = 0.
Notation COK := (Cx_ok R ROK Rreal).

Theorem tf_superpose_spec {H} (ks : list H) (n n1 n2 : H -> network C) (phi1 j1 phi2 j2 : H -> label -> C) cst :
  (forall k, In k ks -> src_sum (n k) (n1 k) (n2 k) /\ CircuitSpecId (n1 k) (phi1 k) (j1 k) /\ CircuitSpecId (n2 k) (phi2 k) (j2 k)) ->
  (forall k, In k ks -> CircuitSpecId (n k) (fun l => fadd C (phi1 k l) (phi2 k l)) (fun i => fadd C (j1 k i) (j2 k i)))
  /\ (forall l, tf cst (map (fun k => fadd C (phi1 k l) (phi2 k l)) ks)
                = tf cst (map (fun k => phi1 k l) ks) + tf cst (map (fun k => phi2 k l) ks))
  /\ (forall i, tf cst (map (fun k => fadd C (j1 k i) (j2 k i)) ks)
                = tf cst (map (fun k => j1 k i) ks) + tf cst (map (fun k => j2 k i) ks)).
Proof. intros HS. split; [|split].
  - intros k Hk. destruct (HS k Hk) as (S & S1 & S2). exact (spec_add C COK (n k) (n1 k) (n2 k) _ _ _ _ S S1 S2).
  - intros l. apply tf_map_add.
  - intros i. apply tf_map_add. Qed.

(* ---- FrequencyDomainSolution ---- *)
(* __post_init__: one peak-value ComplexSolution per analysed frequency *)
Definition fd_solutions (cs : list comp) (wmax wres : R) : res (list (R * csol R)) :=
  let* l := frequency_components cs wmax in
  mapM (fun w => let* s := complex_solution cs w wres true in Ok (w, s)) l.
(* get_voltage / get_current / get_potential (one-sided): the frequencies with the observed quantity of each solution *)
Definition fd_series (obs : csol R -> res C) (cs : list comp) (wmax wres : R) : res (list (R * C)) :=
  let* sols := fd_solutions cs wmax wres in
  mapM (fun p => let* x := obs (snd p) in Ok (fst p, x)) sols.
Definition fd_voltage (id : label) := fd_series (fun s => c_voltage R sqrt2 s id).
Definition fd_current (id : label) := fd_series (fun s => c_current R sqrt2 s id).
Definition fd_potential (l : label) := fd_series (fun s => c_potential R sqrt2 s l).

Theorem fd_line obs cs wmax wres lines : fd_series obs cs wmax wres = Ok lines ->
  frequency_components cs wmax = Ok (map fst lines)
  /\ Forall (fun p => exists s, complex_solution cs (fst p) wres true = Ok s /\ obs s = Ok (snd p)) lines.
Proof. unfold fd_series, fd_solutions. intros H.
  apply bind_res_ok in H. destruct H as [sols [H M2]]. apply bind_res_ok in H. destruct H as [l [HF M1]].
  apply mapM_ok in M1. apply mapM_ok in M2.
  assert (G : map fst lines = l
    /\ Forall (fun p => exists s, complex_solution cs (fst p) wres true = Ok s /\ obs s = Ok (snd p)) lines).
  { clear HF. revert lines M2. induction M1 as [|w ws l sols Hw _ IH]; intros lines M2.
    - inversion M2; subst. split; [reflexivity|constructor].
    - inversion M2 as [|ws' q sols' lines' Hq M2']; subst. destruct (IH lines' M2') as [E F].
      apply bind_res_ok in Hw. destruct Hw as [s [Hs Ews]]. injection Ews as <-.
      apply bind_res_ok in Hq. destruct Hq as [x [Hx Eq]]. injection Eq as <-. cbn [fst snd] in Hx |- *.
      split; [cbn [map fst]; rewrite E; reflexivity|]. constructor; [|exact F]. exists s. cbn [fst snd]. auto. }
  destruct G as [E F]. rewrite E. auto. Qed.

(* the solutions are peak-value solutions: the accessors return the solver's phasors unscaled *)
Lemma complex_solution_peak cs w wres s : complex_solution cs w wres true = Ok s -> cs_peak s = true.
Proof. unfold Circuit.complex_solution. intros H. apply bind_res_ok in H. destruct H as [n [_ H]].
  apply bind_res_ok in H. destruct H as [s' [_ H]]. injection H as <-. reflexivity. Qed.

Lemma bind_ret {A} (r : res A) : bind r (fun x => Ok x) = r.
Proof. destruct r; reflexivity. Qed.

Lemma peak_accessors s : cs_peak s = true ->
  (forall id, c_voltage R sqrt2 s id = get_voltage (cs_sol s) id)
  /\ (forall id, c_current R sqrt2 s id = get_current (cs_sol s) id)
  /\ (forall l, c_potential R sqrt2 s l = get_potential (cs_sol s) l).
Proof. intros P. unfold c_voltage, c_current, c_potential, unpeak. rewrite P.
  split; [|split]; intros x; apply bind_ret. Qed.

(* ---- TimeDomainSolution: the time function at one instant; [carrier w] = (cos (w t), sin (w t)) ---- *)
Definition td_value (obs : csol R -> res C) (cs : list comp) (wmax wres : R) (carrier : R -> R * R) : res R :=
  let* lines := fd_series obs cs wmax wres in
  Ok (tf (map (fun p => carrier (fst p)) lines) (map snd lines)).

Lemma tf_lines (carrier : R -> R * R) (lines : list (R * C)) :
  tf (map (fun p => carrier (fst p)) lines) (map snd lines) = sumF (fun p => tf_term (carrier (fst p)) (snd p)) lines.
Proof. unfold tf. induction lines as [|p l IH]; [reflexivity|]. cbn [map combine sumF fst snd]. rewrite IH. reflexivity. Qed.

Theorem td_value_ok obs cs wmax wres carrier v : td_value obs cs wmax wres carrier = Ok v ->
  exists lines, fd_series obs cs wmax wres = Ok lines
    /\ v = sumF (fun p => tf_term (carrier (fst p)) (snd p)) lines.
Proof. unfold td_value. intros H. apply bind_res_ok in H. destruct H as [lines [HL H]]. injection H as <-.
  exists lines. split; [exact HL|apply tf_lines]. Qed.

(* ---- the solutions behind the lines solve the phasor equations, so the time-domain flows obey KCL ---- *)
Lemma fd_solutions_ok cs wmax wres sols : fd_solutions cs wmax wres = Ok sols ->
  frequency_components cs wmax = Ok (map fst sols)
  /\ (forall k, In k sols -> complex_solution cs (fst k) wres true = Ok (snd k)).
Proof. unfold fd_solutions. intros H. apply bind_res_ok in H. destruct H as [l [HF M]]. apply mapM_ok in M.
  assert (G : map fst sols = l /\ forall k, In k sols -> complex_solution cs (fst k) wres true = Ok (snd k)).
  { clear HF. induction M as [|w ws l sols Hw _ IH]; [split; [reflexivity|intros k []]|].
    apply bind_res_ok in Hw. destruct Hw as [s [Hs E]]. injection E as <-. destruct IH as [E F].
    split; [cbn [map fst]; rewrite E; reflexivity|]. intros k [<-|Hk]; [exact Hs|exact (F k Hk)]. }
  destruct G as [E F]. rewrite E. auto. Qed.

Definition sol_phi (k : R * csol R) : label -> C := phi_of (s_net (cs_sol (snd k))) (s_x (cs_sol (snd k))).
Definition sol_flow (k : R * csol R) : label -> C := flow_by_id R (s_net (cs_sol (snd k))) (s_x (cs_sol (snd k))).

Theorem fd_solutions_phasor cs wmax wres sols : fd_solutions cs wmax wres = Ok sols -> distinct_terminals R cs ->
  forall k, In k sols -> PhasorSpec cs (fst k) wres (sol_phi k) (sol_flow k).
Proof. intros H D k Hk. destruct (fd_solutions_ok _ _ _ _ H) as [_ F].
  destruct (phasor_solution R ROK Rreal leb rnd ofZ cs (fst k) wres true (snd k) (F k Hk) D) as (_ & _ & _ & P & _).
  exact P. Qed.

Theorem fd_kcl_t cs wmax wres sols : fd_solutions cs wmax wres = Ok sols -> distinct_terminals R cs ->
  forall cst node, gkcl (fun c => nd R c 0) (fun c => nd R c 1) (nonground R cs)
                        (fun c => tf cst (map (fun k => sol_flow k (cid c)) sols)) node = 0.
Proof. intros H D cst. apply (tf_kcl_circuit cs wres sols fst sol_phi sol_flow cst).
  exact (fd_solutions_phasor cs wmax wres sols H D). Qed.

(* ---- the two-sided spectrum (_spectrum with one_sided = False, and the mirrored frequency axis) ---- *)
Definition posb (w : R) : bool := negb (leb w 0).
Definition chalf (x : C) : C := fdiv C x (cre R (1 + 1)).
Definition two_sided (l : list (R * C)) : list (R * C) :=
  map (fun p => (- fst p, chalf (fconj C (snd p)))) (rev (filter (fun p => posb (fst p)) l))
  ++ map (fun p => (fst p, if posb (fst p) then chalf (snd p) else snd p)) l.

Lemma filter_map_fst {A B} (p : A -> bool) (l : list (A * B)) : map fst (filter (fun q => p (fst q)) l) = filter p (map fst l).
Proof. induction l as [|q l IH]; [reflexivity|]. cbn [map filter]. destruct (p (fst q)); cbn [map]; rewrite IH; reflexivity. Qed.

(* self.w = concatenate((-w[positive][::-1], w)) *)
Lemma two_sided_w l : map fst (two_sided l) = map (fopp R) (rev (filter posb (map fst l))) ++ map fst l.
Proof. unfold two_sided. rewrite map_app, !map_map. cbn [fst]. f_equal.
  rewrite <- filter_map_fst, <- map_rev, map_map. reflexivity. Qed.

(* concatenate((conj(values[positive][::-1])/2, where(positive, values/2, values))) *)
Lemma two_sided_values l :
  map snd (two_sided l) = map (fun x => chalf (fconj C x)) (rev (map snd (filter (fun p => posb (fst p)) l)))
                          ++ map (fun p => if posb (fst p) then chalf (snd p) else snd p) l.
Proof. unfold two_sided. rewrite map_app, !map_map. cbn [snd]. f_equal. rewrite <- map_rev, map_map. reflexivity. Qed.

Hypothesis two_nz : 1 + 1 <> 0.

Lemma four_nz : (1 + 1) * (1 + 1) <> 0.
Proof. intros E. apply two_nz. transitivity ((1 + 1) * (1 + 1) / (1 + 1)); [field; exact two_nz|].
  rewrite E. field. exact two_nz. Qed.

(* one mirrored pair of lines carries the real signal of the one-sided line *)
Lemma line_pair (X e : C) :
  re (fmul C (chalf X) e) + re (fmul C (chalf (fconj C X)) (fconj C e)) = re (fmul C X e).
Proof. destruct X as [a b], e as [c s]. unfold chalf, re, cre. simpl. unfold cxnorm2. simpl. field. exact four_nz. Qed.
Lemma line_pair_im (X e : C) :
  im (fmul C (chalf X) e) + im (fmul C (chalf (fconj C X)) (fconj C e)) = 0.
Proof. destruct X as [a b], e as [c s]. unfold chalf, im, cre. simpl. unfold cxnorm2. simpl. field. exact four_nz. Qed.

(* the value of a spectrum on a carrier family E w = exp(j w t) *)
Definition sp_eval (E : R -> C) (l : list (R * C)) : C := sumF (K:=C) (fun p => fmul C (snd p) (E (fst p))) l.

Lemma sumF_rev {A} (f : A -> R) l : sumF f (rev l) = sumF f l.
Proof. symmetry. apply (sumF_perm ROK). apply Permutation_rev. Qed.

Theorem two_sided_re (E : R -> C) (l : list (R * C)) : (forall w, E (- w) = fconj C (E w)) ->
  re (sp_eval E (two_sided l)) = re (sp_eval E l).
Proof. intros HE. unfold sp_eval, two_sided. rewrite !(re_sumF R). rewrite (sumF_app ROK), !sumF_map. cbn [fst snd].
  rewrite sumF_rev, (sumF_filter ROK), <- (sumF_add ROK). apply sumF_ext. intros [w X]. cbn [fst snd].
  destruct (posb w).
  - rewrite HE. rewrite <- (line_pair X (E w)). ring.
  - ring. Qed.

(* the two-sided sum is real up to the non-positive lines (w = 0: the DC line, real for real sources) *)
Theorem two_sided_im (E : R -> C) (l : list (R * C)) : (forall w, E (- w) = fconj C (E w)) ->
  im (sp_eval E (two_sided l)) = sumF (fun p => if posb (fst p) then 0 else im (fmul C (snd p) (E (fst p)))) l.
Proof. intros HE. unfold sp_eval, two_sided. rewrite !(im_sumF R). rewrite (sumF_app ROK), !sumF_map. cbn [fst snd].
  rewrite sumF_rev, (sumF_filter ROK), <- (sumF_add ROK). apply sumF_ext. intros [w X]. cbn [fst snd].
  destruct (posb w).
  - rewrite HE. rewrite <- (line_pair_im X (E w)). ring.
  - ring. Qed.

(* hence: the time function of the one-sided lines is the real part of the two-sided sum *)
Corollary two_sided_time (carrier : R -> R * R) (l : list (R * C)) :
  (forall w, carrier (- w) = (fst (carrier w), - snd (carrier w))) ->
  tf (map (fun p => carrier (fst p)) l) (map snd l) = re (sp_eval (fun w => carrier w : C) (two_sided l)).
Proof. intros HC. rewrite (two_sided_re (fun w => carrier w : C) l).
  - rewrite tf_lines. unfold sp_eval. rewrite (re_sumF R). apply sumF_ext. intros [w X]. cbn [fst snd].
    destruct (carrier w) as [c s]. apply (tf_term_re_mul R).
  - intros w. rewrite HC. reflexivity. Qed.

(* ---- the mirrored frequency axis is ascending (frequencies are non-negative: guards of the constructors) ---- *)
Hypothesis OOK : oleb_ok R leb.
Notation LOK := (oleb_order R leb OOK).
Notation lt := (ltR leb).

Lemma ltR_opp x y : lt x y -> lt (- y) (- x).
Proof. intros [L N]. split.
  - pose proof (leb_add R leb OOK x y (- x - y) L) as H.
    replace (x + (- x - y)) with (- y) in H by ring. replace (y + (- x - y)) with (- x) in H by ring. exact H.
  - intros E. apply N. replace x with (- - x) by ring. rewrite <- E. ring. Qed.

Lemma StronglySorted_app {A} (P : A -> A -> Prop) l1 l2 : StronglySorted P l1 -> StronglySorted P l2 ->
  (forall a b, In a l1 -> In b l2 -> P a b) -> StronglySorted P (l1 ++ l2).
Proof. induction 1 as [|a l1 S IH F]; intros S2 HP; [exact S2|]. cbn [app]. constructor.
  - apply IH; [exact S2|]. intros x y Hx Hy. apply HP; [right; exact Hx|exact Hy].
  - apply Forall_app. split; [exact F|]. apply Forall_forall. intros y Hy. apply HP; [left; reflexivity|exact Hy]. Qed.

Lemma increasing_filter (p : R -> bool) l : increasing leb l -> increasing leb (filter p l).
Proof. induction 1 as [|a l S IH F]; [constructor|]. cbn [filter]. destruct (p a); [|exact IH].
  constructor; [exact IH|]. rewrite Forall_forall in F |- *. intros x Hx. apply filter_In in Hx. apply F. destruct Hx as [Hx _]. exact Hx. Qed.

Lemma increasing_rev_opp l : increasing leb l -> increasing leb (map (fopp R) (rev l)).
Proof. induction 1 as [|a l S IH F]; [constructor|]. cbn [rev]. rewrite map_app. apply StronglySorted_app.
  - exact IH.
  - constructor; constructor.
  - intros x y Hx [<-|[]]. apply in_map_iff in Hx. destruct Hx as [z [<- Hz]]. apply in_rev in Hz.
    rewrite Forall_forall in F. apply ltR_opp. exact (F z Hz). Qed.

Theorem two_sided_increasing (l : list (R * C)) : increasing leb (map fst l) ->
  (forall w, In w (map fst l) -> leb 0 w = true) -> increasing leb (map fst (two_sided l)).
Proof. intros S NN. rewrite two_sided_w. apply StronglySorted_app.
  - apply increasing_rev_opp, increasing_filter. exact S.
  - exact S.
  - intros a b Ha Hb. apply in_map_iff in Ha. destruct Ha as [w [<- Hw]]. apply in_rev in Hw. apply filter_In in Hw.
    destruct Hw as [Hw P]. unfold posb in P. apply negb_true_iff in P.
    pose proof (NN b Hb) as Lb. pose proof (pos_leb R leb LOK w P) as Lw.
    assert (Lo : leb (- w) 0 = true).
    { pose proof (leb_add R leb OOK 0 w (- w) Lw) as H. replace (0 + - w) with (- w) in H by ring.
      replace (w + - w) with 0 in H by ring. exact H. }
    split; [exact (leb_trans R leb LOK _ _ _ Lo Lb)|]. intros E. rewrite <- E in Lb.
    assert (Z : - w = 0) by (apply (leb_antisym R leb LOK); assumption).
    assert (W : w = 0) by (replace w with (- - w) by ring; rewrite Z; ring).
    subst w. rewrite (leb_refl R leb LOK) in P. discriminate. Qed.

End Spectrum.

Arguments posb {R}. Arguments chalf {R}. Arguments two_sided {R}. Arguments sp_eval {R}.

(* ====================================================================================================== *)
(* the statements of Properties/C09.v, assembled                                                           *)
(* ====================================================================================================== *)
Lemma is_periodic_iff (R : fops) (c : comp R) : is_periodic R c = true <-> ck c = KPerV \/ ck c = KPerI.
Proof. unfold is_periodic. rewrite orb_true_iff, !ckind_eqb_spec. reflexivity. Qed.

Lemma freq_list_pack (R : fops) (ROK : fops_ok R) (leb : R -> R -> bool) (LOK : leb_ok R leb) (ofZ : Z -> R) (flr : R -> Z)
  (cs : list (comp R)) (wmax : R) (l : list R) :
  frequency_components R leb ofZ flr cs wmax = Ok l ->
  StronglySorted (fun x y => leb x y = true /\ x <> y) l
  /\ NoDup l
  /\ (forall w, In w l <-> exists c ws, In c cs /\ comp_frequencies R ofZ flr c wmax = Ok ws /\ In w ws).
Proof. intros H. destruct (freq_list R ROK leb LOK ofZ flr cs wmax l H) as [S E].
  split; [exact S|]. split; [exact (increasing_NoDup R leb l S)|exact E]. Qed.

Lemma member_sources_pack (R : fops) (ROK : fops_ok R) (ofZ : Z -> R) (flr : R -> Z) (c : comp R) (wmax : R) :
  (vlook R (cvals c) (lbl "w") = None -> comp_frequencies R ofZ flr c wmax = Ok [])
  /\ (forall w, vlook R (cvals c) (lbl "w") = Some w -> is_periodic R c = false ->
        comp_frequencies R ofZ flr c wmax = Ok [w])
  /\ (forall w0, vlook R (cvals c) (lbl "w") = Some w0 -> is_periodic R c = true -> w0 <> f0 R ->
        exists ws, comp_frequencies R ofZ flr c wmax = Ok ws
          /\ ws = map (fun k => fmul R w0 (ofZ (Z.of_nat k))) (seq O (Z.to_nat (flr (fdiv R wmax w0) + 1)))
          /\ (forall w, In w ws <-> exists k : Z, (0 <= k <= flr (fdiv R wmax w0))%Z /\ w = fmul R w0 (ofZ k)))
  /\ (vlook R (cvals c) (lbl "w") = Some (f0 R) -> is_periodic R c = true ->
        comp_frequencies R ofZ flr c wmax = Err EZeroDivision).
Proof. split; [exact (cf_none R ofZ flr c wmax)|]. split; [intros w; exact (cf_single R ofZ flr c wmax w)|].
  split; [|exact (cf_periodic_zero R ROK ofZ flr c wmax)].
  intros w0 Hw Hp N. exists (harmonics ofZ w0 (flr (fdiv R wmax w0))).
  split; [exact (cf_periodic R ROK ofZ flr c wmax w0 Hw Hp N)|]. split; [reflexivity|].
  intros w. apply harmonics_In. Qed.

Lemma tf_linear_pack (R : fops) (ROK : fops_ok R) (cst : list (R * R)) :
  (forall X Y : list (Cx R), List.length X = List.length Y ->
     tf cst (map (fun p => fadd (Cx R) (fst p) (snd p)) (combine X Y)) = fadd R (tf cst X) (tf cst Y))
  /\ (forall (a : R) (X : list (Cx R)), tf cst (map (fun x => fmul (Cx R) (a, f0 R) x) X) = fmul R a (tf cst X)).
Proof. split; [intros X Y; exact (tf_add R ROK cst X Y)|intros a X; exact (tf_scal R ROK cst a X)]. Qed.

Lemma two_sided_real_pack (R : fops) (ROK : fops_ok R) (leb : R -> R -> bool) :
  fadd R (f1 R) (f1 R) <> f0 R ->
  (forall X e : Cx R,
     fadd R (re (fmul (Cx R) (chalf X) e)) (re (fmul (Cx R) (chalf (fconj (Cx R) X)) (fconj (Cx R) e)))
     = re (fmul (Cx R) X e))
  /\ (forall (E : R -> Cx R) (l : list (R * Cx R)), (forall w, E (fopp R w) = fconj (Cx R) (E w)) ->
        re (sp_eval E (two_sided leb l)) = sumF (fun p => re (fmul (Cx R) (snd p) (E (fst p)))) l
        /\ im (sp_eval E (two_sided leb l))
           = sumF (fun p => if posb leb (fst p) then f0 R else im (fmul (Cx R) (snd p) (E (fst p)))) l).
Proof. intros T. split; [exact (line_pair R ROK T)|]. intros E l HE. split.
  - rewrite (two_sided_re R ROK leb T E l HE). unfold sp_eval. apply re_sumF.
  - exact (two_sided_im R ROK leb T E l HE). Qed.

(* ====================================================================================================== *)
(* the executable reals of Model/RunCircuit.v are an instance                                              *)
(* ====================================================================================================== *)
From Coq Require Import QArith Qcanon Qround.
From CC Require Import Model.RunCircuit.

Lemma Qc_leb_le (x y : Qc) : Qc_leb x y = true <-> (x <= y)%Qc.
Proof. unfold Qc_leb, Qcle. apply Qle_bool_iff. Qed.

Lemma Qc_leb_ok : leb_ok Qcops Qc_leb.
Proof. constructor; simpl.
  - intros x y. rewrite !Qc_leb_le. destruct (Qclt_le_dec x y) as [H|H]; [left; apply Qclt_le_weak; exact H|right; exact H].
  - intros x y z. rewrite !Qc_leb_le. apply Qcle_trans.
  - intros x y. rewrite !Qc_leb_le. apply Qcle_antisym. Qed.

Lemma Qc_oleb_ok : oleb_ok Qcops Qc_leb.
Proof. constructor; [exact Qc_leb_ok|..]; simpl.
  - intros x y z. rewrite !Qc_leb_le. intros H. apply Qcplus_le_compat; [exact H|apply Qcle_refl].
  - intros x y z. rewrite !Qc_leb_le. intros Hz H. apply Qcmult_le_compat_r; assumption. Qed.

Lemma Qc_floor_ok : @flr_ok Qcops Qc_leb Qc_ofZ Qc_floor.
Proof. intros x k. unfold Qc_leb, Qc_ofZ, Qc_floor. rewrite Qle_bool_iff. cbn [this Q2Qc]. rewrite Qred_correct. split.
  - intros H. apply Qle_trans with (inject_Z (Qfloor (this x))); [rewrite <- Zle_Qle; exact H|apply Qfloor_le].
  - intros H. apply Qfloor_resp_le in H. rewrite Qfloor_Z in H. exact H. Qed.

(* ---- "each counted once" holds for bit-equal values only ---- *)
(* the stronger reading: no two listed frequencies within the resolution of one another (|a - b| > wres, the test
   [off_frequency] by which the translators decide that a source is at another frequency) *)
Definition each_once_within_resolution_full : Prop :=
  forall (R : fops) (ROK : fops_ok R) (leb : R -> R -> bool) (OOK : oleb_ok R leb) (ofZ : Z -> R) (flr : R -> Z)
         (cs : list (comp R)) (wmax wres : R) (l : list R),
    leb wres (f0 R) = false ->
    frequency_components R leb ofZ flr cs wmax = Ok l ->
    forall a b, In a l -> In b l -> a <> b -> off_frequency R leb a b wres = true.

Fixpoint qlist_eqb (l1 l2 : list Qc) : bool :=
  match l1, l2 with
  | [], [] => true
  | a :: r1, b :: r2 => Qc_eq_bool a b && qlist_eqb r1 r2
  | _, _ => false
  end.
Lemma qlist_eqb_ok l1 l2 : qlist_eqb l1 l2 = true -> l1 = l2.
Proof. revert l2. induction l1 as [|a l1 IH]; intros [|b l2]; simpl; try discriminate; [reflexivity|].
  intros H. apply andb_true_iff in H. destruct H as [H1 H2]. apply Qc_eq_bool_correct in H1. rewrite H1, (IH l2 H2).
  reflexivity. Qed.

(* two sinusoidal sources half a resolution apart, in series on a resistor *)
Definition near_w1 : Qc := qc 2 1.
Definition near_w2 : Qc := qc 4001 2000.          (* 2 + wres/2 *)
Definition near_wres : Qc := qc 1 1000.
Definition near_cs : list qcomp := [
  @Build_comp Qcops KAcV (lbl "V1") [lbl "1"; lbl "0"]
     [(lbl "V", qc 1 1); (lbl "R", qc 0 1); (lbl "w", near_w1); (lbl "phi", qc 0 1)] [] (qc 1 1, qc 0 1) [];
  @Build_comp Qcops KAcV (lbl "V2") [lbl "2"; lbl "1"]
     [(lbl "V", qc 1 1); (lbl "R", qc 0 1); (lbl "w", near_w2); (lbl "phi", qc 0 1)] [] (qc 1 1, qc 0 1) [];
  @Build_comp Qcops KResistor (lbl "R1") [lbl "2"; lbl "0"] [(lbl "R", qc 1 1)] [] (qc 1 1, qc 0 1) [];
  @Build_comp Qcops KGround (lbl "gnd") [lbl "0"] [] [] (qc 1 1, qc 0 1) [] ]%string.

Lemma near_list : okb (frequency_components Qcops Qc_leb Qc_ofZ Qc_floor near_cs (qc 10 1))
                      (fun l => qlist_eqb l [near_w1; near_w2]) = true.
Proof. vm_compute. reflexivity. Qed.
Lemma near_close : off_frequency Qcops Qc_leb near_w1 near_w2 near_wres = false.
Proof. vm_compute. reflexivity. Qed.
Lemma near_distinct : near_w1 <> near_w2.
Proof. intros E. assert (H : Qc_eq_bool near_w1 near_w2 = false) by (vm_compute; reflexivity).
  rewrite E in H. pose proof (proj2 (Keqb Qcops Qcops_ok near_w2 near_w2) eq_refl) as H2. simpl in H2. congruence. Qed.

Theorem each_once_refuted : ~ each_once_within_resolution_full.
Proof. intros F. destruct (okb_ex _ _ near_list) as [l [Hl El]]. apply qlist_eqb_ok in El. subst l.
  assert (P : Qc_leb near_wres (f0 Qcops) = false) by (vm_compute; reflexivity).
  pose proof (F Qcops Qcops_ok Qc_leb Qc_oleb_ok Qc_ofZ Qc_floor near_cs (qc 10 1) near_wres _ P Hl
                near_w1 near_w2 (or_introl eq_refl) (or_intror (or_introl eq_refl)) near_distinct) as H.
  rewrite near_close in H. discriminate. Qed.
