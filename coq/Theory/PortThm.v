(* Theory/PortThm.v — the port functions of Model/Port.v against the circuit equations (property C06).
   PortZ n a b z : z is the voltage a unit test current injected from b into a produces between a and b in the
   network with every independent source deactivated.  The model's open_circuit_impedance computes it; symmetry,
   independence of the reference node and of the source values, series/parallel composition, Thevenin and Norton. *)
From Coq Require Import List Bool NArith Arith Permutation Lia Field Ring.
From CC Require Import Theory.Field Theory.Labels Model.Network Model.Transformers Model.Port Theory.Spec Theory.Mna
  Theory.MnaComplete Theory.Api Theory.Gauss Theory.Linearity Theory.Invariance.
Import ListNotations.

(* ---------------- lists: filters, masks ---------------- *)
Lemma filter_length_le' {A} (p : A -> bool) (l : list A) : length (filter p l) <= length l.
Proof. induction l as [|x l IH]; simpl; [lia|]. destruct (p x); simpl; lia. Qed.

Lemma filter_length_mono {A} (p q : A -> bool) (l : list A) :
  (forall x, q x = true -> p x = true) -> length (filter q l) <= length (filter p l).
Proof. intros H. induction l as [|x l IH]; simpl; [lia|].
  destruct (q x) eqn:Q.
  - rewrite (H x Q). simpl. lia.
  - destruct (p x); simpl; lia. Qed.

Lemma filter_length_lt {A} (p q : A -> bool) (l : list A) (a : A) :
  (forall x, q x = true -> p x = true) -> In a l -> p a = true -> q a = false ->
  length (filter q l) < length (filter p l).
Proof. intros H. induction l as [|x l IH]; simpl; [tauto|]. intros [->|Hin] Pa Qa.
  - rewrite Pa, Qa. simpl. pose proof (filter_length_mono p q l H). lia.
  - specialize (IH Hin Pa Qa). destruct (q x) eqn:Q.
    + rewrite (H x Q). simpl. lia.
    + destruct (p x); simpl; lia. Qed.

Lemma NoDup_app_fresh {A} (l : list A) (x : A) : NoDup l -> ~ In x l -> NoDup (l ++ [x]).
Proof. intros ND Hx. induction ND as [|y l Hy ND IH]; simpl.
  - constructor; [intros []|constructor].
  - constructor.
    + intros H. apply in_app_or in H. destruct H as [H|[H|[]]]; [contradiction|]. subst. apply Hx. left. reflexivity.
    + apply IH. intros H. apply Hx. right. exact H. Qed.

Lemma select_all_true {A} (mask : list bool) (l : list A) :
  Forall (fun c => c = true) mask -> length mask = length l -> select mask l = l.
Proof. intros F. revert l. induction F as [|c mask Hc F IH]; intros [|x l] H; simpl in *; try discriminate; [reflexivity|].
  subst c. f_equal. apply IH. lia. Qed.

Lemma count_true_firstn_all (mask : list bool) (i : nat) :
  Forall (fun c => c = true) mask -> i <= length mask -> count_true (firstn i mask) = i.
Proof. intros F. revert i. unfold count_true. induction F as [|c mask Hc F IH]; intros [|i] H; simpl in *; try lia.
  subst c. simpl. f_equal. apply IH. lia. Qed.

Lemma forallb_map_true {A} (f : A -> bool) (l : list A) : forallb f l = true -> Forall (fun c => c = true) (map f l).
Proof. induction l as [|x l IH]; simpl; intros H; [constructor|]. apply andb_true_iff in H. destruct H as [H1 H2].
  constructor; [exact H1|apply IH, H2]. Qed.

Lemma Forall2_In_impl {A B} (P Q : A -> B -> Prop) (la : list A) (lb : list B) :
  (forall a b, In a la -> In b lb -> P a b -> Q a b) -> Forall2 P la lb -> Forall2 Q la lb.
Proof. intros H F. induction F as [|a b la lb Hab F IH]; constructor.
  - apply H; [left; reflexivity|left; reflexivity|exact Hab].
  - apply IH. intros a' b' Ha Hb. apply H; right; assumption. Qed.

Lemma Forall2_flip {A B} (P : A -> B -> Prop) (la : list A) (lb : list B) :
  Forall2 P la lb -> Forall2 (fun b a => P a b) lb la.
Proof. induction 1; constructor; assumption. Qed.

(* ---------------- the probe id is unused ---------------- *)
Lemma probe_loop_fresh (fuel : nat) : forall (id : label) (ids : list label),
  length (filter (fun x => Nat.leb (length id) (length x)) ids) < fuel -> ~ In (probe_loop fuel id ids) ids.
Proof. induction fuel as [|f IH]; intros id ids H; [lia|]. simpl.
  destruct (lmem id ids) eqn:E.
  - apply IH. apply lmem_spec in E.
    assert (L : length (filter (fun x => Nat.leb (length (id ++ [underscore])) (length x)) ids)
                < length (filter (fun x => Nat.leb (length id) (length x)) ids)).
    { apply (filter_length_lt _ _ ids id).
      - intros x Hx. rewrite app_length in Hx. simpl in Hx. apply Nat.leb_le in Hx. apply Nat.leb_le. lia.
      - exact E.
      - apply Nat.leb_le. lia.
      - rewrite app_length. simpl. apply Nat.leb_gt. lia. }
    lia.
  - apply lmem_false. exact E. Qed.

Section PortThm.
Variable K : fops.
Hypothesis KOK : fops_ok K.
Add Field Kfp : (Kth K KOK).
Notation "0" := (f0 K). Notation "1" := (f1 K).
Infix "+" := (fadd K). Infix "*" := (fmul K). Infix "-" := (fsub K). Notation "- x" := (fopp K x).
Infix "/" := (fdiv K).
Notation "x == y" := (feqb K x y) (at level 70).
Ltac feq x y := destruct (feqb_spec KOK x y).
Ltac leq a b := destruct (label_eqb_spec a b).
Implicit Types (n m : network K) (br : branch K) (phi : label -> K) (j : branch K -> K) (a b g l node : label).

Lemma probe_id_fresh n : ~ In (probe_id n) (branch_ids n).
Proof. unfold probe_id. apply probe_loop_fresh.
  apply Nat.lt_succ_r. apply filter_length_le'. Qed.

(* ---------------- the probed network, declaratively ---------------- *)
Definition deactivated n : network K := kp_net [] n.
Definition kp0 (br : branch K) : branch K := kp_branch [] br.
Definition probe n a b : branch K := probe_branch (deactivated n) a b.
Definition probed n a b : network K :=
  {| branches := branches (deactivated n) ++ [probe n a b]; zero := b |}.

Definition PortZ n a b (z : K) : Prop :=
  exists phi j, CircuitSpec (probed n a b) phi j /\ z = phi a - phi b.

Lemma kp0_pos br : same_pos br (kp0 br) /\ src (el (kp0 br)) = 0.
Proof. apply (kp_out K KOK [] br). reflexivity. Qed.
Lemma kp0_n1 br : node1 (kp0 br) = node1 br. Proof. symmetry. apply (kp0_pos br). Qed.
Lemma kp0_n2 br : node2 (kp0 br) = node2 br. Proof. symmetry. apply (kp0_pos br). Qed.
Lemma kp0_bid br : bid (kp0 br) = bid br. Proof. symmetry. apply (kp0_pos br). Qed.
Lemma kp0_eY br : eY (el (kp0 br)) = eY (el br). Proof. symmetry. apply (kp0_pos br). Qed.
Lemma kp0_src br : src (el (kp0 br)) = 0. Proof. apply (kp0_pos br). Qed.

Lemma deactivated_ids n : branch_ids (deactivated n) = branch_ids n.
Proof. unfold branch_ids, deactivated, kp_net. simpl. rewrite map_map. apply map_ext. intros br. apply kp0_bid. Qed.

Lemma probe_fresh n a b : ~ In (bid (probe n a b)) (branch_ids n).
Proof. intros H. apply (probe_id_fresh (deactivated n)). rewrite deactivated_ids. exact H. Qed.

Lemma wf_deactivated n : wf n -> wf (deactivated n).
Proof. apply skel_wf. apply (skel_kp K KOK). Qed.

Lemma wf_probed n a b : wf n -> a <> b -> wf (probed n a b).
Proof. intros WF Hab. destruct (wf_deactivated n WF) as [ND [_ NL]]. unfold wf, probed, branch_ids. simpl.
  split; [|split].
  - rewrite map_app. simpl.
    apply NoDup_app_fresh; [exact ND|]. intros H. apply (probe_fresh n a b). rewrite <- deactivated_ids. exact H.
  - intros _. rewrite !map_app. simpl. apply in_or_app. left. apply in_or_app. right. left. reflexivity.
  - intros br Hbr. apply in_app_or in Hbr. destruct Hbr as [Hbr|[<-|[]]]; [apply NL, Hbr|]. simpl. congruence.
Qed.

(* ---------------- the code's composition computes the declarative network ---------------- *)
Lemma sc_same_pos br : same_pos br (sc_branch [] br).
Proof. unfold sc_branch. simpl. destruct (is_voltage_source (el br)) eqn:EV; [|apply same_pos_refl].
  unfold same_pos, zero_in_voltage; simpl. repeat split. symmetry. apply (eY_zero_in_voltage K KOK). exact EV. Qed.

Lemma deactivate_ok n : wf n -> deactivate n = Ok (deactivated n).
Proof. intros WF. unfold deactivate, short_circuitify_voltage_sources, mk.
  match goal with |- bind (validate ?x) _ = _ => set (n1 := x) end.
  assert (W1 : wf n1).
  { apply (skel_wf K n); [|exact WF]. split; [reflexivity|]. simpl. apply Forall2_map_r. intros br _. apply sc_same_pos. }
  rewrite (validate_wf K n1 W1). simpl. unfold open_circuitify_current_sources, mk. simpl. rewrite map_map.
  apply (validate_wf K (deactivated n)). apply wf_deactivated, WF. Qed.

Lemma deactivate_is_keep_only n : deactivate n = keep_only [] n.
Proof. reflexivity. Qed.

Lemma attach_probe_ok n a b : wf n -> a <> b -> attach_probe (deactivated n) a b = Ok (probed n a b).
Proof. intros WF Hab. unfold attach_probe, mk. apply (validate_wf K (probed n a b)). apply wf_probed; assumption. Qed.

Lemma oci_unfold n a b : wf n -> a <> b ->
  open_circuit_impedance n a b
  = if ideal_source_between n a b then Ok (Some 0) else port_solve (probed n a b) a.
Proof. intros WF Hab. unfold open_circuit_impedance. rewrite (label_eqb_neq a b Hab).
  destruct (ideal_source_between n a b); [reflexivity|].
  rewrite (deactivate_ok n WF). simpl. rewrite (attach_probe_ok n a b WF Hab). reflexivity. Qed.

(* every row connected: nothing is deleted, the system solved is the MNA system of the probed network *)
Definition all_connected (np : network K) : bool := forallb row_connected (mna_matrix np).

Lemma port_solve_all_connected (np : network K) a : all_connected np = true ->
  port_solve np a =
  if lmem a (node_index np) then
    match solve (mna_matrix np) (mna_rhs np) with
    | Some x => Ok (Some (nth (lindex (node_index np) a) x 0))
    | None => Ok None
    end
  else Err EKeyError.
Proof. intros AC. unfold port_solve.
  destruct (lmem a (node_index np)) eqn:Ha; [|reflexivity].
  pose proof (forallb_map_true _ _ AC) as F.
  destruct (mna_square K np) as [SL SR].
  assert (Li : lindex (node_index np) a < length (map row_connected (mna_matrix np))).
  { rewrite map_length, SL. apply lmem_spec in Ha. pose proof (lindex_lt _ _ Ha). lia. }
  assert (E1 : nth (lindex (node_index np) a) (map row_connected (mna_matrix np)) false = true).
  { apply (proj1 (Forall_forall _ _) F). apply nth_In. exact Li. }
  rewrite E1.
  rewrite (select_all_true _ (mna_matrix np) F) by apply map_length.
  rewrite (select_all_true _ (mna_rhs np) F) by (rewrite map_length, SL; symmetry; apply mna_rhs_length).
  assert (E2 : map (select (map row_connected (mna_matrix np))) (mna_matrix np) = mna_matrix np).
  { rewrite <- (map_id (mna_matrix np)) at 3. apply map_ext_in. intros r Hr.
    apply select_all_true; [exact F|]. rewrite map_length, SL. symmetry. apply SR, Hr. }
  rewrite E2. rewrite (count_true_firstn_all _ _ F) by lia. reflexivity. Qed.

Lemma probed_labels n a b : wf n -> a <> b ->
  In a (node_labels (probed n a b)) /\ In b (node_labels (probed n a b)).
Proof. intros WF Hab. pose proof (labels_wf K (probed n a b) (wf_probed n a b WF Hab)) as L. split; apply L.
  - right. unfold endpoints, probed. simpl. rewrite !map_app. simpl. apply in_or_app. right. apply in_or_app. right. left. reflexivity.
  - left. reflexivity. Qed.

Lemma PortZ_unique n a b z z' : wf n -> a <> b -> WellPosed (probed n a b) -> PortZ n a b z -> PortZ n a b z' -> z = z'.
Proof. intros WF Hab [_ U] [phi [j [C ->]]] [phi' [j' [C' ->]]].
  destruct (U phi j phi' j' C C') as [UP _]. destruct (probed_labels n a b WF Hab) as [La Lb].
  rewrite (UP a La), (UP b Lb). reflexivity. Qed.

Theorem port_all_connected n a b z : wf n -> a <> b -> ideal_source_between n a b = false ->
  all_connected (probed n a b) = true -> open_circuit_impedance n a b = Ok (Some z) ->
  PortZ n a b z /\ WellPosed (probed n a b) /\ (forall z', PortZ n a b z' -> z' = z).
Proof. intros WF Hab NI AC H. rewrite (oci_unfold n a b WF Hab), NI in H.
  rewrite (port_solve_all_connected _ a AC) in H.
  set (np := probed n a b) in *. pose proof (wf_probed n a b WF Hab) as WFp. fold np in WFp.
  destruct (lmem a (node_index np)) eqn:Ha; [|discriminate].
  destruct (solve (mna_matrix np) (mna_rhs np)) as [x|] eqn:Hs; [|discriminate].
  injection H as <-.
  destruct (solve_sound K KOK _ _ _ Hs) as [Lx Mx].
  assert (S : solves np x) by (split; [rewrite Lx; apply mna_rhs_length|exact Mx]).
  assert (WP : WellPosed np).
  { apply (solved_wellposed K KOK np WFp {| s_net := np; s_x := x |}).
    unfold solve_network. rewrite (validate_wf K np WFp). simpl. rewrite Hs. reflexivity. }
  assert (P : PortZ n a b (nth (lindex (node_index np) a) x 0)).
  { exists (phi_of np x), (flow_of np x). split; [apply (mna_sound K KOK np WFp x S)|].
    unfold phi_of. change (zero np) with b. rewrite (label_eqb_neq a b Hab), label_eqb_refl. ring. }
  split; [exact P|]. split; [exact WP|]. intros z' P'. apply (PortZ_unique n a b z' _ WF Hab WP P' P). Qed.

(* =================== spec level: a network driven by an external current =================== *)
Definition ind a node : K := if label_eqb a node then 1 else 0.

Lemma kcl_app (l1 l2 : list (branch K)) j node : kcl_sum (l1 ++ l2) j node = kcl_sum l1 j node + kcl_sum l2 j node.
Proof. unfold kcl_sum. apply (sumF_app KOK). Qed.

Lemma kcl_one br j node : kcl_sum [br] j node = (ind (node1 br) node - ind (node2 br) node) * j br.
Proof. unfold kcl_sum, ind. simpl. destruct (label_eqb (node1 br) node), (label_eqb (node2 br) node); ring. Qed.

Lemma kcl_lin2 (bs : list (branch K)) (d1 d2 : K) j1 j2 node :
  kcl_sum bs (fun br => d1 * j1 br + d2 * j2 br) node = d1 * kcl_sum bs j1 node + d2 * kcl_sum bs j2 node.
Proof. unfold kcl_sum. induction bs as [|x bs IH]; simpl; [ring|]. rewrite IH.
  destruct (label_eqb (node1 x) node), (label_eqb (node2 x) node); ring. Qed.

Lemma kcl_Forall2 (bs bs' : list (branch K)) j j' node :
  Forall2 (fun x y => node1 x = node1 y /\ node2 x = node2 y /\ j x = j' y) bs bs' ->
  kcl_sum bs j node = kcl_sum bs' j' node.
Proof. unfold kcl_sum. induction 1 as [|x y bs bs' [H1 [H2 H3]] F IH]; simpl; [reflexivity|].
  rewrite IH, H1, H2, H3. reflexivity. Qed.

Lemma kcl_ext_in (bs : list (branch K)) j j' node :
  (forall br, In br bs -> j br = j' br) -> kcl_sum bs j node = kcl_sum bs j' node.
Proof. intros H. unfold kcl_sum. apply sumF_ext_in. intros br Hbr. rewrite (H br Hbr). reflexivity. Qed.

Lemma kcl_map_kp0 (bs : list (branch K)) j node :
  kcl_sum (map kp0 bs) j node = kcl_sum bs (fun br => j (kp0 br)) node.
Proof. unfold kcl_sum. rewrite sumF_map. apply sumF_ext. intros br. rewrite kp0_n1, kp0_n2. reflexivity. Qed.

(* the element laws with every source set to zero *)
Definition hom_law phi j br : Prop :=
  match eY (el br) with None => bvolt phi br = 0 | Some y => j br = y * bvolt phi br end.

(* KCL with a current [c] fed into node a and drawn from node b; element laws of n (sources active / zeroed) *)
Definition Driven n a b (c : K) phi j : Prop :=
  (forall node, kcl_sum (branches n) j node = c * (ind a node - ind b node))
  /\ (forall br, In br (branches n) -> law phi j br).
Definition DrivenH n a b (c : K) phi j : Prop :=
  (forall node, kcl_sum (branches n) j node = c * (ind a node - ind b node))
  /\ (forall br, In br (branches n) -> hom_law phi j br).

Lemma spec_driven n a b phi j : CircuitSpec n phi j <-> phi (zero n) = 0 /\ Driven n a b 0 phi j.
Proof. unfold CircuitSpec, Driven. split.
  - intros [Z [KC LW]]. split; [exact Z|]. split; [|exact LW]. intros node. rewrite KC. ring.
  - intros [Z [KC LW]]. split; [exact Z|]. split; [|exact LW]. intros node. rewrite KC. ring. Qed.

Lemma bvolt_kp0 phi br : bvolt phi (kp0 br) = bvolt phi br.
Proof. unfold bvolt. rewrite kp0_n1, kp0_n2. reflexivity. Qed.

Lemma law_kp0 phi j br : law phi j (kp0 br) <-> hom_law phi (fun x => j (kp0 x)) br.
Proof. rewrite law_src. unfold hom_law. rewrite kp0_eY, kp0_src, bvolt_kp0.
  destruct (eY (el br)) as [y|]; [|tauto]. split; intros H; rewrite H; ring. Qed.

Lemma probe_n1 n a b : node1 (probe n a b) = b. Proof. reflexivity. Qed.
Lemma probe_n2 n a b : node2 (probe n a b) = a. Proof. reflexivity. Qed.
Lemma law_probe n a b phi j : law phi j (probe n a b) <-> j (probe n a b) = 1.
Proof. unfold law. change (eY (el (probe n a b))) with (Some 0). change (eI (el (probe n a b))) with (Some 1). simpl.
  split; intros H; rewrite H; ring. Qed.

Lemma probed_drivenH n a b phi j : CircuitSpec (probed n a b) phi j ->
  phi b = 0 /\ DrivenH n a b 1 phi (fun br => j (kp0 br)).
Proof. intros [Z [KC LW]]. split; [exact Z|]. split.
  - intros node. specialize (KC node). unfold probed in KC. simpl in KC.
    rewrite kcl_app, kcl_one, kcl_map_kp0, probe_n1, probe_n2 in KC.
    assert (J : j (probe n a b) = 1).
    { apply (law_probe n a b phi j). apply LW. simpl. apply in_or_app. right. left. reflexivity. }
    rewrite J in KC.
    match type of KC with ?x + ?y = _ => replace x with (x + y - y) by ring end. rewrite KC. ring.
  - intros br Hbr. apply law_kp0. apply LW. simpl. apply in_or_app. left. apply in_map. exact Hbr. Qed.

(* a flow on the probed network from a flow on the branches of n *)
Definition lift n a b (jn : branch K -> K) (br' : branch K) : K :=
  if label_eqb (bid br') (bid (probe n a b)) then 1
  else match get_branch (branches n) (bid br') with Some br => jn br | None => 0 end.

Lemma lift_kp0 n a b jn br : wf n -> In br (branches n) -> lift n a b jn (kp0 br) = jn br.
Proof. intros WF Hbr. unfold lift. rewrite kp0_bid.
  destruct (label_eqb_spec (bid br) (bid (probe n a b))) as [E|E].
  - exfalso. apply (probe_fresh n a b). rewrite <- E. apply in_map. exact Hbr.
  - rewrite (get_branch_In K _ br (proj1 WF) Hbr). reflexivity. Qed.

Lemma lift_probe n a b jn : lift n a b jn (probe n a b) = 1.
Proof. unfold lift. rewrite label_eqb_refl. reflexivity. Qed.

Lemma drivenH_probed n a b phi jn : wf n -> phi b = 0 -> DrivenH n a b 1 phi jn ->
  CircuitSpec (probed n a b) phi (lift n a b jn).
Proof. intros WF Z [KC LW]. split; [exact Z|]. split.
  - intros node. unfold probed. simpl. rewrite kcl_app, kcl_one, kcl_map_kp0, probe_n1, probe_n2, lift_probe.
    rewrite (kcl_ext_in (branches n) _ jn) by (intros br Hbr; apply lift_kp0; assumption).
    rewrite KC. ring.
  - intros br' Hbr'. simpl in Hbr'. apply in_app_or in Hbr'. destruct Hbr' as [Hbr'|[<-|[]]].
    + apply in_map_iff in Hbr'. destruct Hbr' as [br [<- Hbr]]. apply law_kp0.
      specialize (LW br Hbr). unfold hom_law in *. rewrite (lift_kp0 n a b jn br WF Hbr). exact LW.
    + apply law_probe. apply lift_probe. Qed.

Lemma hom_law_shift phi j br (k : K) : hom_law phi j br -> hom_law (fun l => phi l - k) j br.
Proof. unfold hom_law. rewrite (bvolt_shift K KOK). tauto. Qed.

Lemma drivenH_shift n a b c phi j (k : K) : DrivenH n a b c phi j -> DrivenH n a b c (fun l => phi l - k) j.
Proof. intros [KC LW]. split; [exact KC|]. intros br Hbr. apply hom_law_shift, LW, Hbr. Qed.

(* PortZ without the probe branch: the deactivated network driven by a unit current *)
Theorem PortZ_iff n a b z : wf n ->
  (PortZ n a b z <-> exists phi jn, DrivenH n a b 1 phi jn /\ z = phi a - phi b).
Proof. intros WF. split.
  - intros [phi [j [C ->]]]. exists phi, (fun br => j (kp0 br)). split; [apply (probed_drivenH n a b phi j C)|reflexivity].
  - intros [phi [jn [D ->]]]. exists (fun l => phi l - phi b), (lift n a b jn). split; [|ring].
    apply drivenH_probed; [exact WF|ring|apply drivenH_shift, D]. Qed.

(* ---------------- linear combinations ---------------- *)
Lemma bvolt_lin phi1 phi2 (d k : K) br :
  bvolt (fun l => phi1 l + d * (phi2 l - k)) br = bvolt phi1 br + d * bvolt phi2 br.
Proof. unfold bvolt. ring. Qed.

Lemma kcl_add (bs : list (branch K)) (d : K) j1 j2 node :
  kcl_sum bs (fun br => j1 br + d * j2 br) node = kcl_sum bs j1 node + d * kcl_sum bs j2 node.
Proof. rewrite (kcl_ext_in bs _ (fun br => 1 * j1 br + d * j2 br)) by (intros; ring). rewrite kcl_lin2. ring. Qed.

Lemma kcl_scal (bs : list (branch K)) (d : K) j node :
  kcl_sum bs (fun br => d * j br) node = d * kcl_sum bs j node.
Proof. rewrite (kcl_ext_in bs _ (fun br => d * j br + 0 * j br)) by (intros; ring). rewrite kcl_lin2. ring. Qed.

Lemma driven_c n a b (c c' : K) phi j : c = c' -> Driven n a b c phi j -> Driven n a b c' phi j.
Proof. intros ->. tauto. Qed.
Lemma drivenH_c n a b (c c' : K) phi j : c = c' -> DrivenH n a b c phi j -> DrivenH n a b c' phi j.
Proof. intros ->. tauto. Qed.

(* superposition of a solution with sources and a solution of the deactivated network *)
Lemma driven_add n a b (c1 c2 d k : K) phi1 j1 phi2 j2 :
  Driven n a b c1 phi1 j1 -> DrivenH n a b c2 phi2 j2 ->
  Driven n a b (c1 + d * c2) (fun l => phi1 l + d * (phi2 l - k)) (fun br => j1 br + d * j2 br).
Proof. intros [KC1 LW1] [KC2 LW2]. split.
  - intros node. rewrite kcl_add, KC1, KC2. ring.
  - intros br Hbr. specialize (LW1 br Hbr). specialize (LW2 br Hbr). apply law_src. apply law_src in LW1.
    unfold hom_law in LW2. rewrite bvolt_lin. destruct (eY (el br)) as [y|].
    + rewrite LW1, LW2. ring.
    + rewrite LW1, LW2. ring. Qed.

Lemma drivenH_scal n a b (c d : K) phi j :
  DrivenH n a b c phi j -> DrivenH n a b (d * c) (fun l => d * phi l) (fun br => d * j br).
Proof. intros [KC LW]. split.
  - intros node. rewrite kcl_scal, KC. ring.
  - intros br Hbr. specialize (LW br Hbr). unfold hom_law in *.
    replace (bvolt (fun l => d * phi l) br) with (d * bvolt phi br) by (unfold bvolt; ring).
    destruct (eY (el br)) as [y|]; rewrite LW; ring. Qed.

(* ---------------- symmetry in the two nodes ---------------- *)
Lemma drivenH_swap n a b (c : K) phi j :
  DrivenH n a b c phi j -> DrivenH n b a c (fun l => - phi l) (fun br => - j br).
Proof. intros [KC LW]. split.
  - intros node. rewrite (kcl_ext_in (branches n) _ (fun br => (- (1)) * j br)) by (intros; ring).
    rewrite kcl_scal, KC. ring.
  - intros br Hbr. specialize (LW br Hbr). unfold hom_law in *.
    replace (bvolt (fun l => - phi l) br) with (- bvolt phi br) by (unfold bvolt; ring).
    destruct (eY (el br)) as [y|]; rewrite LW; ring. Qed.

Theorem PortZ_sym n a b z : wf n -> PortZ n a b z -> PortZ n b a z.
Proof. intros WF P. apply (PortZ_iff n a b z WF) in P. destruct P as [phi [jn [D ->]]].
  apply (PortZ_iff n b a _ WF). exists (fun l => - phi l), (fun br => - jn br).
  split; [apply drivenH_swap, D|ring]. Qed.

(* ---------------- the reference node of n plays no role ---------------- *)
Lemma probed_reground g n a b : probed (reground g n) a b = probed n a b.
Proof. reflexivity. Qed.

Theorem PortZ_reground g n a b z : PortZ (reground g n) a b z <-> PortZ n a b z.
Proof. unfold PortZ. rewrite probed_reground. tauto. Qed.

Theorem oci_reground g n a b : wf n -> In g (node_labels n) ->
  open_circuit_impedance (reground g n) a b = open_circuit_impedance n a b.
Proof. intros WF Hg. destruct (label_eqb_spec a b) as [E|E].
  - unfold open_circuit_impedance. subst b. rewrite label_eqb_refl. reflexivity.
  - rewrite (oci_unfold n a b WF E), (oci_unfold (reground g n) a b (wf_reground K g n WF Hg) E). reflexivity. Qed.

(* ---------------- the source values play no role ---------------- *)
Lemma skel_sym n n' : skel n n' -> skel n' n.
Proof. intros [Z F]. split; [symmetry; exact Z|]. apply Forall2_flip in F.
  apply (Forall2_In_impl _ _ _ _ (fun x y _ _ H => same_pos_sym K y x H) F). Qed.

Lemma drivenH_skel n n' a b (c : K) phi j : wf n -> skel n n' -> DrivenH n a b c phi j ->
  DrivenH n' a b c phi (fun br' => match get_branch (branches n) (bid br') with Some br => j br | None => 0 end).
Proof. intros WF [_ F] [KC LW].
  assert (G : forall br br', In br (branches n) -> same_pos br br' -> get_branch (branches n) (bid br') = Some br).
  { intros br br' Hbr [_ [_ [E _]]]. rewrite <- E. apply (get_branch_In K); [exact (proj1 WF)|exact Hbr]. }
  split.
  - intros node. rewrite <- KC. symmetry. apply kcl_Forall2.
    apply (Forall2_In_impl same_pos); [|exact F]. intros br br' Hbr _ SP. split; [apply SP|]. split; [apply SP|].
    rewrite (G br br' Hbr SP). reflexivity.
  - intros br' Hbr'. destruct (Forall2_In_r _ _ _ _ F Hbr') as [br [Hbr SP]].
    specialize (LW br Hbr). unfold hom_law in *. rewrite (G br br' Hbr SP).
    destruct SP as [N1 [N2 [_ EY]]]. rewrite <- EY.
    replace (bvolt phi br') with (bvolt phi br) by (unfold bvolt; rewrite N1, N2; reflexivity). exact LW. Qed.

Theorem PortZ_skel n n' a b z : wf n -> skel n n' -> (PortZ n a b z <-> PortZ n' a b z).
Proof. intros WF SK. pose proof (skel_wf K n n' SK WF) as WF'. split; intros P.
  - apply (PortZ_iff n a b z WF) in P. destruct P as [phi [jn [D ->]]]. apply (PortZ_iff n' a b _ WF').
    eexists phi, _. split; [apply (drivenH_skel n n' a b 1 phi jn WF SK D)|reflexivity].
  - apply (PortZ_iff n' a b z WF') in P. destruct P as [phi [jn [D ->]]]. apply (PortZ_iff n a b _ WF).
    eexists phi, _. split; [apply (drivenH_skel n' n a b 1 phi jn WF' (skel_sym n n' SK) D)|reflexivity]. Qed.

Corollary PortZ_scale (c : K) n a b z : wf n -> (PortZ n a b z <-> PortZ (scale_net c n) a b z).
Proof. intros WF. apply PortZ_skel; [exact WF|apply skel_scale]. Qed.

(* ---------------- the two early exits ---------------- *)
Lemma oci_same n a : open_circuit_impedance n a a = Ok (Some 0).
Proof. unfold open_circuit_impedance. rewrite label_eqb_refl. reflexivity. Qed.

Lemma PortZ_same n a z : PortZ n a a z -> z = 0.
Proof. intros [phi [j [_ ->]]]. ring. Qed.

Lemma oci_ideal n a b : ideal_source_between n a b = true -> open_circuit_impedance n a b = Ok (Some 0).
Proof. intros H. unfold open_circuit_impedance. rewrite H. destruct (label_eqb a b); reflexivity. Qed.

Lemma between_ends a b br : a <> b -> between a b br = true ->
  (node1 br = a /\ node2 br = b) \/ (node1 br = b /\ node2 br = a).
Proof. intros Hab. unfold between.
  destruct (label_eqb_spec (node1 br) a) as [E1|E1]; destruct (label_eqb_spec (node1 br) b) as [E2|E2];
  destruct (label_eqb_spec (node2 br) a) as [E3|E3]; destruct (label_eqb_spec (node2 br) b) as [E4|E4];
  destruct (label_eqb_spec a (node1 br)) as [E5|E5]; destruct (label_eqb_spec a (node2 br)) as [E6|E6];
  destruct (label_eqb_spec b (node1 br)) as [E7|E7]; destruct (label_eqb_spec b (node2 br)) as [E8|E8];
  simpl; intros H; try discriminate; try congruence; tauto. Qed.

Theorem PortZ_ideal n a b z : ideal_source_between n a b = true -> PortZ n a b z -> z = 0.
Proof. intros H [phi [j [C ->]]]. destruct (label_eqb_spec a b) as [E|Hab]; [subst; ring|].
  unfold ideal_source_between in H. apply existsb_exists in H. destruct H as [br [Hbr IV]].
  apply filter_In in Hbr. destruct Hbr as [Hbr BT].
  destruct (probed_drivenH n a b phi j C) as [_ [_ LW]]. specialize (LW br Hbr). unfold hom_law in LW.
  rewrite (ivs_noY K KOK) in IV. destruct (eY (el br)) as [y|]; [discriminate|].
  unfold bvolt in LW. destruct (between_ends a b br Hab BT) as [[E1 E2]|[E1 E2]]; rewrite E1, E2 in LW.
  - exact LW.
  - replace (phi a - phi b) with (- (phi b - phi a)) by ring. rewrite LW. ring. Qed.

Corollary PortZ_ideal_zero n a b : ideal_source_between n a b = true -> WellPosed (probed n a b) -> PortZ n a b 0.
Proof. intros H [[phi [j C]] _].
  assert (P : PortZ n a b (phi a - phi b)) by (exists phi, j; split; [exact C|reflexivity]).
  rewrite <- (PortZ_ideal n a b _ H P). exact P. Qed.

(* =================== Thevenin / Norton: the port with a load attached =================== *)
Definition load_branch a b (lid : label) (ZL : K) : branch K := Build_branch a b (impedance lid ZL).
Definition loaded n a b (lid : label) (ZL : K) : network K :=
  {| branches := branches n ++ [load_branch a b lid ZL]; zero := zero n |}.

(* the law of the load: v = ZL * j (a short circuit for ZL = 0) *)
Lemma law_load a b lid (ZL : K) phi j :
  law phi j (load_branch a b lid ZL) <-> phi a - phi b = ZL * j (load_branch a b lid ZL).
Proof. unfold law, load_branch, impedance, bvolt. simpl. feq ZL 0; simpl.
  - subst ZL. split; intros H; rewrite H; ring.
  - split; intros H.
    + rewrite H. field. assumption.
    + rewrite H. field. assumption. Qed.

Lemma loaded_driven n a b lid (ZL : K) phi j : CircuitSpec (loaded n a b lid ZL) phi j ->
  phi (zero n) = 0 /\ Driven n a b (- j (load_branch a b lid ZL)) phi j
  /\ phi a - phi b = ZL * j (load_branch a b lid ZL).
Proof. intros [Z [KC LW]]. split; [exact Z|]. split; [split|].
  - intros node. specialize (KC node). unfold loaded in KC. simpl in KC. rewrite kcl_app, kcl_one in KC. simpl in KC.
    match type of KC with ?x + ?y = _ => replace x with (x + y - y) by ring end. rewrite KC. ring.
  - intros br Hbr. apply LW. simpl. apply in_or_app. left. exact Hbr.
  - apply law_load. apply LW. simpl. apply in_or_app. right. left. reflexivity. Qed.

Definition with_load (lid : label) (iL : K) (jn : branch K -> K) (br : branch K) : K :=
  if label_eqb (bid br) lid then iL else jn br.

Lemma driven_loaded n a b lid (ZL iL : K) phi jn : ~ In lid (branch_ids n) ->
  phi (zero n) = 0 -> Driven n a b (- iL) phi jn -> phi a - phi b = ZL * iL ->
  CircuitSpec (loaded n a b lid ZL) phi (with_load lid iL jn).
Proof. intros FR Z [KC LW] HV.
  assert (E : forall br, In br (branches n) -> with_load lid iL jn br = jn br).
  { intros br Hbr. unfold with_load. destruct (label_eqb_spec (bid br) lid) as [E|E]; [|reflexivity].
    exfalso. apply FR. rewrite <- E. apply in_map. exact Hbr. }
  assert (EL : with_load lid iL jn (load_branch a b lid ZL) = iL).
  { unfold with_load, load_branch, bid. simpl. rewrite label_eqb_refl. reflexivity. }
  split; [exact Z|]. split.
  - intros node. unfold loaded. simpl. rewrite kcl_app, kcl_one, EL. simpl.
    rewrite (kcl_ext_in (branches n) _ jn node E), KC. ring.
  - intros br Hbr. simpl in Hbr. apply in_app_or in Hbr. destruct Hbr as [Hbr|[<-|[]]].
    + specialize (LW br Hbr). unfold law in *. rewrite (E br Hbr). exact LW.
    + apply law_load. rewrite EL. exact HV. Qed.

Lemma loaded_labels n a b lid (ZL : K) l : In a (node_labels n) -> In b (node_labels n) ->
  In l (node_labels (loaded n a b lid ZL)) -> In l (node_labels n).
Proof. intros Ha Hb H. unfold node_labels, loaded in H. simpl in H.
  destruct (branches n ++ [load_branch a b lid ZL]) as [|x r] eqn:E; [destruct (branches n); discriminate|].
  rewrite <- E in H. apply (proj1 (lsort_In _ _)) in H. apply (proj1 (ldedup_In _ _)) in H. rewrite !map_app in H. simpl in H.
  apply in_app_or in H. destruct H as [H|H]; apply in_app_or in H; destruct H as [H|[<-|[]]]; try assumption.
  - apply (node_labels_In K n l); [intros E0; rewrite E0 in H; exact H|]. unfold endpoints. apply in_or_app. left. exact H.
  - apply (node_labels_In K n l); [intros E0; rewrite E0 in H; exact H|]. unfold endpoints. apply in_or_app. right. exact H. Qed.

Section Thevenin.
Variables (n : network K) (a b lid : label) (ZL Zth : K) (phi0 : label -> K) (j0 : branch K -> K).
Hypothesis WF : wf n.
Hypothesis WP : WellPosed n.
Hypothesis C0 : CircuitSpec n phi0 j0.
Hypothesis La : In a (node_labels n).
Hypothesis Lb : In b (node_labels n).
Hypothesis PZ : PortZ n a b Zth.
Hypothesis NZ : Zth + ZL <> 0.
Let Voc : K := phi0 a - phi0 b.
Let nL := loaded n a b lid ZL.
Let ld := load_branch a b lid ZL.

(* every solution of the loaded network carries Voc/(Zth+ZL) through the load *)
Lemma thevenin_current phi j : CircuitSpec nL phi j -> j ld = Voc / (Zth + ZL).
Proof. intros C. destruct (loaded_driven n a b lid ZL phi j C) as [Z [D HV]]. fold ld in D, HV.
  apply (PortZ_iff n a b Zth WF) in PZ. destruct PZ as [phip [jp [DH EZ]]].
  pose proof (driven_add n a b _ _ (j ld) (phip (zero n)) _ _ _ _ D DH) as D2.
  apply (driven_c _ _ _ _ 0) in D2; [|ring].
  assert (C2 : CircuitSpec n (fun l => phi l + j ld * (phip l - phip (zero n))) (fun br => j br + j ld * jp br)).
  { apply (spec_driven n a b). split; [rewrite Z; ring|exact D2]. }
  destruct (proj2 WP _ _ _ _ C2 C0) as [UP _]. pose proof (UP a La) as Ea. pose proof (UP b Lb) as Eb. simpl in Ea, Eb.
  assert (H : j ld * (Zth + ZL) = Voc).
  { unfold Voc. rewrite <- Ea, <- Eb, EZ.
    replace (phi a + j ld * (phip a - phip (zero n)) - (phi b + j ld * (phip b - phip (zero n))))
      with ((phi a - phi b) + j ld * (phip a - phip b)) by ring. rewrite HV. ring. }
  rewrite <- H. field. exact NZ. Qed.

Theorem thevenin_load phi j : CircuitSpec nL phi j ->
  j ld = Voc / (Zth + ZL) /\ phi a - phi b = Voc * ZL / (Zth + ZL).
Proof. intros C. pose proof (thevenin_current phi j C) as I. split; [exact I|].
  destruct (loaded_driven n a b lid ZL phi j C) as [_ [_ HV]]. fold ld in HV. rewrite HV, I. field. exact NZ. Qed.

Hypothesis FR : ~ In lid (branch_ids n).

(* and there is one: open-circuit solution minus Voc/(Zth+ZL) times the probe solution *)
Theorem thevenin_exists : exists phi j, CircuitSpec nL phi j.
Proof. pose proof PZ as PZ'. apply (PortZ_iff n a b Zth WF) in PZ'. destruct PZ' as [phip [jp [DH EZ]]].
  set (iL := Voc / (Zth + ZL)).
  pose proof (proj2 (proj1 (spec_driven n a b phi0 j0) C0)) as D0.
  pose proof (driven_add n a b _ _ (- iL) (phip (zero n)) _ _ _ _ D0 DH) as D2.
  apply (driven_c _ _ _ _ (- iL)) in D2; [|ring].
  exists (fun l => phi0 l + - iL * (phip l - phip (zero n))), (with_load lid iL (fun br => j0 br + - iL * jp br)).
  apply (driven_loaded n a b lid ZL iL _ _ FR); [|exact D2|].
  - simpl. rewrite (proj1 C0). ring.
  - simpl. replace (phi0 a + - iL * (phip a - phip (zero n)) - (phi0 b + - iL * (phip b - phip (zero n))))
      with (Voc - iL * Zth) by (unfold Voc; rewrite EZ; ring).
    unfold iL. field. exact NZ. Qed.

(* the loaded network is again well-posed *)
Theorem thevenin_wellposed : WellPosed nL.
Proof. split; [exact thevenin_exists|]. intros phi1 j1 phi2 j2 C1 C2.
  pose proof (thevenin_current phi1 j1 C1) as I1. pose proof (thevenin_current phi2 j2 C2) as I2.
  destruct (loaded_driven n a b lid ZL phi1 j1 C1) as [Z1 [D1 _]]. destruct (loaded_driven n a b lid ZL phi2 j2 C2) as [Z2 [D2 _]].
  fold ld in D1, D2. pose proof PZ as PZ'. apply (PortZ_iff n a b Zth WF) in PZ'. destruct PZ' as [phip [jp [DH EZ]]].
  pose proof (driven_add n a b _ _ (j1 ld) (phip (zero n)) _ _ _ _ D1 DH) as E1.
  pose proof (driven_add n a b _ _ (j2 ld) (phip (zero n)) _ _ _ _ D2 DH) as E2.
  apply (driven_c _ _ _ _ 0) in E1; [|ring]. apply (driven_c _ _ _ _ 0) in E2; [|ring].
  assert (S1 : CircuitSpec n (fun l => phi1 l + j1 ld * (phip l - phip (zero n))) (fun br => j1 br + j1 ld * jp br))
    by (apply (spec_driven n a b); split; [rewrite Z1; ring|exact E1]).
  assert (S2 : CircuitSpec n (fun l => phi2 l + j2 ld * (phip l - phip (zero n))) (fun br => j2 br + j2 ld * jp br))
    by (apply (spec_driven n a b); split; [rewrite Z2; ring|exact E2]).
  destruct (proj2 WP _ _ _ _ S1 S2) as [UP UJ]. simpl in UP, UJ. rewrite I1, I2 in UP, UJ.
  assert (CANCEL : forall x y t : K, x + t = y + t -> x = y).
  { intros x y t H. replace x with (x + t - t) by ring. rewrite H. ring. }
  split.
  - intros l Hl. apply (CANCEL _ _ (Voc / (Zth + ZL) * (phip l - phip (zero n)))). apply UP.
    apply (loaded_labels n a b lid ZL l La Lb Hl).
  - intros br Hbr. simpl in Hbr. apply in_app_or in Hbr. destruct Hbr as [Hbr|[<-|[]]].
    + apply (CANCEL _ _ (Voc / (Zth + ZL) * jp br)). apply UJ, Hbr.
    + fold ld. rewrite I1, I2. reflexivity. Qed.

End Thevenin.

(* ---------------- the model's open_circuit_voltage and short_circuit_current ---------------- *)
Lemma get_potential_ok n (x : list K) l (p : K) : wf n ->
  get_potential {| s_net := n; s_x := x |} l = Ok p -> p = phi_of n x l /\ In l (node_labels n).
Proof. intros WF. unfold get_potential, phi_of. simpl. destruct (label_eqb_spec l (zero n)) as [E|E].
  - intros H. injection H as <-. split; [reflexivity|]. subst l. apply (zero_label K n WF).
  - destruct (lmem l (node_index n)) eqn:M; [|discriminate]. intros H. injection H as <-. split; [reflexivity|].
    apply lmem_spec in M. unfold node_index in M. apply filter_In in M. destruct M as [M _].
    apply (proj1 (lsort_In _ _)) in M. exact M. Qed.

Theorem ocv_sound n a b (v : K) : wf n -> a <> b -> open_circuit_voltage n a b = Ok v ->
  exists x, solves n x /\ WellPosed n /\ CircuitSpec n (phi_of n x) (flow_of n x)
            /\ v = phi_of n x a - phi_of n x b /\ In a (node_labels n) /\ In b (node_labels n).
Proof. intros WF Hab. unfold open_circuit_voltage. destruct (solve_network n) as [s|e] eqn:Hs; simpl; [|discriminate].
  rewrite (label_eqb_neq a b Hab). pose proof (solved_wellposed K KOK n WF s Hs) as WP.
  destruct (solved_unpack K KOK n s WF Hs) as [x [-> S]].
  destruct (get_potential _ a) as [p1|] eqn:G1; simpl; [|discriminate].
  destruct (get_potential _ b) as [p2|] eqn:G2; simpl; [|discriminate].
  intros H. injection H as <-.
  destruct (get_potential_ok n x a p1 WF G1) as [-> La]. destruct (get_potential_ok n x b p2 WF G2) as [-> Lb].
  exists x. split; [exact S|]. split; [exact WP|]. split; [apply (mna_sound K KOK n WF x S)|]. repeat split; assumption. Qed.

Lemma scc_value n a b (z i : K) : a <> b -> open_circuit_impedance n a b = Ok (Some z) ->
  short_circuit_current n a b = Ok (Some i) ->
  z <> 0 /\ exists v, open_circuit_voltage n a b = Ok v /\ i = v / z.
Proof. intros Hab HZ. unfold short_circuit_current. rewrite HZ. simpl.
  destruct (open_circuit_voltage n a b) as [v|e]; simpl; [|discriminate].
  rewrite (label_eqb_neq a b Hab). feq z 0; [discriminate|]. intros H. injection H as <-.
  split; [assumption|]. exists v. split; reflexivity. Qed.

(* Norton: the current through a short circuit across the port is Voc / Zth *)
Theorem norton_short n a b lid (z v : K) phi j : wf n -> a <> b ->
  open_circuit_voltage n a b = Ok v -> PortZ n a b z -> z <> 0 ->
  CircuitSpec (loaded n a b lid 0) phi j -> j (load_branch a b lid 0) = v / z.
Proof. intros WF Hab HV PZ NZ C.
  destruct (ocv_sound n a b v WF Hab HV) as [x [S [WP [C0 [-> [La Lb]]]]]].
  assert (NZ' : z + 0 <> 0) by (intros H; apply NZ; rewrite <- H; ring).
  rewrite (thevenin_current n a b lid 0 z _ _ WF WP C0 La Lb PZ NZ' phi j C). field. exact NZ. Qed.

(* ---------------- statements as they appear in Properties/C06.v ---------------- *)
Theorem zero_same_all n a : open_circuit_impedance n a a = Ok (Some 0) /\ (forall z, PortZ n a a z -> z = 0).
Proof. split; [apply oci_same|apply PortZ_same]. Qed.

Theorem zero_ideal_all n a b : ideal_source_between n a b = true ->
  open_circuit_impedance n a b = Ok (Some 0)
  /\ (forall z, PortZ n a b z -> z = 0)
  /\ (WellPosed (probed n a b) -> PortZ n a b 0).
Proof. intros H. split; [apply oci_ideal, H|]. split; [intros z; apply PortZ_ideal, H|apply PortZ_ideal_zero, H]. Qed.

Theorem thevenin_all n a b lid (ZL Zth : K) phi0 j0 :
  wf n -> WellPosed n -> CircuitSpec n phi0 j0 -> In a (node_labels n) -> In b (node_labels n) ->
  PortZ n a b Zth -> Zth + ZL <> 0 -> ~ In lid (branch_ids n) ->
  WellPosed (loaded n a b lid ZL)
  /\ (forall phi j, CircuitSpec (loaded n a b lid ZL) phi j ->
        j (load_branch a b lid ZL) = (phi0 a - phi0 b) / (Zth + ZL)
        /\ phi a - phi b = (phi0 a - phi0 b) * ZL / (Zth + ZL)).
Proof. intros WF WP C0 La Lb PZ NZ FR. split.
  - apply (thevenin_wellposed n a b lid ZL Zth phi0 j0); assumption.
  - apply (thevenin_load n a b lid ZL Zth phi0 j0); assumption. Qed.

Theorem norton_model n a b lid (z i : K) : wf n -> a <> b ->
  open_circuit_impedance n a b = Ok (Some z) -> PortZ n a b z ->
  short_circuit_current n a b = Ok (Some i) ->
  z <> 0 /\ forall phi j, CircuitSpec (loaded n a b lid 0) phi j -> j (load_branch a b lid 0) = i.
Proof. intros WF Hab HZ PZ HI. destruct (scc_value n a b z i Hab HZ HI) as [NZ [v [HV ->]]]. split; [exact NZ|].
  intros phi j C. apply (norton_short n a b lid z v phi j WF Hab HV PZ NZ C). Qed.

End PortThm.

Arguments deactivated {K}. Arguments kp0 {K}. Arguments probe {K}. Arguments probed {K}. Arguments PortZ {K}.
Arguments all_connected {K}. Arguments ind {K}. Arguments hom_law {K}. Arguments Driven {K}. Arguments DrivenH {K}.
Arguments lift {K}. Arguments load_branch {K}. Arguments loaded {K}. Arguments with_load {K}.
