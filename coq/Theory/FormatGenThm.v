(* Theory/FormatGenThm.v — the regenerated Utils.py (Gen/FormatGen.v, written by tools/gen_format.py in the vocabulary of
   Model/FormatPrims.v) is the hand-written model Model/Format.v.  Statements: Properties/C18c.v. *)
From Coq Require Import List Bool ZArith NArith QArith Qabs Qround Lia.
From CC Require Import Model.Network Theory.Labels Model.Format Theory.FormatThm Theory.FormatText Model.Annotation Model.AnnotationPrims
  Model.FormatPrims Gen.FormatGen.
Import ListNotations.
Open Scope Z_scope.

(* ---------- the vocabulary: powers of ten ---------- *)
Lemma fpow10_Qpow10 k : fpow10 k = Qpow10 k.
Proof. reflexivity. Qed.

Lemma pos_p10 k : 0 <= k -> Zpos (Z.to_pos (10 ^ k)) = 10 ^ k.
Proof. intros H. apply Z2Pos.id. apply p10_pos. exact H. Qed.

Lemma Qmult_fpow10_nonneg x k : 0 <= k -> Qmult x (fpow10 k) = (Qnum x * 10 ^ k) # Qden x.
Proof.
  intros H. unfold fpow10. destruct (k <? 0) eqn:E; [apply Z.ltb_lt in E; lia|].
  unfold Qmult, inject_Z. cbn [Qnum Qden]. rewrite Pos.mul_1_r. reflexivity.
Qed.

Lemma Qmult_fpow10_neg x k : k < 0 -> Qmult x (fpow10 k) = Qnum x # (Qden x * Z.to_pos (10 ^ (- k))).
Proof.
  intros H. unfold fpow10. destruct (k <? 0) eqn:E; [|apply Z.ltb_ge in E; lia].
  unfold Qmult. cbn [Qnum Qden]. rewrite Z.mul_1_r. reflexivity.
Qed.

Lemma Qinv_inject_pos n : 0 < n -> Qinv (inject_Z n) = 1 # Z.to_pos n.
Proof. intros H. destruct n as [|q|q]; try lia. reflexivity. Qed.

Lemma Qdiv_fpow10_nonneg x k : 0 <= k -> Qdiv x (fpow10 k) = Qnum x # (Qden x * Z.to_pos (10 ^ k)).
Proof.
  intros H. unfold fpow10. destruct (k <? 0) eqn:E; [apply Z.ltb_lt in E; lia|].
  unfold Qdiv. rewrite Qinv_inject_pos by (apply p10_pos; exact H).
  unfold Qmult. cbn [Qnum Qden]. rewrite Z.mul_1_r. reflexivity.
Qed.

Lemma Qdiv_fpow10_neg x k : k < 0 -> Qdiv x (fpow10 k) = (Qnum x * 10 ^ (- k)) # Qden x.
Proof.
  intros H. unfold fpow10. destruct (k <? 0) eqn:E; [|apply Z.ltb_ge in E; lia].
  unfold Qdiv, Qinv. cbn [Qnum Qden]. unfold Qmult. cbn [Qnum Qden].
  rewrite Pos.mul_1_r. rewrite Z2Pos.id by (apply p10_pos; lia). reflexivity.
Qed.

(* ---------- comparisons of a float with the ints 0 and 1 ---------- *)
Lemma float_eqb_0 x : float_eqb x (inject_Z 0) = (Qnum x =? 0).
Proof. unfold float_eqb. cbn [inject_Z Qnum Qden]. rewrite Z.mul_1_r. reflexivity. Qed.
Lemma float_leb_0_l x : float_leb (inject_Z 0) x = (Qnum x >=? 0).
Proof. unfold float_leb. cbn [inject_Z Qnum Qden]. rewrite Z.mul_1_r, Z.geb_leb. reflexivity. Qed.
Lemma float_ltb_0_r x : float_ltb x (inject_Z 0) = (Qnum x <? 0).
Proof. unfold float_ltb. cbn [inject_Z Qnum Qden]. rewrite Z.mul_1_r. reflexivity. Qed.
Lemma float_ltb_1_r x : float_ltb x (inject_Z 1) = (Qnum x <? QDen x).
Proof. unfold float_ltb. cbn [inject_Z Qnum Qden]. rewrite Z.mul_1_r, Z.mul_1_l. reflexivity. Qed.

(* ---------- digits ---------- *)
Lemma digits_is_0 n : 0 <= n -> label_eqb (digits n) [48%N] = (n =? 0).
Proof.
  intros H. destruct (Z.eqb_spec n 0) as [->|NZ]; [reflexivity|].
  destruct (digits_spec n H) as [_ [D2 _]].
  destruct (label_eqb_spec (digits n) [48%N]) as [E|E]; [|reflexivity].
  rewrite E in D2. cbn in D2. lia.
Qed.

Lemma rhe_0 d : 0 < d -> rhe 0 d = 0.
Proof. intros H. exact (rhe_exact 0 d H). Qed.

(* ---------- FloatPrecision.exponent ---------- *)
Lemma rounded_post a d z p : 0 <= a -> 0 <= z -> 0 <= p ->
  let r := fs_post (np_round_decimals ((a # d) * fpow10 z) p / fpow10 z)%Q in
  Qnum r = rhe (a * 10 ^ (z + p)) (Zpos d) mod 10 ^ (z + p) /\ QDen r = 10 ^ (z + p).
Proof.
  intros A Z0 P. cbv zeta. unfold np_round_decimals.
  rewrite (Qmult_fpow10_nonneg (a # d) z Z0). cbn [Qnum Qden].
  rewrite (Qmult_fpow10_nonneg _ p P). cbn [Qnum Qden].
  unfold np_round. cbn [Qnum Qden].
  replace (a * 10 ^ z * 10 ^ p) with (a * 10 ^ (z + p)) by (rewrite Z.pow_add_r by lia; ring).
  set (R := rhe (a * 10 ^ (z + p)) (Zpos d)).
  assert (R0 : 0 <= R).
  { apply rhe_sign_nonneg; [lia|]. pose proof (p10_pos (z + p) ltac:(lia)). nia. }
  rewrite (Qdiv_fpow10_nonneg (inject_Z R) p P). cbn [Qnum Qden inject_Z].
  rewrite (Qdiv_fpow10_nonneg _ z Z0). cbn [Qnum Qden].
  unfold fs_post, float_mod1. cbn [Qabs Qnum Qden].
  assert (DE : Zpos (1 * Z.to_pos (10 ^ p) * Z.to_pos (10 ^ z)) = 10 ^ (z + p)).
  { rewrite !Pos2Z.inj_mul, !pos_p10 by lia. rewrite Z.pow_add_r by lia. ring. }
  rewrite DE. rewrite (Z.abs_eq R R0). split; reflexivity.
Qed.

Lemma gen_exponent_eq x p mn mx : 0 <= p ->
  g_FloatPrecision_exponent (mk_FloatPrecision x p mn mx) = exponent x p.
Proof.
  intros P. destruct x as [n d].
  unfold g_FloatPrecision_exponent, exponent, exponent_ab, g_FloatPrecision__float_to_string, float_str.
  cbn [FloatPrecision_value FloatPrecision_precision Qnum Qden Qabs].
  set (a := Z.abs n). set (b := Zpos d).
  assert (A0 : 0 <= a) by lia. assert (B0 : 0 < b) by lia.
  unfold fs_pre. cbn [Qnum Qfloor]. fold b.
  destruct (a <? 0) eqn:E0; [apply Z.ltb_lt in E0; lia|].
  unfold uk_0. rewrite digits_is_0 by (apply Z.div_pos; lia).
  destruct (b <=? a) eqn:EB.
  - (* |x| >= 1 *)
    apply Z.leb_le in EB.
    assert (Q1 : 1 <= a / b).
    { pose proof (Z.div_mod a b ltac:(lia)). pose proof (Z.mod_pos_bound a b B0). nia. }
    destruct (a / b =? 0) eqn:EQ; [apply Z.eqb_eq in EQ; lia|].
    destruct (a =? 0) eqn:EA; [apply Z.eqb_eq in EA; lia|].
    unfold str_len. destruct (digits_spec (a / b) ltac:(lia)) as [_ [_ [D3 _]]]. rewrite D3. reflexivity.
  - (* |x| < 1 *)
    apply Z.leb_gt in EB. rewrite (Z.div_small a b) by lia. cbn [Z.eqb].
    assert (PE : fs_post (a # d) = a # d).
    { unfold fs_post, float_mod1. cbn [Qabs Qnum Qden]. fold b. rewrite (Z.abs_eq a A0), (Z.mod_small a b) by lia. reflexivity. }
    rewrite PE.
    assert (Z0 : 0 <= leading_zeros (a # d)).
    { unfold leading_zeros. cbn [Qnum Qden]. destruct (a =? 0) eqn:EA; [lia|]. apply Z.eqb_neq in EA.
      apply (zeros_spec a b). lia. }
    destruct (rounded_post a d (leading_zeros (a # d)) p A0 Z0 P) as [RN RD]. cbv zeta in RN, RD.
    unfold dstr_is_zero. unfold leading_zeros at 3. rewrite RN, RD. clear RN RD.
    fold b. unfold leading_zeros. cbn [Qnum Qden]. fold b.
    destruct (a =? 0) eqn:EA.
    + apply Z.eqb_eq in EA. rewrite EA. rewrite Z.mul_0_l, (rhe_0 b B0).
      rewrite Z.mod_0_l by (pose proof (p10_pos (1 + p) ltac:(lia)); lia). reflexivity.
    + destruct (rhe (a * 10 ^ (zeros a b + p)) b mod 10 ^ (zeros a b + p) =? 0); reflexivity.
Qed.

Lemma scale10 x e : np_round (Qdiv x (fpow10 e)) = mantissa_e x e /\ np_round (Qmult x (fpow10 (- e))) = mantissa_e x e.
Proof.
  unfold mantissa_e. destruct (e <? 0) eqn:E.
  - apply Z.ltb_lt in E. rewrite (Qdiv_fpow10_neg x e E), (Qmult_fpow10_nonneg x (- e)) by lia. split; reflexivity.
  - apply Z.ltb_ge in E. rewrite (Qdiv_fpow10_nonneg x e E). unfold np_round at 1. cbn [Qnum Qden].
    rewrite Pos2Z.inj_mul, (pos_p10 e E). split; [reflexivity|].
    destruct (Z.eq_dec e 0) as [->|NZ].
    + cbn [Z.opp]. rewrite (Qmult_fpow10_nonneg x 0) by lia. unfold np_round. cbn [Qnum Qden Z.pow]. rewrite !Z.mul_1_r. reflexivity.
    + rewrite (Qmult_fpow10_neg x (- e)) by lia. unfold np_round. cbn [Qnum Qden].
      rewrite Z.opp_involutive, Pos2Z.inj_mul, (pos_p10 e E). reflexivity.
Qed.

Lemma gen_mantissa_eq x p mn mx : 0 <= p ->
  g_FloatPrecision_mantissa (mk_FloatPrecision x p mn mx) = mantissa x p.
Proof.
  intros P. unfold g_FloatPrecision_mantissa. cbv zeta. rewrite !(gen_exponent_eq x p mn mx P).
  cbn [FloatPrecision_value]. unfold mantissa.
  rewrite ?(proj1 (scale10 _ _)), ?(proj2 (scale10 _ _)). reflexivity.
Qed.

Lemma gen_is_zero_eq x p mn mx : 0 <= p ->
  g_FloatPrecision_is_zero (mk_FloatPrecision x p mn mx) = is_zero x p mn.
Proof.
  intros P. unfold g_FloatPrecision_is_zero, is_zero. rewrite (gen_exponent_eq x p mn mx P).
  cbn [FloatPrecision_value FloatPrecision_min_exp]. rewrite float_eqb_0.
  destruct (Qnum x =? 0); reflexivity.
Qed.

Lemma gen_is_inf_eq x p mn mx : 0 <= p ->
  g_FloatPrecision_is_inf (mk_FloatPrecision x p mn mx) = is_inf x p mx.
Proof. intros P. unfold g_FloatPrecision_is_inf, is_inf. rewrite (gen_exponent_eq x p mn mx P). reflexivity. Qed.

Lemma gen_exponent3_eq x p mn mx : 0 <= p ->
  g_Float3_exponent3 (mk_FloatPrecision x p mn mx) = exponent3 (exponent x p) p.
Proof.
  intros P. unfold g_Float3_exponent3, exponent3. cbv zeta. rewrite !(gen_exponent_eq x p mn mx P).
  cbn [FloatPrecision_precision]. unfold np_floor, Qdiv, Qinv, Qmult, inject_Z. cbn [Qnum Qden Qfloor].
  rewrite ?Z.mul_1_r. reflexivity.
Qed.

Lemma gen_mantissa3_eq x p mn mx : 0 <= p ->
  let m3 := g_Float3_mantissa3 (mk_FloatPrecision x p mn mx) in
  Qnum m3 = m3num (mantissa x p) (exponent x p) p /\ QDen m3 = m3den (exponent x p) p.
Proof.
  intros P. cbv zeta. unfold g_Float3_mantissa3.
  rewrite (gen_exponent_eq x p mn mx P), (gen_mantissa_eq x p mn mx P), (gen_exponent3_eq x p mn mx P).
  unfold m3num, m3den. set (k := exponent x p - exponent3 (exponent x p) p). set (m := mantissa x p).
  destruct (k >=? 0) eqn:E.
  - rewrite Z.geb_leb in E. apply Z.leb_le in E. rewrite (Qmult_fpow10_nonneg _ k E). split; reflexivity.
  - rewrite Z.geb_leb in E. apply Z.leb_gt in E. rewrite (Qmult_fpow10_neg _ k E). cbn [Qnum Qden inject_Z].
    split; [reflexivity|]. rewrite Pos2Z.inj_mul, (pos_p10 (- k)) by lia. lia.
Qed.

(* ---------- dict[int, str] ---------- *)
Lemma keys_mem_tmem t k : keys_mem k (tkeys t) = tmem t k.
Proof.
  unfold keys_mem, tmem, tkeys. induction t as [|[k' l] r IH]; [reflexivity|].
  cbn [map fst existsb tlookup]. rewrite (Z.eqb_sym k k'). destruct (k' =? k); [reflexivity|]. exact IH.
Qed.

Lemma dict_get_tget t k : dict_get t k [] = tget t k.
Proof. reflexivity. Qed.

Lemma tget_not_mem t k : tmem t k = false -> tget t k = [].
Proof. unfold tmem, tget. destruct (tlookup t k); [discriminate|reflexivity]. Qed.

Ltac bcases :=
  repeat match goal with
  | |- context [if ?c then _ else _] =>
      lazymatch c with
      | negb _ => cbn [negb]
      | true => cbv iota
      | false => cbv iota
      | _ => destruct c eqn:?
      end
  | |- context [negb true] => cbn [negb]
  | |- context [negb false] => cbn [negb]
  end.
(* boolean tests on integers in the context -> propositions *)
Ltac bprop :=
  repeat match goal with
  | H : (_ >? _) = _ |- _ => rewrite Z.gtb_ltb in H
  | H : (_ >=? _) = _ |- _ => rewrite Z.geb_leb in H
  | H : (_ <? _) = true |- _ => apply Z.ltb_lt in H
  | H : (_ <? _) = false |- _ => apply Z.ltb_ge in H
  | H : (_ <=? _) = true |- _ => apply Z.leb_le in H
  | H : (_ <=? _) = false |- _ => apply Z.leb_gt in H
  | H : (_ =? _) = true |- _ => apply Z.eqb_eq in H
  | H : (_ =? _) = false |- _ => apply Z.eqb_neq in H
  end.

Lemma lmin_le_lmax l : lmin l <= lmax l.
Proof.
  destruct l as [|a r]; [reflexivity|].
  assert (NE : a :: r <> []) by discriminate.
  destruct (lmin_spec _ NE) as [_ L]. destruct (lmax_spec _ NE) as [M _]. apply L. exact M.
Qed.

Lemma gen_value3_eq x un p up t :
  g_ScientificFloat_value3 (mk_ScientificFloat x un p up t) = mk_FloatPrecision x p (min_exp up t) (max_exp up t).
Proof. unfold g_ScientificFloat_value3. cbn [ScientificFloat_use_exp_prefix]. cbv zeta. destruct up; reflexivity. Qed.

Lemma gen_rebase_exp_eq x un p up t e :
  g_ScientificFloat_exp_extension_rebase_exp (mk_ScientificFloat x un p up t) e = rebase_exp up t e.
Proof.
  unfold g_ScientificFloat_exp_extension_rebase_exp, rebase_exp, keys_max, keys_min.
  cbn [ScientificFloat_use_exp_prefix ScientificFloat_exp_prefixes]. cbv zeta.
  rewrite ?keys_mem_tmem. pose proof (lmin_le_lmax (tkeys t)) as LM.
  destruct up; cbn [negb]; [|reflexivity].
  destruct (tmem t e) eqn:M; cbn [negb]; bcases; bprop; try reflexivity; try lia.
Qed.

Lemma gen_exp_extension_eq x un p up t e :
  g_ScientificFloat_exp_extension (mk_ScientificFloat x un p up t) e = exp_extension up t e.
Proof.
  unfold g_ScientificFloat_exp_extension, exp_extension. cbv zeta. rewrite !gen_rebase_exp_eq.
  destruct (rebase_exp up t e =? 0); reflexivity.
Qed.

Lemma gen_exp_prefix_eq x un p up t e :
  g_ScientificFloat_exp_prefix (mk_ScientificFloat x un p up t) e = exp_prefix up t e.
Proof.
  unfold g_ScientificFloat_exp_prefix, exp_prefix, keys_max, keys_min, dict_getitem, uk_empty.
  cbn [ScientificFloat_use_exp_prefix ScientificFloat_exp_prefixes]. cbv zeta.
  rewrite ?keys_mem_tmem, ?dict_get_tget. pose proof (lmin_le_lmax (tkeys t)) as LM.
  destruct up; cbn [negb]; [|reflexivity].
  destruct (tmem t e) eqn:M; bcases; bprop; try reflexivity; try lia; try (f_equal; lia);
    try (symmetry; apply tget_not_mem; assumption).
Qed.

(* ---------- the text of the shown mantissa ---------- *)
Lemma abs_lt1 q : float_ltb (Qabs q) (inject_Z 1) = (Z.abs (Qnum q) <? QDen q).
Proof. rewrite float_ltb_1_r. destruct q as [n d]. reflexivity. Qed.

Lemma len_pre_abs q : str_len (fs_pre (float_str (Qabs q))) = ndigits (Z.abs (Qnum q) / QDen q).
Proof.
  destruct q as [n d]. unfold float_str, fs_pre, str_len. cbn [Qabs Qnum Qden Qfloor].
  destruct (Z.abs n <? 0) eqn:E; [apply Z.ltb_lt in E; lia|].
  assert (H : 0 <= Z.abs n / Zpos d) by (apply Z.div_pos; lia).
  destruct (digits_spec _ H) as [_ [_ [D3 _]]]. exact D3.
Qed.

Lemma round_frac q k : 0 <= k ->
  np_round (Qmult (float_mod1 (Qabs q)) (fpow10 k)) = rhe ((Z.abs (Qnum q) mod QDen q) * 10 ^ k) (QDen q).
Proof. intros K. rewrite (Qmult_fpow10_nonneg _ k K). destruct q as [n d]. reflexivity. Qed.

Lemma fmt_0wd_nonneg w n : 0 <= n -> fmt_0wd w n = pad0 w (digits n).
Proof. intros H. unfold fmt_0wd. destruct (n <? 0) eqn:E; [apply Z.ltb_lt in E; lia|reflexivity]. Qed.

Lemma gen_float_str_eq x un p up t : 0 <= p ->
  g_ScientificFloat_str (mk_ScientificFloat x un p up t) = sci_text x p up t un.
Proof.
  intros P. unfold g_ScientificFloat_str, sci_text, float_text. cbv zeta.
  rewrite !gen_value3_eq.
  rewrite (gen_is_inf_eq x p _ _ P), (gen_mantissa_eq x p _ _ P), (gen_exponent3_eq x p _ _ P).
  rewrite gen_exp_extension_eq, gen_exp_prefix_eq. cbn [ScientificFloat_precision ScientificFloat_unit].
  unfold is_inf. destruct (exponent x p >? max_exp up t); [reflexivity|].
  destruct (gen_mantissa3_eq x p (min_exp up t) (max_exp up t) P) as [HN HD]. cbv zeta in HN, HD.
  set (m3 := g_Float3_mantissa3 _) in *.
  rewrite !abs_lt1, !len_pre_abs.
  rewrite round_frac by lia.
  rewrite fmt_0wd_nonneg.
  2:{ apply rhe_sign_nonneg; [reflexivity|].
      apply Z.mul_nonneg_nonneg; [apply Z.mod_pos_bound; reflexivity|apply Z.pow_nonneg; lia]. }
  unfold float_int. rewrite HN, HD. unfold number_text. cbv zeta.
  rewrite <- ?app_assoc. reflexivity.
Qed.

(* ---------- ScientificComplex ---------- *)
Lemma gen_complex_parts z un p up compact polar deg t AO :
  let self := mk_ScientificComplex z un p up compact polar deg t in
  g_ScientificComplex_real self = mk_ScientificFloat (Qabs (fst z)) un p up t /\
  g_ScientificComplex_imag self = mk_ScientificFloat (Qabs (snd z)) un p up t /\
  g_ScientificComplex_abs AO self = mk_ScientificFloat (ao_abs AO z) un p up t /\
  g_ScientificComplex_angle AO self = ao_angle AO z deg.
Proof. cbv zeta. repeat split; reflexivity. Qed.

Ltac sign_cases v :=
  rewrite ?float_leb_0_l, ?float_ltb_0_r; rewrite ?Z.geb_leb;
  destruct (Z.leb_spec 0 v); destruct (Z.ltb_spec v 0); try lia.

Lemma gen_real_sign_eq z un p up compact polar deg t :
  g_ScientificComplex_real_sign (mk_ScientificComplex z un p up compact polar deg t) = real_sign (fst z) compact.
Proof.
  unfold g_ScientificComplex_real_sign, real_sign. cbn [ScientificComplex_value ScientificComplex_compact]. cbv zeta.
  sign_cases (Qnum (fst z)); destruct compact; reflexivity.
Qed.

Lemma gen_imag_sign_eq z un p up compact polar deg t :
  g_ScientificComplex_imag_sign (mk_ScientificComplex z un p up compact polar deg t) = imag_sign (snd z) compact.
Proof.
  unfold g_ScientificComplex_imag_sign, imag_sign. cbn [ScientificComplex_value ScientificComplex_compact]. cbv zeta.
  sign_cases (Qnum (snd z)); destruct compact; reflexivity.
Qed.

Lemma gen_complex_str_eq AO z un p up compact polar deg t : 0 <= p ->
  g_ScientificComplex_str AO (mk_ScientificComplex z un p up compact polar deg t)
  = scientific_complex_str (po_of AO) z un p up compact polar deg t.
Proof.
  intros P. unfold g_ScientificComplex_str, scientific_complex_str. cbv zeta.
  rewrite !gen_real_sign_eq, !gen_imag_sign_eq.
  destruct (gen_complex_parts z un p up compact polar deg t AO) as [HR [HI [HA HG]]]. cbv zeta in HR, HI, HA, HG.
  rewrite ?HR, ?HI, ?HA, ?HG. rewrite !gen_value3_eq, !gen_float_str_eq by exact P.
  rewrite !(gen_is_zero_eq _ p _ _ P). rewrite float_ltb_0_r.
  cbn [ScientificComplex_polar ScientificComplex_deg ScientificComplex_value].
  destruct polar.
  - unfold polar_text, po_of. cbn [po_abs po_small po_text].
    destruct deg; bcases; rewrite ?app_nil_r; reflexivity.
  - unfold complex_text. cbv zeta. bcases; reflexivity.
Qed.

(* ---------- defaults of the dataclass fields, the pinned primitive ---------- *)
Lemma gen_defaults :
  g_FloatPrecision_default_precision = 3 /\ g_FloatPrecision_default_min_exp = -16 /\ g_FloatPrecision_default_max_exp = 16 /\
  g_ScientificFloat_default_unit = [] /\ g_ScientificFloat_default_precision = 3 /\
  g_ScientificFloat_default_use_exp_prefix = false /\ g_ScientificFloat_default_exp_prefixes = tab_default /\
  g_ScientificComplex_default_unit = [] /\ g_ScientificComplex_default_precision = 3 /\
  g_ScientificComplex_default_use_exp_prefix = false /\ g_ScientificComplex_default_compact = false /\
  g_ScientificComplex_default_polar = false /\ g_ScientificComplex_default_deg = false /\
  g_ScientificComplex_default_exp_prefixes = tab_default.
Proof. repeat split; reflexivity. Qed.

Lemma gen_float_to_string_eq self v : g_FloatPrecision__float_to_string self v = float_str v.
Proof. reflexivity. Qed.

(* ---------- what the vocabulary of Model/FormatPrims.v means ---------- *)
Lemma fpow10_meaning k : (fpow10 k == (10 # 1) ^ k)%Q.
Proof. rewrite fpow10_Qpow10. apply Qpow10_Qpower. Qed.
Lemma float_ltb_meaning x y : float_ltb x y = true <-> (x < y)%Q.
Proof. unfold float_ltb, Qlt. apply Z.ltb_lt. Qed.
Lemma float_leb_meaning x y : float_leb x y = true <-> (x <= y)%Q.
Proof. unfold float_leb, Qle. apply Z.leb_le. Qed.
Lemma float_eqb_meaning x y : float_eqb x y = true <-> (x == y)%Q.
Proof. unfold float_eqb, Qeq. apply Z.eqb_eq. Qed.
(* np.round: an integer within 1/2 of x (ties to even: rhe) *)
Lemma np_round_meaning x : (Qabs (inject_Z (np_round x) - x) <= 1 # 2)%Q.
Proof.
  destruct x as [n d]. unfold np_round. cbn [Qnum Qden].
  pose proof (rhe_spec n (Zpos d) ltac:(reflexivity)) as H. set (r := rhe n (Zpos d)) in *.
  unfold Qle, Qabs, Qminus, Qplus, Qopp, inject_Z. cbn [Qnum Qden]. rewrite Pos.mul_1_l.
  replace (r * Zpos d + - n * 1) with (r * Zpos d - n) by ring. lia.
Qed.
Lemma float_mod1_meaning x : (float_mod1 x == x - inject_Z (Qfloor x))%Q /\ (0 <= float_mod1 x)%Q /\ (float_mod1 x < 1)%Q.
Proof.
  destruct x as [n d]. unfold float_mod1. cbn [Qnum Qden Qfloor].
  pose proof (Z.div_mod n (Zpos d) ltac:(lia)) as DM. pose proof (Z.mod_pos_bound n (Zpos d) ltac:(reflexivity)) as MB.
  unfold Qeq, Qle, Qlt, Qminus, Qplus, Qopp, inject_Z. cbn [Qnum Qden]. rewrite Pos.mul_1_r. repeat split; nia.
Qed.
(* the number k of zeros directly after the point of 0 < d < 1: 10^-(k+1) <= d < 10^-k *)
Lemma leading_zeros_meaning d : (0 < d)%Q -> (d < 1)%Q ->
  0 <= leading_zeros d /\ (fpow10 (- (leading_zeros d + 1)) <= d)%Q /\ (d < fpow10 (- leading_zeros d))%Q.
Proof.
  destruct d as [a b]. unfold Qlt. cbn [Qnum Qden]. intros A B. rewrite Z.mul_1_r in A. rewrite Z.mul_1_r, Z.mul_1_l in B.
  unfold leading_zeros. cbn [Qnum Qden]. destruct (a =? 0) eqn:E; [apply Z.eqb_eq in E; lia|].
  destruct (zeros_spec a (Zpos b) ltac:(lia)) as [Z0 [ZL ZU]]. set (k := zeros a (Zpos b)) in *.
  split; [exact Z0|]. unfold fpow10.
  destruct (- (k + 1) <? 0) eqn:E1; [|apply Z.ltb_ge in E1; lia].
  replace (- - (k + 1)) with (k + 1) by lia.
  unfold Qle, Qlt. cbn [Qnum Qden]. rewrite (pos_p10 (k + 1)) by lia.
  destruct (- k <? 0) eqn:E2.
  - replace (- - k) with k by lia. cbn [Qnum Qden]. rewrite (pos_p10 k) by lia. split; lia.
  - apply Z.ltb_ge in E2. assert (k = 0) by lia. subst k. replace (zeros a (Zpos b)) with 0 in * by lia.
    cbn [inject_Z Qnum Qden Z.opp Z.pow Z.pow_pos Pos.iter]. split; lia.
Qed.
(* the text before the point reads back to the floor *)
Lemma fs_pre_meaning x : (0 <= x)%Q -> dlv 0 (fs_pre (float_str x)) = Qfloor x.
Proof.
  destruct x as [n d]. unfold Qle. cbn [Qnum Qden]. rewrite Z.mul_1_r. cbn [Z.mul]. intros H.
  unfold fs_pre, float_str. cbn [Qnum Qfloor]. destruct (n <? 0) eqn:E; [apply Z.ltb_lt in E; lia|].
  apply (digits_spec (n / Zpos d)). apply Z.div_pos; lia.
Qed.
